import EraVerif.Model.C10Std

/-!
# C10 — `canonical_raw` (`node/libs/protobuf/src/proto_fmt.rs:201-258`) after `read_fields`

`read_fields` (byte-level parsing by `quick_protobuf`, third party) produces `field number ↦ values`; for a
scalar field every occurrence on the wire contributes its values: one for a plain TLV, `k ≥ 0` for a packed
chunk — so a field can be *present in the map with no value at all* (only empty packed chunks). `canonField`
is the loop body of `canonical_raw` for one map entry, with the index `&values[0]` as an explicit panic.
-/

namespace EraVerif.Model.C10.Canon
open EraVerif.Model.C10

inductive Wire where
  | scalar   -- Varint / I64 / I32
  | len      -- bytes / string / message
  deriving Repr, DecidableEq

/-- one occurrence of a scalar field on the wire -/
inductive Occ where
  | direct            -- tag with the field's own wire type: one value
  | packed (k : Nat)  -- tag with wire type LEN: `k` values
  deriving Repr, DecidableEq

def Occ.count : Occ → Nat
  | .direct => 1
  | .packed k => k

/-- number of values `read_field` pushes for the occurrences of one field -/
def valuesOf (occs : List Occ) : Nat := (occs.map Occ.count).sum

structure Field where
  num : Nat
  isList : Bool
  wire : Wire
  /-- number of values collected by `read_fields` (the entry exists, so there was at least one occurrence) -/
  nvalues : Nat
  /-- for message-typed fields: does the recursive `canonical_raw` of every value succeed? -/
  subOk : Bool
  deriving Repr, DecidableEq

/-- loop body of `canonical_raw`, **current** code (`if values.is_empty() { continue; }` before the index) -/
def canonField (f : Field) : Res Unit :=
  if f.nvalues > 1 && !f.isList then .err "non-repeated field with multiple values"
  else if !f.subOk then .err "sub-message"
  else
    match f.wire with
    | .scalar =>
      if f.nvalues = 0 then .ok ()            -- continue
      else if f.nvalues > 1 then .ok ()       -- packed
      else .ok ()                             -- `&values[0]`, in range
    | .len => .ok ()

/-- the loop body before the repair of F9: `else { .. for b in &values[0] { .. } }` with no emptiness check -/
def canonFieldLegacy (f : Field) : Res Unit :=
  if f.nvalues > 1 && !f.isList then .err "non-repeated field with multiple values"
  else if !f.subOk then .err "sub-message"
  else
    match f.wire with
    | .scalar =>
      if f.nvalues > 1 then .ok ()
      else if f.nvalues = 0 then .panic "proto_fmt.rs: &values[0] index out of bounds"
      else .ok ()
    | .len => .ok ()

def canonWith (body : Field → Res Unit) : List Field → Res Unit
  | [] => .ok ()
  | f :: fs => (body f).bind fun _ => canonWith body fs

def canonicalRaw := canonWith canonField
def canonicalRawLegacy := canonWith canonFieldLegacy

end EraVerif.Model.C10.Canon
