/-!
# Model of `zksync_concurrency::limiter::Limiter` (C15)

Transcription of `node/libs/concurrency/src/limiter/mod.rs`.  Time is integer nanoseconds since
`Limiter::start` (`ctx.now() - self.start`; the clock is monotone, so this is a `Nat`).

The atomic steps are exactly what one `poll` of an `acquire()` future, one `Permit::drop`, one future drop
(= cancellation at any await point) and one clock advance do:

* `acquire id n`  create the future and poll it once (this is the moment it enters the fair mutex queue)
* `poll id`       poll a pending future again
* `cancel id`     drop a pending future (cancellation at `lock`, at `wait_for`, or at `sleep_until_deadline`)
* `drop id`       drop a granted `Permit`
* `advance d`     the clock moves forward by `d` ns

Assumed runtime behaviour (tokio, not verified, exercised by the correspondence run): `sync::Mutex` is a FIFO
queue in first-poll order and hands the lock directly to the first waiter on release (no barging);
`watch::Receiver::wait_for` evaluates the predicate on the current value at every poll;
`ManualClock` sleep is ready iff `now ≥ deadline`.
-/

namespace EraVerif.Model.Limiter

/-- `usize::MAX` on the 64-bit targets the node runs on. -/
def USIZE_MAX : Nat := 18446744073709551615

/-- `time::Duration::MAX.whole_nanoseconds()` = `i64::MAX · 10⁹ + 999 999 999`. -/
def NANOS_MAX : Nat := 9223372036854775807 * 1000000000 + 999999999

/-- `Rate`: `refresh` is `rate.refresh.whole_nanoseconds()` (may be zero or negative = infinite rate). -/
structure Cfg where
  burst : Nat
  refresh : Int
deriving Repr, DecidableEq

/-- A pending `acquire(ctx, n)` future that has reached `sync::lock(ctx, &self.acquire)`.
`need = none`: waiting for the mutex or inside `wait_for`; `need = some k`: past line 202, `need` computed,
sleeping (or about to finish). -/
structure Waiter where
  id : Nat
  n : Nat
  need : Option Nat
deriving Repr, DecidableEq

/-- One entry of the grant / drop logs (ghost): time, acquirer id, number of permits of the `Permit`. -/
structure Ev where
  t : Nat
  id : Nat
  n : Nat
deriving Repr, DecidableEq

structure State where
  /-- `State::refresh_ticks` -/
  ticks : Nat
  /-- `State::permits` -/
  permits : Nat
  /-- `State::reserved` -/
  reserved : Nat
  /-- nanoseconds since `Limiter::start` -/
  now : Nat
  /-- the fair queue of `self.acquire`; the head owns the mutex -/
  queue : List Waiter
  /-- futures with `burst < permits`, parked in `ctx.canceled().await` (line 181) -/
  stuck : List Nat
  /-- live `Permit`s: (acquirer id, `Permit::permits`) -/
  held : List (Nat × Nat)
  /-- ghost: total permits granted / dropped so far, and the logs -/
  granted : Nat
  dropped : Nat
  glog : List Ev
  dlog : List Ev
  /-- ghost: ids in the order in which they entered `acquire` with `n ≤ burst` -/
  arrivals : List Nat
deriving Repr, DecidableEq

inductive Op
  | acquire (id n : Nat)
  | poll (id : Nat)
  | cancel (id : Nat)
  | drop (id : Nat)
  | advance (d : Nat)
deriving Repr, DecidableEq

inductive Res
  /-- the future returned `Poll::Pending` -/
  | pending
  /-- the future returned `Ok(Permit { permits: n, .. })` -/
  | granted (n : Nat)
  | cancelled
  | dropped
  | advanced
  /-- the op names an id that is not in the state it requires (the harness never does this) -/
  | noop
  /-- `s.reserved -= self.permits` / `s.permits -= self.permits` would underflow (panic with overflow checks) -/
  | panic
deriving Repr, DecidableEq

/-- `Limiter::new`: `permits = burst`, `refresh_ticks = 0`, `reserved = 0`. -/
def init (cfg : Cfg) : State :=
  { ticks := 0, permits := cfg.burst, reserved := 0, now := 0, queue := [], stuck := [], held := [],
    granted := 0, dropped := 0, glog := [], dlog := [], arrivals := [] }

/-- `usize_or_max` on a non-negative value. -/
def usizeOrMax (v : Nat) : Nat := min v USIZE_MAX

/-- `usize::saturating_add`. -/
def satAdd (a b : Nat) : Nat := min (a + b) USIZE_MAX

/-- `State::advance` (lines 69-80). -/
def State.advance (s : State) (cfg : Cfg) (t : Nat) : State :=
  if t < s.ticks then s
  else
    let add := usizeOrMax (t - s.ticks)
    { s with permits := min (satAdd s.permits add) cfg.burst, ticks := t }

/-- Lines 206-212: `start.checked_add(duration_or_max(refresh.saturating_mul(need)))`.
`none` = `Deadline::Infinite` (the product exceeds `Duration::MAX`, and `start + Duration::MAX` is not
representable). Values are nanoseconds since `start`. -/
def deadline (r need : Nat) : Option Nat :=
  if r * need > NANOS_MAX then none else some (r * need)

/-- `ctx.sleep_until_deadline(deadline)` on a `ManualClock`: ready iff `now ≥ deadline`. -/
def sleepReady (now : Nat) : Option Nat → Bool
  | none => false
  | some d => d ≤ now

/-- Lines 218-228 for the queue head `w` (whose `need` is `nd`): advance, reserve, hand out the permit and
release the mutex (the guard `acquire` is dropped on return). -/
def finish (cfg : Cfg) (s : State) (w : Waiter) (nd : Nat) : State × Res :=
  let s1 := s.advance cfg nd
  ({ s1 with reserved := s1.reserved + w.n, queue := s.queue.tail, held := s.held ++ [(w.id, w.n)],
             granted := s.granted + w.n, glog := s.glog ++ [⟨s.now, w.id, w.n⟩] },
   .granted w.n)

/-- Lines 204-214 then 218-228, for the queue head with `need = nd` already computed. -/
def sleepThenFinish (cfg : Cfg) (r : Nat) (s : State) (w : Waiter) (nd : Nat) : State × Res :=
  if nd > 0 then
    if sleepReady s.now (deadline r nd) then finish cfg s w nd else (s, .pending)
  else finish cfg s w nd

/-- One poll of the future that owns the mutex (the queue head `w`, the rest of the queue is `rest`). -/
def pollHead (cfg : Cfg) (r : Nat) (s : State) (w : Waiter) (rest : List Waiter) : State × Res :=
  match w.need with
  | some nd => sleepThenFinish cfg r s w nd
  | none =>
    -- `wait_for(|s| self.burst - s.reserved >= permits)` (usize subtraction; `reserved ≤ burst` is the
    -- struct invariant, see `Props.C15.state_inv`)
    if cfg.burst - s.reserved ≥ w.n then
      -- line 202: `refresh_ticks + (reserved + permits).saturating_sub(state.permits)`
      let nd := s.ticks + ((s.reserved + w.n) - s.permits)
      let w' := { w with need := some nd }
      sleepThenFinish cfg r { s with queue := w' :: rest } w' nd
    else (s, .pending)

/-- One poll of the future `id`, if it is in the mutex queue. Only the head can make progress. -/
def pollQueued (cfg : Cfg) (r : Nat) (s : State) (id : Nat) : State × Res :=
  match s.queue with
  | [] => (s, .noop)
  | w :: rest =>
    if w.id = id then pollHead cfg r s w rest
    else if rest.any (fun x => x.id = id) then (s, .pending)
    else (s, .noop)

/-- `Permit::drop` (lines 133-149) for a permit of `n` permits. -/
def dropPermit (cfg : Cfg) (s : State) (id n : Nat) (held' : List (Nat × Nat)) : State × Res :=
  if n = 0 then ({ s with held := held' }, .dropped)
  else
    -- a permit with n > 0 exists only if refresh > 0
    let r := cfg.refresh.toNat
    if r = 0 then ({ s with held := held' }, .panic)   -- division by zero; unreachable (n > 0 ⇒ refresh > 0)
    else
      let s1 := s.advance cfg (s.now / r)
      if s1.reserved < n ∨ s1.permits < n then ({ s1 with held := held' }, .panic)
      else
        ({ s1 with reserved := s1.reserved - n, permits := s1.permits - n, held := held',
                   dropped := s.dropped + n, dlog := s.dlog ++ [⟨s.now, id, n⟩] }, .dropped)

def step (cfg : Cfg) (s : State) : Op → State × Res
  | .acquire id n =>
    -- line 180: too many permits requested: wait for cancellation forever
    if cfg.burst < n then ({ s with stuck := s.stuck ++ [id] }, .pending)
    -- line 186: infinite refresh rate
    else if cfg.refresh ≤ 0 then
      ({ s with held := s.held ++ [(id, 0)], glog := s.glog ++ [⟨s.now, id, 0⟩],
                arrivals := s.arrivals ++ [id] }, .granted 0)
    else
      -- line 194: enter the fair mutex queue; then the same poll continues if the mutex is free
      let s1 := { s with queue := s.queue ++ [⟨id, n, none⟩], arrivals := s.arrivals ++ [id] }
      pollQueued cfg cfg.refresh.toNat s1 id
  | .poll id =>
    if s.stuck.contains id then (s, .pending)
    else pollQueued cfg cfg.refresh.toNat s id
  | .cancel id =>
    if s.stuck.contains id then ({ s with stuck := s.stuck.erase id }, .cancelled)
    else if s.queue.any (fun x => x.id = id) then
      ({ s with queue := s.queue.eraseP (fun x => x.id = id) }, .cancelled)
    else (s, .noop)
  | .drop id =>
    match s.held.find? (fun p => p.1 = id) with
    | none => (s, .noop)
    | some (_, n) => dropPermit cfg s id n (s.held.eraseP (fun p => p.1 = id))
  | .advance d => ({ s with now := s.now + d }, .advanced)

/-- Run a list of operations; returns the final state and the results in order. -/
def run (cfg : Cfg) : State → List Op → State × List Res
  | s, [] => (s, [])
  | s, op :: ops =>
    let (s1, r) := step cfg s op
    let (s2, rs) := run cfg s1 ops
    (s2, r :: rs)

/-- Final state only. -/
def exec (cfg : Cfg) (s : State) (ops : List Op) : State := ops.foldl (fun s op => (step cfg s op).1) s

end EraVerif.Model.Limiter
