import EraVerif.Gen.MuxConst

/-!
# Model of the stream multiplexer (C14)

Transcribes `node/components/network/src/mux/{mod,reusable_stream,transient_stream,header,handshake,config}.rs`
as a labelled transition system: `step? : State → Event → Option State`. One `State` is one `Mux` instance.
The atomic events are the pieces of code between two `.await` points of the tasks `Mux::run` spawns:

* the inbound loop `process_inbound_frames` (`pump`): read a header, look the stream up, (DATA) read the length,
  acquire one count permit, acquire `size` size permits, read `size` bytes, send the frame to the stream's queue;
* per reusable stream, the task `ReusableStream::run` (`closeData`, `closeFrame`, `joinedA`, `push`, `sendOpen`,
  `joinedC`) and its `recv_open_task` (`recvOpenStart`, `discard`);
* the `StreamQueue` rendez-vous between a reusable stream and an application `open()` call (`pop`);
* the bounded(1) channel `write_send`, the transport writer task (`wtake`: `write_recv.recv`, `wdo`: the frame is
  written / the transport is flushed, `wblock`: the transport does not take the frame) and the flush task (`doFlush`:
  the `Flush` command goes into the channel);
* the application's calls on a transient stream: `read_exact` (`appRead` + `readStep` per frame consumed),
  `write_all` (`appWrite` + `writeStep` per loop iteration), `flush` (`appFlush` + `flushStep`), dropping a half
  (`appDrop`), and the cancellation of the context of one call while it is suspended at its await point
  (`cancelWrite`, `cancelFlush`: the only await of `write_all` / `flush` is `write_send.reserve_or_disconnected(ctx)`
  inside `send_data`, which comes *before* the write buffer is moved into the frame);
* the peer / transport: `wireIn` (a complete frame written by the peer), `wireEof`, `txWindow` (how many bytes the
  transport is willing to take from the writer task: back-pressure).

"Every interleaving" is "every list of events accepted by `step?`". The deterministic `settle` used by the
correspondence driver only ever applies `step?`, so every state the driver reaches is reachable in the LTS.

## Assumed semantics of the tokio primitives (this is what the claim is *partial* about)

* `Semaphore` (`count_sem`, `size_sem`): `acquire_many_owned(n)` completes iff `n ≤ available` (there is a single
  acquirer, the inbound loop) and subtracts `n`; dropping a permit adds it back. `try_acquire_many_owned(0)`
  always succeeds.
* unbounded channel (`read_send`/`read_recv`): FIFO, never loses or duplicates; after the sender is dropped the
  receiver still yields the queued frames, then `Disconnected`.
* bounded(1) channel `write_send` + the writer task: one slot (`chan`); `send` / `reserve` complete iff the slot is free
  (any of the suspended senders may get it: the LTS does not fix an order, the driver's scheduler serves them first
  come first served like tokio's fair semaphore); `recv` frees the slot before the command is written (`wcur`), so one
  command can be in the writer's hands and one in the slot. A cancelled `reserve` leaves no trace.
* the transport takes a frame whole or not at all (`wdo` is enabled iff fewer than `txLimit` bytes have been written);
  while a limit is set (a bounded pipe) a written frame is visible to the peer at once, without one (the noise stream,
  which buffers) only after a flush; when the transport does not take a frame, what was written before becomes
  visible (`wblock`). This is the in-memory transport of
  the harness; a byte-granular transport only adds states in which the peer has seen a prefix of a frame.
* `Notify` (`flush`): `notify_one` followed eventually by one `Flush` command through the same channel, hence ordered
  after every frame sent before the `notify_one` (`flushReq`, `doFlush`); notifications coalesce.
* `StreamQueue` (bounded(1) channel + `sync::Mutex` around the receiver): both sides are served first-come
  first-served (tokio's semaphore and mutex are fair), i.e. two FIFOs that are matched head to head (`pop`).
* `oneshot` / `ExclusiveLock`: the value arrives exactly once, when the lock is dropped.
* the limiter of the `StreamQueue` is `Rate::INF` (acquire returns immediately); rate limiting is C15.
No Mathlib.
-/

namespace EraVerif.Model.Mux
open EraVerif.Gen.MuxConst

/-! ## config.rs -/

/-- `mux::Config` -/
structure Cfg where
  /-- `read_frame_size` -/
  rfs : Nat
  /-- `read_buffer_size` -/
  rbs : Nat
  /-- `read_frame_count` -/
  rfc : Nat
  /-- `write_frame_size` -/
  wfs : Nat
  deriving Repr, DecidableEq, Inhabited

/-- `MAX_FRAME_SIZE = u16::MAX` -/
def MAX_FRAME_SIZE : Nat := 65535
/-- `sync::Semaphore::MAX_PERMITS = usize::MAX >> 3` -/
def MAX_PERMITS : Nat := 2 ^ 61 - 1
/-- `MAX_STREAM_COUNT = (StreamId::MASK + 1) as u32` -/
def MAX_STREAM_COUNT : Nat := ID_MASK + 1

/-- `Config::verify` -/
def Cfg.verify (c : Cfg) : Bool :=
  decide (c.wfs ≤ MAX_FRAME_SIZE) && decide (c.rbs ≤ MAX_PERMITS) && decide (c.rfc ≤ MAX_PERMITS)

/-- per-capability limits, `(capability id, max_streams)`; the local ones come out of a `BTreeMap`
(ascending capability id, no duplicates), the peer's out of the handshake message. -/
abbrev Caps := List (Nat × Nat)

def capSum (c : Caps) : Nat := (c.map (·.2)).sum

/-- `Mux::verify` (`saturating_sum` of `u32`s compared with 8192 = plain sum compared with 8192) -/
def muxVerify (cfg : Cfg) (acc con : Caps) : Bool :=
  cfg.verify && decide (capSum acc ≤ MAX_STREAM_COUNT) && decide (capSum con ≤ MAX_STREAM_COUNT)

/-- `peer.get(cap).unwrap_or(&0)` -/
def peerGet (peer : Caps) (cap : Nat) : Nat :=
  match peer.find? (fun p => p.1 == cap) with
  | some p => p.2
  | none => 0

/-- `read_max_streams`: a duplicate capability id in the peer's handshake is an error -/
def capsNodup : Caps → Bool
  | [] => true
  | p :: rest => !(rest.any (fun q => q.1 == p.1)) && capsNodup rest

/-- the ids `base … base+count-1` belong to capability `cap` -/
structure Range where
  cap : Nat
  base : Nat
  count : Nat
  deriving Repr, DecidableEq

/-- `spawn_streams`: for every local capability in ascending order, `min(local, peer)` consecutive ids;
`StreamId::new(streams.len() as u16)`. -/
def ranges (loc peer : Caps) (base : Nat) : List Range :=
  match loc with
  | [] => []
  | (c, m) :: rest =>
    let n := min m (peerGet peer c)
    ⟨c, base, n⟩ :: ranges rest peer (base + n)

def rangesTotal (rs : List Range) : Nat := (rs.map (·.count)).sum

def Range.has (r : Range) (id : Nat) : Bool := decide (r.base ≤ id) && decide (id < r.base + r.count)

def capOfId (rs : List Range) (id : Nat) : Option Nat := (rs.find? (·.has id)).map (·.cap)

def rangeOfCap (rs : List Range) (cap : Nat) : Option Range := rs.find? (fun r => r.cap == cap)

/-! ## header.rs -/

inductive FK where
  | open | data | close
  deriving DecidableEq, Repr, Inhabited

def FK.bits : FK → Nat
  | .open => FRAME_OPEN
  | .data => FRAME_DATA
  | .close => FRAME_CLOSE

/-- `Header::frame_kind` followed by the `match` of `process_inbound_frames`; `none` = both bits set. -/
def hdrFK (h : Nat) : Option FK :=
  let b := h &&& FRAME_MASK
  if b = FRAME_OPEN then some .open
  else if b = FRAME_CLOSE then some .close
  else if b = FRAME_DATA then some .data
  else none

/-- `Header::stream_kind` followed by the `match`: `some true` = the sender's end is a CONNECT stream.
`none` would be `unreachable!("bad StreamKind")`. -/
def hdrSenderConn (h : Nat) : Option Bool :=
  let b := h &&& STREAM_MASK
  if b = STREAM_ACCEPT then some false
  else if b = STREAM_CONNECT then some true
  else none

/-- `Header::stream_id` -/
def hdrId (h : Nat) : Nat := h &&& ID_MASK

/-- `Header::new` -/
def mkHdr (fk : FK) (conn : Bool) (id : Nat) : Nat :=
  fk.bits ||| (if conn then STREAM_CONNECT else STREAM_ACCEPT) ||| id

/-! ## frames, streams -/

/-- a local reusable stream: `conn = true` is one of our CONNECT streams -/
structure Key where
  conn : Bool
  id : Nat
  deriving DecidableEq, Repr, Inhabited

/-- an inbound `Frame` sitting in a stream's queue / cache; `size` = size permits it holds (its count permit is 1) -/
structure RFrame where
  kind : FK
  data : List Nat
  size : Nat
  deriving Repr, DecidableEq, Inhabited

/-- a complete frame written by the peer: raw header and (for DATA) payload -/
structure WFrame where
  hdr : Nat
  data : List Nat
  deriving Repr, DecidableEq, Inhabited

/-- a frame handed to the transport writer by local stream `(conn, id)` -/
structure OFrame where
  conn : Bool
  id : Nat
  kind : FK
  data : List Nat
  deriving Repr, DecidableEq, Inhabited

/-- bytes of a frame on the transport: header, and for DATA the length and the payload -/
def OFrame.wireSize (f : OFrame) : Nat := if f.kind = .data then 4 + f.data.length else 2

/-- `WriteCommand` -/
inductive Cmd where
  | frame (f : OFrame)
  | flush
  deriving Repr, DecidableEq, Inhabited

/-- `recv_open_task` -/
inductive RPhase where
  /-- `read_receiver.wait(ctx)` -/
  | waitLock
  /-- inside `recv_open`: discarding frames until an OPEN -/
  | discard
  /-- completed (joinable) -/
  | done
  deriving DecidableEq, Repr, Inhabited

/-- the loop of `ReusableStream::run` -/
inductive MPhase where
  /-- `write_receiver.wait(ctx)` -/
  | waitWrite
  /-- inside `send_close`, after `send_data` -/
  | closing
  /-- ACCEPT: `recv_open_task.join` -/
  | joinA
  /-- about to call `stream_queue.push` -/
  | wantPush
  /-- inside `push`: queued, waiting for a reservation -/
  | pushed
  /-- reservation received from application slot `slot`; about to `send_open` -/
  | reserved (slot : Nat)
  /-- CONNECT: OPEN sent, `recv_open_task.join` -/
  | joinC (slot : Nat)
  deriving DecidableEq, Repr, Inhabited

/-- a `read_exact` in flight -/
structure PendRead where
  slot : Nat
  want : Nat
  got : List Nat
  deriving Repr, DecidableEq, Inhabited

/-- a `write_all` in flight: `rest` = `buf[offset..]` -/
structure PendWrite where
  slot : Nat
  rest : List Nat
  -- ghost
  /-- `buf[..offset]`: what has been copied into the write buffer so far -/
  done : List Nat := []
  /-- `buffer.len()` when the call started -/
  fill0 : Nat := 0
  deriving Repr, DecidableEq, Inhabited

/-- how a `write_all` call ended -/
inductive WRes where
  | ok
  /-- the context of the call was cancelled while it was suspended in `send_data` -/
  | canceled
  /-- `RunError::Closed`: the multiplexer is gone -/
  | err
  deriving Repr, DecidableEq, Inhabited

/-- ghost record of a finished `write_all(data)`: `took` bytes of `data` had been copied into the write buffer -/
structure WCall where
  data : List Nat
  took : Nat
  fill0 : Nat
  res : WRes
  deriving Repr, DecidableEq, Inhabited

structure StreamSt where
  /-- the unbounded channel `read_recv` -/
  queue : List RFrame := []
  /-- `ReadReusableStream::cache` -/
  cache : Option RFrame := none
  /-- `close_received` -/
  closeRecv : Bool := false
  rphase : RPhase := .waitLock
  mphase : MPhase := .waitWrite
  /-- the application holds the `ReadStream` / `WriteStream` lock -/
  readHeld : Bool := false
  writeHeld : Bool := false
  /-- `WriteReusableStream::buffer` content -/
  wbuf : List Nat := []
  pendR : Option PendRead := none
  pendW : Option PendWrite := none
  /-- a `flush` in flight (the slot that called it) -/
  pendF : Option Nat := none
  /-- OPEN sent and CLOSE not yet sent -/
  txOpen : Bool := false
  -- ghost history (never read by `step?` guards)
  /-- every frame taken out of `queue`, in order, with its full payload -/
  taken : List (FK × List Nat) := []
  /-- `taken.length` right after the last OPEN consumed by `recv_open` -/
  sessStart : Nat := 0
  /-- bytes copied into application buffers since then -/
  delivered : List Nat := []
  /-- bytes passed to `write_all` since the last OPEN was sent (minus what a cancelled / failed call did not take) -/
  wlog : List Nat := []
  /-- the finished `write_all` calls since the last OPEN was sent, in order -/
  calls : List WCall := []
  /-- payload bytes emitted since the last OPEN was sent -/
  sent : List Nat := []
  deriving Repr, Inhabited

inductive Slot where
  | free
  /-- `queue.open()` in flight -/
  | waiting (conn : Bool) (cap : Nat)
  /-- holds (some halves of) a transient stream of reusable stream `k` -/
  | held (k : Key) (r w : Bool)
  deriving DecidableEq, Repr, Inhabited

inductive RunErr where
  | config | protocol | closed
  /-- a panic inside `Mux::run` (`unreachable!`, `assert!`); `Props/C14.lean` shows it is never produced -/
  | panic
  deriving DecidableEq, Repr, Inhabited

/-- position of the inbound loop inside the current frame -/
inductive RxCur where
  /-- about to read a header -/
  | idle
  /-- OPEN/CLOSE header read; waiting for the count permit -/
  | ctrl (k : Key) (fk : FK)
  /-- DATA: `rem ≠ []` still to be read; waiting for the count permit of the next piece -/
  | dataCount (k : Key) (rem : List Nat)
  /-- DATA: count permit acquired; waiting for `min(rem.length, read_frame_size)` size permits -/
  | dataSize (k : Key) (rem : List Nat)
  deriving Repr, DecidableEq, Inhabited

inductive Done where
  | opened (slot : Nat) (conn : Bool) (id : Nat)
  | read (slot : Nat) (bytes : List Nat) (eos : Bool)
  | wrote (slot : Nat) (ok : Bool)
  /-- `write_all` / `flush` returned `Canceled` -/
  | canceled (slot : Nat)
  deriving Repr, DecidableEq, Inhabited

structure State where
  cfg : Cfg
  /-- partition of the ACCEPT / CONNECT stream ids -/
  rngAcc : List Range
  rngCon : List Range
  nAcc : Nat
  nCon : Nat
  st : Key → StreamSt
  countAvail : Nat
  sizeAvail : Nat
  /-- complete frames written by the peer that the inbound loop has not started on -/
  rx : List WFrame
  rxEof : Bool
  cur : RxCur
  /-- bytes read from the transport after the handshake -/
  pulled : Nat
  dead : Option RunErr
  /-- frames handed to the channel `write_send`, oldest first (log: in the order in which `send` / `reserve` completed) -/
  out : List OFrame
  /-- the slot of the bounded(1) channel `write_send` -/
  chan : Option Cmd
  /-- the command the writer task has received and not finished yet -/
  wcur : Option Cmd
  /-- frames written to the transport, oldest first -/
  wire : List OFrame
  /-- how many of them have been flushed (are visible to the peer) -/
  flushed : Nat
  flushReq : Bool
  /-- bytes of frames written to the transport -/
  txSent : Nat
  /-- back-pressure: the transport takes a frame only while `txSent < txLimit` (`none`: always) -/
  txLimit : Option Nat
  /-- `StreamQueue`s: reusable streams waiting inside `push`, per (kind, capability), first come first -/
  qPushed : Bool → Nat → List Nat
  /-- application `open()` calls waiting, per (kind, capability) -/
  qWait : Bool → Nat → List Nat
  slots : Nat → Slot
  slotList : List Nat
  doneLog : List Done
  -- ghost
  /-- every frame the inbound loop sent to a stream queue (after splitting), in order -/
  dispatched : List (Key × FK × List Nat)
  /-- every frame of the peer the inbound loop has started on -/
  rxDone : List WFrame
  /-- scheduler only (never read by `step?`): the streams in the order in which a frame last woke their idle task;
  tokio runs woken tasks in wake order, which decides who reaches `StreamQueue::push` first -/
  runq : List Key

def Key.valid (s : State) (k : Key) : Bool :=
  if k.conn then decide (k.id < s.nCon) else decide (k.id < s.nAcc)

def State.rng (s : State) (conn : Bool) : List Range := if conn then s.rngCon else s.rngAcc

/-- state right after the handshakes have been exchanged and `spawn_streams` has run -/
def State.start (cfg : Cfg) (acc con pacc pcon : Caps) : State :=
  let ra := ranges acc pcon 0
  let rc := ranges con pacc 0
  { cfg, rngAcc := ra, rngCon := rc, nAcc := rangesTotal ra, nCon := rangesTotal rc,
    st := fun _ => {}, countAvail := cfg.rfc, sizeAvail := cfg.rbs,
    rx := [], rxEof := false, cur := .idle, pulled := 0, dead := none,
    out := [], chan := none, wcur := none, wire := [], flushed := 0, flushReq := false, txSent := 0, txLimit := none,
    qPushed := fun _ _ => [], qWait := fun _ _ => [], slots := fun _ => .free, slotList := [],
    doneLog := [], dispatched := [], rxDone := [], runq := [] }

/-- `Mux::run` up to the end of the handshake exchange. -/
def State.init (cfg : Cfg) (acc con pacc pcon : Caps) : State :=
  let s := State.start cfg acc con pacc pcon
  if !muxVerify cfg acc con then { s with dead := some .config, nAcc := 0, nCon := 0 }
  else if !(capsNodup pacc && capsNodup pcon) then { s with dead := some .protocol, nAcc := 0, nCon := 0 }
  -- `StreamId::new(streams.len() as u16)`: `assert!(id <= Self::MASK)`
  else if s.nAcc > MAX_STREAM_COUNT || s.nCon > MAX_STREAM_COUNT then { s with dead := some .panic, nAcc := 0, nCon := 0 }
  else s

def State.upd (s : State) (k : Key) (f : StreamSt → StreamSt) : State :=
  { s with st := fun k' => if k' = k then f (s.st k) else s.st k' }

/-- dropping a `Frame`: its `ReadPermit` goes back to the two semaphores -/
def State.release (s : State) (f : RFrame) : State :=
  { s with countAvail := s.countAvail + 1, sizeAvail := s.sizeAvail + f.size }

def State.releaseOpt (s : State) (o : Option RFrame) : State :=
  { s with countAvail := s.countAvail + (match o with | none => 0 | some _ => 1),
           sizeAvail := s.sizeAvail + (match o with | none => 0 | some f => f.size) }

/-- `slot.send(WriteCommand::Frame(frame))`: the frame goes into the (free) slot of the channel -/
def State.emit (s : State) (k : Key) (fk : FK) (data : List Nat) : State :=
  { s with out := s.out ++ [⟨k.conn, k.id, fk, data⟩], chan := some (.frame ⟨k.conn, k.id, fk, data⟩) }

def State.setSlot (s : State) (slot : Nat) (v : Slot) : State :=
  { s with slots := fun x => if x = slot then v else s.slots x }

def State.log (s : State) (d : Done) : State := { s with doneLog := s.doneLog ++ [d] }

/-- `stream.send(Frame {..})` in the inbound loop -/
def State.enqueue (s : State) (k : Key) (f : RFrame) : State :=
  { s.upd k (fun t => { t with queue := t.queue ++ [f] }) with
    dispatched := s.dispatched ++ [(k, f.kind, f.data)],
    runq := if (s.st k).queue.isEmpty then s.runq.erase k ++ [k] else s.runq }

inductive Event where
  -- transport / peer
  | wireIn (f : WFrame)
  | wireEof
  -- inbound loop
  | pump
  -- recv_open_task of stream k
  | recvOpenStart (k : Key)
  | discard (k : Key)
  -- main loop of stream k
  | closeData (k : Key)
  | closeFrame (k : Key)
  | joinedA (k : Key)
  | push (k : Key)
  | sendOpen (k : Key)
  | joinedC (k : Key)
  -- StreamQueue rendez-vous
  | pop (conn : Bool) (cap : Nat)
  -- flush task
  | doFlush
  -- writer task
  | wtake
  | wdo
  | wblock
  -- transport back-pressure
  | txWindow (limit : Option Nat)
  -- application
  | appOpen (slot : Nat) (conn : Bool) (cap : Nat)
  | appRead (slot : Nat) (n : Nat)
  | readStep (k : Key)
  | appWrite (slot : Nat) (bytes : List Nat)
  | writeStep (k : Key)
  | appFlush (slot : Nat)
  | flushStep (k : Key)
  | appDrop (slot : Nat) (r w : Bool)
  -- the context of a call in flight is cancelled
  | cancelWrite (k : Key)
  | cancelFlush (k : Key)
  deriving Repr, DecidableEq, Inhabited

/-- the end of the `OPEN` exchange: both locks go to the application slot, the loop starts its next iteration
(spawns the next `recv_open_task`, waits for the write lock). -/
def handover (s : State) (k : Key) (slot : Nat) : State :=
  ((s.upd k (fun t => { t with readHeld := true, writeHeld := true, rphase := .waitLock, mphase := .waitWrite })).setSlot
      slot (.held k true true)).log (.opened slot k.conn k.id)

/-- `read_exact` finished -/
def finishRead (s : State) (k : Key) (p : PendRead) : State :=
  (s.upd k (fun t => { t with pendR := none })).log (.read p.slot p.got (decide (p.got.length < p.want)))

/-- one frame processed by the loop of `ReadStream::read_exact` (the frame has already been taken out of the cache
or the queue). -/
def readFrame (s : State) (k : Key) (p : PendRead) (f : RFrame) : State :=
  match f.kind with
  | .open => s.release f                          -- "unexpected OPEN frame": dropped
  | .close => (s.upd k (fun t => { t with closeRecv := true })).release f
  | .data =>
    let n := min (p.want - p.got.length) f.data.length
    let p' : PendRead := { p with got := p.got ++ f.data.take n }
    let restData := f.data.drop n
    let s1 := s.upd k (fun t => { t with delivered := t.delivered ++ f.data.take n, pendR := some p',
                                          cache := if restData = [] then none else some { f with data := restData } })
    let s2 := if restData = [] then s1.release f else s1
    if p'.got.length = p'.want then finishRead s2 k p' else s2

/-- one step of `process_inbound_frames` -/
def stepPump (s : State) : Option State :=
  if s.dead.isSome then none else
  match s.cur with
  | .idle =>
    match s.rx with
    | [] => if s.rxEof then some { s with dead := some .closed } else none
    | f :: rest =>
      -- header read (2 bytes)
      let s := { s with rx := rest, rxDone := s.rxDone ++ [f], pulled := s.pulled + 2 }
      match hdrSenderConn f.hdr with
      | none => some { s with dead := some .panic }     -- unreachable!("bad StreamKind")
      | some senderConn =>
        -- a frame sent by the peer's ACCEPT end belongs to one of our CONNECT streams, and vice versa
        let k : Key := ⟨!senderConn, hdrId f.hdr⟩
        if !k.valid s then some { s with dead := some .protocol }     -- "bad stream id"
        else match hdrFK f.hdr with
          | none => some { s with dead := some .protocol }            -- "invalid frame kind"
          | some .data =>
            -- length read (2 bytes); `while length > 0`
            let s := { s with pulled := s.pulled + 2 }
            if f.data = [] then some s else some { s with cur := .dataCount k f.data }
          | some fk => some { s with cur := .ctrl k fk }
  | .ctrl k fk =>
    if s.countAvail = 0 then none else
    some ({ s with countAvail := s.countAvail - 1, cur := .idle }.enqueue k ⟨fk, [], 0⟩)
  | .dataCount k rem =>
    if s.countAvail = 0 then none else
    some { s with countAvail := s.countAvail - 1, cur := .dataSize k rem }
  | .dataSize k rem =>
    let size := min rem.length s.cfg.rfs
    if s.sizeAvail < size then none else
    let rem' := rem.drop size
    some ({ s with sizeAvail := s.sizeAvail - size, pulled := s.pulled + size,
                   cur := if rem' = [] then .idle else .dataCount k rem' }.enqueue k ⟨.data, rem.take size, size⟩)

/-- `recv_open`, first part: `self.cache.take(); self.close_received = false;` (after the read lock came back) -/
def stepRecvOpenStart (s : State) (k : Key) : Option State :=
  let t := s.st k
  if s.dead.isSome || !k.valid s || t.rphase != .waitLock || t.readHeld then none else
  some ((s.upd k (fun t => { t with cache := none, closeRecv := false, rphase := .discard })).releaseOpt t.cache)

/-- `recv_open`, the loop: `while self.recv.recv(ctx).await?.header.frame_kind() != FrameKind::OPEN {}` -/
def stepDiscard (s : State) (k : Key) : Option State :=
  let t := s.st k
  if s.dead.isSome || !k.valid s || t.rphase != .discard then none else
  match t.queue with
  | [] => none
  | f :: q =>
    let taken := t.taken ++ [(f.kind, f.data)]
    some ((s.upd k (fun t =>
      if f.kind = .open then { t with queue := q, taken := taken, rphase := .done, sessStart := taken.length, delivered := [] }
      else { t with queue := q, taken := taken })).release f)

/-- `send_close`, first part (`send_data`), once the write lock came back. `send_data`: nothing to do for an empty buffer;
otherwise wait for the slot of the channel, *then* move the buffer into the frame and send it. -/
def stepCloseData (s : State) (k : Key) : Option State :=
  let t := s.st k
  if s.dead.isSome || !k.valid s || t.mphase != .waitWrite || t.writeHeld then none else
  if t.wbuf = [] then some (s.upd k (fun t => { t with mphase := .closing }))
  else if s.chan.isSome then none      -- `write_send.reserve_or_disconnected(ctx)` is pending
  else some ((s.upd k (fun t => { t with mphase := .closing, wbuf := [], sent := t.sent ++ t.wbuf })).emit k .data t.wbuf)

/-- `send_close`, the CLOSE frame and `flush.notify_one()`; then (limiter: `Rate::INF`) on to the OPEN exchange -/
def stepCloseFrame (s : State) (k : Key) : Option State :=
  let t := s.st k
  if s.dead.isSome || !k.valid s || t.mphase != .closing then none else
  if s.chan.isSome then none           -- `write_send.send(ctx, ..)` is pending
  else
  some { (s.upd k (fun t => { t with mphase := if k.conn then .wantPush else .joinA, txOpen := false,
                                     sent := [], wlog := [], calls := [] })).emit k .close [] with flushReq := true }

/-- ACCEPT: `recv_open_task.join(ctx)` returns -/
def stepJoinedA (s : State) (k : Key) : Option State :=
  let t := s.st k
  if s.dead.isSome || !k.valid s || t.mphase != .joinA || t.rphase != .done then none else
  some (s.upd k (fun t => { t with mphase := .wantPush }))

/-- `StreamQueue::push`: `self.send.send(ctx, ReservedStream(send))` -/
def stepPush (s : State) (k : Key) : Option State :=
  let t := s.st k
  if s.dead.isSome || !k.valid s || t.mphase != .wantPush then none else
  match capOfId (s.rng k.conn) k.id with
  | none => none
  | some cap =>
    some { s.upd k (fun t => { t with mphase := .pushed }) with
           qPushed := fun c x => if c = k.conn ∧ x = cap then s.qPushed c x ++ [k.id] else s.qPushed c x }

/-- `StreamQueue::reserve` + `ReservedStream::open` meet `push`: oldest waiting application call, oldest pushed stream -/
def stepPop (s : State) (conn : Bool) (cap : Nat) : Option State :=
  if s.dead.isSome then none else
  match s.qWait conn cap, s.qPushed conn cap with
  | slot :: ws, id :: ids =>
    some { s.upd ⟨conn, id⟩ (fun t => { t with mphase := .reserved slot }) with
           qWait := fun c x => if c = conn ∧ x = cap then ws else s.qWait c x,
           qPushed := fun c x => if c = conn ∧ x = cap then ids else s.qPushed c x }
  | _, _ => none

/-- `send_open`; for an ACCEPT stream the transient stream is handed over right away -/
def stepSendOpen (s : State) (k : Key) : Option State :=
  let t := s.st k
  if s.dead.isSome || !k.valid s then none else
  match t.mphase with
  | .reserved slot =>
    if s.chan.isSome then none         -- `write_send.send(ctx, ..)` is pending
    else
    let s1 := { (s.upd k (fun t => { t with txOpen := true, sent := [], wlog := [], calls := [] })).emit k .open [] with flushReq := true }
    if k.conn then some (s1.upd k (fun t => { t with mphase := .joinC slot }))
    else some (handover s1 k slot)
  | _ => none

/-- CONNECT: `recv_open_task.join(ctx)` returns; hand-over -/
def stepJoinedC (s : State) (k : Key) : Option State :=
  let t := s.st k
  if s.dead.isSome || !k.valid s || t.rphase != .done then none else
  match t.mphase with
  | .joinC slot => some (handover s k slot)
  | _ => none

/-- the flush task: `notified(ctx, &flush)` has returned, `write_send.send(ctx, WriteCommand::Flush)` -/
def stepDoFlush (s : State) : Option State :=
  if s.dead.isSome || !s.flushReq || s.chan.isSome then none else
  some { s with flushReq := false, chan := some .flush }

/-- the transport takes the next frame -/
def State.txReady (s : State) : Bool :=
  match s.txLimit with
  | none => true
  | some l => decide (s.txSent < l)

/-- the writer task: `write_recv.recv(ctx)` — the slot of the channel is free again -/
def stepWTake (s : State) : Option State :=
  if s.dead.isSome || s.wcur.isSome then none else
  match s.chan with
  | none => none
  | some c => some { s with wcur := some c, chan := none }

/-- the writer task: the received command is carried out (`io::write_all` of header, length, payload / `io::flush`) -/
def stepWDo (s : State) : Option State :=
  if s.dead.isSome then none else
  match s.wcur with
  | none => none
  | some .flush => some { s with wcur := none, flushed := s.wire.length }
  | some (.frame f) =>
    if !s.txReady then none else
    -- a transport that exerts back-pressure does not hold bytes back until a flush (a bounded pipe)
    some { s with wcur := none, wire := s.wire ++ [f], txSent := s.txSent + f.wireSize,
                  flushed := if s.txLimit.isSome then s.wire.length + 1 else s.flushed }

/-- the transport does not take the frame: what was written before it reaches the peer -/
def stepWBlock (s : State) : Option State :=
  if s.dead.isSome then none else
  match s.wcur with
  | some (.frame _) => if s.txReady || s.flushed == s.wire.length then none else some { s with flushed := s.wire.length }
  | _ => none

/-- application: `queue.open(ctx)` -/
def stepAppOpen (s : State) (slot : Nat) (conn : Bool) (cap : Nat) : Option State :=
  if s.slots slot != .free || (rangeOfCap (s.rng conn) cap).isNone then none else
  some { s.setSlot slot (.waiting conn cap) with
         qWait := fun c x => if c = conn ∧ x = cap then s.qWait c x ++ [slot] else s.qWait c x,
         slotList := s.slotList ++ [slot] }

/-- application: `read.read_exact(ctx, &mut Buffer::new(n))` starts -/
def stepAppRead (s : State) (slot n : Nat) : Option State :=
  match s.slots slot with
  | .held k true _ =>
    if (s.st k).pendR.isSome then none else
    some (s.upd k (fun t => { t with pendR := some ⟨slot, n, []⟩ }))
  | _ => none

/-- one iteration of the loop of `ReadStream::read_exact` -/
def stepReadStep (s : State) (k : Key) : Option State :=
  let t := s.st k
  if !k.valid s then none else
  match t.pendR with
  | none => none
  | some p =>
    if t.closeRecv then some (finishRead s k p) else
    match t.cache with
    | some f => some (readFrame (s.upd k (fun t => { t with cache := none })) k p f)
    | none =>
      match t.queue with
      | f :: q => some (readFrame (s.upd k (fun t => { t with queue := q, taken := t.taken ++ [(f.kind, f.data)] })) k p f)
      | [] => if s.dead.isSome then some (finishRead s k p) else none   -- "Transport termination is equivalent to EOS"

/-- application: `write.write_all(ctx, bytes)` starts -/
def stepAppWrite (s : State) (slot : Nat) (bytes : List Nat) : Option State :=
  match s.slots slot with
  | .held k _ true =>
    if (s.st k).pendW.isSome || (s.st k).pendF.isSome then none else
    some (s.upd k (fun t => { t with pendW := some ⟨slot, bytes, [], t.wbuf.length⟩, wlog := t.wlog ++ bytes }))
  | _ => none

/-- the record of a `write_all` that returns now -/
def PendWrite.call (p : PendWrite) (r : WRes) : WCall := ⟨p.done ++ p.rest, p.done.length, p.fill0, r⟩

/-- a `write_all` returns without having copied `p.rest`: those bytes were never accepted -/
def StreamSt.endWrite (t : StreamSt) (p : PendWrite) (r : WRes) : StreamSt :=
  { t with pendW := none, wlog := t.wlog.take (t.wlog.length - p.rest.length), calls := t.calls ++ [p.call r] }

/-- one iteration of the loop of `WriteStream::write_all` -/
def stepWriteStep (s : State) (k : Key) : Option State :=
  let t := s.st k
  if !k.valid s then none else
  match t.pendW with
  | none => none
  | some p =>
    if p.rest = [] then some ((s.upd k (fun t => { t with pendW := none, calls := t.calls ++ [p.call .ok] })).log (.wrote p.slot true)) else
    -- `if self.0.buffer.capacity() == 0 { self.0.send_data(ctx).await?; }`
    if t.wbuf.length = s.cfg.wfs ∧ t.wbuf ≠ [] then
      -- `send_data`: `reserve_or_disconnected(ctx).await?.map_err(|_| RunError::Closed)?`, then the buffer is moved into the frame
      if s.dead.isSome then some ((s.upd k (fun t => t.endWrite p .err)).log (.wrote p.slot false))
      else if s.chan.isSome then none      -- the reservation is pending (`cancelWrite` applies here)
      else some ((s.upd k (fun t => { t with wbuf := [], sent := t.sent ++ t.wbuf })).emit k .data t.wbuf)
    else
      -- `offset += self.0.buffer.push(&buf[offset..])`
      let n := min (s.cfg.wfs - t.wbuf.length) p.rest.length
      if n = 0 then none      -- write_frame_size = 0: the Rust loop spins forever without making progress
      else some (s.upd k (fun t => { t with wbuf := t.wbuf ++ p.rest.take n,
                                            pendW := some { p with rest := p.rest.drop n, done := p.done ++ p.rest.take n } }))

/-- the context passed to a `write_all` in flight is cancelled. The call notices it at its only await, the reservation
of the channel slot inside `send_data` (`reserve_or_disconnected(ctx).await?`), i.e. with the write buffer full and
bytes left to copy; it returns `Canceled`. The buffer has not been touched yet. (Whether the slot is free at that
moment does not matter: `ctx.wait` may see the cancellation first.) -/
def stepCancelWrite (s : State) (k : Key) : Option State :=
  let t := s.st k
  if !k.valid s then none else
  match t.pendW with
  | none => none
  | some p =>
    if p.rest ≠ [] ∧ t.wbuf.length = s.cfg.wfs ∧ t.wbuf ≠ [] then
      some ((s.upd k (fun t => t.endWrite p .canceled)).log (.canceled p.slot))
    else none

/-- application: `write.flush(ctx)` starts -/
def stepAppFlush (s : State) (slot : Nat) : Option State :=
  match s.slots slot with
  | .held k _ true =>
    let t := s.st k
    if t.pendW.isSome || t.pendF.isSome then none else
    some (s.upd k (fun t => { t with pendF := some slot }))
  | _ => none

/-- `WriteStream::flush`: `send_data(ctx).await?` + `flush.notify_one()` -/
def stepFlushStep (s : State) (k : Key) : Option State :=
  let t := s.st k
  if !k.valid s then none else
  match t.pendF with
  | none => none
  | some slot =>
    if t.wbuf = [] then some ({ s.upd k (fun t => { t with pendF := none }) with flushReq := true }.log (.wrote slot true))
    else if s.dead.isSome then some ((s.upd k (fun t => { t with pendF := none })).log (.wrote slot false))
    else if s.chan.isSome then none      -- the reservation is pending (`cancelFlush` applies here)
    else some ({ (s.upd k (fun t => { t with pendF := none, wbuf := [], sent := t.sent ++ t.wbuf })).emit k .data t.wbuf with
                 flushReq := true }.log (.wrote slot true))

/-- the context passed to a `flush` in flight is cancelled at the reservation inside `send_data`: `Canceled`, nothing
has been taken out of the buffer, no notification. -/
def stepCancelFlush (s : State) (k : Key) : Option State :=
  let t := s.st k
  if !k.valid s then none else
  match t.pendF with
  | none => none
  | some slot =>
    if t.wbuf ≠ [] then some ((s.upd k (fun t => { t with pendF := none })).log (.canceled slot))
    else none

/-- application: drop the read half (`r`) and / or the write half (`w`) a slot still holds -/
def stepAppDrop (s : State) (slot : Nat) (r w : Bool) : Option State :=
  match s.slots slot with
  | .held k hr hw =>
    let t := s.st k
    if (r && hr && t.pendR.isSome) || (w && hw && (t.pendW.isSome || t.pendF.isSome)) then none else
    some ((s.upd k (fun t => { t with readHeld := if r && hr then false else t.readHeld,
                                       writeHeld := if w && hw then false else t.writeHeld })).setSlot slot
           (.held k (hr && !r) (hw && !w)))
  | _ => none

def step? (s : State) : Event → Option State
  | .wireIn f => some { s with rx := s.rx ++ [f] }
  | .wireEof => some { s with rxEof := true }
  | .pump => stepPump s
  | .recvOpenStart k => stepRecvOpenStart s k
  | .discard k => stepDiscard s k
  | .closeData k => stepCloseData s k
  | .closeFrame k => stepCloseFrame s k
  | .joinedA k => stepJoinedA s k
  | .push k => stepPush s k
  | .pop conn cap => stepPop s conn cap
  | .sendOpen k => stepSendOpen s k
  | .joinedC k => stepJoinedC s k
  | .doFlush => stepDoFlush s
  | .wtake => stepWTake s
  | .wdo => stepWDo s
  | .wblock => stepWBlock s
  | .txWindow l => some { s with txLimit := l }
  | .appOpen slot conn cap => stepAppOpen s slot conn cap
  | .appRead slot n => stepAppRead s slot n
  | .readStep k => stepReadStep s k
  | .appWrite slot bytes => stepAppWrite s slot bytes
  | .writeStep k => stepWriteStep s k
  | .appFlush slot => stepAppFlush s slot
  | .flushStep k => stepFlushStep s k
  | .appDrop slot r w => stepAppDrop s slot r w
  | .cancelWrite k => stepCancelWrite s k
  | .cancelFlush k => stepCancelFlush s k

/-- run a list of events; `none` as soon as one is not enabled -/
def run? (s : State) : List Event → Option State
  | [] => some s
  | e :: es => (step? s e).bind (fun s' => run? s' es)

/-! ## deterministic scheduler for the correspondence driver -/

def keysOf (s : State) : List Key :=
  (List.range s.nAcc).map (fun i => ⟨false, i⟩) ++ (List.range s.nCon).map (fun i => ⟨true, i⟩)

/-- the internal events of one stream, in the order the scheduler tries them -/
def keyEvents (k : Key) : List Event :=
  [.readStep k, .writeStep k, .flushStep k, .recvOpenStart k, .discard k, .closeData k, .closeFrame k, .joinedA k, .push k, .sendOpen k, .joinedC k]

def queueEvents (s : State) : List Event :=
  (s.rngAcc.map (fun r => Event.pop false r.cap)) ++ (s.rngCon.map (fun r => Event.pop true r.cap))

/-- internal events in scheduler priority order: first the suspended senders on the channel `write_send` in the order in
which they arrived (`first`, supplied by the driver: tokio's semaphore is fair; only matters when the slot becomes free),
the writer task, then the inbound loop, which runs until it blocks (as the real task does:
none of its awaits yields while input and permits are available), then the stream tasks, the queues, the flush.
Stream tasks are tried in the order `prio` (scheduling advice supplied with the operation: which streams the real
runtime let through `StreamQueue::push` first), then in wake order (`runq`), then by id. The order only selects one of
the interleavings the LTS allows. Cancellations and `txWindow` are never scheduled: they are operations. -/
def candidates (first : List Event) (prio : List Key) (s : State) : List Event :=
  let ks := prio ++ s.runq.filter (fun k => !prio.contains k) ++
    (keysOf s).filter (fun k => !prio.contains k && !s.runq.contains k)
  first ++ [.wtake, .wdo, .wblock, .pump] ++ ks.flatMap keyEvents ++ queueEvents s ++ [.doFlush]

def pick (first : List Event) (prio : List Key) (s : State) : Option (Event × State) :=
  (candidates first prio s).findSome? (fun e => (step? s e).map (fun s' => (e, s')))

/-- the senders that are at their `reserve` / `send` on the channel `write_send` right now: their step is enabled with
the slot free and disabled with the slot taken -/
def slotWanters (s : State) : List Event :=
  let free := { s with chan := none }
  let full := { s with chan := some Cmd.flush }
  ((keysOf s).flatMap (fun k => [Event.writeStep k, .flushStep k, .closeData k, .closeFrame k, .sendOpen k]) ++ [Event.doFlush]).filter
    (fun e => (step? free e).isSome && (step? full e).isNone)

/-- the queue of suspended senders after a step: those who still wait keep their place, newcomers go to the back
(tokio's semaphore is fair). Only kept while the transport exerts back-pressure; without it the slot is emptied at once
and the order of the candidates decides. -/
def requeue (q : List Event) (s : State) : List Event :=
  if s.txLimit.isNone then [] else
  let w := slotWanters s
  q.filter (fun e => w.contains e) ++ w.filter (fun e => !q.contains e)

/-- run internal events until none is enabled (or the fuel runs out: `false`); also returns the queue of suspended senders -/
def settle (first : List Event) (prio : List Key) : Nat → State → State × List Event × Bool
  | 0, s => (s, first, false)
  | fuel + 1, s =>
    match pick first prio s with
    | none => (s, first, true)
    | some (_, s') => settle (requeue first s') prio fuel s'

end EraVerif.Model.Mux
