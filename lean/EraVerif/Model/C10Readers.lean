import EraVerif.Model.C10Read

/-!
# C10 — the `read` functions of the repository, transcribed into the reader language of `C10Read.lean`

One definition per `impl ProtoFmt … read` / `impl ProtoRepr … read` of `node/libs/protobuf`, `node/libs/roles`
and `node/components/network` (field order = source order). `readerOf` maps the name used on the operation
lines to the transcription; `allReaders` is the list the totality theorem ranges over.
Not transcribed: `node/tools/src/config.rs` (`NodeAddr`, `DebugPage`, `App` — local configuration files, never
read from the network).
-/

namespace EraVerif.Model.C10.Readers
open EraVerif.Model.C10

def flds : List (String × Mode × Rd) → Flds
  | [] => .nil
  | (n, m, r) :: rest => .cons n m r (flds rest)

def m (fs : List (String × Mode × Rd)) : Rd := .msg (flds fs)
def one (alts : List (String × Rd)) : Rd := .oneof (flds (alts.map fun a => (a.1, Mode.req, a.2)))
def oneOnly (alts : List (String × Rd)) (allowed : String) : Rd :=
  .oneofOnly (flds (alts.map fun a => (a.1, Mode.req, a.2))) allowed
def copy : Rd := .leaf .copy

/-! ### zksync.std (std_conv.rs) -/
def void : Rd := m []
def timestamp : Rd := .leaf .timestamp
def duration : Rd := .leaf .duration
def bitVector : Rd := .leaf .bitvec
def socketAddr : Rd := .leaf .sockaddr
def rateLimit : Rd := .leaf .rate

/-! ### keys -/
/-- validator/keys/public_key.rs:38 `ByteFmt::decode(required(&r.bn254)?)?` (blst `key_validate`) -/
def vPublicKey : Rd := m [("bn254", .req, .leaf (.bytesTP none))]
/-- validator/keys/signature.rs:54 (blst `sig_validate`) -/
def vSignature : Rd := m [("bn254", .req, .leaf (.bytesTP none))]
/-- validator/keys/aggregate_signature.rs:86 -/
def vAggregateSignature : Rd := m [("bn254", .req, .leaf (.bytesTP none))]
/-- node/keys.rs:101 (`<&[u8; 32]>::try_from`, then `VerifyingKey::from_bytes`) -/
def nPublicKey : Rd := m [("ed25519", .req, .leaf (.bytesTP (some 32)))]
/-- node/keys.rs:132 (`<&[u8; 64]>::try_from`) -/
def nSignature : Rd := m [("ed25519", .req, .leaf (.bytesLen 64))]

/-! ### hashes (`Keccak256::decode` = `bytes.try_into()?`, 32 bytes) -/
def genesisHash : Rd := m [("keccak256", .req, .leaf (.bytesLen 32))]
def payloadHash : Rd := m [("keccak256", .req, .leaf (.bytesLen 32))]
def msgHash : Rd := m [("keccak256", .req, .leaf (.bytesLen 32))]

/-! ### validator messages, v2 -/
/-- v2/block.rs:23 -/
def blockHeader : Rd := m [("number", .req, copy), ("payload", .req, payloadHash)]
/-- v2/consensus.rs:201 -/
def view : Rd := m [("genesis", .req, genesisHash), ("number", .req, copy), ("epoch", .req, copy)]
/-- v2/replica_commit.rs:38 -/
def replicaCommit : Rd := m [("view", .req, view), ("proposal", .req, blockHeader)]
/-- v2/consensus.rs:263 `Signers::read` = `BitVec::read` -/
def signers : Rd := bitVector
/-- v2/replica_commit.rs:179 -/
def commitQC : Rd := m [("msg", .req, replicaCommit), ("signers", .req, signers), ("sig", .req, vAggregateSignature)]
/-- v2/replica_timeout.rs:56 -/
def replicaTimeout : Rd :=
  m [("view", .req, view), ("high_vote", .opt, replicaCommit), ("high_qc", .opt, commitQC)]
/-- v2/replica_timeout.rs:282: the zip loop first, then `view`, then `sig` -/
def timeoutQC : Rd :=
  .msg (.zip "msgs" replicaTimeout "signers" signers
    (flds [("view", .req, view), ("sig", .req, vAggregateSignature)]))
/-- v2/leader_proposal.rs:168 -/
def proposalJustification : Rd := one [("commit_qc", commitQC), ("timeout_qc", timeoutQC)]
/-- v2/replica_new_view.rs:42 -/
def replicaNewView : Rd := m [("justification", .req, proposalJustification)]
/-- v2/leader_proposal.rs:43 -/
def leaderProposal : Rd := m [("proposal_payload", .opt, copy), ("justification", .req, proposalJustification)]
/-- v2/consensus.rs:97 -/
def chonkyMsg : Rd :=
  one [("replica_commit", replicaCommit), ("replica_timeout", replicaTimeout),
       ("replica_new_view", replicaNewView), ("leader_proposal", leaderProposal)]
/-- consensus.rs:110 -/
def consensusMsg : Rd := one [("v2", chonkyMsg)]
/-- discovery.rs:34 -/
def netAddress : Rd := m [("addr", .req, socketAddr), ("version", .req, copy), ("timestamp", .req, timestamp)]

def vMsgAlts : List (String × Rd) :=
  [("consensus", consensusMsg), ("session_id", copy), ("net_address", netAddress)]
/-- msg.rs:68 -/
def vMsg : Rd := one vMsgAlts
/-- msg.rs:172 `Signed<V>::read`: `V::extract(read_required::<Msg>(&r.msg)?)?`, `key`, `sig` -/
def vSigned (variant : String) : Rd :=
  m [("msg", .req, oneOnly vMsgAlts variant), ("key", .req, vPublicKey), ("sig", .req, vSignature)]

/-- node/messages.rs:39 -/
def nMsg : Rd := one [("session_id", copy)]
/-- node/messages.rs:76 -/
def nSigned : Rd := m [("msg", .req, nMsg), ("key", .req, nPublicKey), ("sig", .req, nSignature)]

/-! ### blocks and persisted state -/
/-- v2/block.rs:104 -/
def finalBlock : Rd := m [("payload", .req, copy), ("justification", .req, commitQC)]
/-- block.rs:226 -/
def preGenesisBlock : Rd := m [("number", .req, copy), ("payload", .req, copy), ("justification", .req, copy)]
/-- block.rs:61 -/
def block : Rd := one [("final_v2", finalBlock), ("pre_genesis", preGenesisBlock)]
/-- block.rs:96 -/
def proposal : Rd := m [("number", .req, copy), ("payload", .req, copy)]
/-- v2/consensus.rs:305 -/
def phase : Rd := one [("prepare", void), ("commit", void), ("timeout", void)]
/-- v2/state.rs:46 -/
def chonkyV2State : Rd :=
  m [("epoch", .req, copy), ("view_number", .req, copy), ("phase", .req, phase), ("high_vote", .opt, replicaCommit),
     ("high_commit_qc", .opt, commitQC), ("high_timeout_qc", .opt, timeoutQC), ("proposals", .rep, proposal)]
/-- state.rs:23 -/
def replicaState : Rd := one [("v2", chonkyV2State)]
/-- genesis.rs:36/124 (`Genesis::read` = `GenesisRaw::read` + `with_hash`) -/
def genesis : Rd := .leaf (.genesis false)
/-- schedule.rs:179 -/
def schedule : Rd := .leaf .schedule

/-! ### network: preface, handshakes, RPC requests and responses -/
/-- preface.rs:39 -/
def encryption : Rd := one [("noise_nn", void)]
/-- preface.rs:56 -/
def endpoint : Rd := one [("consensus_net", void), ("gossip_net", void)]
/-- mux/handshake.rs:51 -/
def muxHandshake : Rd := .leaf .muxHandshake
/-- consensus/handshake/mod.rs:33 -/
def consensusHandshake : Rd := m [("session_id", .req, vSigned "session_id"), ("genesis", .req, genesisHash)]
/-- gossip/handshake/mod.rs:42 -/
def gossipHandshake : Rd :=
  m [("session_id", .req, nSigned), ("genesis", .req, genesisHash), ("is_static", .req, copy),
     ("build_version", .opt, .leaf .strTP)]
/-- rpc/consensus.rs:34 -/
def consensusReq : Rd := m [("msg", .req, vSigned "consensus")]
def consensusResp : Rd := m []
/-- rpc/push_validator_addrs.rs:30 -/
def pushValidatorAddrs : Rd := m [("net_addresses", .rep, vSigned "net_address")]
/-- rpc/push_tx.rs:28,41 -/
def pushTx : Rd := m [("tx", .req, m [("tx", .req, copy)])]
/-- rpc/push_block_store_state.rs:63 -/
def last : Rd := one [("pre_genesis", copy), ("final_v2", commitQC)]
/-- rpc/push_block_store_state.rs:47 -/
def blockStoreState : Rd := m [("first", .req, copy), ("last", .opt, last)]
/-- rpc/push_block_store_state.rs:32 -/
def pushBlockStoreState : Rd := m [("state", .req, blockStoreState)]
/-- rpc/get_block.rs:30 -/
def getBlockReq : Rd := m [("number", .req, copy)]
/-- rpc/get_block.rs:49: both optional sub-messages are read -/
def getBlockResp : Rd := m [("block_v2", .opt, finalBlock), ("pre_genesis", .opt, preGenesisBlock)]
/-- rpc/ping.rs:79,91 -/
def ping : Rd := m [("data", .req, .leaf (.bytesLen 32))]

def table : List (String × Rd) := [
  ("std.Void", void), ("std.Timestamp", timestamp), ("std.Duration", duration), ("std.BitVector", bitVector),
  ("std.SocketAddr", socketAddr), ("std.RateLimit", rateLimit),
  ("validator.PublicKey", vPublicKey), ("validator.Signature", vSignature),
  ("validator.AggregateSignature", vAggregateSignature), ("node.PublicKey", nPublicKey),
  ("node.Signature", nSignature), ("validator.GenesisHash", genesisHash), ("validator.PayloadHash", payloadHash),
  ("validator.MsgHash", msgHash), ("validator.BlockHeader", blockHeader), ("validator.View", view),
  ("validator.ReplicaCommit", replicaCommit), ("validator.Signers", signers), ("validator.CommitQC", commitQC),
  ("validator.ReplicaTimeout", replicaTimeout), ("validator.TimeoutQC", timeoutQC),
  ("validator.ProposalJustification", proposalJustification), ("validator.ReplicaNewView", replicaNewView),
  ("validator.LeaderProposal", leaderProposal), ("validator.ChonkyMsg", chonkyMsg),
  ("validator.ConsensusMsg", consensusMsg), ("validator.NetAddress", netAddress), ("validator.Msg", vMsg),
  ("validator.Signed<ConsensusMsg>", vSigned "consensus"), ("validator.Signed<NetAddress>", vSigned "net_address"),
  ("validator.Signed<SessionId>", vSigned "session_id"), ("node.Msg", nMsg), ("node.Signed<SessionId>", nSigned),
  ("validator.FinalBlock", finalBlock), ("validator.PreGenesisBlock", preGenesisBlock), ("validator.Block", block),
  ("validator.Proposal", proposal), ("validator.Phase", phase), ("validator.ChonkyV2State", chonkyV2State),
  ("validator.ReplicaState", replicaState), ("validator.Genesis", genesis), ("validator.Schedule", schedule),
  ("preface.Encryption", encryption), ("preface.Endpoint", endpoint), ("mux.Handshake", muxHandshake),
  ("consensus.Handshake", consensusHandshake), ("gossip.Handshake", gossipHandshake),
  ("rpc.consensus.Req", consensusReq), ("rpc.consensus.Resp", consensusResp),
  ("rpc.push_validator_addrs.Req", pushValidatorAddrs), ("rpc.push_tx.Req", pushTx),
  ("rpc.push_block_store_state.Req", pushBlockStoreState), ("rpc.get_block.Req", getBlockReq),
  ("rpc.get_block.Resp", getBlockResp), ("rpc.ping.Req", ping), ("rpc.ping.Resp", ping)]

def readerOf (name : String) : Option Rd := (table.find? fun p => p.1 = name).map (·.2)

/-- the same readers with the three repaired leaves replaced by their pre-repair transcription -/
def timestampLegacy : Rd := .leaf .timestampLegacy
def durationLegacy : Rd := .leaf .durationLegacy
def genesisLegacy : Rd := .leaf (.genesis true)
def netAddressLegacy : Rd :=
  m [("addr", .req, socketAddr), ("version", .req, copy), ("timestamp", .req, timestampLegacy)]

end EraVerif.Model.C10.Readers
