/-!
# Shared consensus model: messages, certificates, thresholds, implied block

Transcription of `node/libs/roles/src/validator/messages/v2/{consensus,replica_commit,replica_timeout,
leader_proposal,replica_new_view,block}.rs` and the parts of `schedule.rs` they use, with symbolic
cryptography (DESIGN §4.1):

* validators are indices `0 … n-1` in canonical schedule order (the index the `Signers` bitmap uses);
* a payload hash is a `Nat` id (collision-free hashing);
* a signature is the pair `(signer, message)`; an aggregate signature is the multiset (list up to permutation)
  of such pairs; `verify_messages sig expected` holds iff the two multisets are equal.

No Mathlib import: this file is linked into the native model driver.
-/

namespace EraVerif.Model

/-- `validator::v2::View`: genesis hash and epoch are ids (`0,0` = this chain / this epoch by convention of the
harness, but nothing here depends on that). -/
structure View where
  genesis : Nat
  epoch : Nat
  number : Nat
deriving DecidableEq, Repr, Inhabited

/-- `BlockHeader` -/
structure Header where
  number : Nat
  payload : Nat
deriving DecidableEq, Repr, Inhabited

/-- `ReplicaCommit` -/
structure Vote where
  view : View
  proposal : Header
deriving DecidableEq, Repr, Inhabited

/-- symbolic aggregate signature over messages of type `α` -/
abbrev AggSig (α : Type) := List (Nat × α)

/-- `CommitQC` -/
structure CommitQC where
  message : Vote
  signers : List Bool
  sig : AggSig Vote
deriving DecidableEq, Repr, Inhabited

/-- `ReplicaTimeout` -/
structure TVote where
  view : View
  highVote : Option Vote
  highQC : Option CommitQC
deriving DecidableEq, Repr, Inhabited

/-- `TimeoutQC`: `map` is the `BTreeMap<ReplicaTimeout, Signers>` in its iteration order. -/
structure TimeoutQC where
  view : View
  map : List (TVote × List Bool)
  sig : AggSig TVote
deriving DecidableEq, Repr, Inhabited

/-- `ProposalJustification` -/
inductive Just where
  | commit (q : CommitQC)
  | timeout (q : TimeoutQC)
deriving DecidableEq, Repr, Inhabited

/-- The committee: weights in canonical order (every weight > 0, list non-empty for a valid schedule). -/
structure Committee where
  weights : List Nat
  /-- this chain's genesis id and epoch -/
  genesis : Nat
  epoch : Nat
  /-- first block of the epoch (`fork_first_block`) -/
  first : Nat
deriving Repr, Inhabited

namespace Committee
def n (c : Committee) : Nat := c.weights.length
def total (c : Committee) : Nat := c.weights.sum
/-- `max_faulty_weight` / `quorum_threshold` / `subquorum_threshold` on `Nat` (C07 proves the `u64` code computes
exactly these for `1 ≤ total < 2^64`). -/
def faulty (c : Committee) : Nat := (c.total - 1) / 5
def quorum (c : Committee) : Nat := c.total - c.faulty
def subquorum (c : Committee) : Nat := c.total - 3 * c.faulty
end Committee

/-! ## Signers -/

/-- `Signers::weight` **without** the length assertion: sum of the weights whose bit is set. -/
def weightOf : List Nat → List Bool → Nat
  | w :: ws, b :: bs => (if b then w else 0) + weightOf ws bs
  | _, _ => 0

/-- result of a call that may hit a Rust `assert!`/`unwrap`/index panic -/
inductive Res (α : Type) where
  | ok (a : α)
  | panic (site : String)
deriving Repr

/-- `Signers::weight`: `assert_eq!(self.len(), schedule.len())` -/
def signersWeight (c : Committee) (s : List Bool) : Res Nat :=
  if s.length = c.n then .ok (weightOf c.weights s) else .panic "Signers::weight: length assertion"

/-- `Signers::is_empty` (= `BitVec::none`) -/
def signersEmpty (s : List Bool) : Bool := s.all (· == false)

/-- bitwise and / or of equal-length bitmaps (the callers check lengths first) -/
def bitAnd (a b : List Bool) : List Bool := List.zipWith (· && ·) a b
def bitOr (a b : List Bool) : List Bool := List.zipWith (· || ·) a b

/-- indices (offset by `k`) whose bit is set -/
def idxsFrom : Nat → List Bool → List Nat
  | _, [] => []
  | k, b :: bs => if b then k :: idxsFrom (k + 1) bs else idxsFrom (k + 1) bs

/-- indices whose bit is set, ascending -/
def signerIdxs (s : List Bool) : List Nat := idxsFrom 0 s

/-- set bit `i` (no-op outside the range, like `BitVec::set` would panic — callers stay in range) -/
def setBit (s : List Bool) (i : Nat) : List Bool := s.set i true

/-! ## Verification -/

/-- `View::verify` -/
def View.verify (c : Committee) (v : View) : Bool := v.genesis == c.genesis && v.epoch == c.epoch

/-- `ReplicaCommit::verify` -/
def Vote.verify (c : Committee) (v : Vote) : Bool := v.view.verify c

/-- symbolic `AggregateSignature::verify_messages`: the aggregate is exactly the multiset of expected pairs -/
def aggVerify {α : Type} [DecidableEq α] (sig expected : AggSig α) : Bool := sig.isPerm expected

/-- the (message, key) pairs `CommitQC::verify` hands to `verify_messages` -/
def CommitQC.expected (q : CommitQC) : AggSig Vote := (signerIdxs q.signers).map (fun i => (i, q.message))

/-- `CommitQC::verify` (order of checks as in the code; only accept/reject is observable) -/
def CommitQC.verify (c : Committee) (q : CommitQC) : Bool :=
  q.message.verify c &&
  (q.signers.length == c.n) &&
  (c.quorum ≤ weightOf c.weights q.signers) &&
  aggVerify q.sig q.expected

/-- `ReplicaTimeout::verify` -/
def TVote.verify (c : Committee) (t : TVote) : Bool :=
  t.view.verify c &&
  (match t.highVote with | some v => v.verify c | none => true) &&
  (match t.highQC with | some q => q.verify c | none => true)

/-- the loop of `TimeoutQC::verify` over the map entries, threading `sum` -/
def TimeoutQC.verifyLoop (c : Committee) (view : View) : List (TVote × List Bool) → List Bool → Option (List Bool)
  | [], sum => some sum
  | (msg, signers) :: rest, sum =>
    if msg.view ≠ view then none
    else if signers.length ≠ sum.length then none
    else if signersEmpty signers then none
    else if !(signersEmpty (bitAnd sum signers)) then none
    else if !(msg.verify c) then none
    else TimeoutQC.verifyLoop c view rest (bitOr sum signers)

def TimeoutQC.expected (q : TimeoutQC) : AggSig TVote :=
  q.map.flatMap (fun (msg, signers) => (signerIdxs signers).map (fun i => (i, msg)))

/-- `TimeoutQC::verify` -/
def TimeoutQC.verify (c : Committee) (q : TimeoutQC) : Bool :=
  q.view.verify c &&
  (match TimeoutQC.verifyLoop c q.view q.map (List.replicate c.n false) with
   | none => false
   | some sum => (c.quorum ≤ weightOf c.weights sum) && aggVerify q.sig q.expected)

/-- `TimeoutQC::weight`: sum over groups of `Signers::weight` (each asserts its length) -/
def TimeoutQC.weight (c : Committee) (q : TimeoutQC) : Res Nat :=
  q.map.foldl (fun acc (_, s) =>
    match acc with
    | .panic p => .panic p
    | .ok a => (match signersWeight c s with | .ok w => .ok (a + w) | .panic p => .panic p)) (.ok 0)

/-- `ProposalJustification::verify` -/
def Just.verify (c : Committee) : Just → Bool
  | .commit q => q.verify c
  | .timeout q => q.verify c

/-- `ProposalJustification::view().number` = certificate view + 1, **wrapping** at 2^64 (release profile: `self.0 + 1`) -/
def nextU64 (v : Nat) : Nat := (v + 1) % 2^64

def Just.viewNumber : Just → Nat
  | .commit q => nextU64 q.message.view.number
  | .timeout q => nextU64 q.view.number

def Just.view : Just → View
  | .commit q => { q.message.view with number := nextU64 q.message.view.number }
  | .timeout q => { q.view with number := nextU64 q.view.number }

/-! ## High vote, high QC, implied block -/

/-- accumulate `count[header] += weight` (the `HashMap` of `high_vote()`), insertion-ordered association list -/
def addCount (counts : List (Header × Nat)) (h : Header) (w : Nat) : List (Header × Nat) :=
  match counts with
  | [] => [(h, w)]
  | (h', w') :: rest => if h' = h then (h', w' + w) :: rest else (h', w') :: addCount rest h w

/-- the `count` map of `TimeoutQC::high_vote` (weights via `weightOf`; the caller has verified the lengths) -/
def TimeoutQC.counts (c : Committee) (q : TimeoutQC) : List (Header × Nat) :=
  q.map.foldl (fun acc (msg, signers) =>
    match msg.highVote with
    | some v => addCount acc v.proposal (weightOf c.weights signers)
    | none => acc) []

/-- `TimeoutQC::high_vote`: the unique header with weight ≥ subquorum, else none -/
def TimeoutQC.highVote (c : Committee) (q : TimeoutQC) : Option Header :=
  match (q.counts c).filter (fun x => c.subquorum ≤ x.2) with
  | [x] => some x.1
  | _ => none

/-- `max_by_key` returning the **last** maximum -/
def lastMaxBy {α : Type} (key : α → Nat) : List α → Option α
  | [] => none
  | x :: xs => some (xs.foldl (fun best y => if key best ≤ key y then y else best) x)

/-- `TimeoutQC::high_qc` -/
def TimeoutQC.highQC (q : TimeoutQC) : Option CommitQC :=
  lastMaxBy (fun (x : CommitQC) => x.message.view.number) (q.map.filterMap (fun (m, _) => m.highQC))

/-- `BlockNumber::next` = `self.0 + 1` wrapping (release profile) -/
def nextBlock (k : Nat) : Nat := (k + 1) % 2^64

/-- `ProposalJustification::get_implied_block` -/
def Just.impliedBlock (c : Committee) : Just → Nat × Option Nat
  | .commit q => (nextBlock q.message.proposal.number, none)
  | .timeout q =>
    let hv := q.highVote c
    let hq := q.highQC
    match hv, hq with
    | some v, none => (v.number, some v.payload)
    | some v, some cq =>
      if v.number > cq.message.proposal.number then (v.number, some v.payload)
      else (nextBlock cq.message.proposal.number, none)
    | none, some cq => (nextBlock cq.message.proposal.number, none)
    | none, none => (c.first, none)

/-! ## Incremental assembly -/

/-- a signed message as the handlers see it: `key = none` when the signing key is not in the committee;
`sigOk` = the signature verifies for (key, msg) -/
structure SignedBy where
  key : Option Nat
  sigOk : Bool
deriving DecidableEq, Repr, Inhabited

inductive AddErr where
  | notInCommittee | duplicate | badSignature | inconsistent | invalidMessage
deriving DecidableEq, Repr

/-- `CommitQC::new` -/
def CommitQC.new (c : Committee) (v : Vote) : CommitQC := { message := v, signers := List.replicate c.n false, sig := [] }

/-- `CommitQC::add` -/
def CommitQC.add (c : Committee) (q : CommitQC) (s : SignedBy) (msg : Vote) : Except AddErr CommitQC :=
  match s.key with
  | none => .error .notInCommittee
  | some i =>
    if i ≥ c.n then .error .notInCommittee
    else if q.signers.getD i false then .error .duplicate
    else if !s.sigOk then .error .badSignature
    else if q.message ≠ msg then .error .inconsistent
    else if !(msg.verify c) then .error .invalidMessage
    else .ok { q with signers := setBit q.signers i, sig := q.sig ++ [(i, msg)] }

/-- `TimeoutQC::new` -/
def TimeoutQC.new (v : View) : TimeoutQC := { view := v, map := [], sig := [] }

/-- insert-or-update the group of `msg` (`BTreeMap::entry(..).or_insert_with(..)`). A new key is appended at the
end: the real map orders keys by the derived `Ord` of `ReplicaTimeout` (which compares signature bytes), an order
this model does not reproduce. The order only matters for the tie-break of `high_qc()` between two *different*
commit certificates of the same view; the correspondence compares assembled certificates as sets of groups. -/
def mapSet (c : Committee) (m : List (TVote × List Bool)) (msg : TVote) (i : Nat) : List (TVote × List Bool) :=
  if m.any (fun e => e.1 = msg) then
    m.map (fun e => if e.1 = msg then (e.1, setBit e.2 i) else e)
  else
    m ++ [(msg, setBit (List.replicate c.n false) i)]

/-- `TimeoutQC::add` -/
def TimeoutQC.add (c : Committee) (q : TimeoutQC) (s : SignedBy) (msg : TVote) : Except AddErr TimeoutQC :=
  match s.key with
  | none => .error .notInCommittee
  | some i =>
    if i ≥ c.n then .error .notInCommittee
    else if q.map.any (fun e => e.2.getD i false) then .error .duplicate
    else if !s.sigOk then .error .badSignature
    else if msg.view ≠ q.view then .error .inconsistent
    else if !(msg.verify c) then .error .invalidMessage
    else .ok { q with map := mapSet c q.map msg i, sig := q.sig ++ [(i, msg)] }

/-- `FinalBlock::verify`: payload hash (id of the payload) equals the header's, and the certificate verifies -/
def finalBlockVerify (c : Committee) (payloadHash : Nat) (q : CommitQC) : Bool :=
  (payloadHash == q.message.proposal.payload) && q.verify c

end EraVerif.Model
