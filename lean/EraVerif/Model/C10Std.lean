/-!
# C10 — conversions of `node/libs/protobuf/src/std_conv.rs` (Timestamp, Duration, BitVector, SocketAddr, RateLimit)

Transcription of the `ProtoFmt::read` functions for the `zksync.std` messages, at the proto-struct level: a
field is `Option` (absent / present), scalars are arbitrary values of their Rust type. Where Rust can panic the
model returns `Res.panic` (never totalised silently).

`time::Duration` (crate `time` 0.3.41, third party) is transcribed as far as the conversions use it
(`seconds`, `nanoseconds`, `checked_add`, `new`, `+`); the correspondence run compares the resulting
`(whole_seconds, subsec_nanoseconds)` with the real crate on every generated input.
-/

namespace EraVerif.Model.C10

/-- Outcome of running a piece of the implementation: a value, an `Err(..)` return (the connection is dropped /
the message is rejected), or a panic (= process abort under `panic = 'abort'`). -/
inductive Res (α : Type) where
  | ok (a : α)
  | err (why : String)
  | panic (site : String)
  deriving Repr, DecidableEq

namespace Res
def bind {α β : Type} : Res α → (α → Res β) → Res β
  | ok a, f => f a
  | err w, _ => err w
  | panic s, _ => panic s

instance : Monad Res where
  pure := Res.ok
  bind := Res.bind

def isPanic {α : Type} : Res α → Bool
  | panic _ => true
  | _ => false

def isOk {α : Type} : Res α → Bool
  | ok _ => true
  | _ => false

/-- `Option::context(..)?` / `required(..)?` -/
def ofOption {α : Type} (why : String) : Option α → Res α
  | some a => ok a
  | none => err why

def cls {α : Type} : Res α → String
  | ok _ => "ok"
  | err _ => "err"
  | panic _ => "panic"
end Res

/-! ## Rust integer ranges -/
def I64_MIN : Int := -9223372036854775808
def I64_MAX : Int := 9223372036854775807
def I32_MIN : Int := -2147483648
def I32_MAX : Int := 2147483647
def U64_MAX : Nat := 18446744073709551615
def U32_MAX : Nat := 4294967295
def U16_MAX : Nat := 65535

def inI64 (x : Int) : Bool := decide (I64_MIN ≤ x) && decide (x ≤ I64_MAX)
def inI32 (x : Int) : Bool := decide (I32_MIN ≤ x) && decide (x ≤ I32_MAX)

/-- `i64::checked_add` / `checked_sub` -/
def checkedAddI64 (a b : Int) : Option Int := if inI64 (a + b) then some (a + b) else none
def checkedSubI64 (a b : Int) : Option Int := if inI64 (a - b) then some (a - b) else none

/-! ## `time::Duration` (seconds : i64, nanoseconds : i32 with |nanoseconds| < 10^9 and the same sign) -/
abbrev NANOS_PER_SEC : Int := 1000000000

structure Dur where
  secs : Int
  nanos : Int
  deriving Repr, DecidableEq

/-- `Duration::seconds(s)` -/
def Dur.seconds (s : Int) : Dur := ⟨s, 0⟩

/-- `Duration::nanoseconds(n)`: `n / 10^9`, `n % 10^9` (Rust `/`, `%` truncate toward zero = `Int.tdiv`, `Int.tmod`) -/
def Dur.nanoseconds (n : Int) : Dur := ⟨n.tdiv NANOS_PER_SEC, n.tmod NANOS_PER_SEC⟩

/-- `Duration::checked_add` (time 0.3.41, duration.rs:932) -/
def Dur.checkedAdd (a b : Dur) : Option Dur :=
  match checkedAddI64 a.secs b.secs with
  | none => none
  | some seconds =>
    let nanoseconds := a.nanos + b.nanos
    if nanoseconds ≥ NANOS_PER_SEC || (seconds < 0 && nanoseconds > 0) then
      match checkedAddI64 seconds 1 with
      | none => none
      | some s => some ⟨s, nanoseconds - NANOS_PER_SEC⟩
    else if nanoseconds ≤ -NANOS_PER_SEC || (seconds > 0 && nanoseconds < 0) then
      match checkedSubI64 seconds 1 with
      | none => none
      | some s => some ⟨s, nanoseconds + NANOS_PER_SEC⟩
    else some ⟨seconds, nanoseconds⟩

/-- `impl Add for Duration`: `checked_add(..).expect("overflow when adding durations")` -/
def Dur.add (a b : Dur) : Res Dur :=
  match a.checkedAdd b with
  | some d => .ok d
  | none => .panic "time::Duration + : overflow when adding durations"

/-- `Duration::new(seconds, nanoseconds)` (time 0.3.41, duration.rs:383) — what the tree used **before** the
repair of F3. Panics (`expect_opt!`) when `seconds + nanoseconds / 10^9` leaves the `i64` range. -/
def Dur.newLegacy (seconds nanoseconds : Int) : Res Dur :=
  match checkedAddI64 seconds (nanoseconds.tdiv NANOS_PER_SEC) with
  | none => .panic "time::Duration::new: overflow constructing `time::Duration`"
  | some seconds =>
    let nanoseconds := nanoseconds.tmod NANOS_PER_SEC
    if seconds > 0 && nanoseconds < 0 then .ok ⟨seconds - 1, nanoseconds + NANOS_PER_SEC⟩
    else if seconds < 0 && nanoseconds > 0 then .ok ⟨seconds + 1, nanoseconds - NANOS_PER_SEC⟩
    else .ok ⟨seconds, nanoseconds⟩

/-- `duration_from_parts` as it was between the repairs of F3 and F12:
`Duration::seconds(seconds).checked_add(Duration::nanoseconds(nanos.into())).context("duration overflow")` -/
def durationFromPartsPre12 (seconds nanos : Int) : Res Dur :=
  match (Dur.seconds seconds).checkedAdd (Dur.nanoseconds nanos) with
  | some d => .ok d
  | none => .err "duration overflow"

/-- `std_conv.rs::duration_from_parts`, **current** code: the checked addition, then
`ensure!(d.whole_seconds() > i64::MIN || d.subsec_nanoseconds() >= 0, "duration overflow")` (repair of F12) -/
def durationFromParts (seconds nanos : Int) : Res Dur :=
  match durationFromPartsPre12 seconds nanos with
  | .ok d => if d.secs > I64_MIN ∨ d.nanos ≥ 0 then .ok d else .err "duration overflow"
  | .err w => .err w
  | .panic p => .panic p

/-- `impl ProtoFmt for time::Duration :: build` with overflow checks (dev / test profile): for a negative sub-second part
`seconds -= 1; nanos += 1_000_000_000` -/
def durationBuild (d : Dur) : Res (Int × Int) :=
  if d.nanos < 0 then
    (if inI64 (d.secs - 1) then .ok (d.secs - 1, d.nanos + 1000000000)
     else .panic "std_conv.rs: attempt to subtract with overflow (Duration::build)")
  else .ok (d.secs, d.nanos)

/-- the same in the shipping profile: `seconds -= 1` wraps -/
def durationBuildWrap (d : Dur) : Int × Int :=
  if d.nanos < 0 then
    (if inI64 (d.secs - 1) then (d.secs - 1, d.nanos + 1000000000) else (d.secs - 1 + 18446744073709551616, d.nanos + 1000000000))
  else (d.secs, d.nanos)

/-- `proto::std::Timestamp` / `proto::std::Duration` at the proto-struct level -/
structure PDur where
  seconds : Option Int   -- int64
  nanos : Option Int     -- int32

/-- `impl ProtoFmt for time::Duration :: read` -/
def durationRead (r : PDur) : Res Dur := do
  let seconds ← Res.ofOption "seconds" r.seconds
  let nanos ← Res.ofOption "nanos" r.nanos
  durationFromParts seconds nanos

/-- `impl ProtoFmt for time::Utc :: read`: `Ok(time::UNIX_EPOCH + duration_from_parts(seconds, nanos)?)`;
`Utc + Duration` is `Utc(self.0 + d)` with `UNIX_EPOCH = Utc(Duration::ZERO)`. -/
def timestampRead (r : PDur) : Res Dur := do
  let seconds ← Res.ofOption "seconds" r.seconds
  let nanos ← Res.ofOption "nanos" r.nanos
  let d ← durationFromParts seconds nanos
  Dur.add ⟨0, 0⟩ d

/-- the two `read`s as they were before the repair (`Duration::new`) -/
def durationReadLegacy (r : PDur) : Res Dur := do
  let seconds ← Res.ofOption "seconds" r.seconds
  let nanos ← Res.ofOption "nanos" r.nanos
  Dur.newLegacy seconds nanos

def timestampReadLegacy (r : PDur) : Res Dur := do
  let seconds ← Res.ofOption "seconds" r.seconds
  let nanos ← Res.ofOption "nanos" r.nanos
  let d ← Dur.newLegacy seconds nanos
  Dur.add ⟨0, 0⟩ d

/-- is `UNIX_EPOCH + d` a representable `time::OffsetDateTime`? (crate `time` without `large-dates`:
-9999-01-01T00:00:00 ..= 9999-12-31T23:59:59.999999999 UTC) -/
def inOffsetDateTimeRange (d : Dur) : Bool :=
  decide (-377705116800000000000 ≤ d.secs * 1000000000 + d.nanos) &&
  decide (d.secs * 1000000000 + d.nanos ≤ 253402300799999999999)

/-- `impl Display for time::Utc` (node/libs/concurrency/src/time.rs), **current** code:
`match OffsetDateTime::UNIX_EPOCH.checked_add(self.0) { Some(t) => t.fmt(f), None => write!(f, "{}s since unix epoch", ..) }`.
Used by the debug page for the timestamp of every stored `NetAddress`. `true` = rendered as a date. -/
def utcDisplay (d : Dur) : Res Bool := .ok (inOffsetDateTimeRange d)

/-- the same before the repair of F10: `(OffsetDateTime::UNIX_EPOCH + self.0).fmt(f)`, where `+` is
`checked_add(..).expect("resulting value is out of range")` -/
def utcDisplayLegacy (d : Dur) : Res Bool :=
  if inOffsetDateTimeRange d then .ok true
  else .panic "time::OffsetDateTime + Duration: resulting value is out of range"

/-- does `std::time::SystemTime::UNIX_EPOCH + d` exist? For a negative duration it is `SystemTime - |d|`, whose
seconds are `0 - |secs|`, one less when there are sub-second nanos: below `i64::MIN` exactly for
`secs = i64::MIN` with `nanos < 0`. -/
def inSystemTimeRange (d : Dur) : Bool := !(decide (d.secs = I64_MIN) && decide (d.nanos < 0))

/-- `impl Debug for time::Utc`, **current** code: `checked_add` / `checked_sub` on `SystemTime::UNIX_EPOCH` with a
textual fallback. `true` = rendered as a `SystemTime`. -/
def utcDebug (d : Dur) : Res Bool := .ok (inSystemTimeRange d)

/-- the same before the repair of F11: `(std::time::SystemTime::UNIX_EPOCH + self.0).fmt(f)`
("overflow when subtracting duration from instant") -/
def utcDebugLegacy (d : Dur) : Res Bool :=
  if inSystemTimeRange d then .ok true
  else .panic "SystemTime - Duration: overflow when subtracting duration from instant"

/-! ## BitVector -/
structure PBitVec where
  size : Option Nat       -- uint64
  bytesLen : Option Nat   -- length of `bytes_`

/-- `impl ProtoFmt for bit_vec::BitVec :: read`. The vector is built from the *bytes* (`8 * bytes.len()` bits);
`size` is only compared and used to truncate, so nothing is allocated from `size`. Returns the bit length. -/
def bitvecRead (r : PBitVec) : Res Nat := do
  let size ← Res.ofOption "size" r.size
  let bytes ← Res.ofOption "bytes_" r.bytesLen
  let len := 8 * bytes
  if len < size then .err "'vector' has less than 'size' bits"
  else .ok size   -- `truncate(size)` with `size ≤ len`

/-- bytes allocated by `bitvecRead` for the vector storage (independent of `size`) -/
def bitvecAlloc (r : PBitVec) : Nat := r.bytesLen.getD 0

/-! ## SocketAddr -/
structure PSockAddr where
  ipLen : Option Nat    -- length of `ip`
  port : Option Nat     -- uint32

/-- `<[u8; N]>::try_from(&ip[..]).unwrap()` -/
def arrayTryFromUnwrap (n len : Nat) : Res Unit :=
  if len = n then .ok () else .panic "std_conv.rs: <[u8; N]>::try_from(..).unwrap()"

/-- `impl ProtoFmt for std::net::SocketAddr :: read`; returns (ip version, port) -/
def sockaddrRead (r : PSockAddr) : Res (Nat × Nat) :=
  match r.ipLen with
  | none => .err "ip"
  | some ip =>
    let v : Res Nat :=
      if ip = 4 then (arrayTryFromUnwrap 4 ip).bind fun _ => .ok 4
      else if ip = 16 then (arrayTryFromUnwrap 16 ip).bind fun _ => .ok 6
      else .err "invalid ip length"
    v.bind fun v =>
      match r.port with
      | none => .err "port"
      | some port => if port ≤ U16_MAX then .ok (v, port) else .err "port"

/-! ## RateLimit -/
structure PRate where
  burst : Option Nat          -- uint64
  refresh : Option PDur

/-- `impl ProtoFmt for limiter::Rate :: read` (`u64 → usize` never fails on a 64-bit target) -/
def rateRead (r : PRate) : Res (Nat × Dur) := do
  let burst ← Res.ofOption "burst" r.burst
  let refresh ← Res.ofOption "refresh" r.refresh
  let d ← durationRead refresh
  .ok (burst, d)

end EraVerif.Model.C10
