/-!
# Model of the task-scope guard protocol (C17)

Transcribes the guard protocol of

* `node/libs/concurrency/src/scope/mod.rs` — `Scope::run` / `run_blocking` (make the `State`, spawn the root as a
  main task, drop the run guard, join the root, wait for the `terminated` signal, `take_err`, map the error slot to
  the result), `main_task` (`cancel_guard.upgrade()` else background) and `bg_task`;
* `node/libs/concurrency/src/scope/state.rs` — `TerminateGuard::set_err` (one mutex-protected section: first error
  wins, a panic overrides an error, the context is cancelled before the slot is written), `CancelGuard::drop`
  (cancel the scope context; then its `Arc<TerminateGuard>` is released), `TerminateGuard::drop` (send `terminated`);
* `node/libs/concurrency/src/scope/task.rs` — `Task::run` / `run_blocking` / `PanicReporter` (a failing or
  panicking task calls `set_err` *before* it releases its guard);
* `node/libs/concurrency/src/ctx/mod.rs` — a context is cancelled by `cancel()`, by its deadline or because an
  ancestor is cancelled (`child_with_clock`: the watcher task; modelled as the closure `eff` over the ancestor
  chain — the propagation step is always eventually enabled).

The model is a labelled transition system over the **markers** the instrumented code writes to one totally ordered
log (`verif.rs`). A marker is written either right *before* the atomic action it stands for (guard release `rel`,
`rgd`; `cgd`/`tgd` before the signal is sent; every cancellation cause) or right *after* it (`start`: after the
`upgrade`; `obs`: after a cancellation was observed; `ret`: after `run!` returned); `seterr` is written inside the
mutex. The two counters are therefore *lower bounds* of the two `Arc` strong counts:

* `mainLow`  = [run guard not yet dropped] + number of started, not yet releasing tasks that own a `CancelGuard`;
* `termLow`  = [`CancelGuard::drop` has not run] + number of spawned-but-not-started tasks (they own a guard of
  unknown kind) + number of started, not yet releasing tasks that own a `TerminateGuard`.

`CancelGuard::drop` (`cgd`) needs `mainLow = 0`, `TerminateGuard::drop` (`tgd`) needs `termLow = 0`, `run!` returns
only after `tgd`. Every guard of `step?` is a necessary condition of the code's behaviour under every schedule, so the
log of every real run must be accepted; the theorems of `Props/C17.lean` hold for every accepted log.

No Mathlib; total; computable.
-/

namespace EraVerif.Model.Scope

/-- life cycle of a task, as seen in the log -/
inductive Phase where
  | absent      -- never spawned
  | pending     -- `spawn` logged: the spawning call is about to take a guard for it
  | running     -- body started (the kind of guard it owns is known)
  | ended       -- body finished (`end` logged); `set_err` / guard release follow
  | released    -- the release of its guard has been announced (`rel`)
  deriving DecidableEq, Repr, Inhabited

/-- how a task body finished -/
inductive Out where
  | ok | err | panic
  deriving DecidableEq, Repr, Inhabited

/-- the `err: Mutex<Option<OrPanic<E>>>` slot; `err t v`: the error `v` returned by task `t` -/
inductive Slot where
  | empty
  | err (t v : Nat)
  | panic
  deriving DecidableEq, Repr, Inhabited

/-- what `scope::run!` gives to its caller. `unwrapPanic` is the `root_task_result.unwrap()` of `run` failing
(the slot is empty but the root did not return `Ok`) — shown unreachable in `Props/C17.lean`. -/
inductive Res where
  | ok (v : Nat)
  | err (v : Nat)
  | panic
  | unwrapPanic
  deriving DecidableEq, Repr, Inhabited

inductive SPhase where
  | absent | live | returned
  deriving DecidableEq, Repr, Inhabited

structure Task where
  scope : Nat := 0
  /-- the spawning task; `none`: the root, spawned by `run` itself -/
  parent : Option Nat := none
  /-- spawned with `spawn`/`spawn_blocking` (`true`) or `spawn_bg`/`spawn_bg_blocking` (`false`) -/
  reqMain : Bool := false
  phase : Phase := .absent
  /-- the guard it owns: `true` = `Task::Main` (a `CancelGuard`), `false` = `Task::Background` -/
  main : Bool := false
  out : Out := .ok
  val : Nat := 0
  /-- `set_err` was called for it -/
  reported : Bool := false
  deriving Inhabited

structure Scope where
  phase : SPhase := .absent
  ctx : Nat := 0
  /-- ghost: the caller's context (the scope context is its child) -/
  pctx : Nat := 0
  /-- the task that called `run!` (`none`: called from outside any task) -/
  owner : Option Nat := none
  root : Nat := 0
  /-- `run`'s own `guard` has not been dropped yet -/
  rgHeld : Bool := false
  /-- `CancelGuard::drop` has run -/
  cgd : Bool := false
  /-- the `CancelGuard` count is known to have reached zero (`cgd`, or an `upgrade` was seen to fail) -/
  mainClosed : Bool := false
  /-- `TerminateGuard::drop` has run (the `terminated` signal) -/
  tgd : Bool := false
  mainLow : Nat := 0
  termLow : Nat := 0
  slot : Slot := .empty
  /-- ghost: the `set_err` calls in mutex order: (task, is a panic) -/
  errLog : List (Nat × Bool) := []
  /-- ghost: `Scope::cancel` was called -/
  explicit : Bool := false
  result : Option Res := none
  deriving Inhabited

structure Ctx where
  present : Bool := false
  /-- the context itself and its ancestors, nearest first -/
  anc : List Nat := []
  /-- own deadline (absolute, clock units) -/
  deadline : Option Nat := none
  /-- `Ctx::cancel` was called on it (the marker precedes the `send`) -/
  cause : Bool := false
  /-- ghost: the scope whose context this is -/
  ofScope : Option Nat := none
  deriving Inhabited

structure State where
  task : Nat → Task
  scope : Nat → Scope
  ctx : Nat → Ctx
  /-- the nested scope whose `run!` a task is currently inside (a task body is sequential) -/
  inner : Nat → Option Nat
  /-- ids of all tasks spawned so far, newest first -/
  tids : List Nat
  /-- the manual clock -/
  now : Nat

/-- the caller's root context is context `0` -/
def init : State where
  task := fun _ => {}
  scope := fun _ => {}
  ctx := fun c => if c = 0 then { present := true, anc := [0] } else {}
  inner := fun _ => none
  tids := []
  now := 0

inductive Event where
  /-- `p.with_deadline(..)` / `with_timeout(..)`: a child context made by a task -/
  | ctxnew (c p : Nat) (deadline : Option Nat)
  /-- `run`/`run_blocking`: `State::make` done (scope context `c` = child of `p`); the root is spawned next -/
  | make (s c p : Nat) (owner : Option Nat) (root : Nat)
  /-- task `p` is about to call `s.spawn*(..)` for task `c` -/
  | spawn (p c : Nat) (reqMain : Bool)
  /-- the body of `c` starts; `main`: the `Task` variant it runs in -/
  | start (c : Nat) (main : Bool)
  /-- the body of `t` is about to return `Ok(val)` / `Err(val)` / to unwind -/
  | endT (t : Nat) (out : Out) (val : Nat)
  /-- one `set_err` critical section on the state of scope `s`, entered by task `t`: `stored` — the slot was
  written; `canceled` — `ctx.cancel()` was called inside it -/
  | seterr (s t : Nat) (isPanic stored canceled : Bool)
  /-- task `t` is about to drop its guard -/
  | rel (t : Nat)
  /-- `run` is about to `drop(guard)` -/
  | rgd (s : Nat)
  /-- `CancelGuard::drop` runs (`canceled`: it called `ctx.cancel()`) -/
  | cgd (s : Nat) (canceled : Bool)
  /-- `TerminateGuard::drop` runs -/
  | tgd (s : Nat)
  /-- `run!` returned `r` to its caller -/
  | ret (s : Nat) (r : Res)
  /-- task `t` calls `Scope::cancel` (`canceled`: it called `ctx.cancel()`) -/
  | cancel (s t : Nat) (canceled : Bool)
  /-- task `t` observed that context `c` is cancelled -/
  | obs (t c : Nat)
  /-- the manual clock is about to be advanced by `d` -/
  | advance (d : Nat)
  deriving Repr

def setTask (σ : State) (t : Nat) (x : Task) : State :=
  { σ with task := fun i => if i = t then x else σ.task i }

def setScope (σ : State) (s : Nat) (x : Scope) : State :=
  { σ with scope := fun i => if i = s then x else σ.scope i }

def setCtx (σ : State) (c : Nat) (x : Ctx) : State :=
  { σ with ctx := fun i => if i = c then x else σ.ctx i }

def setInner (σ : State) (t : Nat) (x : Option Nat) : State :=
  { σ with inner := fun i => if i = t then x else σ.inner i }

/-- a new task record; its id joins `tids` -/
def addTask (σ : State) (t : Nat) (x : Task) : State :=
  { setTask σ t x with tids := t :: σ.tids }

/-- mark the context of a scope as cancelled by a `Ctx::cancel` call -/
def causeCtx (σ : State) (c : Nat) : State :=
  setCtx σ c { σ.ctx c with cause := true }

def deadlinePassed (σ : State) (a : Nat) : Bool :=
  match (σ.ctx a).deadline with
  | some d => decide (d ≤ σ.now)
  | none => false

/-- a context is (or is about to be) cancelled: `cancel()` was called on it or on an ancestor, or the deadline of
it or of an ancestor has passed (`child_with_clock`'s watcher forwards both) -/
def eff (σ : State) (c : Nat) : Bool :=
  (σ.ctx c).anc.any fun a => (σ.ctx a).cause || deadlinePassed σ a

/-- `set_err`'s match: is the slot written? -/
def shouldStore (slot : Slot) (isPanic : Bool) : Bool :=
  match slot with
  | .empty => true
  | .err _ _ => isPanic          -- a panic overrides an error, an error does not override an error
  | .panic => false

/-- the tail of `run`: `match state.take_err()` -/
def resOf (slot : Slot) (rootOut : Out) (rootVal : Nat) : Res :=
  match slot with
  | .empty => if rootOut = .ok then .ok rootVal else .unwrapPanic
  | .err _ v => .err v
  | .panic => .panic

def outIsPanic (o : Out) : Bool := o == .panic

/-- the enabling condition of an event -/
def enabled (σ : State) : Event → Bool
  | .ctxnew c p _ =>
    !(σ.ctx c).present && (σ.ctx p).present
  | .make s c p owner root =>
    (σ.scope s).phase == .absent && !(σ.ctx c).present && (σ.ctx p).present && c != p
      && (σ.task root).phase == .absent
      && (match owner with
          | none => true
          | some o => (σ.task o).phase == .running && σ.inner o == none && o != root)
  | .spawn p c _ =>
    (σ.task p).phase == .running && σ.inner p == none && (σ.task c).phase == .absent
  | .start c main =>
    let t := σ.task c
    let sc := σ.scope t.scope
    t.phase == .pending && sc.termLow > 0 &&
      (if main then
        -- `cancel_guard.upgrade()` succeeded: asked for a main task, and the count had not reached zero
        t.reqMain && !sc.mainClosed
      else if t.reqMain then
        -- `upgrade()` failed: every `CancelGuard` owner has released; the spawner cannot own one
        sc.mainLow == 0 && (match t.parent with
                            | none => false
                            | some p => !(σ.task p).main)
      else true)
  | .endT t _ _ =>
    (σ.task t).phase == .running && σ.inner t == none
  | .seterr s t isPanic stored canceled =>
    let x := σ.task t
    x.phase == .ended && x.scope == s && !x.reported && x.out != .ok && outIsPanic x.out == isPanic
      && stored == shouldStore (σ.scope s).slot isPanic && canceled == stored
  | .rel t =>
    let x := σ.task t
    x.phase == .ended && (x.out == .ok || x.reported)
      && (if x.main then (σ.scope x.scope).mainLow > 0 else (σ.scope x.scope).termLow > 0)
  | .rgd s =>
    (σ.scope s).phase == .live && (σ.scope s).rgHeld && (σ.scope s).mainLow > 0
  | .cgd s canceled =>
    let sc := σ.scope s
    sc.phase == .live && !sc.cgd && sc.mainLow == 0 && sc.termLow > 0 && canceled
  | .tgd s =>
    let sc := σ.scope s
    sc.phase == .live && !sc.tgd && sc.termLow == 0
  | .ret s r =>
    let sc := σ.scope s
    sc.phase == .live && sc.tgd && r == resOf sc.slot (σ.task sc.root).out (σ.task sc.root).val
  | .cancel s t canceled =>
    (σ.task t).phase == .running && σ.inner t == none && (σ.task t).scope == s && canceled
  | .obs t c =>
    (σ.task t).phase == .running && σ.inner t == none && (σ.ctx c).present && eff σ c
  | .advance _ => true

/-- the effect of an (enabled) event -/
def apply (σ : State) : Event → State
  | .ctxnew c p d =>
    setCtx σ c { present := true, anc := c :: (σ.ctx p).anc, deadline := d }
  | .make s c p owner root =>
    let σ1 := setCtx σ c { present := true, anc := c :: (σ.ctx p).anc, ofScope := some s }
    let σ2 := setScope σ1 s { phase := .live, ctx := c, pctx := p, owner := owner, root := root, rgHeld := true,
                              mainLow := 1, termLow := 2 }
    let σ3 := match owner with
      | none => σ2
      | some o => setInner σ2 o (some s)
    addTask σ3 root { scope := s, parent := none, reqMain := true, phase := .pending }
  | .spawn p c req =>
    let s := (σ.task p).scope
    let σ1 := setScope σ s { σ.scope s with termLow := (σ.scope s).termLow + 1 }
    addTask σ1 c { scope := s, parent := some p, reqMain := req, phase := .pending }
  | .start c main =>
    let t := σ.task c
    let sc := σ.scope t.scope
    let sc' : Scope :=
      if main then { sc with mainLow := sc.mainLow + 1, termLow := sc.termLow - 1 }
      else if t.reqMain then { sc with mainClosed := true }
      else sc
    setTask (setScope σ t.scope sc') c { t with phase := .running, main := main }
  | .endT t out val =>
    setTask σ t { σ.task t with phase := .ended, out := out, val := val }
  | .seterr s t isPanic stored _ =>
    let sc := σ.scope s
    let slot' := if stored then (if isPanic then Slot.panic else Slot.err t (σ.task t).val) else sc.slot
    let σ1 := setScope σ s { sc with slot := slot', errLog := sc.errLog ++ [(t, isPanic)] }
    let σ2 := if stored then causeCtx σ1 sc.ctx else σ1
    setTask σ2 t { σ.task t with reported := true }
  | .rel t =>
    let x := σ.task t
    let sc := σ.scope x.scope
    let sc' : Scope := if x.main then { sc with mainLow := sc.mainLow - 1 } else { sc with termLow := sc.termLow - 1 }
    setTask (setScope σ x.scope sc') t { x with phase := .released }
  | .rgd s =>
    let sc := σ.scope s
    setScope σ s { sc with rgHeld := false, mainLow := sc.mainLow - 1 }
  | .cgd s _ =>
    let sc := σ.scope s
    causeCtx (setScope σ s { sc with cgd := true, mainClosed := true, termLow := sc.termLow - 1 }) sc.ctx
  | .tgd s =>
    setScope σ s { σ.scope s with tgd := true }
  | .ret s r =>
    let sc := σ.scope s
    let σ1 := setScope σ s { sc with phase := .returned, result := some r }
    match sc.owner with
    | none => σ1
    | some o => setInner σ1 o none
  | .cancel s _ _ =>
    let sc := σ.scope s
    causeCtx (setScope σ s { sc with explicit := true }) sc.ctx
  | .obs _ _ => σ
  | .advance d => { σ with now := σ.now + d }

/-- one transition: `none` = the model does not allow this event here -/
def step? (σ : State) (e : Event) : Option State :=
  if enabled σ e then some (apply σ e) else none

/-- replay of a log -/
def run (σ : State) : List Event → Option State
  | [] => some σ
  | e :: es =>
    match step? σ e with
    | some σ' => run σ' es
    | none => none

/-- replay that reports the index of the first event the model does not allow -/
def runIdx (σ : State) (i : Nat) : List Event → State × Option Nat
  | [] => (σ, none)
  | e :: es =>
    match step? σ e with
    | some σ' => runIdx σ' (i + 1) es
    | none => (σ, some i)

/-- every task spawned has released its guard and every scope made has returned -/
def quiescent (σ : State) (sids : List Nat) : Bool :=
  σ.tids.all (fun t => (σ.task t).phase == .released) && sids.all (fun s => (σ.scope s).phase != .live)

end EraVerif.Model.Scope
