import EraVerif.Model.Handshake
import EraVerif.Model.Pool

/-!
# Model of connection admission (C12): handshake, then pool insert; pool remove when the connection ends

Transcription of the admission paths
* `gossip/runner.rs`   `run_inbound_stream` (handshake::inbound → `inbound.insert(conn.key, conn)?` → serve →
  `inbound.remove(&conn.key)`), `run_outbound_stream` (handshake::outbound(.., peer) → `outbound.insert(peer, conn)?`
  → serve → `outbound.remove(peer)`)
* `consensus/mod.rs`   `run_inbound_stream`, `run_outbound_stream` (same shape), and the construction of the pools:
  `gossip/mod.rs:79-84` (`inbound = PoolWatch::new(static_inbound, dynamic_inbound_limit)`,
  `outbound = PoolWatch::new(static_outbound.keys(), 0)`) and `consensus/mod.rs:145-151`
  (`inbound = outbound = PoolWatch::new(validators, 0)`, only if the node has a validator key and a schedule)
* `lib.rs:243-249` an inbound ConsensusNet stream on a node without consensus network is dropped.

A refused connection (`?` on the handshake or on the insert) returns before the `remove`, so it never removes
the entry of an existing connection of the same key. The value stored in the pool is the connection itself
(`Arc<Connection>` / `Arc<MeteredStreamStats>`); the model stores the connection id.
-/

namespace EraVerif.Model.PeerNet
open EraVerif.Model.Handshake
open EraVerif.Model.Pool (Pool Obs)

structure Cfg where
  /-- `cfg.gossip.key` -/
  nodeKey : Key
  /-- `cfg.validator_key` (with an epoch and a schedule): `none` = no consensus network -/
  valKey : Option Key
  /-- `engine_manager.genesis_hash()` -/
  genesis : Gen
  /-- keys of the validator schedule of the epoch -/
  committee : List Key
  /-- `cfg.gossip.static_inbound` -/
  staticIn : List Key
  /-- `cfg.gossip.dynamic_inbound_limit` -/
  dynLimit : Nat
  /-- keys of `cfg.gossip.static_outbound` -/
  staticOut : List Key
deriving DecidableEq, Repr

/-- an admitted connection that is still being served -/
structure Live where
  conn : Nat
  net : Net
  dir : Dir
  key : Key
deriving DecidableEq, Repr

structure Node where
  cfg : Cfg
  gIn : Pool
  gOut : Pool
  cIn : Pool
  cOut : Pool
  live : List Live
deriving DecidableEq, Repr

/-- `gossip::Network::new` + `consensus::Network::new` -/
def Node.new (cfg : Cfg) : Node :=
  { cfg := cfg
    gIn := Pool.new cfg.staticIn cfg.dynLimit
    gOut := Pool.new cfg.staticOut 0
    cIn := Pool.new cfg.committee 0
    cOut := Pool.new cfg.committee 0
    live := [] }

def Node.pool (n : Node) : Net → Dir → Pool
  | .gossip, .inbound => n.gIn
  | .gossip, .outbound => n.gOut
  | .consensus, .inbound => n.cIn
  | .consensus, .outbound => n.cOut

def Node.setPool (n : Node) (net : Net) (dir : Dir) (p : Pool) : Node :=
  match net, dir with
  | .gossip, .inbound => { n with gIn := p }
  | .gossip, .outbound => { n with gOut := p }
  | .consensus, .inbound => { n with cIn := p }
  | .consensus, .outbound => { n with cOut := p }

/-- A connection attempt reaching `run_{in,out}bound_stream`, or the end of a served connection. -/
inductive Ev where
  /-- `conn`: id of the connection; `sid`: `stream.id()`; `peer`: dialled peer (outbound); `recv`, `sendOk`: what
      the stream does to the handshake -/
  | connect (net : Net) (dir : Dir) (conn : Nat) (sid : Sid) (peer : Key) (sendOk : Bool) (recv : Option Frame)
  /-- the served connection `conn` ends (`run_stream` / `service.run` returns) -/
  | close (conn : Nat)
deriving DecidableEq, Repr

inductive Out where
  | admitted (key : Key)
  | refusedHandshake (e : Err)
  | refusedPool (o : Obs)
  /-- ConsensusNet stream on a node without consensus network, or an outbound consensus dial on such a node -/
  | noConsensus
  | closed (key : Key)
  | closedUnderflow
  | notLive
deriving DecidableEq, Repr

/-- the key the node signs with on `net` (`none`: the node has no consensus network) -/
def Node.me? (n : Node) : Net → Option Key
  | .gossip => some n.cfg.nodeKey
  | .consensus => n.cfg.valKey

def handshakeOf (n : Node) (me : Key) (net : Net) (dir : Dir) (sid : Sid) (peer : Key) (sendOk : Bool)
    (recv : Option Frame) : Outcome :=
  Run.outcome { net := net, dir := dir, me := me, genesis := n.cfg.genesis, session := 0, initiator := false,
                sid := sid, peer := peer, sendOk := sendOk, recv := recv }

/-- the key under which an accepted connection is inserted: inbound — the key returned by the handshake
    (`conn.key` / `peer`); outbound — the dialled `peer` (`insert(peer.clone(), ..)`) -/
def admitKey (dir : Dir) (key peer : Key) : Key :=
  match dir with
  | .inbound => key
  | .outbound => peer

def Node.step (n : Node) : Ev → Node × Out
  | .connect net dir conn sid peer sendOk recv =>
    match n.me? net with
    | none => (n, .noConsensus)
    | some me =>
    match (handshakeOf n me net dir sid peer sendOk recv).res with
    | .err e => (n, .refusedHandshake e)
    | .ok key =>
      let k := admitKey dir key peer
      let r := (n.pool net dir).insert k conn
      if r.2 = .ok then
        ({ n.setPool net dir r.1 with live := n.live ++ [{ conn := conn, net := net, dir := dir, key := k }] },
         .admitted k)
      else (n, .refusedPool r.2)
  | .close conn =>
    match n.live.find? (fun l => l.conn == conn) with
    | none => (n, .notLive)
    | some l =>
      let r := (n.pool l.net l.dir).remove l.key
      let n' := { n.setPool l.net l.dir r.1 with live := n.live.filter (fun x => x.conn != conn) }
      if r.2 = .underflow then (n', .closedUnderflow) else (n', .closed l.key)

def Node.run (n : Node) : List Ev → Node × List Out
  | [] => (n, [])
  | ev :: evs =>
    let (n', o) := n.step ev
    let (n'', os) := n'.run evs
    (n'', o :: os)

end EraVerif.Model.PeerNet
