import EraVerif.Gen.NoiseConst
import EraVerif.Model.C10Std

/-!
# C10 — read half of the encrypted stream (`node/components/network/src/noise/{stream,bytes}.rs`)

`bytes::Buffer` with explicit slice-bounds panics, and `poll_read_frame` / `poll_read_payload` / `poll_read` over
an arbitrary transport byte string, an arbitrary fragmentation of the transport reads and an arbitrary
decryption oracle (`snow`, third party: `dec nonce ciphertext = some payloadLen` or `none`).
Buffer capacities are the **generated** constants of `Gen/NoiseConst.lean`.
-/

namespace EraVerif.Model.C10.Noise
open EraVerif.Gen.NoiseConst
open EraVerif.Model.C10

/-- `bytes::Buffer`: `inner` has `cap` bytes, the content is `inner[begin..end]`; `content` are those bytes, so
`end = begin + content.length`. -/
structure Buf where
  cap : Nat
  begin_ : Nat
  content : List Nat
  deriving Repr, DecidableEq

namespace Buf
def new (cap : Nat) : Buf := ⟨cap, 0, []⟩
def end_ (b : Buf) : Nat := b.begin_ + b.content.length
/-- `len()` -/
def len (b : Buf) : Nat := b.content.length
/-- `capacity()` = `inner.len() - end` (usize subtraction) -/
def capacity (b : Buf) : Nat := b.cap - b.end_

/-- `as_mut_capacity()` = `&mut inner[end..]`: panics if `end > inner.len()`; returns the room -/
def asMutCapacity (b : Buf) : Res Nat :=
  if b.end_ ≤ b.cap then .ok (b.cap - b.end_) else .panic "bytes.rs: inner[end..] out of range"

/-- writing `bs` into the capacity slice followed by `extend(bs.length)`; a slice shorter than `bs` would be an
index panic in the writer -/
def fill (b : Buf) (bs : List Nat) : Res Buf :=
  match b.asMutCapacity with
  | .ok room => if bs.length ≤ room then .ok { b with content := b.content ++ bs } else .panic "write past the capacity slice"
  | .err w => .err w
  | .panic s => .panic s

/-- `as_slice()` = `&inner[begin..end]` -/
def asSlice (b : Buf) : Res (List Nat) :=
  if b.end_ ≤ b.cap then .ok b.content else .panic "bytes.rs: inner[begin..end] out of range"

/-- `take(n)`: `begin += n` (only a `debug_assert`); taking more than the content makes `begin > end` -/
def take (b : Buf) (n : Nat) : Res Buf :=
  if n ≤ b.content.length then .ok { b with begin_ := b.begin_ + n, content := b.content.drop n }
  else .panic "bytes.rs: take past the end (begin > end)"

/-- `prefix::<2>()` = `inner[begin..begin+2].try_into().unwrap()` -/
def prefix2 (b : Buf) : Res Nat :=
  if b.begin_ + 2 ≤ b.cap then
    if 2 ≤ b.content.length then .ok (b.content.getD 0 0 + 256 * b.content.getD 1 0)
    else .panic "bytes.rs: prefix of a buffer shorter than N (stale bytes)"
  else .panic "bytes.rs: inner[begin..begin+N] out of range"

/-- `shift()`: `copy_within(begin..end, 0); end -= begin; begin = 0` -/
def shift (b : Buf) : Res Buf :=
  if b.end_ ≤ b.cap then .ok { b with begin_ := 0 } else .panic "bytes.rs: copy_within out of range"

/-- `reset()` -/
def reset (b : Buf) : Buf := { b with begin_ := 0, content := [] }
end Buf

/-- third-party decryption: `noise.read_message(ciphertext, out)` for the `nonce`-th frame; `some m` = the
plaintext length. -/
abbrev Dec := Nat → List Nat → Option Nat

structure Rd where
  frame : Buf
  payload : Buf
  /-- transport bytes not read yet (the transport reports end of stream after them) -/
  wire : List Nat
  /-- sizes of the successive transport reads (how TCP fragments the stream); `[]` = as much as fits -/
  frags : List Nat
  nonce : Nat
  deriving Repr

def Rd.init (wire frags : List Nat) : Rd :=
  { frame := Buf.new MAX_FRAME_LEN, payload := Buf.new MAX_PAYLOAD_LEN, wire, frags, nonce := 0 }

/-- one transport `poll_read` into a slice of `room` bytes: how many bytes it returns -/
def Rd.innerReadLen (r : Rd) (room : Nat) : Nat :=
  let want := match r.frags with
    | [] => r.wire.length
    | f :: _ => max f 1
  min (min want room) r.wire.length

inductive FrameRes where
  | frame (n : Nat) (r : Rd)
  | eof (r : Rd)
  | panic (site : String)
  | fuel

/-- `poll_read_frame` (stream.rs:176-201): loop until the frame buffer holds a whole frame -/
def pollReadFrame : (fuel : Nat) → Rd → FrameRes
  | 0, _ => .fuel
  | fuel + 1, r =>
    -- `if frame.len() >= LENGTH_FIELD_LEN { n = u16::from_le_bytes(frame.prefix()); if frame.len() >= LENGTH_FIELD_LEN + n { return n } }`
    let complete : Res (Option Nat) :=
      if r.frame.len ≥ LENGTH_FIELD_LEN then
        match r.frame.prefix2 with
        | .ok n => if r.frame.len ≥ LENGTH_FIELD_LEN + n then .ok (some n) else .ok none
        | .err w => .err w
        | .panic s => .panic s
      else .ok none
    match complete with
    | .panic s => .panic s
    | .err _ => .panic "unreachable"
    | .ok (some n) => .frame n r
    | .ok none =>
      -- `ReadBuf::new(frame.as_mut_capacity())`; `inner.poll_read`; `n = filled().len()`
      match r.frame.asMutCapacity with
      | .panic s => .panic s
      | .err _ => .panic "unreachable"
      | .ok room =>
        let n := r.innerReadLen room
        if n = 0 then .eof r      -- "propagate EOF"
        else
          match r.frame.fill (r.wire.take n) with
          | .panic s => .panic s
          | .err _ => .panic "unreachable"
          | .ok fb => pollReadFrame fuel { r with frame := fb, wire := r.wire.drop n, frags := r.frags.drop 1 }

inductive ReadRes where
  /-- `n` plaintext bytes were put into the caller's buffer (`0` = the caller sees end of stream) -/
  | data (n : Nat) (r : Rd)
  /-- `io::ErrorKind::InvalidData` -/
  | invalid (r : Rd)
  | panic (site : String)
  | fuel

/-- the tail of `poll_read`: `n = min(buf.remaining(), payload.len()); buf.put_slice(&payload.as_slice()[..n]);
payload.take(n)` -/
def deliver (k : Nat) (r : Rd) : ReadRes :=
  let n := min k r.payload.len
  match r.payload.asSlice with
  | .panic s => .panic s
  | .err _ => .panic "unreachable"
  | .ok _ =>
    match r.payload.take n with
    | .panic s => .panic s
    | .err _ => .panic "unreachable"
    | .ok pb => .data n { r with payload := pb }

/-- decrypting the complete frame of `n` bytes at the head of the frame buffer into the (reset) payload buffer
(`poll_read_payload`, stream.rs:214-226) -/
def decryptFrame (dec : Dec) (k : Nat) (n : Nat) (r : Rd) : ReadRes :=
  let payload := r.payload.reset
  -- `&frame.as_slice()[LENGTH_FIELD_LEN..LENGTH_FIELD_LEN + n]`
  match r.frame.asSlice with
  | .panic s => .panic s
  | .err _ => .panic "unreachable"
  | .ok sl =>
    if sl.length < LENGTH_FIELD_LEN + n then .panic "stream.rs: frame slice [2..2+n] out of range"
    else
      let ciphertext := (sl.drop LENGTH_FIELD_LEN).take n
      match payload.asMutCapacity with
      | .panic s => .panic s
      | .err _ => .panic "unreachable"
      | .ok room =>
        match dec r.nonce ciphertext with
        | none => .invalid r
        | some m =>
          if m > room then .invalid r   -- snow: output buffer too small is an error, not a panic
          else
            match r.frame.take (LENGTH_FIELD_LEN + n) with
            | .panic s => .panic s
            | .err _ => .panic "unreachable"
            | .ok fb =>
              match fb.shift with
              | .panic s => .panic s
              | .err _ => .panic "unreachable"
              | .ok fb =>
                -- `payload.extend(m)`
                match payload.fill (List.replicate m 0) with
                | .panic s => .panic s
                | .err _ => .panic "unreachable"
                | .ok pb => deliver k { r with frame := fb, payload := pb, nonce := r.nonce + 1 }

/-- `AsyncRead::poll_read` with `buf.remaining() = k` (stream.rs:203-255), i.e. `poll_read_payload` followed by
the copy into the caller's buffer -/
def pollRead (dec : Dec) (fuel : Nat) (r : Rd) (k : Nat) : ReadRes :=
  if r.payload.len > 0 then deliver k r
  else
    match pollReadFrame fuel r with
    | .fuel => .fuel
    | .panic s => .panic s
    | .eof r => deliver k r
    | .frame n r => decryptFrame dec k n r

inductive End where
  | eof | invalid | panic (site : String) | fuel
  deriving Repr, DecidableEq

def End.name : End → String
  | .eof => "eof" | .invalid => "invalid_data" | .panic _ => "panic" | .fuel => "fuel"

/-- the application reads with buffers of `k` bytes until end of stream or error; total plaintext delivered -/
def readAll (dec : Dec) (k : Nat) : (fuel : Nat) → Rd → Nat → Nat × End × Rd
  | 0, r, acc => (acc, .fuel, r)
  | fuel + 1, r, acc =>
    match pollRead dec (r.wire.length + 1) r k with
    | .fuel => (acc, .fuel, r)
    | .panic s => (acc, .panic s, r)
    | .invalid r' => (acc, .invalid, r')
    | .data 0 r' => (acc, .eof, r')
    | .data n r' => readAll dec k fuel r' (acc + n)

/-- the contract of the decryption oracle that the bounds proof relies on: the plaintext is the ciphertext
minus the 16-byte tag -/
def DecContract (dec : Dec) : Prop := ∀ i c m, dec i c = some m → m + AUTHDATA_LEN = c.length

end EraVerif.Model.C10.Noise
