import EraVerif.Model.Consensus

/-!
# Layer I — executable replica

Transcription of `node/components/bft/src/v2_chonky_bft/{mod,proposal,commit,timeout,new_view,block,proposer}.rs`:
the order of checks, the order of effects (state update → `set_state` → broadcast; the proposer notification
*before* the backup in `start_new_view`), the four vote caches and their pruning, the proposal cache, and restart
from the persisted `ChonkyV2State`. What the handler awaits from its environment (previous block persisted before the
deadline? payload verifies? first block still held? next block the store can accept?) is an input of the step (`Env`).

View numbers wrap at 2^64 where the Rust uses `ViewNumber::next` (release profile semantics).
-/

namespace EraVerif.Model

inductive Phase where
  | prepare | commit | timeout
deriving DecidableEq, Repr, Inhabited

/-- a payload: its hash id and its size in bytes -/
structure Payload where
  id : Nat
  size : Nat
deriving DecidableEq, Repr, Inhabited

inductive Msg where
  | proposal (payload : Option Payload) (j : Just)
  | commit (v : Vote)
  | timeout (t : TVote)
  | newView (j : Just)
deriving DecidableEq, Repr, Inhabited

/-- a signed consensus message: `key` is the signer's index (`key ≥ n` = a key outside the committee) -/
structure Signed where
  msg : Msg
  key : Nat
  sigOk : Bool
deriving DecidableEq, Repr, Inhabited

/-- `ChonkyV2State` (what `backup_state` persists) -/
structure Durable where
  view : Nat
  phase : Phase
  highVote : Option Vote
  highCommitQC : Option CommitQC
  highTimeoutQC : Option TimeoutQC
  /-- `block_proposal_cache`, flattened: (block number, payload) -/
  proposals : List (Nat × Payload)
deriving DecidableEq, Repr, Inhabited

structure Replica extends Durable where
  /-- `commit_views_cache`: validator ↦ latest commit view -/
  commitViews : List (Nat × Nat)
  /-- `commit_qcs_cache`: view ↦ vote ↦ certificate under construction -/
  commitQCs : List (Nat × List (Vote × CommitQC))
  timeoutViews : List (Nat × Nat)
  timeoutQCs : List (Nat × TimeoutQC)
deriving Repr, Inhabited

/-- static configuration of the replica -/
structure RCfg where
  c : Committee
  /-- `Schedule::view_leader` (C11): the canonical index of the leader of a view -/
  leader : Nat → Nat
  maxPayload : Nat

/-- what the handler learns from its environment during one step -/
structure Env where
  /-- `engine_manager.queued().first` -/
  queuedFirst : Nat
  /-- `persisted().next()`: `wait_until_persisted(prev)` returns before the view deadline iff `prev < persistedNext` -/
  persistedNext : Nat
  /-- `verify_payload` answered ok -/
  payloadOk : Bool
  /-- `queued().next()`: `queue_block` waits (forever, if nothing else feeds the store) for a block above it -/
  storeNext : Nat
deriving Repr, Inhabited

inductive Effect where
  | persist (d : Durable)
  | send (m : Msg)
  | notify (j : Just)
  | queueBlock (number : Nat) (payload : Nat) (q : CommitQC)
deriving Repr

inductive Reject where
  | old | invalidLeader | nonValidator | duplicate | badSignature | invalidMessage
  | pruned | reproposalWithPayload | missingPayload | oversized | missingPrevious | invalidPayload
deriving DecidableEq, Repr

inductive Outcome where
  | accepted
  | rejected (why : Reject)
  /-- the handler is stuck in `queue_block` waiting for the store to reach the block (a cancellation then kills
  the replica task; state is whatever was persisted) -/
  | blocked
  | panic (site : String)
deriving Repr

/-- result of a step: new state, ordered effects, outcome -/
structure StepRes where
  r : Replica
  effs : List Effect
  out : Outcome
deriving Repr

def Replica.durable (r : Replica) : Durable := r.toDurable

def initDurable : Durable :=
  { view := 0, phase := .prepare, highVote := none, highCommitQC := none, highTimeoutQC := none, proposals := [] }

/-- `StateMachine::start`: restore the backup of the same epoch, else the default state; caches empty -/
def Replica.start (backup : Option Durable) : Replica :=
  { toDurable := backup.getD initDurable, commitViews := [], commitQCs := [], timeoutViews := [], timeoutQCs := [] }

/-! ## association-list helpers (BTreeMap semantics where only membership / lookup matter) -/

def alGet {β : Type} (l : List (Nat × β)) (k : Nat) : Option β := (l.find? (fun e => e.1 == k)).map (·.2)
def alSet {β : Type} (l : List (Nat × β)) (k : Nat) (v : β) : List (Nat × β) :=
  if l.any (fun e => e.1 == k) then l.map (fun e => if e.1 == k then (k, v) else e) else l ++ [(k, v)]
def alErase {β : Type} (l : List (Nat × β)) (k : Nat) : List (Nat × β) := l.filter (fun e => e.1 != k)

/-! ## `process_commit_qc` / `process_timeout_qc` / `save_block` -/

/-- `save_block`: if the proposal cache holds the certified payload, hand the block to the store -/
def saveBlock (r : Replica) (e : Env) (q : CommitQC) : List Effect × Bool :=
  match r.proposals.find? (fun p => p.1 == q.message.proposal.number && p.2.id == q.message.proposal.payload) with
  | none => ([], true)
  | some _ =>
    -- `queue_block` first waits until `queued.next() ≥ number`; `try_push` then appends the block only if it is
    -- exactly the next one, and the store's queueing task hands over only blocks at or above `persisted.next()`
    -- (a block the store already has — e.g. obtained by block sync — is not handed over again)
    if q.message.proposal.number > e.storeNext then ([], false)
    else if q.message.proposal.number = e.storeNext ∧ e.persistedNext ≤ q.message.proposal.number then
      ([.queueBlock q.message.proposal.number q.message.proposal.payload q], true)
    else ([], true)

/-- `process_commit_qc`; the Bool is false when `save_block` is stuck -/
def processCommitQC (r : Replica) (e : Env) (q : CommitQC) : Replica × List Effect × Bool :=
  let newer := match r.highCommitQC with
    | none => true
    | some cur => cur.message.view.number < q.message.view.number
  if newer then
    let r' := { r with highCommitQC := some q }
    let (effs, ok) := saveBlock r' e q
    (r', effs, ok)
  else (r, [], true)

def processTimeoutQC (r : Replica) (e : Env) (q : TimeoutQC) : Replica × List Effect × Bool :=
  let (r1, effs, ok) := match q.highQC with
    | some hq => processCommitQC r e hq
    | none => (r, [], true)
  if !ok then (r1, effs, false) else
  let newer := match r1.highTimeoutQC with
    | none => true
    | some old => old.view.number < q.view.number
  (if newer then { r1 with highTimeoutQC := some q } else r1, effs, true)

def processJust (r : Replica) (e : Env) : Just → Replica × List Effect × Bool
  | .commit q => processCommitQC r e q
  | .timeout q => processTimeoutQC r e q

/-! ## `get_justification`, `start_new_view`, `start_timeout` -/

/-- `Option<&View>` comparison of `get_justification`: `None < Some`, views compared lexicographically
(genesis, epoch, number) — here both certificates were verified against the same chain and epoch, so only the
number decides; commit preferred on a tie -/
def getJustification (r : Replica) : Res Just :=
  match r.highCommitQC, r.highTimeoutQC with
  | none, none => .panic "get_justification: assert!(high_commit_qc.is_some() || high_timeout_qc.is_some())"
  | some c, none => .ok (.commit c)
  | none, some t => .ok (.timeout t)
  | some c, some t => if c.message.view.number ≥ t.view.number then .ok (.commit c) else .ok (.timeout t)

def startNewView (r : Replica) (view : Nat) : StepRes :=
  let r1 := { r with view := view, phase := .prepare }
  match getJustification r1 with
  | .panic s => { r := r1, effs := [], out := .panic s }
  | .ok j =>
    let r2 := match r1.highCommitQC with
      | some qc => { r1 with proposals := r1.proposals.filter (fun p => p.1 > qc.message.proposal.number) }
      | none => r1
    { r := r2, effs := [.notify j, .persist r2.durable, .send (.newView j)], out := .accepted }

/-- `start_timeout` (the view timer fired) -/
def startTimeout (cfg : RCfg) (r : Replica) : StepRes :=
  let r1 := { r with phase := .timeout }
  let persist := [Effect.persist r1.durable]
  let tv : TVote := { view := { genesis := cfg.c.genesis, epoch := cfg.c.epoch, number := r1.view },
                      highVote := r1.highVote, highQC := r1.highCommitQC }
  if r1.view ≠ 0 then
    match getJustification r1 with
    | .panic s => { r := r1, effs := persist, out := .panic s }
    | .ok j => { r := r1, effs := persist ++ [.send (.newView j), .send (.timeout tv)], out := .accepted }
  else { r := r1, effs := persist ++ [.send (.timeout tv)], out := .accepted }

/-! ## `on_proposal` -/

def rej (r : Replica) (w : Reject) : StepRes := { r := r, effs := [], out := .rejected w }

def onProposal (cfg : RCfg) (r : Replica) (e : Env) (key : Nat) (sigOk : Bool) (payload : Option Payload) (j : Just) : StepRes :=
  let view := j.viewNumber
  if view < r.view ∨ (view = r.view ∧ r.phase ≠ .prepare) then rej r .old
  else if key ≠ cfg.leader view then rej r .invalidLeader
  else if !sigOk then rej r .badSignature
  else if !(j.verify cfg.c) then rej r .invalidMessage
  else
    let (num, ohash) := j.impliedBlock cfg.c
    if num < e.queuedFirst then rej r .pruned
    else
      -- determine the hash to vote for (and cache a fresh payload)
      let decided : Except Reject (Nat × Replica) :=
        match ohash, payload with
        | some _, some _ => .error .reproposalWithPayload
        | some h, none => .ok (h, r)
        | none, none => .error .missingPayload
        | none, some p =>
          if p.size > cfg.maxPayload then .error .oversized
          else if num ≠ 0 ∧ ¬ (num - 1 < e.persistedNext) then .error .missingPrevious
          else if !e.payloadOk then .error .invalidPayload
          else
            -- `entry(number).or_default().insert(hash, payload)`
            let ps := if r.proposals.any (fun q => q.1 == num && q.2.id == p.id) then r.proposals else r.proposals ++ [(num, p)]
            .ok (p.id, { r with proposals := ps })
      match decided with
      | .error w => rej r w
      | .ok (h, r0) =>
        let vote : Vote := { view := j.view, proposal := { number := num, payload := h } }
        let r1 := { r0 with view := view, phase := .commit, highVote := some vote }
        let (r2, effs, ok) := processJust r1 e j
        if !ok then { r := r2, effs := effs, out := .blocked }
        else { r := r2, effs := effs ++ [.persist r2.durable, .send (.commit vote)], out := .accepted }

/-! ## `on_commit` / `on_timeout` -/

def activeViews (vs : List (Nat × Nat)) : List Nat := vs.map (·.2)

def onCommit (cfg : RCfg) (r : Replica) (e : Env) (key : Nat) (sigOk : Bool) (v : Vote) : StepRes :=
  if key ≥ cfg.c.n then rej r .nonValidator
  else if v.view.number < r.view then rej r .old
  else if (match alGet r.commitViews key with | some w => decide (w ≥ v.view.number) | none => false) then rej r .duplicate
  else if !sigOk then rej r .badSignature
  else if !(v.verify cfg.c) then rej r .invalidMessage
  else
    let byView := (alGet r.commitQCs v.view.number).getD []
    let qc0 := ((byView.find? (fun x => x.1 = v)).map (·.2)).getD (CommitQC.new cfg.c v)
    match qc0.add cfg.c { key := some key, sigOk := sigOk } v with
    | .error _ => { r := r, effs := [], out := .panic "could not add message to CommitQC" }
    | .ok qc =>
      let byView' := if byView.any (fun x => x.1 = v) then byView.map (fun x => if x.1 = v then (v, qc) else x) else byView ++ [(v, qc)]
      let cqs := alSet r.commitQCs v.view.number byView'
      let cvs := alSet r.commitViews key v.view.number
      let act := activeViews cvs
      let cqs := cqs.filter (fun x => act.contains x.1)
      let r1 := { r with commitViews := cvs, commitQCs := cqs }
      if weightOf cfg.c.weights qc.signers < cfg.c.quorum then { r := r1, effs := [], out := .accepted }
      else
        let r2 := { r1 with commitQCs := alErase r1.commitQCs v.view.number }
        let (r3, effs, ok) := processCommitQC r2 e qc
        if !ok then { r := r3, effs := effs, out := .blocked }
        else
          let s := startNewView r3 (nextU64 v.view.number)
          { s with effs := effs ++ s.effs }

def onTimeout (cfg : RCfg) (r : Replica) (e : Env) (key : Nat) (sigOk : Bool) (t : TVote) : StepRes :=
  if key ≥ cfg.c.n then rej r .nonValidator
  else if t.view.number < r.view then rej r .old
  else if (match alGet r.timeoutViews key with | some w => decide (w ≥ t.view.number) | none => false) then rej r .duplicate
  else if !sigOk then rej r .badSignature
  else if !(t.verify cfg.c) then rej r .invalidMessage
  else
    let qc0 := (alGet r.timeoutQCs t.view.number).getD (TimeoutQC.new t.view)
    match qc0.add cfg.c { key := some key, sigOk := sigOk } t with
    | .error _ => { r := r, effs := [], out := .panic "could not add message to TimeoutQC" }
    | .ok qc =>
      match qc.weight cfg.c with
      | .panic s => { r := r, effs := [], out := .panic s }
      | .ok weight =>
        let tqs := alSet r.timeoutQCs t.view.number qc
        let tvs := alSet r.timeoutViews key t.view.number
        let act := activeViews tvs
        let tqs := tqs.filter (fun x => act.contains x.1)
        let r1 := { r with timeoutViews := tvs, timeoutQCs := tqs }
        if weight < cfg.c.quorum then { r := r1, effs := [], out := .accepted }
        else
          let r2 := { r1 with timeoutQCs := alErase r1.timeoutQCs t.view.number }
          let (r3, effs, ok) := processTimeoutQC r2 e qc
          if !ok then { r := r3, effs := effs, out := .blocked }
          else
            let s := startNewView r3 (nextU64 t.view.number)
            { s with effs := effs ++ s.effs }

/-! ## `on_new_view` -/

def onNewView (cfg : RCfg) (r : Replica) (e : Env) (key : Nat) (sigOk : Bool) (j : Just) : StepRes :=
  let view := j.viewNumber
  if view < r.view ∨ (view = r.view ∧ key ≠ cfg.leader r.view) then rej r .old
  else if key ≥ cfg.c.n then rej r .nonValidator
  else if !sigOk then rej r .badSignature
  else if !(j.verify cfg.c) then rej r .invalidMessage
  else
    let (r1, effs, ok) := processJust r e j
    if !ok then { r := r1, effs := effs, out := .blocked }
    else if view > r1.view then
      let s := startNewView r1 view
      { s with effs := effs ++ s.effs }
    else { r := r1, effs := effs, out := .accepted }

/-! ## the step function -/

inductive Input where
  | msg (s : Signed)
  | tick
  /-- crash + restart from `backup` (`none` = no backup of this epoch: default state) -/
  | restart (backup : Option Durable)
deriving Repr

def step (cfg : RCfg) (r : Replica) (e : Env) : Input → StepRes
  | .msg s =>
    match s.msg with
    | .proposal p j => onProposal cfg r e s.key s.sigOk p j
    | .commit v => onCommit cfg r e s.key s.sigOk v
    | .timeout t => onTimeout cfg r e s.key s.sigOk t
    | .newView j => onNewView cfg r e s.key s.sigOk j
  | .tick => startTimeout cfg r
  | .restart b => { r := Replica.start b, effs := [], out := .accepted }

/-- `create_proposal`: `none` = the proposer waits for the previous block (not persisted) -/
def createProposal (cfg : RCfg) (e : Env) (j : Just) (fresh : Payload) : Option Msg :=
  let (num, ohash) := j.impliedBlock cfg.c
  match ohash with
  | some _ => some (.proposal none j)
  | none => if num ≠ 0 ∧ ¬ (num - 1 < e.persistedNext) then none else some (.proposal (some fresh) j)

end EraVerif.Model
