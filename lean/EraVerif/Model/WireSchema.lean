/-!
# Wire schemas (C09)

The part of a protobuf message descriptor that `zksync_protobuf::canonical_raw` and
`zksync_protobuf_build::canonical::check` look at. `Gen/Schemas.lean` (regenerated from every `.proto` under
`/repo/node` on every check run) is a `List MsgSchema`; a message-typed field refers to its message by index
into that list. The correspondence run additionally feeds schemas that do not occur in the repository
(maps, implicit presence, proto2, repeated scalars of every wire type) as inline tables.

No Mathlib; everything is computable.
-/

namespace EraVerif.Model.Wire

/-- Kind of a field, reduced to what decides the wire format
(`impl From<prost_reflect::Kind> for Wire` in proto_fmt.rs):
int32/int64/uint32/uint64/sint32/sint64/bool/enum ↦ `varint`; fixed64/sfixed64/double ↦ `fixed64`;
fixed32/sfixed32/float ↦ `fixed32`; string/bytes ↦ `bytes`; message ↦ `msg i` (index into the table). -/
inductive Kind where
  | varint
  | fixed64
  | fixed32
  | bytes
  | msg (idx : Nat)
deriving DecidableEq, Repr, Inhabited

/-- One field of a message descriptor.
* `repeated` = `FieldDescriptor::is_list()` (repeated and not a map),
* `explicitPresence` = `FieldDescriptor::supports_presence()` (proto3: `optional`, member of a oneof, or a
  singular message-typed field),
* `isMap` = `FieldDescriptor::is_map()`. -/
structure FieldSchema where
  num : Nat
  kind : Kind
  repeated : Bool
  explicitPresence : Bool
  isMap : Bool := false
deriving DecidableEq, Repr, Inhabited

/-- One message descriptor. `proto3` = the file it comes from has `syntax = "proto3"`. -/
structure MsgSchema where
  name : String
  fields : List FieldSchema
  proto3 : Bool := true
deriving Repr, Inhabited

/-- All messages known to one descriptor pool. -/
abbrev Table := List MsgSchema

/-- `MessageDescriptor::get_field(num)`. -/
def MsgSchema.getField (m : MsgSchema) (num : Nat) : Option FieldSchema :=
  m.fields.find? (fun f => f.num == num)

/-- Field-level restriction of `protobuf_build/src/canonical.rs::check_field` (without the recursion into the
message type, which `supportsCanonical` below performs over the whole table at once). -/
def FieldSchema.canonicalOk (f : FieldSchema) : Bool :=
  !f.isMap && (f.repeated || f.explicitPresence)

/-- Every message index mentioned by a field exists in the table. -/
def FieldSchema.closedIn (f : FieldSchema) (n : Nat) : Bool :=
  match f.kind with
  | .msg i => i < n
  | _ => true

/-- Field numbers of one message are pairwise distinct, positive and below 2^29 (so that the tag fits the
`u32` that `quick_protobuf` reads and writes). -/
def MsgSchema.numsOk (m : MsgSchema) : Bool :=
  (m.fields.map (·.num)).Nodup && m.fields.all (fun f => 0 < f.num && f.num < 2 ^ 29)

/-- The build-time check `canonical::check` for one message: proto3, no maps, every singular field has explicit
presence. -/
def MsgSchema.canonicalOk (m : MsgSchema) : Bool :=
  m.proto3 && m.fields.all FieldSchema.canonicalOk

/-- A whole table passes the build-time check and is well-formed (closed, distinct field numbers). Since the check
visits every message of the descriptor set, checking every table entry is the same as the recursive check. -/
def supportsCanonical (t : Table) : Bool :=
  t.all (fun m => m.canonicalOk && m.numsOk && m.fields.all (fun f => f.closedIn t.length))

end EraVerif.Model.Wire
