/-!
# Model of the epoch boundary (component `epoch`, used by C01 and C03)

One node, several epochs. Transcribes

* `node/libs/engine/src/manager.rs`
  - `EngineManager::new` (58-70): `epoch_schedule` = `{0 ↦ (genesis schedule, first_block, None)}` for a static
    schedule, `{}` for a dynamic one;
  - `validator_schedule` (127-132), `epoch_for_block` (425-435), the epoch guard of `verify_payload` (343-349),
    the choice of the schedule a `FinalBlock` is verified against in `queue_block` (202-213: the epoch the block
    itself names, `b.epoch()`; no check that the block number lies in that epoch's range);
  - the schedule task of `EngineManagerRunner::run` (506-612): `cur_epoch` from the last persisted block,
    the first `insert`, and one iteration of the polling loop (`head > last_epoch_activation`, `insert(cur+1)`,
    `get_mut(cur).expiration = pending.prev().unwrap()`, `iter().nth(2)` / `pop_first`, `cur_epoch.next()`);
* `node/components/bft/src/config.rs` `Config::new` (needs `validator_schedule(epoch)`; `first_block` =
  its `activation_block` at that moment) and `node/components/bft/src/lib.rs` `Config::run` (43-48: waits until
  `first_block.prev()` is **persisted**; 57-70: the teardown task — expiration known, expiration block persisted,
  `s.cancel()`);
* `node/components/bft/src/v2_chonky_bft/mod.rs` `StateMachine::start` (83-127: a backup of a LATER epoch makes the
  instance stop — `Err(Canceled)`, which `Config::run` maps to `Ok(())` like its teardown — fix a8b4c3e / finding F13;
  a backup of an EARLIER epoch is replaced by the default state; `restoreLegacy` / `stepLegacy` are the rule before
  the fix: any other epoch's backup is replaced by the default state), `block.rs` `backup_state` (the single durable `ReplicaState`, tagged with
  `config.epoch`), and of the handlers only what decides *whether* a vote is signed and *what is made durable
  before*: the view/phase gate and the `wait_until_persisted(prev)` + `verify_payload(number, epoch)` of
  `on_proposal` (proposal.rs:92-100, 181-208), `start_timeout`, `start_new_view` (view, phase, backup, send);
* `node/components/executor/src/lib.rs` 100-128 only as far as: an epoch gets at most one bft instance per
  process life, and only once its schedule is known.

Not modelled: how the executor picks the epochs it spawns, the schedule provider (its answers are inputs of the
events; theorems assume they agree with one ground-truth activation table), the network component, the contents of
certificates (Props/C01..C05 do that for one epoch), u64 wrap of epoch / block numbers.

Numbers are `Nat`; where the Rust can panic (`prev().unwrap()` on block 0, `iter().last().unwrap()` on an empty
map) the model has an explicit panic outcome. No imports.
-/

namespace EraVerif.Model.Epoch

/-! ## (a) The epoch schedule of `EngineManager` -/

/-- `ScheduleWithLifetime`; `com` stands for the validator `schedule` (an identifier of the committee). -/
structure Life where
  act : Nat
  exp : Option Nat
  com : Nat
  deriving DecidableEq, Repr, Inhabited

/-- `BTreeMap<EpochNumber, ScheduleWithLifetime>`: ascending by epoch, one entry per epoch. -/
abbrev Sched := List (Nat × Life)

/-- `validator_schedule(epoch)` = `epoch_schedule.get(&epoch)` -/
def schedOf : Sched → Nat → Option Life
  | [], _ => none
  | (k, l) :: t, e => if k = e then some l else schedOf t e

/-- `BTreeMap::insert` -/
def schedInsert : Sched → Nat → Life → Sched
  | [], e, l => [(e, l)]
  | (k, v) :: t, e, l =>
    if e < k then (e, l) :: (k, v) :: t
    else if e = k then (e, l) :: t
    else (k, v) :: schedInsert t e l

/-- `if let Some(entry) = epoch_schedule.get_mut(&e) { entry.expiration_block = Some(x) }` -/
def setExp : Sched → Nat → Nat → Sched
  | [], _, _ => []
  | (k, v) :: t, e, x => if k = e then (k, { v with exp := some x }) :: t else (k, v) :: setExp t e x

/-- `iter().last()` -/
def lastEntry : Sched → Option (Nat × Life)
  | [] => none
  | [p] => some p
  | _ :: q :: t => lastEntry (q :: t)

/-- the closure of `find` in `epoch_for_block`:
`activation_block <= number && (expiration_block.is_none() || expiration_block.unwrap() >= number)` -/
def covers (l : Life) (n : Nat) : Bool :=
  decide (l.act ≤ n) && (match l.exp with
    | none => true
    | some x => decide (x ≥ n))

/-- `epoch_for_block`: the first entry (ascending epochs) whose lifetime covers the number. -/
def epochForBlock : Sched → Nat → Option Nat
  | [], _ => none
  | (k, l) :: t, n => if covers l n then some k else epochForBlock t n

/-- The epoch guard of `verify_payload(number, epoch)`: `epoch_for_block(number) == Some(epoch)`; `false` is
the error "block {number} does not belong to epoch {epoch}". (The payload check proper is the execution layer's.) -/
def verifyPayloadGuard (s : Sched) (number epoch : Nat) : Bool :=
  epochForBlock s number == some epoch

/-- Outcome of the verification step of `queue_block` for a `FinalV2` block. -/
inductive QVerdict
  | ok
  | noSchedule     -- "cannot verify block v2: epoch schedule is not available"
  | badBlock       -- `block_v2.verify()` failed
  deriving DecidableEq, Repr

/-- `queue_block`, `Block::FinalV2(b)`: the schedule is the one of the epoch **the block names**
(`claimed = b.epoch()`); `payloadOk` = the payload matches the certified hash, `signedBy` = the committee whose
quorum signed the certificate (the certificate's own view names `claimed`). -/
def queueBlockVerify (s : Sched) (claimed signedBy : Nat) (payloadOk : Bool) : QVerdict :=
  match schedOf s claimed with
  | none => .noSchedule
  | some l => if payloadOk && decide (signedBy = l.com) then .ok else .badBlock

/-- `EngineManager::new`: `static = some (first_block, committee)` if the genesis carries a schedule. -/
def mgrNew (static : Option (Nat × Nat)) : Sched :=
  match static with
  | some (fb, c) => [(0, { act := fb, exp := none, com := c })]
  | none => []

/-- `persisted().last` as the schedule task looks at it. -/
inductive LastKind
  | empty                    -- `None`
  | pre                      -- `Some(Last::PreGenesis(_))`
  | final (epoch : Nat)      -- `Some(Last::FinalV2(qc))`, `qc.message.view.epoch`
  deriving DecidableEq, Repr

/-- `cur_epoch` chosen at the start of the schedule task (manager.rs:518-522). -/
def curOf : LastKind → Nat
  | .final e => e
  | .pre => 0
  | .empty => 0

/-- State of the schedule task: the shared map and its local `cur_epoch`. -/
structure Runner where
  sched : Sched
  cur : Nat
  deriving DecidableEq, Repr

/-- First part of the schedule task (517-541): `get_validator_schedule(head)` answered `(com, act)`. -/
def runnerInit (s : Sched) (last : LastKind) (act com : Nat) : Runner :=
  { sched := schedInsert s (curOf last) { act := act, exp := none, com := com }, cur := curOf last }

/-- `if let Some(schedule) = epoch_schedule.iter().nth(2) { if schedule.1.activation_block < head { pop_first() } }` -/
def prune (s : Sched) (head : Nat) : Sched :=
  match s with
  | a :: b :: c :: t => if c.2.act < head then b :: c :: t else a :: b :: c :: t
  | s => s

inductive PollOut
  | ok (r : Runner) (asked : Bool)   -- `asked`: `get_pending_validator_schedule(head)` was called
  | panic
  deriving DecidableEq, Repr

/-- One iteration of the polling loop (545-604). `head` = `persisted().head()`, `pending` = the answer of
`get_pending_validator_schedule(head)` as `(activation, committee)` (only consulted if the call is made). -/
def runnerPoll (r : Runner) (head : Nat) (pending : Option (Nat × Nat)) : PollOut :=
  match lastEntry r.sched with
  | none => .panic                                  -- `.last().unwrap()`
  | some (_, last) =>
    if head > last.act then
      match pending with
      | none => .ok r true
      | some (pact, pcom) =>
        let s1 := schedInsert r.sched (r.cur + 1) { act := pact, exp := none, com := pcom }
        match schedOf s1 r.cur with
        | some _ =>
          match pact with
          | 0 => .panic                              -- `pending_schedule.1.prev().unwrap()`
          | k + 1 => .ok { sched := prune (setExp s1 r.cur k) head, cur := r.cur + 1 } true
        | none => .ok { sched := prune s1 head, cur := r.cur + 1 } true
    else .ok r false

/-- `BlockStoreState::head()` in terms of `next()`: `last.number()`, or `first.prev().unwrap_or(0)`. -/
def headOf (next : Nat) : Nat := next - 1

/-! ## (b) `Config::run`, `StateMachine::start`, the durable slot, crash -/

inductive Phase
  | prepare | commit | timeout
  deriving DecidableEq, Repr

/-- What this component looks at in `ChonkyV2State`. -/
structure RState where
  epoch : Nat
  view : Nat
  phase : Phase
  deriving DecidableEq, Repr

/-- `ChonkyV2State::default()` (also what `get_state` answers before anything was stored). -/
def RState.default : RState := { epoch := 0, view := 0, phase := .prepare }

/-- One bft instance (`Config::run` of one epoch) of the current process life. -/
inductive IStatus
  | absent
  | waiting                               -- inside `run`, before `StateMachine::start`
  | running (view : Nat) (phase : Phase)
  | done                                  -- `run` returned
  deriving DecidableEq, Repr

inductive Kind
  | commit | timeout
  deriving DecidableEq, Repr

/-- A vote signed by the node's key: `tag` identifies the proposal of a commit vote (0 for timeout votes). -/
structure Signed where
  epoch : Nat
  view : Nat
  kind : Kind
  tag : Nat
  deriving DecidableEq, Repr

structure Node where
  /-- `genesis.validators_schedule` as `(first_block, committee)` -/
  static : Option (Nat × Nat)
  sched : Sched
  cur : Nat
  runnerUp : Bool
  /-- `interface.persisted().next()` — durable -/
  persistedNext : Nat
  /-- `block_store.queued.next()` — memory only -/
  queuedNext : Nat
  /-- the single durable `ReplicaState`; `none` = never written (`get_state` answers the default) -/
  slot : Option RState
  inst : Nat → IStatus
  /-- `Config.first_block` of the instance of each epoch -/
  first : Nat → Nat
  /-- ghost: the last state an instance of epoch `e` made durable, over all process lives -/
  lastBackup : Nat → Option RState
  /-- ghost: every vote signed, over all process lives, most recent first -/
  signed : List Signed
  /-- ghost: since the instance of epoch `e` of this process life was spawned, an instance of a later epoch has made
  a durable write -/
  overtaken : Nat → Bool

/-- A freshly installed node (`next` = `persisted().next()` of the storage it is started on). -/
def Node.init (static : Option (Nat × Nat)) (next : Nat) : Node :=
  { static := static, sched := mgrNew static, cur := 0, runnerUp := false, persistedNext := next,
    queuedNext := next, slot := none, inst := fun _ => .absent, first := fun _ => 0,
    lastBackup := fun _ => none, signed := [], overtaken := fun _ => false }

inductive Ev
  | runnerInit (last : LastKind) (act com : Nat)
  | poll (pending : Option (Nat × Nat))
  | spawn (e : Nat)
  | start (e : Nat)
  | timeout (e : Nat)
  | vote (e : Nat) (view : Nat) (number : Option Nat) (tag : Nat)
  | newView (e : Nat) (view : Nat)
  | queue
  | persist
  | syncPersist
  | teardown (e : Nat)
  | cancel (e : Nat)
  | crash
  deriving DecidableEq, Repr

def setInst (s : Node) (e : Nat) (st : IStatus) : Node :=
  { s with inst := fun x => if x = e then st else s.inst x }

/-- `backup_state` of the instance of epoch `e`. -/
def backup (s : Node) (e view : Nat) (phase : Phase) : Node :=
  let st : RState := { epoch := e, view := view, phase := phase }
  { s with slot := some st, lastBackup := fun x => if x = e then some st else s.lastBackup x }

/-- The common tail of `start_timeout`, `on_proposal` and `start_new_view` for the instance of epoch `e`: the new
view / phase, `backup_state`, then (optionally) the signed vote leaves the node. -/
def write (s : Node) (e view : Nat) (phase : Phase) (sg : Option Signed) : Node :=
  { setInst (backup s e view phase) e (.running view phase) with
    signed := match sg with
      | some x => x :: s.signed
      | none => s.signed
    overtaken := fun x => if x < e then true else s.overtaken x }

/-- `get_state`: the stored state, or the default one if nothing was ever stored. -/
def stored (slot : Option RState) : RState :=
  match slot with
  | none => RState.default
  | some b => b

/-- `StateMachine::start` of epoch `e` before fix a8b4c3e: the backup if it is tagged with `e`, else the default state. -/
def restoreLegacy (slot : Option RState) (e : Nat) : IStatus :=
  let b := stored slot
  if b.epoch = e then .running b.view b.phase
  else .running RState.default.view RState.default.phase

/-- `StateMachine::start` of epoch `e`: the backup if it is tagged with `e`; a backup of a later epoch ends the
instance (`Err(Canceled)` → `Config::run` returns `Ok(())`); a backup of an earlier epoch → the default state. -/
def restore (slot : Option RState) (e : Nat) : IStatus :=
  let b := stored slot
  if b.epoch = e then .running b.view b.phase
  else if e < b.epoch then .done
  else .running RState.default.view RState.default.phase

/-- The wait at the head of `Config::run`: `first_block.prev()` is `None`, or that block is persisted. -/
def startReady (first persistedNext : Nat) : Bool :=
  match first with
  | 0 => true
  | p + 1 => decide (p < persistedNext)

/-- The view / phase gate of `on_proposal` (an `Err(Old)` otherwise). The view of a proposal is the successor of its
justification's view (`ProposalJustification::view`), hence at least 1. -/
def proposalFresh (cv : Nat) (p : Phase) (view : Nat) : Bool :=
  decide (1 ≤ view) && !(decide (view < cv) || (decide (view = cv) && decide (p ≠ .prepare)))

/-- `wait_until_persisted(prev)` then the epoch guard, for a proposal carrying a new block `n`. -/
def newBlockOk (s : Node) (e n : Nat) : Bool :=
  startReady n s.persistedNext && verifyPayloadGuard s.sched n e

/-- A re-proposal (`none`) carries no payload to verify; a new block `some n` goes through `newBlockOk`. -/
def proposalOk (s : Node) (e : Nat) (number : Option Nat) : Bool :=
  match number with
  | none => true
  | some n => newBlockOk s e n

/-- One atomic event. `none` = the event is not enabled in this state (or the schedule task panicked).
`legacy` selects the `start` rule of before fix a8b4c3e. -/
def stepG (legacy : Bool) (s : Node) : Ev → Option Node
  | .runnerInit last act com =>
    if s.runnerUp || s.static.isSome then none else
    let r := runnerInit s.sched last act com
    some { s with sched := r.sched, cur := r.cur, runnerUp := true }
  | .poll pending =>
    if !s.runnerUp then none else
    match runnerPoll { sched := s.sched, cur := s.cur } (headOf s.persistedNext) pending with
    | .ok r _ => some { s with sched := r.sched, cur := r.cur }
    | .panic => none
  | .spawn e =>
    match s.inst e, schedOf s.sched e with
    | .absent, some l =>
      some { setInst s e .waiting with first := fun x => if x = e then l.act else s.first x,
                                       overtaken := fun x => if x = e then false else s.overtaken x }
    | _, _ => none
  | .start e =>
    match s.inst e with
    | .waiting =>
      if startReady (s.first e) s.persistedNext then
        some (setInst s e (if legacy then restoreLegacy s.slot e else restore s.slot e))
      else none
    | _ => none
  | .timeout e =>
    match s.inst e with
    | .running v _ => some (write s e v .timeout (some { epoch := e, view := v, kind := .timeout, tag := 0 }))
    | _ => none
  | .vote e view number tag =>
    match s.inst e with
    | .running cv p =>
      if proposalFresh cv p view && proposalOk s e number then
        some (write s e view .commit (some { epoch := e, view := view, kind := .commit, tag := tag }))
      else none
    | _ => none
  | .newView e view =>
    match s.inst e with
    | .running cv _ => if cv < view then some (write s e view .prepare none) else none
    | _ => none
  | .queue => some { s with queuedNext := s.queuedNext + 1 }
  | .persist =>
    if s.persistedNext < s.queuedNext then some { s with persistedNext := s.persistedNext + 1 } else none
  | .syncPersist =>
    some { s with persistedNext := s.persistedNext + 1,
                  queuedNext := if s.queuedNext < s.persistedNext + 1 then s.persistedNext + 1 else s.queuedNext }
  | .teardown e =>
    if s.inst e = .absent ∨ s.inst e = .done then none else
    match schedOf s.sched e with
    | some l =>
      match l.exp with
      | some x => if x < s.persistedNext then some (setInst s e .done) else none
      | none => none
    | none => none
  | .cancel e =>
    match s.inst e with
    | .absent => none
    | _ => some (setInst s e .done)
  | .crash =>
    some { s with sched := mgrNew s.static, cur := 0, runnerUp := false, queuedNext := s.persistedNext,
                  inst := fun _ => .absent, overtaken := fun _ => false }

/-- the code as it is (with fix a8b4c3e) -/
def step (s : Node) (ev : Ev) : Option Node := stepG false s ev

/-- the code before fix a8b4c3e -/
def stepLegacy (s : Node) (ev : Ev) : Option Node := stepG true s ev

/-- Runs a list of events; `none` as soon as one is not enabled. -/
def run (s : Node) : List Ev → Option Node
  | [] => some s
  | e :: es => match step s e with
    | some s' => run s' es
    | none => none

/-! ## The schedule provider of the correspondence run (an environment, not part of the code)

The harness' storage stub answers `get_validator_schedule` / `get_pending_validator_schedule` from a table
`(activation, committee, announced_at)` per epoch: the schedule of epoch `k+1` is pending at block `n` iff
`n` lies in epoch `k` and `n ≥ announced_at(k+1)`. The driver computes the same answers. -/

structure Truth where
  acts : List Nat
  coms : List Nat
  announce : List Nat
  deriving Repr

def Truth.act (t : Truth) (e : Nat) : Option Nat := t.acts[e]?

/-- index of the last epoch whose activation is `≤ n` (epoch 0 if `n` is before everything) -/
def Truth.epochOf (t : Truth) (n : Nat) : Nat :=
  (t.acts.takeWhile (fun a => decide (a ≤ n))).length - 1

def Truth.provSchedule (t : Truth) (n : Nat) : Option (Nat × Nat) :=
  let e := t.epochOf n
  match t.acts[e]?, t.coms[e]? with
  | some a, some c => some (a, c)
  | _, _ => none

def Truth.provPending (t : Truth) (n : Nat) : Option (Nat × Nat) :=
  let e := t.epochOf n + 1
  match t.acts[e]?, t.coms[e]?, t.announce[e]? with
  | some a, some c, some an => if an ≤ n then some (a, c) else none
  | _, _, _ => none

end EraVerif.Model.Epoch
