import EraVerif.Gen.StoreConst

/-!
# Model of the block store (C08)

Transcribes

* `node/libs/engine/src/block_store.rs` — all of it: `BlockStoreState::{contains,next,verify}`,
  `BlockStore::{block,try_push,update_persisted,truncate_cache}` (statement by statement);
* `node/libs/engine/src/manager.rs` — `EngineManager::new` (72-81: `queued = persisted`, empty cache, `verify()`),
  `get_block` (151-175), `queue_block` (183-225: verification, then `wait_for(queued.next() >= number)`, then
  `send_if_modified(try_push)`), `wait_until_persisted` (263-275), and the two background tasks of
  `EngineManagerRunner::run` (459-502): the task that copies the interface's `persisted` watch into the store
  (`update_persisted`, an error stops the runner) and the single task that hands blocks to storage
  (`block(max(queue_next, persisted.next()))`, `queue_next = block.number().next()`, `queue_next_block`);
* `node/components/network/src/gossip/runner.rs:211-218` — `ensure!(block.number() == req.0)` before `queue_block`;
* `node/components/bft/src/v2_chonky_bft/block.rs:31-43` — `queue_block` followed by `wait_until_persisted`.

The atomic events are the critical sections of the code (`send_if_modified` / `try_send_modify` closures on the
`block_store` watch, one call of the `EngineInterface`). "Every interleaving" is "every event list".

Block numbers are `Nat`: `BlockNumber::next` is `checked_add(1).unwrap()`, i.e. the code panics on the block
after `u64::MAX`; the model assumes all numbers stay below `2^64 - 1` (recorded as an assumption of C08).

Blocks are abstract descriptors: the harness owns the validator keys and realises every descriptor as a genuinely
signed (or deliberately damaged) `validator::Block`; the attributes are exactly what the verification in
`queue_block` looks at. No Mathlib.
-/

namespace EraVerif.Model.Store
open EraVerif.Gen.StoreConst

/-! ## `BlockStoreState` -/

/-- `BlockStoreState`: `first`, and the number of `last` (`Last::number()`; the certificate inside
`Last::FinalV2` is not looked at by the store). -/
structure Range where
  first : Nat
  last : Option Nat
  deriving DecidableEq, Repr

namespace Range

/-- `BlockStoreState::next` -/
def next (r : Range) : Nat :=
  match r.last with
  | some l => l + 1
  | none => r.first

/-- `BlockStoreState::contains` -/
def contains (r : Range) (n : Nat) : Bool :=
  match r.last with
  | none => false
  | some l => decide (r.first ≤ n) && decide (n ≤ l)

/-- `BlockStoreState::verify` succeeds -/
def wf (r : Range) : Bool :=
  match r.last with
  | none => true
  | some l => decide (r.first ≤ l)

end Range

/-! ## Blocks and their verification -/

inductive Kind where
  | pre      -- `Block::PreGenesis`
  | final    -- `Block::FinalV2`
  deriving DecidableEq, Repr

/-- What `queue_block` can see of a block. `chain` distinguishes different contents (payload, certificate)
for the same number. `final` blocks: `epoch` = `justification.message.view.epoch`, `genesisOk` = the view names
this chain's genesis hash, `payloadOk` = `payload.hash() == header.payload`, `signersLen` / `signers` = length and
set bits of the `Signers` bitmap, `sigOk` = the aggregate signature is exactly the aggregate of the signatures of
the listed signers over the certificate's message. `pre` blocks: `justOk` = the execution layer
(`EngineInterface::verify_pregenesis_block`) accepts the external justification. -/
structure Block where
  kind : Kind
  num : Nat
  chain : Nat
  epoch : Nat
  genesisOk : Bool
  payloadOk : Bool
  signersLen : Nat
  signers : List Nat
  sigOk : Bool
  justOk : Bool
  deriving DecidableEq, Repr

/-- Genesis data used by the verification: `genesis.first_block` and the `epoch_schedule` map
(epoch ↦ validator weights in schedule order). -/
structure Config where
  firstBlock : Nat
  schedules : List (Nat × List Nat)
  deriving Repr

/-- `Schedule::quorum_threshold`: `n - (n-1)/5` for total weight `n` (C07 proves the arithmetic). -/
def quorumThreshold (ws : List Nat) : Nat :=
  let n := ws.sum
  n - (n - 1) / 5

/-- `Signers::weight`: the weights at the set bits, `schedule.iter().enumerate().filter(|(i,_)| bits[i])`. -/
def weightAux (signers : List Nat) : Nat → List Nat → Nat
  | _, [] => 0
  | i, w :: ws => (if signers.contains i then w else 0) + weightAux signers (i + 1) ws

def signersWeight (ws : List Nat) (signers : List Nat) : Nat := weightAux signers 0 ws

inductive Verdict where
  | ok
  | preGenesisBound   -- "external justification is allowed only for pre-genesis blocks"
  | preJustification  -- `verify_pregenesis_block` failed
  | noSchedule        -- "cannot verify block v2: epoch schedule is not available"
  | payloadHash       -- `BlockValidationError::HashMismatch`
  | badView           -- `CommitQCVerifyError::InvalidMessage` (genesis mismatch)
  | badSignersSet
  | notEnoughWeight
  | badSignature
  deriving DecidableEq, Repr

/-- The verification at the top of `EngineManager::queue_block` (manager.rs:185-214), in the order of the code:
`FinalBlock::verify` checks the payload hash first, then `CommitQC::verify` (view, signer-set size, weight,
signature). -/
def verify (cfg : Config) (b : Block) : Verdict :=
  match b.kind with
  | .pre =>
    if b.num ≥ cfg.firstBlock then .preGenesisBound
    else if b.justOk = false then .preJustification
    else .ok
  | .final =>
    match cfg.schedules.lookup b.epoch with
    | none => .noSchedule
    | some ws =>
      if b.payloadOk = false then .payloadHash
      else if b.genesisOk = false then .badView
      else if b.signersLen ≠ ws.length then .badSignersSet
      else if signersWeight ws b.signers < quorumThreshold ws then .notEnoughWeight
      else if b.sigOk = false then .badSignature
      else .ok

/-! ## `BlockStore` -/

structure Store where
  queued : Range
  persisted : Range
  cache : List Block     -- head = `VecDeque::front`
  deriving DecidableEq, Repr

/-- `truncate_cache`: `while cache.len() > CAPACITY && persisted.next() > cache[0].number() { pop_front }`.
(`cache[0]` cannot panic: it is evaluated only when `len > CAPACITY ≥ 0`.) -/
def truncateCache (cap persistedNext : Nat) : List Block → List Block
  | [] => []
  | b :: rest =>
    if (b :: rest).length > cap ∧ persistedNext > b.num then truncateCache cap persistedNext rest
    else b :: rest

namespace Store

/-- `BlockStore::block`: `cache.get(n.checked_sub(cache.front()?.number())?)` -/
def block (s : Store) (n : Nat) : Option Block :=
  match s.cache with
  | [] => none
  | f :: _ => if n < f.num then none else s.cache[n - f.num]?

/-- `BlockStore::try_push`; the flag is its return value ("cache has been modified"). -/
def tryPush (cap : Nat) (s : Store) (b : Block) : Store × Bool :=
  if s.queued.next ≠ b.num then (s, false)
  else
    let s1 : Store := { s with queued := { s.queued with last := some b.num }, cache := s.cache ++ [b] }
    ({ s1 with cache := truncateCache cap s1.persisted.next s1.cache }, true)

/-- `BlockStore::update_persisted`; `none` = the `bail!` ("head block has been removed from storage"). -/
def updatePersisted (cap : Nat) (s : Store) (p : Range) : Option Store :=
  if p.next < s.persisted.next then none
  else
    let s1 : Store := { s with persisted := p }
    let s2 : Store :=
      if s1.queued.first < s1.persisted.first then { s1 with queued := { s1.queued with first := s1.persisted.first } }
      else s1
    let s3 : Store :=
      if s2.queued.next < s2.persisted.next then { s2 with queued := s2.persisted, cache := [] }
      else s2
    some { s3 with cache := truncateCache cap s3.persisted.next s3.cache }

/-- the store built by `EngineManager::new` from the interface's persisted state -/
def init (p : Range) : Store := { queued := p, persisted := p, cache := [] }

end Store

/-! ## The manager, its background tasks and the storage behind the `EngineInterface` -/

/-- One `queue_block` call. `waitPersist`: the caller is `save_block` (bft), which then calls
`wait_until_persisted(number)`. -/
structure Req where
  id : Nat
  block : Block
  waitPersist : Bool
  deriving DecidableEq, Repr

/-- The storage behind the `EngineInterface` (environment). `persisted`: the value of the `persisted()` watch.
`disk`: what `get_block` can return (first match by number). `inbox`: hand-offs accepted by `queue_next_block`,
not yet durable. `credits`: how many more hand-offs the storage accepts without blocking. `failNext`: the next
`queue_next_block` returns an error. -/
structure Env where
  persisted : Range
  disk : List Block
  inbox : List Block := []
  credits : Nat := 0
  failNext : Bool := false
  deriving Repr

def diskLookup (disk : List Block) (n : Nat) : Option Block := disk.find? (fun b => b.num == n)

/-- Things the environment can do. `publish p add`: the durable state changes by a side channel, pruning, or an
arbitrary report: the watch is set to `p`, `add` become readable, blocks below `p.first` disappear. -/
inductive EnvAct where
  | credit (k : Nat)
  | failNext
  | complete
  | publish (p : Range) (add : List Block)
  deriving Repr

structure Sys where
  cfg : Config
  store : Store
  env : Env
  /-- verified `queue_block` calls waiting in `wait_for(queued.next() >= number)`, in arrival order -/
  parked : List Req := []
  /-- `save_block` callers inside `wait_until_persisted` -/
  awaiting : List Req := []
  /-- the hand-off task's local `queue_next` -/
  taskNext : Nat := 0
  /-- the hand-off task is inside `interface.queue_next_block(block)` -/
  taskBusy : Option Block := none
  /-- the runner has stopped (`update_persisted` or `queue_next_block` returned an error) -/
  dead : Bool := false
  /-- ghost: blocks appended by `try_push` since the last (re)start, in order -/
  accepted : List Block := []
  /-- ghost: arguments of `queue_next_block` since the last (re)start, in order -/
  handed : List Block := []
  /-- ghost: ids of finished `queue_block`/`save_block` calls, with their result (`true` = `Ok`) -/
  finished : List (Nat × Bool) := []
  /-- ghost: the environment broke the `EngineInterface` contract (a block of the reported range is not readable,
  or the head went backwards) -/
  envBroken : Bool := false
  /-- ghost: the storage received a hand-off that does not directly follow what it has (`in_memory::Engine`
  answers "got block _, want _") -/
  gapSeen : Bool := false
  /-- ghost: number of (re)starts -/
  incarnation : Nat := 0
  deriving Repr

inductive Event where
  /-- `queue_block(block)` is called: verification; accepted calls park in `wait_for` -/
  | submit (r : Req)
  /-- a `get_block` response for request `want` arrives from a peer (gossip/runner.rs) -/
  | peer (want : Nat) (r : Req)
  /-- parked call `i` passes `wait_for` and runs `send_if_modified(try_push)` -/
  | push (i : Nat)
  /-- parked call `i` is dropped (its context is cancelled) -/
  | cancel (i : Nat)
  /-- `wait_until_persisted` of awaiting call `i` returns -/
  | persistedSeen (i : Nat)
  /-- the persisted-watch task runs `update_persisted(interface.persisted())` -/
  | watcher
  /-- the hand-off task finds its next block and calls `queue_next_block` -/
  | taskTake
  /-- `queue_next_block` returns -/
  | taskReturn
  | env (a : EnvAct)
  /-- the node restarts from the durable state (`EngineManager::new`) -/
  | restart
  deriving Repr

/-- the interface contract a report must respect: the head does not go backwards and every block of the reported
range is readable (`EngineInterface::get_block`: "All the blocks from `persisted()` range are expected to be
available") -/
def publishHonest (old : Range) (p : Range) (disk : List Block) : Bool :=
  decide (old.next ≤ p.next) &&
    (match p.last with
     | none => true
     | some l => (List.range (l + 1 - p.first)).all (fun i => (diskLookup disk (p.first + i)).isSome))

/-- a node started on storage `env` (nothing in flight) -/
def Sys.init (cfg : Config) (env : Env) : Sys :=
  { cfg := cfg, store := Store.init env.persisted, env := { env with inbox := [] },
    envBroken := !(publishHonest env.persisted env.persisted env.disk) }

/-- the block the hand-off task would take now: `block_store.block(queue_next.max(persisted.next()))` -/
def Sys.taskBlock (s : Sys) : Option Block := s.store.block (max s.taskNext s.store.persisted.next)

def envStep (s : Sys) : EnvAct → Option Sys
  | .credit k => some { s with env := { s.env with credits := s.env.credits + k } }
  | .failNext => some { s with env := { s.env with failNext := true } }
  | .complete =>
    match s.env.inbox with
    | [] => none
    | b :: rest =>
      let want := s.env.persisted.next
      if b.num < want then some { s with env := { s.env with inbox := rest } }
      else if b.num = want then
        some { s with env := { s.env with inbox := rest, disk := b :: s.env.disk,
                                           persisted := { s.env.persisted with last := some b.num } } }
      else some { s with env := { s.env with inbox := rest }, gapSeen := true }
  | .publish p add =>
    let disk := (add ++ s.env.disk).filter (fun b => decide (p.first ≤ b.num))
    some { s with env := { s.env with persisted := p, disk := disk },
                  envBroken := s.envBroken || !(publishHonest s.env.persisted p disk) }

/-- after `try_push`: a `save_block` caller goes on to `wait_until_persisted`, any other caller is done -/
def afterQueue (s : Sys) (r : Req) : Sys :=
  if r.waitPersist then { s with awaiting := s.awaiting ++ [r] }
  else { s with finished := s.finished ++ [(r.id, true)] }

/-- `step? s e = none`: the event is not enabled in `s`. -/
def step? (s : Sys) : Event → Option Sys
  | .submit r =>
    if verify s.cfg r.block = .ok then some { s with parked := s.parked ++ [r] }
    else some { s with finished := s.finished ++ [(r.id, false)] }
  | .peer want r =>
    if r.block.num ≠ want then some { s with finished := s.finished ++ [(r.id, false)] }
    else if verify s.cfg r.block = .ok then some { s with parked := s.parked ++ [r] }
    else some { s with finished := s.finished ++ [(r.id, false)] }
  | .push i =>
    match s.parked[i]? with
    | none => none
    | some r =>
      if s.store.queued.next < r.block.num then none
      else
        let (st, modified) := s.store.tryPush CACHE_CAPACITY r.block
        let s1 : Sys := { s with store := st, parked := s.parked.eraseIdx i,
                                 accepted := if modified then s.accepted ++ [r.block] else s.accepted }
        some (afterQueue s1 r)
  | .cancel i =>
    match s.parked[i]? with
    | none => none
    | some _ => some { s with parked := s.parked.eraseIdx i }
  | .persistedSeen i =>
    match s.awaiting[i]? with
    | none => none
    | some r =>
      if r.block.num < s.env.persisted.next then
        some { s with awaiting := s.awaiting.eraseIdx i, finished := s.finished ++ [(r.id, true)] }
      else none
  | .watcher =>
    if s.dead then none
    else
      match s.store.updatePersisted CACHE_CAPACITY s.env.persisted with
      | none => some { s with dead := true, taskBusy := none }
      | some st => some { s with store := st }
  | .taskTake =>
    if s.dead then none
    else
      match s.taskBusy with
      | some _ => none
      | none =>
        match s.taskBlock with
        | none => none
        | some b => some { s with taskNext := b.num + 1, taskBusy := some b, handed := s.handed ++ [b] }
  | .taskReturn =>
    if s.dead then none
    else
      match s.taskBusy with
      | none => none
      | some b =>
        if s.env.failNext then
          some { s with dead := true, taskBusy := none, env := { s.env with failNext := false } }
        else if s.env.credits = 0 then none
        else some { s with taskBusy := none,
                           env := { s.env with credits := s.env.credits - 1, inbox := s.env.inbox ++ [b] } }
  | .env a => envStep s a
  | .restart =>
    if s.env.persisted.wf then
      some { cfg := s.cfg, store := Store.init s.env.persisted,
             env := { s.env with inbox := [], failNext := false },
             envBroken := s.envBroken, gapSeen := s.gapSeen, incarnation := s.incarnation + 1,
             finished := s.finished }
    else none

/-- runs an event list; `none` if some event is not enabled -/
def run (s : Sys) : List Event → Option Sys
  | [] => some s
  | e :: es =>
    match step? s e with
    | none => none
    | some s' => run s' es

/-- Result of `EngineManager::get_block(n)`: `Ok(None)`, `Ok(Some(block))` (from the cache or from storage),
or the error of `interface.get_block`. -/
inductive GetResult where
  | absent
  | cached (b : Block)
  | stored (b : Block)
  | error
  deriving DecidableEq, Repr

def Sys.get (s : Sys) (n : Nat) : GetResult :=
  if s.store.queued.contains n = false then .absent
  else
    match s.store.block n with
    | some b => .cached b
    | none =>
      match diskLookup s.env.disk n with
      | some b => .stored b
      | none => .error

end EraVerif.Model.Store
