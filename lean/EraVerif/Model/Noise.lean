import EraVerif.Gen.NoiseConst

/-!
# Model of the encrypted stream (`node/components/network/src/noise/{bytes,stream}.rs`) — property C13

Executable transcription (no Mathlib) of

* `bytes::Buffer` — `Buffer` below: `inner[0 .. end)` is the list `data` (so `end = data.length`), `begin` and
  the fixed capacity `cap = inner.len()` are fields; every method of `bytes.rs` has a counterpart with the same name;
* the four `poll_*` entry points of `noise::Stream` and their helpers
  (`poll_read_frame`, `poll_read_payload`, `poll_flush_frame`, `poll_flush_payload`), statement by statement.

Everything is poll-driven, so one call is a function of the state and of what the underlying transport answers
during that call: a *script* (`List WrEv` / `List RdEv`), consumed left to right, one entry per `inner.poll_*` call;
an exhausted script answers `Pending`.

Where the Rust code can panic (`debug_assert!`, slice indexing) the model returns `Except.error site`.

## The cipher (assumption: ideal AEAD)

`snow::TransportState` with ChaChaPoly is not modelled bit by bit. Ciphertext bytes are symbolic:
`WByte.ct k j x` is the `j`-th ciphertext byte of the message sealed with nonce `k`, carrying plaintext byte `x`;
`WByte.mac k n j` is the `j`-th byte of its 16-byte authentication tag, binding the nonce and the payload length `n`;
`WByte.raw v` is a byte whose value `v` is known (length fields, bytes made up by an attacker, damaged ciphertext).
`dec k c = some p ↔ c = enc k p` (`dec_eq_some_iff` in `Proofs/Noise.lean`): decryption under nonce `k` succeeds on
exactly the ciphertexts sealed under nonce `k`. The byte *value* of a ciphertext byte (it matters only if such a
byte is misread as a length field) is given by an arbitrary function `cv`, a parameter of the read path.
The nonce of either direction advances on success only (snow: `CipherState::{encrypt_ad, decrypt_ad}`).
-/

namespace EraVerif.Model.Noise
open EraVerif.Gen.NoiseConst

/-! ## Constants of the `snow` crate (third-party; `snow-0.9.6/src/constants.rs`) -/

/-- `snow::constants::MAXMSGLEN` -/
def SNOW_MAXMSGLEN : Nat := 65535
/-- `snow::constants::TAGLEN` -/
def SNOW_TAGLEN : Nat := 16

/-! ## Wire bytes and the ideal cipher -/

inductive WByte where
  /-- a byte with a known value -/
  | raw (v : Nat)
  /-- `j`-th ciphertext byte of the message sealed with nonce `k`; encrypts plaintext byte `x` -/
  | ct (k j x : Nat)
  /-- `j`-th byte of the authentication tag of the message sealed with nonce `k` whose payload has `n` bytes -/
  | mac (k n j : Nat)
deriving DecidableEq, Repr, Inhabited

/-- The value of a wire byte when it is read as a number; `cv k i` is the (unmodelled) value of the `i`-th byte of
the ciphertext sealed with nonce `k`. -/
def WByte.val (cv : Nat → Nat → Nat) : WByte → Nat
  | .raw v => v
  | .ct k j _ => cv k j
  | .mac k n j => cv k (n + j)

/-- plaintext byte carried by a ciphertext byte (what a decryption attempt reconstructs before authenticating) -/
def WByte.pt : WByte → Nat
  | .ct _ _ x => x
  | _ => 0

/-- `cipher.encrypt(nonce k, plaintext p)`: `|p| + TAGLEN` bytes. -/
def enc (k : Nat) (p : List Nat) : List WByte :=
  (p.zipIdx.map fun xj => WByte.ct k xj.2 xj.1) ++ (List.range SNOW_TAGLEN).map (WByte.mac k p.length)

/-- `cipher.decrypt(nonce k, ciphertext c)`: recompute-and-compare (ideal AEAD). -/
def dec (k : Nat) (c : List WByte) : Option (List Nat) :=
  if c.length < SNOW_TAGLEN then none
  else
    let p := (c.take (c.length - SNOW_TAGLEN)).map WByte.pt
    if c = enc k p then some p else none

/-- `(n as u16).to_le_bytes()` -/
def lenBytes (n : Nat) : List WByte := [.raw (n % 256), .raw (n / 256 % 256)]

/-- `u16::from_le_bytes([a, b]) as usize` -/
def le16 (cv : Nat → Nat → Nat) (a b : WByte) : Nat := a.val cv % 256 + 256 * (b.val cv % 256)

/-! ## `bytes::Buffer` -/

/-- `bytes::Buffer`: `inner[0 .. end) = data`, `end = data.length`, `inner.len() = cap`. -/
structure Buffer (α : Type) where
  cap : Nat
  begin : Nat
  data : List α
deriving Repr

namespace Buffer
variable {α : Type}

/-- `Buffer::new(capacity)` -/
def new (capacity : Nat) : Buffer α := { cap := capacity, begin := 0, data := [] }
/-- `self.end` -/
def stop (b : Buffer α) : Nat := b.data.length
/-- `len()`: `self.end - self.begin` -/
def len (b : Buffer α) : Nat := b.stop - b.begin
/-- `capacity()`: `self.inner.len() - self.end` -/
def capacity (b : Buffer α) : Nat := b.cap - b.stop
/-- `as_slice()`: `&self.inner[self.begin..self.end]` -/
def slice (b : Buffer α) : List α := b.data.drop b.begin
/-- `push(buf)`: appends `min(capacity(), buf.len())` bytes, returns that number -/
def push (b : Buffer α) (buf : List α) : Buffer α × Nat :=
  let n := min b.capacity buf.length
  ({ b with data := b.data ++ buf.take n }, n)
/-- `as_mut_capacity()` filled with `bs` followed by `extend(bs.len())` (`debug_assert!(end + n <= inner.len())`) -/
def extendWith (b : Buffer α) (bs : List α) : Except String (Buffer α) :=
  if b.stop + bs.length ≤ b.cap then .ok { b with data := b.data ++ bs } else .error "bytes.rs: extend"
/-- `take(n)` (`debug_assert!(begin + n <= end)`) -/
def take (b : Buffer α) (n : Nat) : Except String (Buffer α) :=
  if b.begin + n ≤ b.stop then .ok { b with begin := b.begin + n } else .error "bytes.rs: take"
/-- `prefix::<2>()` (`debug_assert!(begin + 2 <= end)`) -/
def prefix2 (b : Buffer α) : Except String (α × α) :=
  match b.slice with
  | x :: y :: _ => .ok (x, y)
  | _ => .error "bytes.rs: prefix"
/-- `shift()`: `copy_within(begin..end, 0); end -= begin; begin = 0` -/
def shift (b : Buffer α) : Buffer α := { b with data := b.data.drop b.begin, begin := 0 }
/-- `reset()` -/
def reset (b : Buffer α) : Buffer α := { b with data := [], begin := 0 }

end Buffer

/-! ## Poll results, transport scripts -/

inductive IoErr where
  /-- `io::ErrorKind::WriteZero` (`poll_flush_frame`) -/
  | writeZero
  /-- an error returned by the underlying transport, propagated by `?` -/
  | transport
  /-- `io::ErrorKind::InvalidData` (`read_message` failed) -/
  | invalidData
  /-- `io::Error::other` (`write_message` failed) -/
  | other
deriving DecidableEq, Repr

/-- `Poll<io::Result<α>>` -/
inductive Poll (α : Type) where
  | ready (a : α)
  | pending
  | err (e : IoErr)
deriving Repr

/-- what the transport answers to one `inner.poll_write(slice)` -/
inductive WrEv where
  /-- `Ready(Ok(min(k, slice.len())))` -/
  | accept (k : Nat)
  | pending
  | err
deriving DecidableEq, Repr

/-- what the transport answers to one `inner.poll_read(buf)`: `give k` fills `min(k, buf.remaining(), bytes left in the
stream)` bytes (filling nothing is how a transport signals EOF) -/
inductive RdEv where
  | give (k : Nat)
  | pending
  | err
deriving DecidableEq, Repr

/-- answer of `inner.poll_flush` / `inner.poll_shutdown` -/
inductive FlEv where
  | ok
  | pending
  | err
deriving DecidableEq, Repr

/-- one call of the underlying transport as seen from outside: size offered (slice length / free space) and outcome -/
inductive TRes where
  | n (k : Nat)
  | pending
  | err
deriving DecidableEq, Repr

abbrev Trace := List (Nat × TRes)

/-! ## Write half -/

/-- `write_buf` and the sending cipher state of `noise::Stream` -/
structure Writer where
  payload : Buffer Nat
  frame : Buffer WByte
  nonce : Nat
deriving Repr

def Writer.init : Writer :=
  { payload := Buffer.new MAX_PAYLOAD_LEN, frame := Buffer.new MAX_FRAME_LEN, nonce := 0 }

/-- outcome of one call on the write half -/
structure WOut (α : Type) where
  w : Writer
  /-- bytes the transport accepted during the call, in order -/
  sent : List WByte
  trace : Trace
  /-- script entries not consumed -/
  rest : List WrEv
  res : Poll α

/-- `poll_flush_frame`: `while frame.len() > 0 { n = ready!(inner.poll_write(frame.as_slice()))?; if n == 0 { WriteZero };
frame.take(n) }` -/
def pollFlushFrame : List WrEv → Writer → Except String (WOut Unit)
  | script, w =>
    if w.frame.len = 0 then .ok ⟨w, [], [], script, .ready ()⟩
    else match script with
      | [] => .ok ⟨w, [], [(w.frame.len, .pending)], [], .pending⟩
      | .pending :: rest => .ok ⟨w, [], [(w.frame.len, .pending)], rest, .pending⟩
      | .err :: rest => .ok ⟨w, [], [(w.frame.len, .err)], rest, .err .transport⟩
      | .accept k :: rest =>
        let n := min k w.frame.len
        if n = 0 then .ok ⟨w, [], [(w.frame.len, .n 0)], rest, .err .writeZero⟩
        else
          match w.frame.take n with
          | .error e => .error e
          | .ok f =>
            match pollFlushFrame rest { w with frame := f } with
            | .error e => .error e
            | .ok o => .ok { o with sent := w.frame.slice.take n ++ o.sent, trace := (w.frame.len, .n n) :: o.trace }

/-- `noise.write_message(payload, out)` of snow's `TransportState` followed by the cipher: `Err` if
`payload.len() + TAGLEN > MAXMSGLEN` or `> out.len()`. -/
def writeMessage (k : Nat) (p : List Nat) (outLen : Nat) : Option (List WByte) :=
  if p.length + SNOW_TAGLEN > SNOW_MAXMSGLEN ∨ p.length + SNOW_TAGLEN > outLen then none else some (enc k p)

/-- `poll_flush_payload` -/
def pollFlushPayload (script : List WrEv) (w : Writer) : Except String (WOut Unit) :=
  if w.payload.len = 0 then .ok ⟨w, [], [], script, .ready ()⟩
  else
    match pollFlushFrame script w with
    | .error e => .error e
    | .ok o =>
      match o.res with
      | .pending => .ok o
      | .err e => .ok { o with res := .err e }
      | .ready () =>
        let w1 := o.w
        let frame := w1.frame.reset
        -- `&mut frame.as_mut_capacity()[LENGTH_FIELD_LEN..]` panics if the capacity is shorter than the length field
        if frame.capacity < LENGTH_FIELD_LEN then .error "stream.rs: as_mut_capacity()[LENGTH_FIELD_LEN..]"
        else
          match writeMessage w1.nonce w1.payload.slice (frame.capacity - LENGTH_FIELD_LEN) with
          | none => .ok { o with w := { w1 with frame := frame }, res := .err .other }
          | some c =>
            let n := c.length
            -- `set_prefix((n as u16).to_le_bytes())`, `extend(LENGTH_FIELD_LEN + n)`
            match frame.extendWith (lenBytes n ++ c) with
            | .error e => .error e
            | .ok frame' =>
              -- `payload.take(payload.len()); payload.reset()`
              match w1.payload.take w1.payload.len with
              | .error e => .error e
              | .ok p' =>
                .ok { o with w := { payload := p'.reset, frame := frame', nonce := w1.nonce + 1 }, res := .ready () }

/-- `AsyncWrite::poll_write(buf)` -/
def pollWrite (buf : List Nat) (script : List WrEv) (w : Writer) : Except String (WOut Nat) :=
  if buf.isEmpty then .ok ⟨w, [], [], script, .ready 0⟩
  else
    let pre : Except String (WOut Unit) :=
      if w.payload.capacity = 0 then pollFlushPayload script w else .ok ⟨w, [], [], script, .ready ()⟩
    match pre with
    | .error e => .error e
    | .ok o =>
      match o.res with
      | .pending => .ok { o with res := .pending }
      | .err e => .ok { o with res := .err e }
      | .ready () =>
        let (p', n) := o.w.payload.push buf
        -- `debug_assert!(n > 0)`
        if n = 0 then .error "stream.rs: debug_assert!(n > 0)"
        else .ok { o with w := { o.w with payload := p' }, res := .ready n }

/-- outcome of `poll_flush` / `poll_shutdown`: the write-half outcome plus whether `inner.poll_flush` /
`inner.poll_shutdown` was reached -/
structure FOut where
  o : WOut Unit
  innerCalled : Bool

/-- `AsyncWrite::poll_flush` (and `poll_shutdown`, which differs only in the final call on the transport):
`poll_flush_payload`, `poll_flush_frame`, `inner.poll_flush` — each under `ready!(..)?`. -/
def pollFlush (script : List WrEv) (fl : FlEv) (w : Writer) : Except String FOut :=
  match pollFlushPayload script w with
  | .error e => .error e
  | .ok o1 =>
    match o1.res with
    | .pending => .ok ⟨o1, false⟩
    | .err e => .ok ⟨{ o1 with res := .err e }, false⟩
    | .ready () =>
      match pollFlushFrame o1.rest o1.w with
      | .error e => .error e
      | .ok o2 =>
        let o : WOut Unit := { o2 with sent := o1.sent ++ o2.sent, trace := o1.trace ++ o2.trace }
        match o2.res with
        | .pending => .ok ⟨o, false⟩
        | .err _ => .ok ⟨o, false⟩
        | .ready () =>
          match fl with
          | .ok => .ok ⟨{ o with res := .ready () }, true⟩
          | .pending => .ok ⟨{ o with res := .pending }, true⟩
          | .err => .ok ⟨{ o with res := .err .transport }, true⟩

/-- `AsyncWrite::poll_shutdown`: same body as `poll_flush` with `inner.poll_shutdown` as the last call. -/
def pollShutdown (script : List WrEv) (sd : FlEv) (w : Writer) : Except String FOut := pollFlush script sd w

/-! ## Read half -/

/-- `read_buf` and the receiving cipher state of `noise::Stream` -/
structure Reader where
  payload : Buffer Nat
  frame : Buffer WByte
  nonce : Nat
deriving Repr

def Reader.init : Reader :=
  { payload := Buffer.new MAX_PAYLOAD_LEN, frame := Buffer.new MAX_FRAME_LEN, nonce := 0 }

/-- outcome of one call on the read half; `wire` is what is left of the byte stream the transport will deliver -/
structure ROut (α : Type) where
  r : Reader
  wire : List WByte
  trace : Trace
  rest : List RdEv
  res : Poll α

/-- the test at the top of the loop of `poll_read_frame`:
`if frame.len() >= LENGTH_FIELD_LEN { n = u16::from_le_bytes(frame.prefix()); if frame.len() >= LENGTH_FIELD_LEN + n { return Some(n) } }` -/
def frameReady (cv : Nat → Nat → Nat) (f : Buffer WByte) : Except String (Option Nat) :=
  if f.len ≥ LENGTH_FIELD_LEN then
    match f.prefix2 with
    | .error e => .error e
    | .ok (a, b) =>
      let n := le16 cv a b
      if f.len ≥ LENGTH_FIELD_LEN + n then .ok (some n) else .ok none
  else .ok none

/-- `poll_read_frame`: loop { return `Some(n)` when a whole frame is buffered; read more into
`frame.as_mut_capacity()`; `n == 0` → `None` (EOF); `frame.extend(n)` } -/
def pollReadFrame (cv : Nat → Nat → Nat) : List RdEv → Reader → List WByte → Except String (ROut (Option Nat))
  | script, r, wire =>
    match frameReady cv r.frame with
    | .error e => .error e
    | .ok (some n) => .ok ⟨r, wire, [], script, .ready (some n)⟩
    | .ok none =>
      match script with
      | [] => .ok ⟨r, wire, [(r.frame.capacity, .pending)], [], .pending⟩
      | .pending :: rest => .ok ⟨r, wire, [(r.frame.capacity, .pending)], rest, .pending⟩
      | .err :: rest => .ok ⟨r, wire, [(r.frame.capacity, .err)], rest, .err .transport⟩
      | .give k :: rest =>
        let bs := wire.take (min k r.frame.capacity)
        if bs.isEmpty then .ok ⟨r, wire, [(r.frame.capacity, .n 0)], rest, .ready none⟩
        else
          match r.frame.extendWith bs with
          | .error e => .error e
          | .ok f =>
            match pollReadFrame cv rest { r with frame := f } (wire.drop bs.length) with
            | .error e => .error e
            | .ok o => .ok { o with trace := (r.frame.capacity, .n bs.length) :: o.trace }

/-- `noise.read_message(ct, out)`: `Err` if `ct.len() > MAXMSGLEN`, if `ct.len() < TAGLEN`, if
`out.len() < ct.len() - TAGLEN`, or if authentication fails. -/
def readMessage (k : Nat) (c : List WByte) (outLen : Nat) : Option (List Nat) :=
  if c.length > SNOW_MAXMSGLEN then none
  else if c.length < SNOW_TAGLEN ∨ outLen < c.length - SNOW_TAGLEN then none
  else dec k c

/-- `poll_read_payload` -/
def pollReadPayload (cv : Nat → Nat → Nat) (script : List RdEv) (r : Reader) (wire : List WByte) :
    Except String (ROut Unit) :=
  if r.payload.len > 0 then .ok ⟨r, wire, [], script, .ready ()⟩
  else
    match pollReadFrame cv script r wire with
    | .error e => .error e
    | .ok o =>
      match o.res with
      | .pending => .ok { o with res := .pending }
      | .err e => .ok { o with res := .err e }
      | .ready none => .ok { o with res := .ready () }
      | .ready (some n) =>
        let r1 := o.r
        let payload := r1.payload.reset
        -- `&frame.as_slice()[LENGTH_FIELD_LEN..LENGTH_FIELD_LEN + n]`
        if r1.frame.slice.length < LENGTH_FIELD_LEN + n then .error "stream.rs: frame.as_slice()[..]"
        else
          let c := (r1.frame.slice.drop LENGTH_FIELD_LEN).take n
          match readMessage r1.nonce c payload.capacity with
          | none => .ok { o with r := { r1 with payload := payload }, res := .err .invalidData }
          | some p =>
            -- `frame.take(LENGTH_FIELD_LEN + n); frame.shift(); payload.extend(m)`
            match r1.frame.take (LENGTH_FIELD_LEN + n) with
            | .error e => .error e
            | .ok f =>
              let f' := f.shift
              match payload.extendWith p with
              | .error e => .error e
              | .ok payload' =>
                .ok { o with r := { payload := payload', frame := f', nonce := r1.nonce + 1 }, res := .ready () }

/-- `AsyncRead::poll_read(buf)` with `buf.remaining() = m`; `ready bs` = the bytes put into `buf`
(`bs = []` is what the caller reads as end of stream). -/
def pollRead (cv : Nat → Nat → Nat) (m : Nat) (script : List RdEv) (r : Reader) (wire : List WByte) :
    Except String (ROut (List Nat)) :=
  match pollReadPayload cv script r wire with
  | .error e => .error e
  | .ok o =>
    match o.res with
    | .pending => .ok { o with res := .pending }
    | .err e => .ok { o with res := .err e }
    | .ready () =>
      let n := min m o.r.payload.len
      let bs := o.r.payload.slice.take n
      match o.r.payload.take n with
      | .error e => .error e
      | .ok p' => .ok { o with r := { o.r with payload := p' }, res := .ready bs }


/-! ## Sequences of calls (with the history a property talks about) -/

/-- one call on the write half together with everything its environment decides during the call -/
inductive WOp where
  /-- `poll_write(buf)` -/
  | write (buf : List Nat) (script : List WrEv)
  /-- `poll_flush()`; `fl` answers `inner.poll_flush` -/
  | flush (script : List WrEv) (fl : FlEv)
  /-- `poll_shutdown()`; `sd` answers `inner.poll_shutdown` -/
  | shutdown (script : List WrEv) (sd : FlEv)

/-- write half plus history: `acc` = all plaintext `poll_write` reported as accepted so far, `wire` = all bytes the
transport accepted so far -/
structure WSt where
  w : Writer
  acc : List Nat
  wire : List WByte

def WSt.init : WSt := ⟨Writer.init, [], []⟩

def wstep (s : WSt) : WOp → Except String WSt
  | .write buf script =>
    match pollWrite buf script s.w with
    | .error e => .error e
    | .ok o =>
      let n := match o.res with | .ready n => n | _ => 0
      .ok ⟨o.w, s.acc ++ buf.take n, s.wire ++ o.sent⟩
  | .flush script fl =>
    match pollFlush script fl s.w with
    | .error e => .error e
    | .ok o => .ok ⟨o.o.w, s.acc, s.wire ++ o.o.sent⟩
  | .shutdown script sd =>
    match pollShutdown script sd s.w with
    | .error e => .error e
    | .ok o => .ok ⟨o.o.w, s.acc, s.wire ++ o.o.sent⟩

def wrun : WSt → List WOp → Except String WSt
  | s, [] => .ok s
  | s, op :: ops =>
    match wstep s op with
    | .error e => .error e
    | .ok s' => wrun s' ops

/-- the plaintext a `poll_read` handed to its caller -/
def delivered : Poll (List Nat) → List Nat
  | .ready bs => bs
  | _ => []

/-- a sequence of `poll_read(buf)` calls, each with its buffer size and what the transport does during the call,
over the byte stream `wire`; result: all plaintext handed out, final state, undelivered rest of the stream -/
def runReads (cv : Nat → Nat → Nat) : List (Nat × List RdEv) → Reader → List WByte →
    Except String (List Nat × Reader × List WByte)
  | [], r, wire => .ok ([], r, wire)
  | (m, script) :: ops, r, wire =>
    match pollRead cv m script r wire with
    | .error e => .error e
    | .ok o =>
      match runReads cv ops o.r o.wire with
      | .error e => .error e
      | .ok (d, r', w') => .ok (delivered o.res ++ d, r', w')

end EraVerif.Model.Noise
