/-!
# `signal::Once` (`node/libs/concurrency/src/signal.rs`) — the cancellation / termination signal under every `Ctx` and scope

`Once` is a tokio semaphore with zero permits; `send` closes it, `recv` is `acquire` (which fails — i.e. completes —
once the semaphore is closed), `try_recv` is `is_closed`. What the model keeps of tokio's semaphore is the one fact the
code relies on: a poll of `acquire` is ONE atomic step under the semaphore's lock — it either sees `closed` or has
registered its waker — and `close` sets `closed` and wakes every registered waker under the same lock.

`pollSplit…` is the non-atomic variant (test a flag, then register in a second step), kept to show that atomicity is
what the guarantee rests on (`Props/C17sig.split_poll_loses_wakeup`).
-/

namespace EraVerif.Model.Signal

structure Once where
  closed : Bool := false
  /-- wakers registered by pending `recv` futures -/
  waiting : List Nat := []
  /-- wakers that have been woken -/
  woken : List Nat := []
  deriving DecidableEq, Repr

inductive Op where
  | poll (w : Nat)      -- one poll of `recv` by future `w`
  | send
  | tryRecv
  deriving DecidableEq, Repr

inductive Out where
  | ready | pending | sent | flag (b : Bool)
  deriving DecidableEq, Repr

def step (o : Once) : Op → Once × Out
  | .poll w => if o.closed then (o, .ready) else ({ o with waiting := if w ∈ o.waiting then o.waiting else w :: o.waiting }, .pending)
  | .send => ({ closed := true, waiting := [], woken := o.woken ++ o.waiting }, .sent)
  | .tryRecv => (o, .flag o.closed)

def run (o : Once) : List Op → Once × List Out
  | [] => (o, [])
  | op :: rest => let (o1, x) := step o op; let (o2, xs) := run o1 rest; (o2, x :: xs)

def exec (o : Once) (ops : List Op) : Once := (run o ops).1

/-! ### the non-atomic variant: "test the flag", then "register" as two steps -/

inductive SOp where
  | check (w : Nat)     -- `while !flag`: reads the flag
  | register (w : Nat)  -- `notified().await`: registers the waker (only reached after a `check` that read `false`)
  | send
  deriving DecidableEq, Repr

def sstep (o : Once) : SOp → Once
  | .check _ => o
  | .register w => { o with waiting := w :: o.waiting }     -- registers even if the flag was set meanwhile
  | .send => { closed := true, waiting := [], woken := o.woken ++ o.waiting }

/-- the race of the harness: the first poll of one receiver against one `send`, in both orders; `true` = after `send`
has returned and the receiver has been polled once more, the receiver is ready in every order -/
def raceOk : Bool :=
  [[Op.poll 1, Op.send, Op.poll 1], [Op.send, Op.poll 1, Op.poll 1]].all fun ops =>
    (run {} ops).2.getLast? == some Out.ready

end EraVerif.Model.Signal
