import EraVerif.Model.Global

/-!
# The synchronous schedule (C06s): one round of ChonkyBFT among the correct validators, as an executable function

During the synchronous period the correct validators `C` (a list of committee indices; the Byzantine ones stay
silent) exchange messages reliably and their timers keep firing. One **round** is the following finite sequence of
global steps (`Model/Global.lean`: every element is a handler of one correct validator run to completion, i.e. a
`GStep` — `Proofs/SyncProgress*.lean` prove that each of them is legal, in particular that every delivered message is
`Authentic`, because it was sent by a correct validator in an earlier phase):

1. the view timer fires at every correct validator (`tick`);
2. the new-view message of a correct validator with maximal view is delivered to every correct validator
   (also to its sender: broadcasts loop back);
3. the timer fires again at every correct validator;
4. the timeout vote every correct validator sent in (3) is delivered to every correct validator;
5. the leader `L` of the next view builds its proposal with `createProposal` from the justification it was notified
   with (= `getJustification` of its state: `C05.proposer_justification`) and the fresh payload `fresh`; the proposal is
   delivered to every correct validator;
6. the commit vote every correct validator cast in (5) is delivered to every correct validator.

`failedRound` is phases (1)–(4) only (the leader of the next view is faulty and silent: the proposal never comes).

**Environment.** Every step of validator `i` runs with the environment `E i` — what its block store answers during
the round (`Env`: `queuedFirst`, `persistedNext`, `payloadOk`, `storeNext`). The theorems state what they need of `E`
(`Props/C06s.lean`): `persistedNext ≤ storeNext` (`Setup.sane`: the queue is never behind the disk), the store has
reached every cached proposal (`StoreOk`: nothing waits in `queue_block`, "missing blocks can be fetched"), and for
phase (5) (`EnvFits`): payloads verify, the proposed block is not pruned (`queuedFirst ≤` its number), and for a fresh
proposal its predecessor is persisted.

Besides the global state the run carries a **log** of all effects emitted, tagged with the validator that emitted
them (a ghost: no step reads it), so that "has notified its proposer" / "has handed block k to the store" can be
stated. No Mathlib import: `runRound` evaluates (`decide`) on concrete committees.
-/

namespace EraVerif.Model

/-- a handler of one validator run to completion in environment `e`: the new state, with the effects applied -/
def sysStep (cfg : RCfg) (e : Env) (s : Sys) (inp : Input) : Sys :=
  applyEffs { s with r := (step cfg s.r e inp).r } (step cfg s.r e inp).effs

/-- a list of inputs handled one after the other -/
def sysRun (cfg : RCfg) (e : Env) (s : Sys) (inps : List Input) : Sys := inps.foldl (sysStep cfg e) s

/-- the effects emitted while handling a list of inputs, in order -/
def sysEffs (cfg : RCfg) (e : Env) (s : Sys) : List Input → List Effect
  | [] => []
  | inp :: rest => (step cfg s.r e inp).effs ++ sysEffs cfg e (sysStep cfg e s inp) rest

/-- a global state together with the log of the effects emitted so far: (validator index, effect) -/
structure Run (cfg : RCfg) where
  g : Global cfg
  log : List (Nat × Effect)

/-- validator `i` handles `inp` (to completion) in its environment `E i` -/
def deliver {cfg : RCfg} (E : Fin cfg.c.n → Env) (x : Run cfg) (i : Fin cfg.c.n) (inp : Input) : Run cfg :=
  { g := x.g.set i (sysStep cfg (E i) (x.g.sys i) inp)
          (x.g.hist i ++ persists (step cfg (x.g.sys i).r (E i) inp).effs),
    log := x.log ++ (step cfg (x.g.sys i).r (E i) inp).effs.map (fun ef => (i.val, ef)) }

/-- validator `i` handles the inputs `inps` in order -/
def deliverList {cfg : RCfg} (E : Fin cfg.c.n → Env) (x : Run cfg) (i : Fin cfg.c.n) (inps : List Input) : Run cfg :=
  inps.foldl (fun x inp => deliver E x i inp) x

/-- a phase of the schedule: every validator of `C`, in turn, handles its inputs `inps i` -/
def phase {cfg : RCfg} (E : Fin cfg.c.n → Env) (C : List (Fin cfg.c.n)) (inps : Fin cfg.c.n → List Input)
    (x : Run cfg) : Run cfg :=
  C.foldl (fun x i => deliverList E x i (inps i)) x

/-! ## the six phases -/

/-- phases (1) and (3): the view timer fires at every correct validator -/
def tickAll {cfg : RCfg} (E : Fin cfg.c.n → Env) (C : List (Fin cfg.c.n)) (x : Run cfg) : Run cfg :=
  phase E C (fun _ => [.tick]) x

/-- a validator of `C` whose view is maximal (the first such) -/
def maxViewOf {cfg : RCfg} (g : Global cfg) : List (Fin cfg.c.n) → Option (Fin cfg.c.n)
  | [] => none
  | i :: rest =>
    match maxViewOf g rest with
    | none => some i
    | some m => if (g.sys m).r.view ≤ (g.sys i).r.view then some i else some m

/-- the new-view message validator `m` (re)broadcasts on a timeout: its highest certificate; none in view 0 -/
def newViewOf {cfg : RCfg} (g : Global cfg) (m : Fin cfg.c.n) : Option Signed :=
  if (g.sys m).r.view = 0 then none
  else match getJustification (g.sys m).r with
    | .ok j => some { msg := .newView j, key := m.val, sigOk := true }
    | .panic _ => none

/-- the inputs of phase (2): the new-view message of a validator with maximal view -/
def newViewInputs {cfg : RCfg} (C : List (Fin cfg.c.n)) (g : Global cfg) : List Input :=
  match maxViewOf g C with
  | none => []
  | some m => match newViewOf g m with
    | none => []
    | some s => [.msg s]

/-- phase (2) -/
def syncViews {cfg : RCfg} (E : Fin cfg.c.n → Env) (C : List (Fin cfg.c.n)) (x : Run cfg) : Run cfg :=
  phase E C (fun _ => newViewInputs C x.g) x

/-- the timeout vote a replica in state `r` signs (`start_timeout`) -/
def tvoteOf (cfg : RCfg) (r : Replica) : TVote :=
  { view := { genesis := cfg.c.genesis, epoch := cfg.c.epoch, number := r.view },
    highVote := r.highVote, highQC := r.highCommitQC }

/-- the inputs of phase (4): the timeout votes of all validators of `C`, validly signed -/
def timeoutInputs {cfg : RCfg} (C : List (Fin cfg.c.n)) (g : Global cfg) : List Input :=
  C.map (fun s => .msg { msg := .timeout (tvoteOf cfg (g.sys s).r), key := s.val, sigOk := true })

/-- phase (4) -/
def exchangeTimeouts {cfg : RCfg} (E : Fin cfg.c.n → Env) (C : List (Fin cfg.c.n)) (x : Run cfg) : Run cfg :=
  phase E C (fun _ => timeoutInputs C x.g) x

/-- the proposal the leader `L` makes: `create_proposal` on the justification it was notified with -/
def proposalOf {cfg : RCfg} (E : Fin cfg.c.n → Env) (g : Global cfg) (L : Fin cfg.c.n) (fresh : Payload) :
    Option Signed :=
  match getJustification (g.sys L).r with
  | .panic _ => none
  | .ok j =>
    match createProposal cfg (E L) j fresh with
    | none => none
    | some m => some { msg := m, key := L.val, sigOk := true }

def proposalInputs {cfg : RCfg} (E : Fin cfg.c.n → Env) (g : Global cfg) (L : Fin cfg.c.n) (fresh : Payload) :
    List Input :=
  match proposalOf E g L fresh with
  | none => []
  | some s => [.msg s]

/-- phase (5) -/
def propose {cfg : RCfg} (E : Fin cfg.c.n → Env) (C : List (Fin cfg.c.n)) (L : Fin cfg.c.n) (fresh : Payload)
    (x : Run cfg) : Run cfg :=
  phase E C (fun _ => proposalInputs E x.g L fresh) x

/-- the inputs of phase (6): the commit vote (= high vote) of every validator of `C` in phase `commit` -/
def commitInputs {cfg : RCfg} (C : List (Fin cfg.c.n)) (g : Global cfg) : List Input :=
  C.filterMap (fun s =>
    match (g.sys s).r.phase, (g.sys s).r.highVote with
    | .commit, some v => some (.msg { msg := .commit v, key := s.val, sigOk := true })
    | _, _ => none)

/-- phase (6) -/
def exchangeCommits {cfg : RCfg} (E : Fin cfg.c.n → Env) (C : List (Fin cfg.c.n)) (x : Run cfg) : Run cfg :=
  phase E C (fun _ => commitInputs C x.g) x

/-! ## rounds -/

/-- phases (1)–(2) -/
def afterSync {cfg : RCfg} (E : Fin cfg.c.n → Env) (C : List (Fin cfg.c.n)) (x : Run cfg) : Run cfg :=
  syncViews E C (tickAll E C x)

/-- phases (1)–(3) -/
def afterTimeouts {cfg : RCfg} (E : Fin cfg.c.n → Env) (C : List (Fin cfg.c.n)) (x : Run cfg) : Run cfg :=
  tickAll E C (afterSync E C x)

/-- phases (1)–(4): a round in which the leader of the next view stays silent -/
def failedRound {cfg : RCfg} (E : Fin cfg.c.n → Env) (C : List (Fin cfg.c.n)) (x : Run cfg) : Run cfg :=
  exchangeTimeouts E C (afterTimeouts E C x)

/-- phases (1)–(5) -/
def afterProposal {cfg : RCfg} (E : Fin cfg.c.n → Env) (C : List (Fin cfg.c.n)) (L : Fin cfg.c.n) (fresh : Payload)
    (x : Run cfg) : Run cfg :=
  propose E C L fresh (failedRound E C x)

/-- phases (1)–(6): a full round with leader `L` proposing the payload `fresh` -/
def runRound {cfg : RCfg} (E : Fin cfg.c.n → Env) (C : List (Fin cfg.c.n)) (L : Fin cfg.c.n) (fresh : Payload)
    (x : Run cfg) : Run cfg :=
  exchangeCommits E C (afterProposal E C L fresh x)

/-- `k` failed rounds in a row -/
def failedRounds {cfg : RCfg} (E : Fin cfg.c.n → Env) (C : List (Fin cfg.c.n)) : Nat → Run cfg → Run cfg
  | 0, x => x
  | k + 1, x => failedRounds E C k (failedRound E C x)

end EraVerif.Model
