import EraVerif.Model.Replica

/-!
# A correct validator across crashes: the replica, its durable state, and everything it ever sent

The effects of a step are applied one at a time; the process may die after any prefix of them (in particular right
before or right after a durable write, and between the durable write and the broadcast), and restarts from the last
durable state. `sent` accumulates every message that left the node over all incarnations of the validator key.
This is the system C03 quantifies over ("a crash injected at every durable-write point, both outcomes").
-/

namespace EraVerif.Model

structure Sys where
  r : Replica
  /-- last state made durable by `set_state` (`none` = nothing yet: a restart starts from the default state) -/
  d : Option Durable
  /-- every message that left the node, in order, across incarnations -/
  sent : List Msg
deriving Repr

def Sys.init : Sys := { r := Replica.start none, d := none, sent := [] }

/-- apply effects in order: `persist` makes a state durable, `send` lets a message leave the node -/
def applyEffs (s : Sys) : List Effect → Sys
  | [] => s
  | .persist d :: es => applyEffs { s with d := some d } es
  | .send m :: es => applyEffs { s with sent := s.sent ++ [m] } es
  | _ :: es => applyEffs s es

/-- the only `u64` value at which `ViewNumber::next` wraps; votes for it cannot gather a quorum unless more than f
weight is faulty, and the theorems exclude it explicitly -/
def InputOk : Input → Prop
  | .msg s => match s.msg with
    | .commit v => v.view.number + 1 < 2^64
    | .timeout t => t.view.number + 1 < 2^64
    | _ => True
  | _ => True

inductive SysStep (cfg : RCfg) : Sys → Sys → Prop where
  /-- a handler runs to completion (accepted or rejected) -/
  | run (s : Sys) (e : Env) (inp : Input) (hin : ∀ b, inp ≠ .restart b) (hok : InputOk inp)
      (hout : (step cfg s.r e inp).out = .accepted ∨ ∃ w, (step cfg s.r e inp).out = .rejected w) :
      SysStep cfg s (applyEffs { s with r := (step cfg s.r e inp).r } (step cfg s.r e inp).effs)
  /-- the process dies after the first `k` effects of a step (any `k`; also covers handlers that block or panic),
  and restarts from what is durable at that moment -/
  | crash (s : Sys) (e : Env) (inp : Input) (hin : ∀ b, inp ≠ .restart b) (hok : InputOk inp) (k : Nat) :
      SysStep cfg s
        (let s' := applyEffs s ((step cfg s.r e inp).effs.take k)
         { s' with r := Replica.start s'.d })
  /-- crash between two steps -/
  | restart (s : Sys) : SysStep cfg s { s with r := Replica.start s.d }

inductive Reachable (cfg : RCfg) : Sys → Prop where
  | init : Reachable cfg Sys.init
  | step {s s' : Sys} : Reachable cfg s → SysStep cfg s s' → Reachable cfg s'

/-- the view of a vote message (commit or timeout), `none` for other messages -/
def voteView : Msg → Option Nat
  | .commit v => some v.view.number
  | .timeout t => some t.view.number
  | _ => none

end EraVerif.Model
