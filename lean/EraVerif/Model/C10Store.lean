import EraVerif.Model.C10Verify

/-!
# C10 — `BlockStoreState` on peer-supplied values (`node/libs/engine/src/block_store.rs:71-122`)

A gossip peer's `push_block_store_state` request is only checked with `BlockStoreState::verify` (`first ≤ last`), then
stored per connection (`gossip/runner.rs:84-92`); later, in another task, `gossip::fetch::Queue::accept_block`
(`gossip/fetch.rs:97`) evaluates `available.contains(n)` on that state for the lowest pending fetch request.
So `contains` runs on arbitrary `u64`s chosen by the peer. `next()` is `last.number().next()` =
`checked_add(1).unwrap()`: it panics for `last = 2^64-1`, which is why `contains` must not be written in terms of it.

Call sites in `network` / `engine` / `executor` where `next()` / `prev()` / `+ 1` is applied to a block number
(`grep`, non-test code), and where the number comes from:

* `gossip/fetch.rs:97` `available.contains(n)` — **peer-supplied state**; comparisons only (this file: `contains_total`).
* `gossip/runner.rs:102` `engine_manager.get_block(ctx, req.0)` — **peer-supplied number**; `manager.rs:158`
  `queued.contains(number)` on the *local* state, `block_store.rs:23` `checked_sub` — no panic.
* `gossip/runner.rs:214-220` fetched block: `block.number() == req.0` (comparison), `queue_block`:
  `manager.rs:187` `b.number >= first_block` (comparison), `manager.rs:217` / `block_store.rs:31`
  `queued.next()` on the **local** state compared with the peer's block number.
* `gossip/runner.rs:90` `req.state.verify()` — comparison only.
* local-only (the node's own store, whose `last` is a block it verified): `gossip/mod.rs:130,134`
  (`queued().next()`, `next + 1` per fetch slot), `manager.rs:137,252,271,440,441,487,491,546`,
  `block_store.rs:31,43,52,63`, `executor/src/lib.rs:92`, `network/src/lib.rs:145` (`first_block().prev()`),
  `gossip/validator_addrs.rs:111` (`version + 1` of the node's *own* announcement),
  `consensus/mod.rs:52,75` (local message ids). These overflow only if the node itself holds block / version
  `2^64-1`.
* `gossip/loadtest/mod.rs:33,130,133` — the load-test client tool (not the node) does `last.number() + 1` on the
  peer's state.
-/

namespace EraVerif.Model.C10.Store
open EraVerif.Model.C10 EraVerif.Model.C10.Verify

/-- `BlockStoreState` with `Last` reduced to its `number()` (`PreGenesis(n)` ↦ `n`, `FinalV2(qc)` ↦ `qc.header().number`) -/
structure BSS where
  first : Nat
  last : Option Nat
  deriving Repr, DecidableEq

/-- `BlockStoreState::contains` — **current** code: `let Some(last) = &self.last else { return false };
self.first <= number && number <= last.number()` -/
def contains (s : BSS) (n : Nat) : Res Bool :=
  match s.last with
  | none => .ok false
  | some l => .ok (decide (s.first ≤ n) && decide (n ≤ l))

/-- `BlockStoreState::next`: `last.number().next()` (`checked_add(1).unwrap()`) / `first` for an empty store -/
def next (s : BSS) : Res Nat :=
  match s.last with
  | some l => blockNext l
  | none => .ok s.first

/-- `BlockStoreState::head`: `last.number()` / `first.prev().unwrap_or(BlockNumber(0))` -/
def head (s : BSS) : Nat :=
  match s.last with
  | some l => l
  | none => if s.first = 0 then 0 else s.first - 1

/-- `BlockStoreState::verify` -/
def verify (s : BSS) : Res Unit :=
  match s.last with
  | some l => if s.first ≤ l then .ok () else .err "first block has bigger number than the last block"
  | none => .ok ()

/-- the half-open rewrite `self.first <= number && number < self.next()` (a seeded fault): equivalent on every state
a node produces itself, but it evaluates `next()` on the peer's state -/
def containsViaNext (s : BSS) (n : Nat) : Res Bool :=
  if s.first ≤ n then (next s).bind fun nx => .ok (decide (n < nx)) else .ok false   -- `&&` short-circuits

end EraVerif.Model.C10.Store
