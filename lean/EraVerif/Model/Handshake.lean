/-!
# Model of the gossip / consensus handshakes (C12)

Transcription of
* `node/components/network/src/gossip/handshake/mod.rs`   `outbound` (80-121), `inbound` (123-157)
* `node/components/network/src/consensus/handshake/mod.rs` `outbound` (62-96),  `inbound` (98-128)

with symbolic cryptography (DESIGN §4.1): a signature is the pair *(signer, signed message)*, a signed message
verifies iff the signer is the claimed key and the signed message is the carried message. Keys, session ids and
genesis hashes are natural numbers (ids assigned by the harness). Everything the stream layer can do to the
receiving side — EOF, time-out, oversize frame, undecodable protobuf, undecodable key / signature bytes, a
`validator::Msg` of another variant — is `recv = none` (`frame::recv_proto` returned an error, which both
handshakes wrap into `Error::Stream`). `sendOk = false` is a failing `frame::send_proto`.

The order of the checks and the position of the send relative to the checks are those of the code.
No Mathlib import: the model driver links this file natively.
-/

namespace EraVerif.Model.Handshake

abbrev Key := Nat
abbrev Sid := Nat
abbrev Gen := Nat

/-- Symbolic signature: who produced it and over which session id. -/
structure Sig where
  signer : Key
  msg : Sid
deriving DecidableEq, Repr

/-- `node::Signed<SessionId>` / `validator::Signed<SessionId>`: message, claimed key, signature. -/
structure Signed where
  msg : Sid
  key : Key
  sig : Sig
deriving DecidableEq, Repr

/-- `Signed::verify`: the signature is by `key` and over `msg`. -/
def Signed.verify (s : Signed) : Bool := s.sig.signer == s.key && s.sig.msg == s.msg

/-- `key.sign_msg(session_id)` -/
def sign (k : Key) (m : Sid) : Signed := { msg := m, key := k, sig := { signer := k, msg := m } }

/-- `Handshake` (the fields that take part in the decision; `is_static`, `build_version` are informational). -/
structure Frame where
  sessionId : Signed
  genesis : Gen
deriving DecidableEq, Repr

/-- the variants of `handshake::Error` -/
inductive Err where
  | genesis | session | peer | signature | stream
deriving DecidableEq, Repr

inductive Res where
  | ok (key : Key)
  | err (e : Err)
deriving DecidableEq, Repr

/-- Result of one call plus the frames the call signed and wrote to the stream, in order. -/
structure Outcome where
  res : Res
  sent : List Frame
deriving DecidableEq, Repr

/-- `gossip::handshake::outbound(ctx, cfg, genesis, stream, peer)`; `sid = stream.id()`; `me = cfg.gossip.key`.
    Returns `Connection { key: h.session_id.key, .. }`. -/
def gossipOutbound (me : Key) (genesis : Gen) (sid : Sid) (peer : Key) (sendOk : Bool)
    (recv : Option Frame) : Outcome :=
  let own : Frame := { sessionId := sign me sid, genesis := genesis }
  if !sendOk then { res := .err .stream, sent := [own] } else
  match recv with
  | none => { res := .err .stream, sent := [own] }
  | some h =>
    if h.genesis ≠ genesis then { res := .err .genesis, sent := [own] }
    else if h.sessionId.msg ≠ sid then { res := .err .session, sent := [own] }
    else if h.sessionId.key ≠ peer then { res := .err .peer, sent := [own] }
    else if !h.sessionId.verify then { res := .err .signature, sent := [own] }
    else { res := .ok h.sessionId.key, sent := [own] }

/-- `gossip::handshake::inbound(ctx, cfg, genesis, stream)`: session id is checked first, then genesis, then
    the signature; only then the own handshake is signed and sent. -/
def gossipInbound (me : Key) (genesis : Gen) (sid : Sid) (sendOk : Bool) (recv : Option Frame) : Outcome :=
  match recv with
  | none => { res := .err .stream, sent := [] }
  | some h =>
    if h.sessionId.msg ≠ sid then { res := .err .session, sent := [] }
    else if h.genesis ≠ genesis then { res := .err .genesis, sent := [] }
    else if !h.sessionId.verify then { res := .err .signature, sent := [] }
    else
      let own : Frame := { sessionId := sign me sid, genesis := genesis }
      if !sendOk then { res := .err .stream, sent := [own] }
      else { res := .ok h.sessionId.key, sent := [own] }

/-- `consensus::handshake::outbound(ctx, me, genesis, stream, peer)`. The function returns `Ok(())`; the caller
    (`run_outbound_stream`) attributes the connection to `peer`, which the checks force to equal the key in the
    frame — the model returns that key. -/
def consensusOutbound (me : Key) (genesis : Gen) (sid : Sid) (peer : Key) (sendOk : Bool)
    (recv : Option Frame) : Outcome :=
  let own : Frame := { sessionId := sign me sid, genesis := genesis }
  if !sendOk then { res := .err .stream, sent := [own] } else
  match recv with
  | none => { res := .err .stream, sent := [own] }
  | some h =>
    if h.genesis ≠ genesis then { res := .err .genesis, sent := [own] }
    else if h.sessionId.msg ≠ sid then { res := .err .session, sent := [own] }
    else if h.sessionId.key ≠ peer then { res := .err .peer, sent := [own] }
    else if !h.sessionId.verify then { res := .err .signature, sent := [own] }
    else { res := .ok peer, sent := [own] }

/-- `consensus::handshake::inbound(ctx, me, genesis, stream)`: genesis first, then session id, then signature. -/
def consensusInbound (me : Key) (genesis : Gen) (sid : Sid) (sendOk : Bool) (recv : Option Frame) : Outcome :=
  match recv with
  | none => { res := .err .stream, sent := [] }
  | some h =>
    if h.genesis ≠ genesis then { res := .err .genesis, sent := [] }
    else if h.sessionId.msg ≠ sid then { res := .err .session, sent := [] }
    else if !h.sessionId.verify then { res := .err .signature, sent := [] }
    else
      let own : Frame := { sessionId := sign me sid, genesis := genesis }
      if !sendOk then { res := .err .stream, sent := [own] }
      else { res := .ok h.sessionId.key, sent := [own] }

inductive Net where
  | gossip | consensus
deriving DecidableEq, Repr

inductive Dir where
  | inbound | outbound
deriving DecidableEq, Repr

/-- One execution of one of the four handshake functions by an honest party. -/
structure Run where
  net : Net
  dir : Dir
  /-- the honest party's own key (node key on the gossip network, validator key on the consensus network) -/
  me : Key
  genesis : Gen
  /-- which noise session the stream belongs to, and which end of it this party holds -/
  session : Nat
  initiator : Bool
  /-- `stream.id()` -/
  sid : Sid
  /-- the dialled peer (used by outbound runs only) -/
  peer : Key
  sendOk : Bool
  /-- what `recv_proto` delivered (`none` = error) -/
  recv : Option Frame
deriving DecidableEq, Repr

def Run.outcome (r : Run) : Outcome :=
  match r.net, r.dir with
  | .gossip, .outbound => gossipOutbound r.me r.genesis r.sid r.peer r.sendOk r.recv
  | .gossip, .inbound => gossipInbound r.me r.genesis r.sid r.sendOk r.recv
  | .consensus, .outbound => consensusOutbound r.me r.genesis r.sid r.peer r.sendOk r.recv
  | .consensus, .inbound => consensusInbound r.me r.genesis r.sid r.sendOk r.recv

end EraVerif.Model.Handshake
