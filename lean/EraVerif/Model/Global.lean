import EraVerif.Model.ReplicaSys

/-!
# The global code-level system: all correct validators, an adversarial network, symbolic signatures

Every validator of the committee `cfg.c` is an index `i : Fin cfg.c.n`. The Byzantine ones are given by a predicate
`byz` (the theorems take a `Finset` of weight `≤ f`). Every correct validator runs the crash system of
`Model/ReplicaSys.lean` (`Sys = (replica, durable state, everything ever sent)`) under the same configuration.

**Network and adversary.** There is no network state: a correct validator may be handed *any* `Signed` message at
any time — lost, duplicated, reordered, replayed, invented by the adversary — as long as the message is `Authentic`
w.r.t. the current global state. `Authentic` is the symbolic (Dolev–Yao) reading of "signatures cannot be forged":

* if the outer signature of a vote or new-view message verifies (`sigOk = true`) and the key belongs to a correct
  validator, that validator has sent exactly this message. (Proposals are exempt: they are made by the proposer
  task, which is not part of `Sys` — a replica never sends one, `C05.no_proposal_sent` — and the leader's signature
  on a proposal plays no role for safety. Any proposal may be delivered, also one the correct leader never made;
  this only strengthens the theorems);
* every commit certificate occurring anywhere in the message (the justification of a proposal / new-view, the
  `high_qc` of a timeout vote, the `high_qc` of every group of a timeout certificate) carries, for every correct
  signer `i` in its aggregate signature `(i, v) ∈ sig`, a vote `v` that `i` has sent; likewise every timeout
  certificate and the timeout votes in its aggregate.

Nothing is assumed about Byzantine keys, keys outside the committee, or messages whose signature does not verify.

**Ghost history.** Besides `sys`, the global state records for every validator the list `hist` of all durable
states it has ever written (`Effect.persist`), in order. It is a history variable in the sense of Abadi–Lamport:
no transition reads it (`GStep.sysStep`: erasing it gives a transition of `SysStep`; `GStep.hist_irrelevant`:
whether and how the system can step does not depend on it), it only lets the abstraction to Layer P remember a commit vote that
became durable, never left the node (crash between `set_state` and the broadcast) and was later overwritten by the
vote of a higher view. Without it the abstraction "recorded = sent or currently durable" is not monotone and the
refinement is false — see `Props/C01r.lean`, section "Why the history variable".
-/

namespace EraVerif.Model

/-! ## Symbolic signatures -/

/-- what is known to be signed: `c i v` reads "validator index `i` is not a correct member of the committee, or it
has sent the commit vote `v`"; `t i tv` the same for timeout votes -/
structure Sigs where
  c : Nat → Vote → Prop
  t : Nat → TVote → Prop

/-- every correct signer of the aggregate has sent the vote it is listed with -/
def AuthCQC (sg : Sigs) (q : CommitQC) : Prop := ∀ p ∈ q.sig, sg.c p.1 p.2

/-- the same for a timeout certificate, and for the commit certificates its groups report -/
def AuthTQC (sg : Sigs) (q : TimeoutQC) : Prop :=
  (∀ p ∈ q.sig, sg.t p.1 p.2) ∧ ∀ e ∈ q.map, ∀ cq, e.1.highQC = some cq → AuthCQC sg cq

def AuthJust (sg : Sigs) : Just → Prop
  | .commit q => AuthCQC sg q
  | .timeout q => AuthTQC sg q

/-- all certificates occurring in a message are authentic -/
def AuthMsg (sg : Sigs) : Msg → Prop
  | .proposal _ j => AuthJust sg j
  | .newView j => AuthJust sg j
  | .commit _ => True
  | .timeout t => ∀ cq, t.highQC = some cq → AuthCQC sg cq

/-- what the handlers rely on, per input: the certificates are authentic, and a *vote* whose signature verifies was
sent by its signer if that signer is correct -/
def InpAuth (sg : Sigs) : Input → Prop
  | .msg s =>
    match s.msg with
    | .commit v => s.sigOk = true → sg.c s.key v
    | .timeout t => (s.sigOk = true → sg.t s.key t) ∧ ∀ cq, t.highQC = some cq → AuthCQC sg cq
    | .proposal _ j => AuthJust sg j
    | .newView j => AuthJust sg j
  | _ => True

/-! ## No-wrap side conditions beyond `InputOk` -/

/-- the justification of a *proposal* is not for the last `u64` view number (`ViewNumber::next` would wrap), and
no commit certificate it relies on is for the last `u64` block number (`BlockNumber::next` would wrap) -/
def JustNoWrap : Just → Prop
  | .commit q => q.message.view.number + 1 < 2 ^ 64 ∧ q.message.proposal.number + 1 < 2 ^ 64
  | .timeout q => q.view.number + 1 < 2 ^ 64 ∧
      ∀ e ∈ q.map, ∀ cq, e.1.highQC = some cq → cq.message.proposal.number + 1 < 2 ^ 64

def InputOk2 : Input → Prop
  | .msg s =>
    match s.msg with
    | .proposal _ j => JustNoWrap j
    | _ => True
  | _ => True

/-! ## One validator with its history -/

/-- the durable states written by a list of effects, in order -/
def persists : List Effect → List Durable
  | [] => []
  | .persist d :: es => d :: persists es
  | _ :: es => persists es

/-- `SysStep` decorated with the ghost history; `ok` says which messages may be delivered -/
inductive HStep (cfg : RCfg) (ok : Signed → Prop) : Sys × List Durable → Sys × List Durable → Prop where
  | run (s : Sys) (h : List Durable) (e : Env) (inp : Input) (hin : ∀ b, inp ≠ .restart b) (hok : InputOk inp)
      (hok2 : InputOk2 inp) (hauth : ∀ m, inp = .msg m → ok m)
      (hout : (step cfg s.r e inp).out = .accepted ∨ ∃ w, (step cfg s.r e inp).out = .rejected w) :
      HStep cfg ok (s, h)
        (applyEffs { s with r := (step cfg s.r e inp).r } (step cfg s.r e inp).effs,
         h ++ persists (step cfg s.r e inp).effs)
  | crash (s : Sys) (h : List Durable) (e : Env) (inp : Input) (hin : ∀ b, inp ≠ .restart b) (hok : InputOk inp)
      (hok2 : InputOk2 inp) (hauth : ∀ m, inp = .msg m → ok m) (k : Nat) :
      HStep cfg ok (s, h)
        ({ applyEffs s ((step cfg s.r e inp).effs.take k) with
             r := Replica.start (applyEffs s ((step cfg s.r e inp).effs.take k)).d },
         h ++ persists ((step cfg s.r e inp).effs.take k))
  | restart (s : Sys) (h : List Durable) : HStep cfg ok (s, h) ({ s with r := Replica.start s.d }, h)

/-- erasing the history gives a step of the crash system -/
theorem HStep.sysStep {cfg : RCfg} {ok : Signed → Prop} {a b : Sys × List Durable} (h : HStep cfg ok a b) :
    SysStep cfg a.1 b.1 := by
  cases h with
  | run s h e inp hin hok _ _ hout => exact SysStep.run s e inp hin hok hout
  | crash s h e inp hin hok _ _ k => exact SysStep.crash s e inp hin hok k
  | restart s h => exact SysStep.restart s

/-! ## The global system -/

structure Global (cfg : RCfg) where
  sys : Fin cfg.c.n → Sys
  /-- ghost: every durable state validator `i` has ever written, oldest first -/
  hist : Fin cfg.c.n → List Durable

def Global.init (cfg : RCfg) : Global cfg := { sys := fun _ => Sys.init, hist := fun _ => [] }

/-- replace validator `i`'s component -/
def Global.set {cfg : RCfg} (g : Global cfg) (i : Fin cfg.c.n) (s : Sys) (h : List Durable) : Global cfg :=
  { sys := fun j => if j = i then s else g.sys j, hist := fun j => if j = i then h else g.hist j }

/-- the signatures that exist in a global state: a correct validator's signature exists exactly on what it sent -/
def sigsOf {cfg : RCfg} (byz : Fin cfg.c.n → Prop) (g : Global cfg) : Sigs where
  c i v := ∀ h : i < cfg.c.n, ¬ byz ⟨i, h⟩ → Msg.commit v ∈ (g.sys ⟨i, h⟩).sent
  t i tv := ∀ h : i < cfg.c.n, ¬ byz ⟨i, h⟩ → Msg.timeout tv ∈ (g.sys ⟨i, h⟩).sent

/-- a commit certificate all of whose correct signers have sent the vote -/
def AuthenticQC {cfg : RCfg} (byz : Fin cfg.c.n → Prop) (g : Global cfg) (q : CommitQC) : Prop :=
  AuthCQC (sigsOf byz g) q

/-- **Unforgeability.** The message `s` can exist in global state `g`. -/
def Authentic {cfg : RCfg} (byz : Fin cfg.c.n → Prop) (g : Global cfg) (s : Signed) : Prop :=
  (s.sigOk = true → (∀ p j, s.msg ≠ .proposal p j) →
    ∀ h : s.key < cfg.c.n, ¬ byz ⟨s.key, h⟩ → s.msg ∈ (g.sys ⟨s.key, h⟩).sent) ∧
  AuthMsg (sigsOf byz g) s.msg

/-- one step of the global system: a correct validator takes one step of its crash system (handler run to
completion, crash after any prefix of the effects, restart); a delivered message must be authentic -/
inductive GStep (cfg : RCfg) (byz : Fin cfg.c.n → Prop) : Global cfg → Global cfg → Prop where
  | step (g : Global cfg) (i : Fin cfg.c.n) (hi : ¬ byz i) (s' : Sys) (h' : List Durable)
      (hs : HStep cfg (Authentic byz g) (g.sys i, g.hist i) (s', h')) : GStep cfg byz g (g.set i s' h')

inductive GReach (cfg : RCfg) (byz : Fin cfg.c.n → Prop) : Global cfg → Prop where
  | init : GReach cfg byz (Global.init cfg)
  | step {g g' : Global cfg} : GReach cfg byz g → GStep cfg byz g g' → GReach cfg byz g'

/-- the history is a ghost: every global step is a `SysStep` of one correct validator, everything else unchanged -/
theorem GStep.sysStep {cfg : RCfg} {byz : Fin cfg.c.n → Prop} {g g' : Global cfg} (h : GStep cfg byz g g') :
    ∃ i, ¬ byz i ∧ SysStep cfg (g.sys i) (g'.sys i) ∧ ∀ j, j ≠ i → g'.sys j = g.sys j := by
  cases h with
  | step i hi s' h' hs =>
    refine ⟨i, hi, ?_, ?_⟩
    · have := hs.sysStep
      simpa [Global.set] using this
    · intro j hj
      simp [Global.set, hj]

/-- an authentic message stays authentic when the validators send more -/
theorem Sigs.mono_c {sg sg' : Sigs} (h : ∀ i v, sg.c i v → sg'.c i v) {q : CommitQC} (hq : AuthCQC sg q) :
    AuthCQC sg' q := fun p hp => h _ _ (hq p hp)

/-! ## The history is a ghost -/

/-- whether and how a validator can step does not depend on the history -/
theorem HStep.hist_irrelevant {cfg : RCfg} {ok : Signed → Prop} {s s' : Sys} {h0 h0' : List Durable}
    (hs : HStep cfg ok (s, h0) (s', h0')) (h : List Durable) : ∃ h', HStep cfg ok (s, h) (s', h') := by
  generalize ha : (s, h0) = a at hs
  generalize hb : (s', h0') = b at hs
  cases hs with
  | run s1 h1 e inp hin hok hok2 hauth hout =>
    cases ha
    simp only [Prod.mk.injEq] at hb
    rw [hb.1]
    exact ⟨_, HStep.run s h e inp hin hok hok2 hauth hout⟩
  | crash s1 h1 e inp hin hok hok2 hauth k =>
    cases ha
    simp only [Prod.mk.injEq] at hb
    rw [hb.1]
    exact ⟨_, HStep.crash s h e inp hin hok hok2 hauth k⟩
  | restart s1 h1 =>
    cases ha
    simp only [Prod.mk.injEq] at hb
    rw [hb.1]
    exact ⟨_, HStep.restart s h⟩

/-- `Authentic` does not read the history -/
theorem authentic_hist {cfg : RCfg} (byz : Fin cfg.c.n → Prop) (g : Global cfg) (hist : Fin cfg.c.n → List Durable)
    (m : Signed) : Authentic byz ({ g with hist := hist } : Global cfg) m ↔ Authentic byz g m := Iff.rfl

/-- a global step is possible whatever the histories are: the transition relation on `sys` alone is that of the
plain (undecorated) system -/
theorem GStep.hist_irrelevant {cfg : RCfg} {byz : Fin cfg.c.n → Prop} {g g' : Global cfg} (h : GStep cfg byz g g')
    (hist : Fin cfg.c.n → List Durable) :
    ∃ hist', GStep cfg byz { g with hist := hist } { sys := g'.sys, hist := hist' } := by
  cases h with
  | step i hi s' h' hs =>
    obtain ⟨h'', hs'⟩ := hs.hist_irrelevant (hist i)
    exact ⟨_, GStep.step ({ g with hist := hist } : Global cfg) i hi s' h'' hs'⟩

/-! ## Whatever was sent stays sent -/

theorem applyEffs_sent_mono (s : Sys) (es : List Effect) : ∀ m ∈ s.sent, m ∈ (applyEffs s es).sent := by
  induction es generalizing s with
  | nil => exact fun m hm => hm
  | cons x es ih =>
    cases x with
    | persist d => exact fun m hm => ih { s with d := some d } m hm
    | send m' => exact fun m hm => ih { s with sent := s.sent ++ [m'] } m (List.mem_append_left _ hm)
    | notify j => exact fun m hm => ih s m hm
    | queueBlock a b c => exact fun m hm => ih s m hm

theorem HStep.sent_mono {cfg : RCfg} {ok : Signed → Prop} {s s' : Sys} {h h' : List Durable}
    (hs : HStep cfg ok (s, h) (s', h')) : ∀ m ∈ s.sent, m ∈ s'.sent := by
  generalize ha : (s, h) = a at hs
  generalize hb : (s', h') = b at hs
  cases hs with
  | run s1 h1 e inp hin hok hok2 hauth hout =>
    cases ha
    simp only [Prod.mk.injEq] at hb
    rw [hb.1]
    exact applyEffs_sent_mono { s with r := (step cfg s.r e inp).r } _
  | crash s1 h1 e inp hin hok hok2 hauth k =>
    cases ha
    simp only [Prod.mk.injEq] at hb
    rw [hb.1]
    exact applyEffs_sent_mono s _
  | restart s1 h1 =>
    cases ha
    simp only [Prod.mk.injEq] at hb
    rw [hb.1]
    exact fun m hm => hm

end EraVerif.Model
