import EraVerif.Model.C10Std

/-!
# C10 — length-prefixed frames (`node/components/network/src/frame.rs`) and the preface stages (`preface.rs`)

`recv_proto` / `mux_recv_proto` on a peer-controlled byte stream: `avail` are the bytes the peer delivers before
the end of the stream. The protobuf decoder (`prost`, third party) is a parameter `dec`. Besides the outcome the
model reports the size of the message buffer that was allocated, so that "the length is checked against the
per-RPC maximum **before** allocation" is a statement about the model.
-/

namespace EraVerif.Model.C10.Frame
open EraVerif.Model.C10

/-- `u32::from_le_bytes` -/
def le32 (bs : List Nat) : Nat :=
  bs.getD 0 0 + 256 * bs.getD 1 0 + 65536 * bs.getD 2 0 + 16777216 * bs.getD 3 0

/-- `u32::to_le_bytes` -/
def le32Bytes (n : Nat) : List Nat := [n % 256, n / 256 % 256, n / 65536 % 256, n / 16777216 % 256]

inductive Class where
  | ok            -- a value was decoded
  | tooLarge      -- "message too large"
  | eosLen        -- stream ended inside the length field
  | eosBody       -- stream ended inside the body
  | decodeErr     -- `zksync_protobuf::decode` returned an error
  deriving Repr, DecidableEq

def Class.name : Class → String
  | .ok => "ok" | .tooLarge => "too_large" | .eosLen => "eos_len" | .eosBody => "eos_body" | .decodeErr => "decode_err"

structure FrameRes where
  cls : Class
  /-- size of the message buffer allocated (`vec![0u8; msg_size]` / `bytes::Buffer::new(msg_size)`), 0 if none -/
  alloc : Nat
  /-- declared message size, when the length field was read -/
  declared : Option Nat
  /-- bytes taken from the stream -/
  consumed : Nat
  deriving Repr, DecidableEq

/-- `frame::recv_proto(ctx, stream, max_size)` (frame.rs:54-74) -/
def recvProto (dec : List Nat → Bool) (maxSize : Nat) (avail : List Nat) : FrameRes :=
  -- `io::read_exact(ctx, stream, &mut msg_size)` with `msg_size = [0u8; 4]`
  if avail.length < 4 then ⟨.eosLen, 0, none, avail.length⟩
  else
    let msgSize := le32 (avail.take 4)
    -- `if msg_size as usize > max_size { return Err(..) }`
    if msgSize > maxSize then ⟨.tooLarge, 0, some msgSize, 4⟩
    else
      -- `let mut msg = vec![0u8; msg_size as usize];`
      let rest := avail.drop 4
      if rest.length < msgSize then ⟨.eosBody, msgSize, some msgSize, avail.length⟩
      else if dec (rest.take msgSize) then ⟨.ok, msgSize, some msgSize, 4 + msgSize⟩
      else ⟨.decodeErr, msgSize, some msgSize, 4 + msgSize⟩

/-- `recv_proto` with the size check removed (a mutant, used to show that the check is what bounds the allocation) -/
def recvProtoUnchecked (dec : List Nat → Bool) (avail : List Nat) : FrameRes :=
  if avail.length < 4 then ⟨.eosLen, 0, none, avail.length⟩
  else
    let msgSize := le32 (avail.take 4)
    let rest := avail.drop 4
    if rest.length < msgSize then ⟨.eosBody, msgSize, some msgSize, avail.length⟩
    else if dec (rest.take msgSize) then ⟨.ok, msgSize, some msgSize, 4 + msgSize⟩
    else ⟨.decodeErr, msgSize, some msgSize, 4 + msgSize⟩

/-- `frame::mux_recv_proto(ctx, stream, max_size)` (frame.rs:12-33). `avail` = the concatenation of the DATA
frames of the transient stream up to its CLOSE / the end of the transport (`ReadStream::read_exact` returns
`Ok(())` with a partly filled buffer at end of stream). -/
def muxRecvProto (dec : List Nat → Bool) (maxSize : Nat) (avail : List Nat) : FrameRes :=
  -- `bytes::Buffer::new(4)`; `read_exact`; `if msg_size.capacity() != 0 { bail!("end of stream") }`
  if avail.length < 4 then ⟨.eosLen, 0, none, avail.length⟩
  else
    let msgSize := le32 (avail.take 4)
    if msgSize > maxSize then ⟨.tooLarge, 0, some msgSize, 4⟩
    else
      -- `bytes::Buffer::new(msg_size)`; `read_exact`; `if msg.len() < msg_size { bail!("end of stream") }`
      let rest := avail.drop 4
      if rest.length < msgSize then ⟨.eosBody, msgSize, some msgSize, avail.length⟩
      else if dec (rest.take msgSize) then ⟨.ok, msgSize, some msgSize, 4 + msgSize⟩
      else ⟨.decodeErr, msgSize, some msgSize, 4 + msgSize⟩

/-! ## preface::accept (preface.rs:98-114) as a sequence of stages on the raw connection -/

/-- `preface::MAX_FRAME = 10 * kB` -/
def PREFACE_MAX_FRAME : Nat := 10 * 1024

/-- what the peer does at each stage; the noise handshake and the protobuf decoders are third party: their
verdict on the bytes is an input -/
structure PrefaceIn where
  /-- plaintext bytes before the noise handshake (should be the `Encryption` frame) -/
  stage1 : List Nat
  /-- the decoded `Encryption` has its `t` (NoiseNN is the only variant) -/
  stage1DecodesTo : Bool
  /-- `noise::Stream::server_handshake` succeeds on what follows -/
  handshakeOk : Bool
  /-- decrypted bytes after the handshake (should be the `Endpoint` frame) -/
  stage3 : List Nat
  stage3DecodesTo : Bool

inductive PrefaceClass where
  | accepted | errEncryption | errHandshake | errEndpoint
  deriving Repr, DecidableEq

def PrefaceClass.name : PrefaceClass → String
  | .accepted => "accepted" | .errEncryption => "err_encryption" | .errHandshake => "err_handshake"
  | .errEndpoint => "err_endpoint"

/-- `preface::accept`; also returns the largest message buffer allocated -/
def prefaceAccept (i : PrefaceIn) : PrefaceClass × Nat :=
  let r1 := recvProto (fun _ => i.stage1DecodesTo) PREFACE_MAX_FRAME i.stage1
  if r1.cls ≠ .ok then (.errEncryption, r1.alloc)
  else if !i.handshakeOk then (.errHandshake, r1.alloc)
  else
    let r3 := recvProto (fun _ => i.stage3DecodesTo) PREFACE_MAX_FRAME i.stage3
    if r3.cls ≠ .ok then (.errEndpoint, max r1.alloc r3.alloc)
    else (.accepted, max r1.alloc r3.alloc)

end EraVerif.Model.C10.Frame
