import EraVerif.Model.Wire

/-!
# Typed conversions that are not field-by-field copies (C09)

Executable models of the `ProtoFmt::{build, read}` pairs whose correctness is not structural:

* `std_conv.rs`: `BitVec` (`bit_vec::BitVec::{to_bytes, from_bytes, truncate}` abstracted to `List Bool`),
  `time::Duration` / `time::Utc` (sign normalisation, `time::Duration::new`), `SocketAddr` (ip + port);
* `replica_timeout.rs`: `TimeoutQC` — a `BTreeMap<ReplicaTimeout, Signers>` keyed by the *derived* lexicographic
  `Ord` of `ReplicaTimeout` (and transitively `View`, `ReplicaCommit`, `CommitQC`, `Signers`, `BitVec`,
  `AggregateSignature`), serialised as two parallel repeated fields in map order;
* `schedule.rs`: `Schedule::new` re-orders the validators by public key (`BTreeMap`), `build` writes them in that
  order;
* `mux/handshake.rs`: `Handshake` — two `HashMap<CapabilityId, u32>`; the repaired `build_capabilities` (F7) writes
  the entries in ascending id order (the unrepaired one writes them in `HashMap` iteration order, which differs
  between two equal maps).

Each typed value is turned into the generic `Tree` of `Model/Wire.lean`; its encoding is `Tree.payload`.
Keys, signatures and hashes are opaque byte strings here (their `Ord` in Rust is the lexicographic order of the
encoded bytes: `bls12_381::{PublicKey, AggregateSignature}::cmp`, derived `Ord` of `Keccak256([u8; 32])`).

No Mathlib.
-/

namespace EraVerif.Model.Conv
open EraVerif.Model.Wire

/-- Result of a conversion that can fail or panic. -/
inductive Outcome (α : Type) where
  | ok (a : α)
  | err
  | panic (site : String)
deriving Repr, DecidableEq, Inhabited

/-! ## Building generic values -/

/-- `uint64` / `uint32` / `bool` field value. -/
def vU (n : Nat) : Tree := .leaf .varint (writeVarint n)

/-- `int64` / `int32` field value: prost writes the two's complement of the sign-extended 64-bit value. -/
def vI (i : Int) : Tree :=
  .leaf .varint (writeVarint (if 0 ≤ i then i.toNat else (i + 2 ^ 64).toNat))

/-- `bytes` / `string` field value. -/
def vB (b : Bytes) : Tree := .leaf .len b

/-- A message value from `(field number, values)` pairs given in any order; fields without values are absent. -/
def mkNode (fs : List (Nat × List Tree)) : Tree :=
  .node (fs.foldl (fun m p => if p.2.isEmpty then m else FieldMap.push m p.1 p.2) [])

def optVal (o : Option Tree) : List Tree :=
  match o with
  | none => []
  | some t => [t]

/-! ## std_conv.rs : BitVec -/

/-- `bit(self, i, 0) | … | bit(self, i, 7)` of `BitVec::to_bytes` for the (up to) 8 bits of byte `i`;
missing bits are 0. -/
def byteOfBits (c : List Bool) : UInt8 :=
  let b (i : Nat) (sh : Nat) : Nat := if c.getD i false then 2 ^ sh else 0
  UInt8.ofNat (b 0 7 + b 1 6 + b 2 5 + b 3 4 + b 4 3 + b 5 2 + b 6 1 + b 7 0)

/-- `BitVec::to_bytes`: big-endian bit order inside each byte, last byte zero-padded. -/
def toBytes : List Bool → Bytes
  | [] => []
  | b :: bs => byteOfBits ((b :: bs).take 8) :: toBytes ((b :: bs).drop 8)
termination_by l => l.length
decreasing_by simp; omega

/-- the 8 bits of a byte, most significant first -/
def bitsOfByte (x : UInt8) : List Bool :=
  let n := x.toNat
  [n / 128 % 2 == 1, n / 64 % 2 == 1, n / 32 % 2 == 1, n / 16 % 2 == 1,
   n / 8 % 2 == 1, n / 4 % 2 == 1, n / 2 % 2 == 1, n % 2 == 1]

/-- `BitVec::from_bytes`. -/
def fromBytes (bs : Bytes) : List Bool := bs.flatMap bitsOfByte

/-- `impl ProtoFmt for BitVec :: build` — the proto fields `(size, bytes_)`. -/
def bitvecBuild (bits : List Bool) : Nat × Bytes := (bits.length, toBytes bits)

/-- `impl ProtoFmt for BitVec :: read` on present fields. -/
def bitvecRead (size : Nat) (bytes : Bytes) : Outcome (List Bool) :=
  let this := fromBytes bytes
  if this.length < size then .err else .ok (this.take size)

def bitvecTree (bits : List Bool) : Tree :=
  let (size, bytes) := bitvecBuild bits
  mkNode [(1, [vU size]), (2, [vB bytes])]

/-! ## std_conv.rs : Duration, Utc -/

def i64Min : Int := -(2 ^ 63)
def i64Max : Int := 2 ^ 63 - 1
def nanosPerSec : Int := 1000000000

/-- wrapping `i64` arithmetic of the shipping profile (overflow checks off) -/
def wrapI64 (x : Int) : Int := (x + 2 ^ 63) % 2 ^ 64 - 2 ^ 63

/-- `time::Duration`: whole seconds (`i64`) and sub-second nanoseconds (`i32`, |·| < 10⁹, same sign as seconds). -/
structure Dur where
  secs : Int
  nanos : Int
deriving DecidableEq, Repr, Inhabited

/-- The invariant `time::Duration` maintains. -/
def Dur.Valid (d : Dur) : Prop :=
  i64Min ≤ d.secs ∧ d.secs ≤ i64Max ∧ -nanosPerSec < d.nanos ∧ d.nanos < nanosPerSec ∧
  (0 < d.secs → 0 ≤ d.nanos) ∧ (d.secs < 0 → d.nanos ≤ 0)

/-- `impl ProtoFmt for time::Duration :: build` — the proto fields `(seconds, nanos)`.
`seconds -= 1` wraps when `seconds = i64::MIN` (release profile; a checked build panics there). -/
def durBuild (d : Dur) : Int × Int :=
  if d.nanos < 0 then (wrapI64 (d.secs - 1), d.nanos + nanosPerSec) else (d.secs, d.nanos)

/-- the sum inside `duration_from_parts(seconds, nanos)` of std_conv.rs (the repaired F3):
`time::Duration::seconds(seconds).checked_add(time::Duration::nanoseconds(nanos.into()))` with time 0.3 semantics —
`Duration::nanoseconds(n) = (n / 10⁹, n % 10⁹)` (truncating), `checked_add` adds the parts, re-normalises the signs and
returns `None` (here: `err`, "duration overflow") when the seconds leave `i64`. -/
def durFromPartsRaw (seconds nanos : Int) : Outcome Dur :=
  let s := seconds + Int.tdiv nanos nanosPerSec
  if s < i64Min ∨ i64Max < s then .err
  else
    let n := 0 + Int.tmod nanos nanosPerSec
    if nanosPerSec ≤ n ∨ (s < 0 ∧ 0 < n) then
      (if i64Max < s + 1 then .err else .ok ⟨s + 1, n - nanosPerSec⟩)
    else if n ≤ -nanosPerSec ∨ (0 < s ∧ n < 0) then
      (if s - 1 < i64Min then .err else .ok ⟨s - 1, n + nanosPerSec⟩)
    else .ok ⟨s, n⟩

/-- `duration_from_parts` as shipped (repair F12 on top of F3): the sum, then
`ensure!(d.whole_seconds() > i64::MIN || d.subsec_nanoseconds() >= 0, "duration overflow")` — a value that `build()`
could not re-encode (it borrows one second for a negative sub-second part) is refused. -/
def durFromParts (seconds nanos : Int) : Outcome Dur :=
  match durFromPartsRaw seconds nanos with
  | .ok d => if i64Min < d.secs ∨ 0 ≤ d.nanos then .ok d else .err
  | o => o

/-- `impl ProtoFmt for time::Duration :: read` on present fields (`time::Utc` adds the result to `UNIX_EPOCH`,
which is the zero duration). -/
def durRead (seconds nanos : Int) : Outcome Dur := durFromParts seconds nanos

def durTree (d : Dur) : Tree :=
  let (s, n) := durBuild d
  mkNode [(1, [vI s]), (2, [vI n])]

/-! ## std_conv.rs : SocketAddr -/

/-- `std::net::SocketAddr` reduced to what is on the wire: ip octets (4 or 16) and port. -/
structure SockAddr where
  ip : Bytes
  port : Nat
deriving DecidableEq, Repr, Inhabited

def SockAddr.Valid (a : SockAddr) : Prop := (a.ip.length = 4 ∨ a.ip.length = 16) ∧ a.port < 2 ^ 16

def sockBuild (a : SockAddr) : Bytes × Nat := (a.ip, a.port)

/-- `read`: ip must have 4 or 16 bytes, the port must fit `u16`. -/
def sockRead (ip : Bytes) (port : Nat) : Outcome SockAddr :=
  if ip.length = 4 ∨ ip.length = 16 then
    if port < 2 ^ 16 then .ok ⟨ip, port⟩ else .err
  else .err

def sockTree (a : SockAddr) : Tree := mkNode [(1, [vB a.ip]), (2, [vU a.port])]

/-! ## Derived `Ord` of the consensus message types -/

/-- lexicographic order of sequences (Rust `Ord` for `Vec<T>`, `[T; N]`, `BitVec`): first difference decides, a
proper prefix is smaller -/
def cmpList {α : Type} (c : α → α → Ordering) : List α → List α → Ordering
  | [], [] => .eq
  | [], _ :: _ => .lt
  | _ :: _, [] => .gt
  | a :: as, b :: bs => (c a b).then (cmpList c as bs)

def cmpBytes (a b : Bytes) : Ordering := cmpList (fun x y => compare x.toNat y.toNat) a b
def cmpBool (a b : Bool) : Ordering := compare a.toNat b.toNat
def cmpBits (a b : List Bool) : Ordering := cmpList cmpBool a b

/-- Rust `Ord` for `Option<T>`: `None < Some(_)`. -/
def cmpOpt {α : Type} (c : α → α → Ordering) : Option α → Option α → Ordering
  | none, none => .eq
  | none, some _ => .lt
  | some _, none => .gt
  | some a, some b => c a b

/-- `validator::View` — field order of the struct (which the derived `Ord` follows): genesis, epoch, number. -/
structure View where
  genesis : Bytes
  epoch : Nat
  number : Nat
deriving DecidableEq, Repr, Inhabited

def View.cmp (a b : View) : Ordering :=
  (cmpBytes a.genesis b.genesis).then ((compare a.epoch b.epoch).then (compare a.number b.number))

/-- `v2::ReplicaCommit { view, proposal: BlockHeader { number, payload } }` -/
structure ReplicaCommit where
  view : View
  number : Nat
  payload : Bytes
deriving DecidableEq, Repr, Inhabited

def ReplicaCommit.cmp (a b : ReplicaCommit) : Ordering :=
  (a.view.cmp b.view).then ((compare a.number b.number).then (cmpBytes a.payload b.payload))

/-- `v2::CommitQC { message, signers: Signers(BitVec), signature }` -/
structure CommitQC where
  message : ReplicaCommit
  signers : List Bool
  signature : Bytes
deriving DecidableEq, Repr, Inhabited

def CommitQC.cmp (a b : CommitQC) : Ordering :=
  (a.message.cmp b.message).then ((cmpBits a.signers b.signers).then (cmpBytes a.signature b.signature))

/-- `v2::ReplicaTimeout { view, high_vote, high_qc }` -/
structure ReplicaTimeout where
  view : View
  highVote : Option ReplicaCommit
  highQc : Option CommitQC
deriving DecidableEq, Repr, Inhabited

def ReplicaTimeout.cmp (a b : ReplicaTimeout) : Ordering :=
  (a.view.cmp b.view).then
    ((cmpOpt ReplicaCommit.cmp a.highVote b.highVote).then (cmpOpt CommitQC.cmp a.highQc b.highQc))

/-! ## `BTreeMap` -/

/-- `BTreeMap::insert` on the sorted association list: replaces the value of an equal key. -/
def btInsert {κ ν : Type} (cmp : κ → κ → Ordering) : List (κ × ν) → κ → ν → List (κ × ν)
  | [], k, v => [(k, v)]
  | (k', v') :: rest, k, v =>
    match cmp k k' with
    | .lt => (k, v) :: (k', v') :: rest
    | .eq => (k', v) :: rest
    | .gt => (k', v') :: btInsert cmp rest k v

/-- a map built by inserting the entries in the given order -/
def btOfList {κ ν : Type} (cmp : κ → κ → Ordering) (l : List (κ × ν)) : List (κ × ν) :=
  l.foldl (fun m p => btInsert cmp m p.1 p.2) []

/-! ## Builds of the consensus messages -/

def hashTree (h : Bytes) : Tree := mkNode [(1, [vB h])]

def View.tree (v : View) : Tree :=
  mkNode [(1, [hashTree v.genesis]), (2, [vU v.number]), (3, [vU v.epoch])]

def ReplicaCommit.tree (c : ReplicaCommit) : Tree :=
  mkNode [(1, [c.view.tree]), (2, [mkNode [(1, [vU c.number]), (2, [hashTree c.payload])]])]

def CommitQC.tree (q : CommitQC) : Tree :=
  mkNode [(1, [q.message.tree]), (2, [bitvecTree q.signers]), (3, [hashTree q.signature])]

def ReplicaTimeout.tree (t : ReplicaTimeout) : Tree :=
  mkNode [(1, [t.view.tree]), (2, optVal (t.highVote.map ReplicaCommit.tree)),
          (3, optVal (t.highQc.map CommitQC.tree))]

/-- `v2::TimeoutQC`; `entries` are the `(message, signers)` pairs in the order they were inserted into the map. -/
structure TimeoutQC where
  view : View
  entries : List (ReplicaTimeout × List Bool)
  signature : Bytes
deriving Repr, Inhabited

/-- the `BTreeMap<ReplicaTimeout, Signers>` the Rust value holds -/
def TimeoutQC.map (q : TimeoutQC) : List (ReplicaTimeout × List Bool) :=
  btOfList ReplicaTimeout.cmp q.entries

/-- `impl ProtoFmt for TimeoutQC :: build`: `self.map.iter().map(|(msg, signers)| (msg.build(), signers.build())).unzip()` -/
def TimeoutQC.tree (q : TimeoutQC) : Tree :=
  let m := q.map
  mkNode [(1, [q.view.tree]), (2, m.map (fun p => p.1.tree)), (3, m.map (fun p => bitvecTree p.2)),
          (4, [hashTree q.signature])]

/-! ## schedule.rs : `Schedule::new` and `build` -/

structure ValidatorInfo where
  key : Bytes
  weight : Nat
  leader : Bool
deriving DecidableEq, Repr, Inhabited

inductive LeaderMode where
  | roundRobin
  | weighted
deriving DecidableEq, Repr, Inhabited

structure LeaderSelection where
  frequency : Nat
  mode : LeaderMode
deriving DecidableEq, Repr, Inhabited

/-- the parts of `Schedule` that `build` writes (the other fields are functions of these) -/
structure Schedule where
  vec : List ValidatorInfo
  leaderSelection : LeaderSelection
deriving DecidableEq, Repr, Inhabited

/-- the `for v in validators { .. }` loop of `Schedule::new`: `none` = one of the `ensure!`s / `checked_add`
failed -/
def scheduleLoop : List ValidatorInfo → List (Bytes × ValidatorInfo) → Nat → Option (List (Bytes × ValidatorInfo))
  | [], map, _ => some map
  | v :: rest, map, total =>
    if map.any (fun p => cmpBytes p.1 v.key == .eq) then none      -- "Duplicate key in validator Schedule"
    else if v.weight = 0 then none                                 -- "Validator weight has to be a positive value"
    else if 2 ^ 64 ≤ total + v.weight then none                    -- checked_add
    else scheduleLoop rest (btInsert cmpBytes map v.key v) (total + v.weight)

/-- `Schedule::new`. -/
def scheduleNew (validators : List ValidatorInfo) (sel : LeaderSelection) : Option Schedule :=
  match scheduleLoop validators [] 0 with
  | none => none
  | some map =>
    if map.isEmpty then none                                       -- "at least one validator"
    else
      let vec := map.map (·.2)
      if vec.any (·.leader) then some ⟨vec, sel⟩ else none         -- "at least one leader"

def ValidatorInfo.tree (v : ValidatorInfo) : Tree :=
  mkNode [(1, [hashTree v.key]), (2, [vU v.weight]), (3, [vU (if v.leader then 1 else 0)])]

def LeaderSelection.tree (s : LeaderSelection) : Tree :=
  let mode := match s.mode with
    | .roundRobin => mkNode [(1, [mkNode []])]
    | .weighted => mkNode [(3, [mkNode []])]
  mkNode [(1, [vU s.frequency]), (2, [mode])]

def Schedule.tree (s : Schedule) : Tree :=
  mkNode [(1, s.vec.map ValidatorInfo.tree), (2, [s.leaderSelection.tree])]

/-! ## mux/handshake.rs (repaired: entries written in ascending id order) -/

/-- `HashMap::insert` as a key-unique association list kept sorted by id (the iteration order of the repaired
`build_capabilities`); a later insert of the same id replaces the value. -/
def capsOfList (l : List (Nat × Nat)) : List (Nat × Nat) := btOfList (fun a b => compare a b) l

def capTree (c : Nat × Nat) : Tree := mkNode [(1, [vU c.1]), (2, [vU c.2])]

def muxHandshakeTree (accept connect : List (Nat × Nat)) : Tree :=
  mkNode [(5, (capsOfList accept).map capTree), (6, (capsOfList connect).map capTree)]

end EraVerif.Model.Conv
