/-!
# Model of the connection pool (C12) — `node/components/network/src/pool.rs`

`Pool<K,V>`: `extra_limit`, `extra_count`, `allowed : HashSet<K>`, `current : im::HashMap<K,V>`.
The hash map is an association list with *map* semantics (`mapInsert` replaces an existing binding, exactly as
`im::HashMap::insert` would); that `insert` never replaces anything is a theorem, not a modelling choice.
`PoolWatch::insert` / `remove` run under the watch's async mutex, so each call is one atomic step.

`extra_count -= 1` in `remove` is a `usize` subtraction: where it would underflow (panic in checked builds,
wrap-around in release) the model returns the explicit outcome `underflow`; `Props/C12.lean` proves it
unreachable.
-/

namespace EraVerif.Model.Pool

abbrev Key := Nat
abbrev Val := Nat

structure Pool where
  extraLimit : Nat
  extraCount : Nat
  allowed : List Key
  current : List (Key × Val)
deriving DecidableEq, Repr

/-- `PoolWatch::new(allowed, extra_limit)` -/
def Pool.new (allowed : List Key) (extraLimit : Nat) : Pool :=
  { extraLimit := extraLimit, extraCount := 0, allowed := allowed, current := [] }

def Pool.keys (p : Pool) : List Key := p.current.map Prod.fst

/-- `im::HashMap::remove` -/
def mapErase (m : List (Key × Val)) (k : Key) : List (Key × Val) := m.filter (fun e => e.1 != k)

/-- `im::HashMap::insert` (replaces an existing binding) -/
def mapInsert (m : List (Key × Val)) (k : Key) (v : Val) : List (Key × Val) := mapErase m k ++ [(k, v)]

/-- `im::HashMap::get` -/
def mapGet (m : List (Key × Val)) (k : Key) : Option Val := (m.find? (fun e => e.1 == k)).map Prod.snd

inductive Op where
  | insert (k : Key) (v : Val)
  | remove (k : Key)
deriving DecidableEq, Repr

/-- What one call returns / does. -/
inductive Obs where
  /-- `insert` returned `Ok(())` -/
  | ok
  /-- `insert`: "already exists" -/
  | errExists
  /-- `insert`: "limit exceeded" -/
  | errLimit
  /-- `remove` removed an entry (subscribers notified) -/
  | removed
  /-- `remove`: key not present (no notification) -/
  | absent
  /-- `remove`: `extra_count -= 1` with `extra_count == 0` -/
  | underflow
deriving DecidableEq, Repr

/-- `PoolWatch::insert(k, v)` (pool.rs:46-62), statement by statement. -/
def Pool.insert (p : Pool) (k : Key) (v : Val) : Pool × Obs :=
  if k ∈ p.keys then (p, .errExists)
  else if k ∉ p.allowed then
    if p.extraCount ≥ p.extraLimit then (p, .errLimit)
    else ({ p with extraCount := p.extraCount + 1, current := mapInsert p.current k v }, .ok)
  else ({ p with current := mapInsert p.current k v }, .ok)

/-- `PoolWatch::remove(k)` (pool.rs:65-75). -/
def Pool.remove (p : Pool) (k : Key) : Pool × Obs :=
  if k ∉ p.keys then (p, .absent)
  else
    let cur := mapErase p.current k
    if k ∉ p.allowed then
      if p.extraCount = 0 then ({ p with current := cur }, .underflow)
      else ({ p with extraCount := p.extraCount - 1, current := cur }, .removed)
    else ({ p with current := cur }, .removed)

def Pool.step (p : Pool) : Op → Pool × Obs
  | .insert k v => p.insert k v
  | .remove k => p.remove k

/-- Runs a sequence of calls; returns the final pool and the observations in order. -/
def Pool.run (p : Pool) : List Op → Pool × List Obs
  | [] => (p, [])
  | op :: ops =>
    let (p', o) := p.step op
    let (p'', os) := p'.run ops
    (p'', o :: os)

/-- number of current entries whose key is outside `allowed` -/
def Pool.extras (p : Pool) : Nat := (p.keys.filter (fun k => k ∉ p.allowed)).length

/-! ## The simple specification the pool refines: a set of keys with a quota for keys outside `allowed`. -/

structure Spec where
  limit : Nat
  allowed : List Key
  members : List Key
deriving DecidableEq, Repr

def Spec.new (allowed : List Key) (limit : Nat) : Spec := { limit := limit, allowed := allowed, members := [] }

def Spec.step (s : Spec) : Op → Spec × Obs
  | .insert k _ =>
    if k ∈ s.members then (s, .errExists)
    else if k ∉ s.allowed ∧ (s.members.filter (fun k => k ∉ s.allowed)).length ≥ s.limit then (s, .errLimit)
    else ({ s with members := s.members.filter (fun x => x != k) ++ [k] }, .ok)
  | .remove k =>
    if k ∉ s.members then (s, .absent)
    else ({ s with members := s.members.filter (fun x => x != k) }, .removed)

def Spec.run (s : Spec) : List Op → Spec × List Obs
  | [] => (s, [])
  | op :: ops =>
    let (s', o) := s.step op
    let (s'', os) := s'.run ops
    (s'', o :: os)

end EraVerif.Model.Pool
