import EraVerif.Model.C10Std
import EraVerif.Model.C10Mux

/-!
# C10 — `ProtoFmt::read` / `ProtoRepr::read` at the proto-struct level

`PV` is a decoded protobuf message as `prost` hands it to the repository's `read` functions: every singular
field is an `Option` (absent / present), scalars are arbitrary, `bytes` are described by their length, an
identity (equal id = equal bytes) and the verdict of the third-party validator consulted for them
(`blst` key/signature validation, `ed25519-dalek` key decompression, `semver` parsing — not modelled).

`Rd` is a small language in which each `read` function of the repository is transcribed field by field, in
source order: `req` = `required(..)?` / `read_required(..)?`, `opt` = `read_optional` / `.as_ref().map(..)`,
`rep` = a `repeated` field read element by element, `oneof` = a `match` on a `oneof` that is required.
Leaves with arithmetic or cross-field checks (`Timestamp`, `Duration`, `BitVector`, `SocketAddr`, `Genesis`,
`ValidatorSchedule`, mux capabilities) are the functions of `C10Std.lean` / below.

`Mode.unwrap` and the `…Legacy` leaves exist so that code which *can* panic is expressible: the totality
theorem is about the transcription of the current tree, and is false for the pre-repair transcriptions.
-/

namespace EraVerif.Model.C10

mutual
  inductive PV where
    | int (n : Int)
    | bool (b : Bool)
    /-- `bytes`: length, identity, third-party verdict -/
    | bytes (len : Nat) (id : Nat) (tp : Bool)
    /-- `string` with the verdict of the third-party parser -/
    | str (tp : Bool)
    | msg (fields : PFields)
    | list (items : PVs)
  inductive PFields where
    | nil
    | cons (name : String) (v : PV) (rest : PFields)
  inductive PVs where
    | nil
    | cons (v : PV) (rest : PVs)
end

namespace PFields
def find? : PFields → String → Option PV
  | nil, _ => none
  | cons n v rest, k => if n = k then some v else rest.find? k
def names : PFields → List String
  | nil => []
  | cons n _ rest => n :: rest.names
end PFields

namespace PVs
def toList : PVs → List PV
  | nil => []
  | cons v rest => v :: rest.toList
def ofList : List PV → PVs
  | [] => nil
  | v :: vs => cons v (ofList vs)
end PVs

namespace PV
/-- field of a message (absent if the value is not a message) -/
def field? (v : PV) (k : String) : Option PV :=
  match v with
  | msg fs => fs.find? k
  | _ => none
def int? : PV → Option Int
  | int n => some n
  | _ => none
def nat? : PV → Option Nat
  | int n => if n ≥ 0 then some n.toNat else none
  | _ => none
def bytesLen? : PV → Option Nat
  | bytes l _ _ => some l
  | _ => none
def items : PV → List PV
  | list xs => xs.toList
  | _ => []
def fieldInt? (v : PV) (k : String) : Option Int := (v.field? k).bind int?
def fieldNat? (v : PV) (k : String) : Option Nat := (v.field? k).bind nat?
def fieldBytesLen? (v : PV) (k : String) : Option Nat := (v.field? k).bind bytesLen?
def fieldItems (v : PV) (k : String) : List PV := ((v.field? k).map items).getD []
end PV

/-! ## leaves -/
inductive Leaf where
  /-- a scalar or `bytes` that is copied / cloned -/
  | copy
  /-- `<[u8; n]>::try_from(bytes)?` and the like: error unless the length is `n`
      (`Keccak256::decode`, `ed25519::Signature::decode`, ping data) -/
  | bytesLen (n : Nat)
  /-- bytes validated by third-party code (`bls::PublicKey::key_validate`, `bls::Signature::sig_validate`,
      `ed::VerifyingKey::from_bytes` after a length check `n`) -/
  | bytesTP (n : Option Nat)
  /-- `str::parse::<semver::Version>()` -/
  | strTP
  | timestamp | duration | bitvec | sockaddr | rate
  | timestampLegacy | durationLegacy
  /-- `GenesisRaw::read` followed by `with_hash()` (which calls `build()`); `legacy` = before the repair of F5 -/
  | genesis (legacy : Bool)
  /-- `Schedule::read` (= reads + `Schedule::new`) -/
  | schedule
  /-- mux `Handshake::read` -/
  | muxHandshake
  deriving Repr, DecidableEq

def pdurOf (v : PV) : PDur := ⟨v.fieldInt? "seconds", v.fieldInt? "nanos"⟩

/-- one `ValidatorInfo` as `Schedule::read` sees it: `(key id, key valid, weight, leader)` with absent parts -/
structure PValidator where
  key : Option (Nat × Bool)   -- (identity, third-party verdict) of `key.bn254`; `none` = `key` or `bn254` absent
  weight : Option Nat
  leader : Option Bool

def pvalidatorOf (v : PV) : PValidator :=
  { key := match (v.field? "key").bind (·.field? "bn254") with
      | some (.bytes _ id tp) => some (id, tp)
      | _ => none
    weight := v.fieldNat? "weight"
    leader := match v.field? "leader" with
      | some (.bool b) => some b
      | _ => none }

/-- `ValidatorInfo::read` -/
def validatorInfoRead (p : PValidator) : Res (Nat × Nat × Bool) := do
  let (id, tp) ← Res.ofOption "key" p.key
  if !tp then Res.err "key" else
  let w ← Res.ofOption "weight" p.weight
  let l ← Res.ofOption "leader" p.leader
  pure (id, w, l)

/-- the loop of `Schedule::new` (schedule.rs:31-51): duplicate key, zero weight, `checked_add` overflow;
accumulator = (keys seen, total weight) -/
def scheduleFold : List (Nat × Nat × Bool) → List Nat → Nat → Res (List Nat × Nat)
  | [], seen, total => .ok (seen, total)
  | (id, w, _) :: rest, seen, total =>
    if seen.contains id then .err "Duplicate key in validator Schedule"
    else if w = 0 then .err "Validator weight has to be a positive value"
    else if total + w > U64_MAX then .err "Sum of weights overflows in validator Schedule"
    else scheduleFold rest (id :: seen) (total + w)

/-- `LeaderSelection::read` + `LeaderSelectionMode::read` -/
def leaderSelectionRead (v : Option PV) : Res Unit := do
  let ls ← Res.ofOption "leader_selection" v
  let _ ← Res.ofOption "frequency" (ls.fieldNat? "frequency")
  let mode ← Res.ofOption "mode" (ls.field? "mode")
  match mode.field? "round_robin", mode.field? "weighted" with
  | none, none => Res.err "mode: missing"
  | _, _ => pure ()

def mapMRes {α β : Type} (f : α → Res β) : List α → Res (List β)
  | [] => .ok []
  | x :: xs => (f x).bind fun y => (mapMRes f xs).bind fun ys => .ok (y :: ys)

/-- `impl ProtoFmt for Schedule :: read`; returns the total weight -/
def scheduleRead (v : PV) : Res Nat := do
  let vals ← mapMRes (fun x => validatorInfoRead (pvalidatorOf x)) (v.fieldItems "validators")
  leaderSelectionRead (v.field? "leader_selection")
  let (seen, total) ← scheduleFold vals [] 0
  if seen.isEmpty then Res.err "Validator Schedule must contain at least one validator"
  else if !(vals.any fun x => x.2.2) then Res.err "Validator Schedule must contain at least one leader"
  else pure total

/-- `GenesisRaw::build`'s `match self.protocol_version.0 { 2 => .., _ => unreachable!() }`, reached from
`Genesis::read` through `with_hash()` → `canonical(&self)` → `build()` -/
def genesisBuild (protocolVersion : Nat) : Res Unit :=
  if protocolVersion = 2 then .ok () else .panic "genesis.rs: unreachable!() in GenesisRaw::build"

/-- `impl ProtoFmt for Genesis :: read` = `GenesisRaw::read(r)?.with_hash()` (genesis.rs:36-55, 126-128).
`legacy`: the `match protocol_version.0` of `read` ends in `_ => unreachable!()` instead of `bail!`. -/
def genesisRead (legacy : Bool) (v : PV) : Res Unit :=
  (Res.ofOption "protocol_version" (v.fieldNat? "protocol_version")).bind fun pver =>
  let schedule : Res Unit :=
    if pver = 2 then
      match v.field? "validators_schedule" with
      | none => .ok ()
      | some s => (scheduleRead s).bind fun _ => .ok ()
    else if legacy then .panic "genesis.rs: unreachable!() in GenesisRaw::read"
    else .err "unsupported protocol version"
  schedule.bind fun _ =>
  (Res.ofOption "chain_id" (v.fieldNat? "chain_id")).bind fun _ =>
  (Res.ofOption "fork_number" (v.fieldNat? "fork_number")).bind fun _ =>
  (Res.ofOption "first_block" (v.fieldNat? "first_block")).bind fun _ =>
  genesisBuild pver

def pcapOf (v : PV) : Mux.PCap := ⟨v.fieldNat? "id", v.fieldNat? "max_streams"⟩

def Leaf.run (l : Leaf) (v : PV) : Res Unit :=
  match l with
  | .copy => .ok ()
  | .bytesLen n =>
    match v with
    | .bytes len _ _ => if len = n then .ok () else .err "bad length"
    | _ => .err "not bytes"
  | .bytesTP n =>
    match v with
    | .bytes len _ tp =>
      match n with
      | some n => if len = n then (if tp then .ok () else .err "invalid key material") else .err "bad length"
      | none => if tp then .ok () else .err "third-party validation failed"
    | _ => .err "not bytes"
  | .strTP =>
    match v with
    | .str tp => if tp then .ok () else .err "parse"
    | _ => .err "not a string"
  | .timestamp => (timestampRead (pdurOf v)).bind fun _ => .ok ()
  | .duration => (durationRead (pdurOf v)).bind fun _ => .ok ()
  | .timestampLegacy => (timestampReadLegacy (pdurOf v)).bind fun _ => .ok ()
  | .durationLegacy => (durationReadLegacy (pdurOf v)).bind fun _ => .ok ()
  | .bitvec => (bitvecRead ⟨v.fieldNat? "size", v.fieldBytesLen? "bytes_"⟩).bind fun _ => .ok ()
  | .sockaddr => (sockaddrRead ⟨v.fieldBytesLen? "ip", v.fieldNat? "port"⟩).bind fun _ => .ok ()
  | .rate =>
    (rateRead ⟨v.fieldNat? "burst", (v.field? "refresh").map pdurOf⟩).bind fun _ => .ok ()
  | .genesis legacy => genesisRead legacy v
  | .schedule => (scheduleRead v).bind fun _ => .ok ()
  | .muxHandshake =>
    (Mux.handshakeRead ((v.fieldItems "accept").map pcapOf) ((v.fieldItems "connect").map pcapOf)).bind fun _ => .ok ()

/-! ## the reader language -/
inductive Mode where
  /-- `required(&r.f).context(..)?` / `read_required(&r.f)?` / `r.f.context(..)?` -/
  | req
  /-- `read_optional(&r.f)?` / `r.f.as_ref().map(..).transpose()?` -/
  | opt
  /-- a `repeated` field, every element read in order -/
  | rep
  /-- `r.f.unwrap()` / `r.f.as_ref().unwrap()`: panics when absent (not used by the current tree) -/
  | unwrap
  deriving Repr, DecidableEq

mutual
  inductive Rd where
    | leaf (l : Leaf)
    /-- a message whose fields are read in this order -/
    | msg (fields : Flds)
    /-- `match r.t.as_ref().context("missing")? { T::A(x) => .., T::B(x) => .. }` (required oneof) -/
    | oneof (alts : Flds)
    /-- as `oneof`, followed by `V::extract(msg)?`: any alternative is read, but only `allowed` is accepted
        (`Signed<V>::read`) -/
    | oneofOnly (alts : Flds) (allowed : String)
  inductive Flds where
    | nil
    | cons (name : String) (mode : Mode) (rd : Rd) (rest : Flds)
    /-- `for (a, b) in r.as.iter().zip(r.bs.iter()) { A::read(a)?; B::read(b)?; }` (`TimeoutQC::read`):
        pairs up to the shorter length, the surplus is never looked at -/
    | zip (nameA : String) (rdA : Rd) (nameB : String) (rdB : Rd) (rest : Flds)
end

/-- all elements in order, stopping at the first non-`ok` -/
def allRes (f : PV → Res Unit) : List PV → Res Unit
  | [] => .ok ()
  | x :: xs => (f x).bind fun _ => allRes f xs

/-- pairs in order (`zip`), stopping at the first non-`ok` -/
def zipRes (f g : PV → Res Unit) : List PV → List PV → Res Unit
  | x :: xs, y :: ys => (f x).bind fun _ => (g y).bind fun _ => zipRes f g xs ys
  | _, _ => .ok ()

mutual
  def Rd.run : Rd → PV → Res Unit
    | .leaf l, v => l.run v
    | .msg fs, v => fs.run v
    | .oneof alts, v => alts.runAlt v
    | .oneofOnly alts allowed, v => (alts.runAlt v).bind fun _ =>
        if (v.field? allowed).isSome then .ok () else .err "BadVariantError"
  /-- fields of a message in order -/
  def Flds.run : Flds → PV → Res Unit
    | .nil, _ => .ok ()
    | .cons name mode rd rest, v =>
      let here : Res Unit :=
        match mode with
        | .req => match v.field? name with
          | none => .err name
          | some x => rd.run x
        | .opt => match v.field? name with
          | none => .ok ()
          | some x => rd.run x
        | .unwrap => match v.field? name with
          | none => .panic ("unwrap() on absent field " ++ name)
          | some x => rd.run x
        | .rep => allRes (fun x => rd.run x) (v.fieldItems name)
      here.bind fun _ => rest.run v
    | .zip nameA rdA nameB rdB rest, v =>
      (zipRes (fun x => rdA.run x) (fun x => rdB.run x) (v.fieldItems nameA) (v.fieldItems nameB)).bind
        fun _ => rest.run v
  /-- the alternative of a oneof that is present (prost keeps exactly one), `missing` if none -/
  def Flds.runAlt : Flds → PV → Res Unit
    | .nil, _ => .err "missing"
    | .cons name _ rd rest, v =>
      match v.field? name with
      | some x => rd.run x
      | none => rest.runAlt v
    | .zip _ _ _ _ rest, v => rest.runAlt v
end

/-- no construct that can panic: no `unwrap` mode, no `…Legacy` leaf -/
def Leaf.safe : Leaf → Bool
  | .timestampLegacy | .durationLegacy => false
  | .genesis legacy => !legacy
  | _ => true

mutual
  def Rd.safe : Rd → Bool
    | .leaf l => l.safe
    | .msg fs => fs.safe
    | .oneof alts => alts.safe
    | .oneofOnly alts _ => alts.safe
  def Flds.safe : Flds → Bool
    | .nil => true
    | .cons _ mode rd rest => mode != .unwrap && rd.safe && rest.safe
    | .zip _ rdA _ rdB rest => rdA.safe && rdB.safe && rest.safe
end

end EraVerif.Model.C10
