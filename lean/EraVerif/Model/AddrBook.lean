/-!
# Model of the validator address book (C18)

Transcribes `node/components/network/src/gossip/validator_addrs.rs` (`ValidatorAddrs::update`,
`ValidatorAddrsWatch::{update, announce, current}`) and `NetAddress::is_newer`
(`node/libs/roles/src/validator/messages/discovery.rs`).

Symbolic cryptography (DESIGN §4.1): a signature is the pair *(signer, signed message)*;
`Signed::verify` accepts iff the signer is the key the announcement names and the signed message is the
message the announcement carries. A forged announcement is one whose signature was made by another key,
or by the right key over a different message (e.g. a replayed signature with the address or the version
edited).

Keys and addresses are small integer ids assigned by the harness; `version` is the `u64` of the code (as
`Nat`, the harness only produces values `< 2^64`); a timestamp is the pair
`(whole seconds, sub-second nanoseconds)` of the `time::Duration` since the epoch, which the derived `Ord`
of `time::Duration`/`time::Utc` compares lexicographically.
-/

namespace EraVerif.Model.AddrBook

/-- `validator::NetAddress` -/
structure Msg where
  addr : Nat
  version : Nat
  secs : Int
  nanos : Int
  deriving DecidableEq, Repr, Inhabited

/-- `validator::Signed<validator::NetAddress>`; `sigBy`/`sigOver` = who produced `sig` and over which message -/
structure Ann where
  key : Nat
  msg : Msg
  sigBy : Nat
  sigOver : Msg
  deriving DecidableEq, Repr, Inhabited

/-- `Signed::verify` (symbolic) -/
def Ann.verify (a : Ann) : Bool := a.sigBy == a.key && decide (a.sigOver = a.msg)

/-- `SecretKey::sign_msg` (symbolic) -/
def sign (key : Nat) (m : Msg) : Ann := { key := key, msg := m, sigBy := key, sigOver := m }

/-- `NetAddress::is_newer`: `(self.version, self.timestamp) > (b.version, b.timestamp)`, tuples and
`time::Utc` compared lexicographically. -/
def Msg.isNewer (a b : Msg) : Prop :=
  b.version < a.version ∨ (a.version = b.version ∧ (b.secs < a.secs ∨ (a.secs = b.secs ∧ b.nanos < a.nanos)))

instance (a b : Msg) : Decidable (a.isNewer b) := by unfold Msg.isNewer; exact inferInstance

/-- `ValidatorAddrs`: the `im::HashMap<PublicKey, Arc<Signed<NetAddress>>>`, as an association list with at
most one entry per key (`put` removes the old entry). Only `get`/`insert` are used by the code. -/
abbrev Book := List Ann

/-- `HashMap::get` -/
def lookup (b : Book) (k : Nat) : Option Ann := b.find? (fun a => a.key == k)

/-- `HashMap::insert(d.key, d)` -/
def put (b : Book) (d : Ann) : Book := d :: b.filter (fun a => a.key != d.key)

/-- the two ways `ValidatorAddrs::update` bails out -/
inductive Err
  | duplicate   -- `anyhow::bail!("duplicate entry for {:?}", d.key)`
  | badSig      -- `d.verify()?`
  deriving DecidableEq, Repr

/-- The `for d in data` loop of `ValidatorAddrs::update`, with its three pieces of mutable state
(`self.0`, `done`, `changed`). Returns the (possibly already modified) map together with the result —
"`self` might get modified even if an error is returned". Order of the checks as in the code:
duplicate key → record key in `done` → membership → not-newer skip → signature → insert. -/
def updateLoop (validators : List Nat) : Book → List Nat → Bool → List Ann → Book × Except Err Bool
  | self, _, changed, [] => (self, .ok changed)
  | self, done, changed, d :: data =>
    if done.contains d.key then (self, .error .duplicate)
    else
      let done := d.key :: done
      if !validators.contains d.key then updateLoop validators self done changed data
      else
        match lookup self d.key with
        | some x =>
          if ¬ d.msg.isNewer x.msg then updateLoop validators self done changed data
          else if !d.verify then (self, .error .badSig)
          else updateLoop validators (put self d) done true data
        | none =>
          if !d.verify then (self, .error .badSig)
          else updateLoop validators (put self d) done true data

/-- `ValidatorAddrs::update(&mut self, validators, data) -> anyhow::Result<bool>` -/
def ValidatorAddrs.update (validators : List Nat) (self : Book) (data : List Ann) : Book × Except Err Bool :=
  updateLoop validators self [] false data

/-- result of `ValidatorAddrsWatch::update`: the published map, the returned `Result`, and whether
`send_replace` was called (subscribers notified) -/
structure UpdateOut where
  book : Book
  res : Except Err Unit
  notified : Bool

/-- `ValidatorAddrsWatch::update`: works on a clone; the clone is published only if the whole batch was
valid *and* something changed. -/
def update (validators : List Nat) (cur : Book) (data : List Ann) : UpdateOut :=
  let (copy, r) := ValidatorAddrs.update validators cur data
  match r with
  | .error e => { book := cur, res := .error e, notified := false }
  | .ok true => { book := copy, res := .ok (), notified := true }
  | .ok false => { book := cur, res := .ok (), notified := false }

def u64Mod : Nat := 2 ^ 64

/-- `ValidatorAddrsWatch::announce`: `version = stored.version + 1` (or 0), sign, insert unconditionally,
`send_replace`. The `+ 1` is a plain `u64` addition: it wraps in the release profile (and in the harness
profile) and panics with overflow checks; `announceOverflows` tells which calls are affected. -/
def announceVersion (cur : Book) (key : Nat) : Nat :=
  match lookup cur key with
  | some x => (x.msg.version + 1) % u64Mod
  | none => 0

def announceOverflows (cur : Book) (key : Nat) : Bool :=
  match lookup cur key with
  | some x => decide (u64Mod ≤ x.msg.version + 1)
  | none => false

def announce (cur : Book) (key addr : Nat) (secs nanos : Int) : Book :=
  put cur (sign key { addr := addr, version := announceVersion cur key, secs := secs, nanos := nanos })

/-- operations on one node's address book -/
inductive Op
  | update (validators : List Nat) (data : List Ann)
  | announce (key addr : Nat) (secs nanos : Int)

def step (b : Book) : Op → Book
  | .update vs data => (update vs b data).book
  | .announce k a s n => announce b k a s n

/-- the book after a sequence of operations -/
def run (b : Book) (ops : List Op) : Book := ops.foldl step b

/-! ### vocabulary of the convergence statement -/

/-- a node with a fixed committee receiving a sequence of batches -/
def feed (validators : List Nat) (b : Book) (batches : List (List Ann)) : Book :=
  batches.foldl (fun b data => (update validators b data).book) b

/-- the announcements the node has *seen*: all entries of the batches it accepted (a rejected batch is
dropped as a whole, its sender is disconnected) -/
def seen (validators : List Nat) : Book → List (List Ann) → List Ann
  | _, [] => []
  | b, data :: rest =>
    let o := update validators b data
    (match o.res with | .ok _ => data | .error _ => []) ++ seen validators o.book rest

/-- no `announce` of the run hits the `u64` wrap of `version + 1` -/
def NoOverflow : Book → List Op → Prop
  | _, [] => True
  | b, op :: ops =>
    (match op with | .announce k _ _ _ => announceOverflows b k = false | .update _ _ => True) ∧
      NoOverflow (step b op) ops

/-- `current()` in canonical order: the entries for keys `0 … bound-1`, ascending -/
def snapshot (b : Book) (bound : Nat) : List Ann := (List.range bound).filterMap (lookup b)

def keyBound (b : Book) : Nat := b.foldl (fun m a => max m (a.key + 1)) 0

end EraVerif.Model.AddrBook
