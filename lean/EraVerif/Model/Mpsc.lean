/-!
# Model of the replica's pending-input queue (C16, part a)

Transcribes

* `node/libs/concurrency/src/sync/prunable_mpsc/mod.rs` — `Sender::send` (filter predicate, then one
  `send_modify` critical section: `retain` with the mutable `keep` flag, then `push_back`) and
  `Receiver::recv` (`wait_for(!buf.is_empty())`, then a second critical section `pop_front`, then `unwrap`);
* `node/components/bft/src/lib.rs` — `inbound_filter_predicate` (signature check) and
  `inbound_selection_function` (same key and label: compare views; otherwise keep both).

The buffer is a `List` in queue order (head = front of the `VecDeque`). The two critical sections
(`send_modify` closures) are the atomic events; `wait_for` only observes the buffer. No Mathlib.
-/

namespace EraVerif.Model.Mpsc

/-- `SelectionFunctionResult` -/
inductive Sel where
  | keep | discardOld | discardNew
  deriving DecidableEq, Repr

/-- The `buf.retain(|x| match sel(x, &value) {..})` loop of `Sender::send`, front to back, with its mutable
`keep` flag: returns the retained elements and the final value of `keep`. -/
def retainLoop {α : Type} (sel : α → α → Sel) (v : α) : List α → List α × Bool
  | [] => ([], true)
  | x :: xs =>
    let r := retainLoop sel v xs
    match sel x v with
    | .keep => (x :: r.1, r.2)
    | .discardOld => (r.1, r.2)
    | .discardNew => (x :: r.1, false)

/-- `Sender::send` for an arbitrary filter predicate and selection function. -/
def sendGen {α : Type} (filter : α → Bool) (sel : α → α → Sel) (buf : List α) (v : α) : List α :=
  if filter v = false then buf            -- `if !(self.filter_predicate)(&value) { return; }`
  else
    let r := retainLoop sel v buf
    if r.2 then r.1 ++ [v] else r.1       -- `if keep { buf.push_back(value); }`

/-- `ConsensusMsg::label()`: four distinct labels. -/
inductive Kind where
  | proposal | commit | timeout | newView
  deriving DecidableEq, Repr

/-- What the queue looks at in a `FromNetworkMessage`: the signing key (`sender`, a small integer standing
for the public key), the label, `view_number()`, whether `msg.verify()` succeeds; `id` identifies the
individual `send` call (it stands for the `ack` channel the request carries). -/
structure Msg where
  sender : Nat
  kind : Kind
  view : Nat
  id : Nat
  sigOk : Bool
  deriving DecidableEq, Repr

/-- `inbound_filter_predicate` -/
def bftFilter (m : Msg) : Bool := m.sigOk

/-- `inbound_selection_function` -/
def bftSel (old new : Msg) : Sel :=
  if old.sender ≠ new.sender ∨ old.kind ≠ new.kind then .keep
  else if old.view < new.view then .discardOld
  else .discardNew

/-- `Sender::send` on the channel made by `create_input_channel()`. -/
def send (buf : List Msg) (m : Msg) : List Msg := sendGen bftFilter bftSel buf m

/-- Atomic events of the channel: a complete `Sender::send` (any sender task); the consumer observing a
non-empty buffer (`wait_for` returns); the consumer's `pop_front` critical section followed by `unwrap`. -/
inductive Ev where
  | send (m : Msg)
  | wait
  | pop
  deriving Repr

/-- `buf`: the queue. `out`: everything `recv` has returned so far, in order. `armed`: the single consumer is
between `wait_for` and `pop_front`. `panicked`: `value.unwrap()` hit `None`. -/
structure St where
  buf : List Msg := []
  out : List Msg := []
  armed : Bool := false
  panicked : Bool := false
  deriving Repr

def step (s : St) : Ev → St
  | .send m => { s with buf := send s.buf m }
  | .wait => if s.buf.isEmpty then s else { s with armed := true }   -- blocks while the buffer is empty
  | .pop =>
    if s.armed then
      match s.buf with
      | [] => { s with armed := false, panicked := true }               -- `value.unwrap()` on `None`
      | h :: r => { s with buf := r, out := s.out ++ [h], armed := false }
    else s                                                               -- not enabled: `recv` pops only after its wait

def runFrom (s : St) (evs : List Ev) : St := evs.foldl step s

def run (evs : List Ev) : St := runFrom {} evs

/-- All messages handed to `send`, in order. -/
def arrivals : List Ev → List Msg
  | [] => []
  | .send m :: es => m :: arrivals es
  | _ :: es => arrivals es

/-- Result of a complete `recv` call. -/
inductive Recv where
  | blocked            -- the buffer is empty: the call waits
  | got (m : Msg)
  | panic              -- `value.unwrap()` on `None`
  deriving Repr

/-- A complete `recv` call with no other task running in between (what the sequential driver executes). -/
def recvSeq (s : St) : St × Recv :=
  let s1 := step s .wait
  if s1.armed then
    let s2 := step s1 .pop
    match s1.buf with
    | [] => (s2, .panic)
    | h :: _ => (s2, .got h)
  else (s1, .blocked)

end EraVerif.Model.Mpsc
