import EraVerif.Gen.LeaderSel

/-!
# Executable model of `validator::Schedule::{new, view_leader}` (C11)

Transcribed from `node/libs/roles/src/validator/messages/schedule.rs` (statement order and order of checks kept).
Public keys are natural numbers: the harness replaces each BLS key by its rank in the `Ord` order of the keys it
uses (`Ord for bls12_381::PublicKey` compares the encoded bytes), so `<` on the ids is the `BTreeMap` order.

The three scalar expressions of `view_leader` / `leader_weighted_eligibility` (`turn`, the round-robin index, the
hash reduction and its low digit) are **not** written here: they come from `Gen/LeaderSel.lean`, which
`tools/translate.py` regenerates from the current source on every run.

Where the Rust can panic the model has an explicit `panic` outcome: division / remainder by zero, slice index out of
bounds, `unwrap()` of `None`, `unreachable!()`, and `+=` on `u64` (which panics in the dev profile and wraps in the
release profile — the theorems show the branch is never taken, so both profiles compute the same).
Keccak is a parameter `H : Nat → Nat` (the hash of the 8 big-endian bytes of the argument, as an integer).
-/

namespace EraVerif.Model.Leader
open EraVerif.Model.LeaderOps

/-- `ValidatorInfo` -/
structure VInfo where
  key : Nat
  weight : Nat
  leader : Bool
deriving Repr, DecidableEq, Inhabited

/-- `LeaderSelectionMode` -/
inductive Mode
  | roundRobin
  | weighted
deriving Repr, DecidableEq, Inhabited

/-- `LeaderSelection` -/
structure Sel where
  frequency : Nat
  mode : Mode
deriving Repr, DecidableEq, Inhabited

/-- `Schedule` (`indexes` is the inverse of `vec` and is not used by leader selection) -/
structure Schedule where
  vec : List VInfo
  totalWeight : Nat
  leaders : List Nat
  sel : Sel
  leaderWeight : Nat
deriving Repr, DecidableEq, Inhabited

/-- the `anyhow` errors of `Schedule::new`, in the order of the `ensure!`s -/
inductive NewErr
  | duplicateKey
  | zeroWeight
  | weightOverflow
  | empty
  | noLeader
deriving Repr, DecidableEq, Inhabited

/-- result of `Schedule::new`: `Ok`, `Err`, or a panic -/
inductive NewOut
  | ok (s : Schedule)
  | err (e : NewErr)
  | panic (site : String)
deriving Repr, DecidableEq, Inhabited

/-! ## `BTreeMap<PublicKey, ValidatorInfo>` as an association list sorted by key -/

/-- `map.contains_key(k)` -/
def containsKey (m : List VInfo) (k : Nat) : Bool := m.any (fun x => x.key == k)

/-- `map.insert(v.key, v)`: keeps the list sorted by key, replaces the value of an equal key. -/
def mapInsert (v : VInfo) : List VInfo → List VInfo
  | [] => [v]
  | x :: xs =>
    if v.key < x.key then v :: x :: xs
    else if v.key = x.key then v :: xs
    else x :: mapInsert v xs

/-- loop state of `Schedule::new` -/
structure Acc where
  map : List VInfo
  total : Nat
  lw : Nat
deriving Repr, DecidableEq, Inhabited

/-- outcome of one loop iteration / of the loop -/
inductive StepOut
  | cont (a : Acc)
  | err (e : NewErr)
  | panic (site : String)
deriving Repr, DecidableEq, Inhabited

/-- body of `for v in validators { … }` -/
def newStep (a : Acc) (v : VInfo) : StepOut :=
  -- ensure!(!map.contains_key(&v.key))
  if containsKey a.map v.key then .err .duplicateKey
  -- ensure!(v.weight > 0)
  else if ¬ (v.weight > 0) then .err .zeroWeight
  -- total_weight.checked_add(v.weight).context(..)?
  else if ¬ (a.total + v.weight < U64) then .err .weightOverflow
  else
    let total := a.total + v.weight
    -- if v.leader { leader_weight += v.weight; }
    if v.leader then
      if ¬ (a.lw + v.weight < U64) then .panic "attempt to add with overflow (leader_weight)"
      else .cont { map := mapInsert v a.map, total := total, lw := a.lw + v.weight }
    else .cont { map := mapInsert v a.map, total := total, lw := a.lw }

/-- the `for` loop -/
def newLoop : List VInfo → Acc → StepOut
  | [], a => .cont a
  | v :: vs, a =>
    match newStep a v with
    | .cont a' => newLoop vs a'
    | o => o

/-- `vec.iter().enumerate().filter_map(|(i, v)| if v.leader { Some(i) } else { None })`, counting from `i` -/
def leaderIdx : Nat → List VInfo → List Nat
  | _, [] => []
  | i, v :: vs => if v.leader then i :: leaderIdx (i + 1) vs else leaderIdx (i + 1) vs

/-- `Schedule::new(validators, leader_selection)` -/
def Schedule.new (validators : List VInfo) (sel : Sel) : NewOut :=
  match newLoop validators { map := [], total := 0, lw := 0 } with
  | .err e => .err e
  | .panic s => .panic s
  | .cont a =>
    -- ensure!(!map.is_empty())
    if a.map.isEmpty then .err .empty
    else
      let vec := a.map                       -- map.into_values().collect()
      let leaders := leaderIdx 0 vec
      -- ensure!(!leaders.is_empty())
      if leaders.isEmpty then .err .noLeader
      else .ok { vec := vec, totalWeight := a.total, leaders := leaders, sel := sel, leaderWeight := a.lw }

/-! ## `Schedule::view_leader` -/

/-- return value of `view_leader`: a key, or a panic -/
inductive Out
  | ok (key : Nat)
  | panic (site : String)
deriving Repr, DecidableEq, Inhabited

/-- the `for l in self.leaders.iter()` loop of the weighted arm, `offset` being the running prefix sum -/
def walk (vec : List VInfo) (eligibility : Nat) : List Nat → Nat → Out
  | [], _ => .panic "unreachable!()"
  | l :: ls, offset =>
    match vec[l]? with                       -- self.get(*l).unwrap()
    | none => .panic "unwrap on None (self.get(*l))"
    | some v =>
      -- offset += v.weight
      if ¬ (offset + v.weight < U64) then .panic "attempt to add with overflow (offset)"
      else
        let offset := offset + v.weight
        if eligibility < offset then .ok v.key
        else walk vec eligibility ls offset

/-- `Schedule::view_leader(view_number)`, `H` = Keccak256 of the turn's 8 big-endian bytes as an integer -/
def viewLeader (H : Nat → Nat) (s : Schedule) (view : Nat) : Out :=
  match Gen.LeaderSel.turn view s.sel.frequency with
  | none => .panic "turn"
  | some turn =>
    match s.sel.mode with
    | .roundRobin =>
      match Gen.LeaderSel.rrIndex turn s.leaders.length with
      | none => .panic "remainder with a divisor of zero (leaders.len())"
      | some i =>
        match s.leaders[i]? with             -- self.leaders[…]
        | none => .panic "index out of bounds (self.leaders)"
        | some index =>
          match s.vec[index]? with           -- self.get(index).unwrap()
          | none => .panic "unwrap on None (self.get(index))"
          | some v => .ok v.key
    | .weighted =>
      match Gen.LeaderSel.eligibility (H turn) s.leaderWeight with
      | none => .panic "leader_weighted_eligibility"
      | some e => walk s.vec e s.leaders 0

end EraVerif.Model.Leader
