import EraVerif.Model.C10Std

/-!
# C10 — what a replica computes on a (signed) consensus message *before and while* verifying it

Transcription of the pure functions of `node/libs/roles/src/validator/messages/{consensus.rs, v2/*.rs}` and of
`node/components/bft/src/lib.rs::inbound_selection_function` that run on attacker-chosen values:
`ViewNumber::next` (release semantics: wraps), `BlockNumber::next` (`checked_add(1).unwrap()`),
`Signers::weight` (`assert_eq!` on the length), `BitVec::and` / `or` (bit-vec 0.6.3: `assert_eq!` on the lengths),
`self.signers.0[i]` (index panic), `CommitQC::verify`, `ReplicaTimeout::verify`, `TimeoutQC::verify`,
`TimeoutQC::high_vote`, `TimeoutQC::high_qc`, `ProposalJustification::get_implied_block`.
Signature checks (`blst`) are a boolean input. Every `assert`/`unwrap`/index is an explicit `Res.panic`.
-/

namespace EraVerif.Model.C10.Verify
open EraVerif.Model.C10

def U64 : Nat := 18446744073709551616

/-- `ViewNumber::next` = `Self(self.0 + 1)`: the shipping profile wraps (`overflow-checks` off); with overflow
checks (dev/test profile) it panics for `2^64 - 1` — finding F6. -/
def viewNext (v : Nat) : Nat := (v + 1) % U64
/-- the same with overflow checks on -/
def viewNextChecked (v : Nat) : Res Nat := if v + 1 < U64 then .ok (v + 1) else .panic "consensus.rs:21 attempt to add with overflow"

/-- `BlockNumber::next` = `Self(self.0.checked_add(1).unwrap())` -/
def blockNext (n : Nat) : Res Nat := if n + 1 < U64 then .ok (n + 1) else .panic "block.rs: checked_add(1).unwrap()"

structure View where
  genesis : Nat   -- identity of the genesis hash
  epoch : Nat
  number : Nat
  deriving Repr, DecidableEq

structure Header where
  number : Nat
  payload : Nat   -- identity of the payload hash
  deriving Repr, DecidableEq

structure ReplicaCommit where
  view : View
  proposal : Header
  deriving Repr, DecidableEq

structure CommitQC where
  message : ReplicaCommit
  signers : List Bool
  /-- verdict of `AggregateSignature::verify_messages` on the selected keys (third party) -/
  sigOk : Bool
  deriving Repr, DecidableEq

structure ReplicaTimeout where
  view : View
  highVote : Option ReplicaCommit
  highQc : Option CommitQC
  deriving Repr, DecidableEq

structure TimeoutQC where
  view : View
  /-- the `BTreeMap<ReplicaTimeout, Signers>` in iteration order -/
  map : List (ReplicaTimeout × List Bool)
  sigOk : Bool
  deriving Repr, DecidableEq

inductive Justification where
  | commit (qc : CommitQC)
  | timeout (qc : TimeoutQC)
  deriving Repr, DecidableEq

/-- what the verifier knows: genesis hash, epoch, validator weights (schedule order), thresholds -/
structure Ctx where
  genesis : Nat
  epoch : Nat
  weights : List Nat
  quorum : Nat
  subquorum : Nat
  deriving Repr

/-- `View::verify` -/
def viewVerify (c : Ctx) (v : View) : Res Unit :=
  if v.genesis ≠ c.genesis then .err "Genesis mismatch"
  else if v.epoch ≠ c.epoch then .err "Epoch number mismatch"
  else .ok ()

/-- `Signers::weight`: `assert_eq!(self.len(), schedule.len())`, then the (wrapping) sum of the selected weights -/
def signersWeight (signers : List Bool) (weights : List Nat) : Res Nat :=
  if signers.length ≠ weights.length then .panic "v2/consensus.rs: assert_eq!(self.len(), schedule.len())"
  else .ok ((((signers.zip weights).filter (·.1)).map (·.2)).sum % U64)

/-- `self.signers.0[i]` for every `i < n` (`BitVec` index: panics when `i ≥ len`) -/
def indexAll (signers : List Bool) (n : Nat) : Res Unit :=
  if n ≤ signers.length then .ok () else .panic "bit-vec: index out of bounds"

/-- `BitVec::and` / `BitVec::or` (`process`): `assert_eq!(self.len(), other.len())` -/
def bitOp (f : Bool → Bool → Bool) (a b : List Bool) : Res (List Bool) :=
  if a.length ≠ b.length then .panic "bit-vec: assert_eq!(self.len(), other.len())"
  else .ok (List.zipWith f a b)

/-- `ReplicaCommit::verify` -/
def replicaCommitVerify (c : Ctx) (m : ReplicaCommit) : Res Unit := viewVerify c m.view

/-- `CommitQC::verify` (replica_commit.rs:139-173) -/
def commitQcVerify (c : Ctx) (qc : CommitQC) : Res Unit :=
  (replicaCommitVerify c qc.message).bind fun _ =>
  if qc.signers.length ≠ c.weights.length then .err "BadSignersSet" else
  (signersWeight qc.signers c.weights).bind fun weight =>
  if weight < c.quorum then .err "NotEnoughWeight" else
  (indexAll qc.signers c.weights.length).bind fun _ =>
  if qc.sigOk then .ok () else .err "BadSignature"

/-- `CommitQC::verify` with the length check removed (a mutant: shows what the check protects) -/
def commitQcVerifyNoLenCheck (c : Ctx) (qc : CommitQC) : Res Unit :=
  (replicaCommitVerify c qc.message).bind fun _ =>
  (signersWeight qc.signers c.weights).bind fun weight =>
  if weight < c.quorum then .err "NotEnoughWeight" else
  (indexAll qc.signers c.weights.length).bind fun _ =>
  if qc.sigOk then .ok () else .err "BadSignature"

/-- `ReplicaTimeout::verify` -/
def replicaTimeoutVerify (c : Ctx) (m : ReplicaTimeout) : Res Unit :=
  (viewVerify c m.view).bind fun _ =>
  (match m.highVote with
    | some v => replicaCommitVerify c v
    | none => .ok ()).bind fun _ =>
  match m.highQc with
  | some qc => commitQcVerify c qc
  | none => .ok ()

/-- the loop of `TimeoutQC::verify` (replica_timeout.rs:213-231); `sum` is the accumulated `Signers` -/
def timeoutLoop (c : Ctx) (view : View) : List (ReplicaTimeout × List Bool) → List Bool → Res (List Bool)
  | [], sum => .ok sum
  | (msg, signers) :: rest, sum =>
    if msg.view ≠ view then .err "InconsistentView"
    else if signers.length ≠ sum.length then .err "WrongSignersLength"
    else if !(signers.any id) then .err "NoSignersAssigned"
    else
      (bitOp (· && ·) sum signers).bind fun inter =>
      if inter.any id then .err "OverlappingSignatureSet"
      else
        (replicaTimeoutVerify c msg).bind fun _ =>
        (bitOp (· || ·) sum signers).bind fun sum' =>
        timeoutLoop c view rest sum'

/-- the signature part of `TimeoutQC::verify` indexes every `signers` of the map with each `i < schedule.len()` -/
def indexMap (n : Nat) : List (ReplicaTimeout × List Bool) → Res Unit
  | [] => .ok ()
  | (_, s) :: rest => (indexAll s n).bind fun _ => indexMap n rest

/-- `TimeoutQC::verify` -/
def timeoutQcVerify (c : Ctx) (qc : TimeoutQC) : Res Unit :=
  (viewVerify c qc.view).bind fun _ =>
  (timeoutLoop c qc.view qc.map (List.replicate c.weights.length false)).bind fun sum =>
  (signersWeight sum c.weights).bind fun weight =>
  if weight < c.quorum then .err "NotEnoughWeight" else
  (indexMap c.weights.length qc.map).bind fun _ =>
  if qc.sigOk then .ok () else .err "BadSignature"

/-- `ProposalJustification::verify` -/
def justificationVerify (c : Ctx) : Justification → Res Unit
  | .commit qc => commitQcVerify c qc
  | .timeout qc => timeoutQcVerify c qc

/-- `ProposalJustification::view` = `qc.view().next_view()` (release: wrapping) -/
def justificationView : Justification → View
  | .commit qc => { qc.message.view with number := viewNext qc.message.view.number }
  | .timeout qc => { qc.view with number := viewNext qc.view.number }

/-- `TimeoutQC::high_vote`: per proposal, the (wrapping) sum of `signers.weight(..)`; exactly one proposal at or
above the subquorum threshold → that one -/
def highVoteCounts (c : Ctx) : List (ReplicaTimeout × List Bool) → List (Header × Nat) → Res (List (Header × Nat))
  | [], acc => .ok acc
  | (msg, signers) :: rest, acc =>
    match msg.highVote with
    | none => highVoteCounts c rest acc
    | some v =>
      (signersWeight signers c.weights).bind fun w =>
      let acc' := if acc.any (·.1 = v.proposal)
        then acc.map (fun p => if p.1 = v.proposal then (p.1, (p.2 + w) % U64) else p)
        else acc ++ [(v.proposal, w)]
      highVoteCounts c rest acc'

def highVote (c : Ctx) (qc : TimeoutQC) : Res (Option Header) :=
  (highVoteCounts c qc.map []).bind fun counts =>
  match counts.filter (fun p => p.2 ≥ c.subquorum) with
  | [p] => .ok (some p.1)
  | _ => .ok none

/-- `TimeoutQC::high_qc`: `max_by_key(view number)` (the last maximal element) -/
def highQc (qc : TimeoutQC) : Option CommitQC :=
  (qc.map.filterMap (·.1.highQc)).foldl
    (fun best q => match best with
      | none => some q
      | some b => if q.message.view.number ≥ b.message.view.number then some q else some b) none

/-- `ProposalJustification::get_implied_block`; returns (block number, reproposal?) -/
def impliedBlock (c : Ctx) (firstBlock : Nat) : Justification → Res (Nat × Option Nat)
  | .commit qc => (blockNext qc.message.proposal.number).bind fun n => .ok (n, none)
  | .timeout qc =>
    (highVote c qc).bind fun hv =>
    let hq := highQc qc
    match hv, hq with
    | some v, none => .ok (v.number, some v.payload)
    | some v, some q =>
      if v.number > q.message.proposal.number then .ok (v.number, some v.payload)
      else (blockNext q.message.proposal.number).bind fun n => .ok (n, none)
    | none, some q => (blockNext q.message.proposal.number).bind fun n => .ok (n, none)
    | none, none => .ok (firstBlock, none)

/-! ## `inbound_selection_function` (bft/src/lib.rs:147-163) -/
inductive MsgKind where
  | proposal | commit | timeout | newView
  deriving Repr, DecidableEq

/-- what the selection function looks at: signer key, message label, and the view number of the message
(`ChonkyMsg::view_number`: the stated view for commit/timeout votes, `justification.view().number`
— i.e. a `next()` — for proposals and new-view messages) -/
structure QMsg where
  key : Nat
  kind : MsgKind
  /-- stated view (commit / timeout) or the view of the certificate inside (proposal / new view) -/
  inner : Nat
  deriving Repr, DecidableEq

def QMsg.viewNumber (m : QMsg) : Nat :=
  match m.kind with
  | .commit | .timeout => m.inner
  | .proposal | .newView => viewNext m.inner

inductive Selection where
  | keep | discardOld | discardNew
  deriving Repr, DecidableEq

def Selection.name : Selection → String
  | .keep => "Keep" | .discardOld => "DiscardOld" | .discardNew => "DiscardNew"

def selection (old new : QMsg) : Selection :=
  if old.key ≠ new.key || old.kind ≠ new.kind then .keep
  else if old.viewNumber < new.viewNumber then .discardOld
  else .discardNew

end EraVerif.Model.C10.Verify
