/-!
# Model of the block fetch queue (C19) — `node/components/network/src/gossip/fetch.rs`

`Queue { blocks : watch::Sender<BTreeMap<BlockNumber, oneshot::Sender<()>>> }` together with the futures of
`Queue::request` (one per block number being fetched) and `Queue::accept_block` (one per peer connection) is a
concurrent protocol. It is modelled as a **labelled transition system**: every event below is exactly one
critical section of the code (one `send_if_modified` / `borrow_and_update` / `changed` / `wait_for` step, or one
action of the environment); "every interleaving" is "every event sequence accepted by `step?`".

The watch channel's version semantics is explicit:

* `ver` is the version of `Queue::blocks`; it is incremented **only** when the closure passed to
  `send_if_modified` returns `true` (`bump`);
* every `accept_block` call owns a receiver (`sub`) whose *seen* version is set to `ver` by
  `borrow_and_update` (`accSample`); `sync::changed(ctx, sub)` is enabled iff `seen ≠ ver` (`accChanged`).

The oneshot channels are explicit too: a channel is a number (`nextChan` is the fresh-name supply); its sender is in
exactly one place — a value of the map, a hold of an acceptor (`accept_block` returned it to the connection's
`get_block` task), or nowhere (consumed by `send(())` or dropped). Dropping a sender wakes the requester that waits
on the channel with `Disconnected` (`resolved false`), `send(())` wakes it with `Ok(())` (`resolved true`).

A requester is identified by its block number: the code documents that concurrent `request` calls for the same
number are unsupported, and `run_block_fetcher` (`gossip/mod.rs`) issues one call per number (`Model.Fetch.Fetcher`
below), so `spawnReq n` is refused while a request for `n` is alive. `BTreeMap::insert` is nevertheless modelled with
its replacing semantics (the replaced sender is dropped); that it never replaces anything is a theorem
(`Props/C19.lean: insert_never_overrides`).

Context cancellation is a flag set by the environment (`cancelReq`, `cancelAcc`) and read by the futures at the
points where the code reads it (`recv_or_disconnected(ctx)`, `while ctx.is_active()`, the inner scope of
`accept_block`). Where `tokio::select!` may pick either of two ready branches both transitions are enabled.
-/

namespace EraVerif.Model.Fetch

/-! ## Association lists (`BTreeMap` / per-task tables): lookup = first match, sorted insertion, erase = all -/

def aget {α : Type} : List (Nat × α) → Nat → Option α
  | [], _ => none
  | (k', v) :: t, k => if k' = k then some v else aget t k

def aput {α : Type} : List (Nat × α) → Nat → α → List (Nat × α)
  | [], k, v => [(k, v)]
  | (k', v') :: t, k, v =>
    if k < k' then (k, v) :: (k', v') :: t
    else if k = k' then (k, v) :: t
    else (k', v') :: aput t k v

def adel {α : Type} (l : List (Nat × α)) (k : Nat) : List (Nat × α) := l.filter (fun e => e.1 != k)

def akeys {α : Type} (l : List (Nat × α)) : List Nat := l.map (·.1)

/-- `BTreeMap::first_key_value().map(|x| *x.0)`: the least key. -/
def minKey {α : Type} : List (Nat × α) → Option Nat
  | [] => none
  | (k, _) :: t => match minKey t with
    | none => some k
    | some m => some (if k ≤ m then k else m)

/-! ## State -/

/-- State of one `Queue::request` future. -/
inductive ReqSt
  /-- created, not polled yet (top of the `loop`) -/
  | starting
  /-- suspended in `recv.recv_or_disconnected(ctx)` on channel `ch` -/
  | waiting (ch : Nat)
  /-- the channel has been resolved (`true`: `send(())`, `false`: sender dropped), future not polled yet -/
  | resolved (ok : Bool)
deriving DecidableEq, Repr

structure Req where
  st : ReqSt
  /-- the request's `ctx` has been cancelled -/
  cancelled : Bool
deriving DecidableEq, Repr

/-- State of one `Queue::accept_block` future. -/
inductive AccSt
  /-- top of the `while ctx.is_active()` loop (before `sub.borrow_and_update()`) -/
  | sample
  /-- inside the inner scope: sampled minimum `m`, receiver version `seen`; waiting for `available.contains(m)`
      and for `sync::changed(ctx, sub)` -/
  | watch (m : Option Nat) (seen : Nat)
  /-- `block_number = Some(n)`, before the removing `send_if_modified` -/
  | got (n : Nat)
deriving DecidableEq, Repr

structure Acc where
  st : AccSt
  /-- the connection's `ctx` has been cancelled -/
  cancelled : Bool
deriving DecidableEq, Repr

/-- A `BlockCall` handed to a connection: `(number, oneshot::Sender<()>)`. -/
structure Hold where
  peer : Nat
  num : Nat
  chan : Nat
deriving DecidableEq, Repr

/-- `BlockStoreState` as far as `contains` looks at it. -/
structure Avail where
  first : Nat
  last : Option Nat
deriving DecidableEq, Repr

/-- `BlockStoreState::contains` -/
def Avail.contains (a : Avail) (n : Nat) : Bool :=
  match a.last with
  | none => false
  | some l => decide (a.first ≤ n) && decide (n ≤ l)

structure State where
  /-- `Queue::blocks`: block number ↦ channel whose sender is stored there -/
  map : List (Nat × Nat)
  /-- version of the watch channel `Queue::blocks` -/
  ver : Nat
  /-- fresh channel names -/
  nextChan : Nat
  /-- live `request` futures, by block number -/
  reqs : List (Nat × Req)
  /-- live `accept_block` futures, by peer connection -/
  accs : List (Nat × Acc)
  /-- senders held by connections, by hold id -/
  holds : List (Nat × Hold)
  nextHold : Nat
  /-- last `BlockStoreState` announced by each peer (`PushServer::blocks`) -/
  avail : List (Nat × Avail)
deriving DecidableEq, Repr

def State.init : State :=
  { map := [], ver := 0, nextChan := 0, reqs := [], accs := [], holds := [], nextHold := 0, avail := [] }

/-- `PushServer::new`: nothing announced yet (`last: None`). -/
def State.availOf (s : State) (p : Nat) : Avail := (aget s.avail p).getD ⟨0, none⟩

inductive Event
  -- environment
  /-- a `Queue::request(ctx, Block(n))` future is created -/
  | spawnReq (n : Nat)
  /-- its `ctx` is cancelled -/
  | cancelReq (n : Nat)
  /-- connection `p` calls `accept_block` -/
  | startAcc (p : Nat)
  /-- connection `p`'s `ctx` is cancelled -/
  | cancelAcc (p : Nat)
  /-- `push_block_store_state` from peer `p` -/
  | announce (p : Nat) (first : Nat) (last : Option Nat)
  /-- the holder calls `send_resp.send(())` (block queued) -/
  | succeed (h : Nat)
  /-- the holder drops `send_resp` (failure, timeout, disconnect) -/
  | fail (h : Nat)
  -- `Queue::request`
  /-- `channel(); send_if_modified(insert)` (first iteration, or after `Err(Disconnected)`) -/
  | reqInsert (n : Nat)
  /-- `Ok(Ok(())) => return Ok(())` -/
  | reqDone (n : Nat)
  /-- `Err(Canceled) => { send_if_modified(remove); return Err(Canceled) }` -/
  | reqCancel (n : Nat)
  -- `Queue::accept_block`
  /-- `sub.borrow_and_update().first_key_value()` -/
  | accSample (p : Nat)
  /-- `sync::changed(ctx, sub)` fires: restart the wait -/
  | accChanged (p : Nat)
  /-- `sync::wait_for(ctx, available, |a| a.contains(n))` fires: `block_number = Some(n)` -/
  | accAvail (p : Nat)
  /-- `send_if_modified(|x| { res = x.remove_entry(&n); res.is_some() && !x.is_empty() })` -/
  | accRemove (p : Nat)
  /-- the loop observes the cancelled `ctx`: `Err(Canceled)` -/
  | accAbort (p : Nat)
deriving DecidableEq, Repr

def Event.isInternal : Event → Bool
  | .spawnReq _ | .cancelReq _ | .startAcc _ | .cancelAcc _ | .announce .. | .succeed _ | .fail _ => false
  | _ => true

/-- What the caller of the two futures observes. -/
inductive Vis
  /-- `request` returned `Ok(())` -/
  | done (n : Nat)
  /-- `request` returned `Err(Canceled)` -/
  | cancelled (n : Nat)
  /-- `accept_block` of connection `p` returned `(n, sender)`; `h` is the id given to the hold -/
  | accepted (p n h : Nat)
  /-- `accept_block` returned `Err(Canceled)` -/
  | stopped (p : Nat)
deriving DecidableEq, Repr

/-- The receiver of channel `ch` observes its resolution (`ok`: a value was sent; `¬ok`: the sender was dropped). -/
def resolveChan (reqs : List (Nat × Req)) (ch : Nat) (ok : Bool) : List (Nat × Req) :=
  reqs.map fun e => if e.2.st = .waiting ch then (e.1, { e.2 with st := .resolved ok }) else e

/-- `send_if_modified`: the version moves iff the closure returned `true`. -/
def bump (ver : Nat) (modified : Bool) : Nat := if modified then ver + 1 else ver

/-- Body of the `loop` of `Queue::request` up to the `await`. -/
def doInsert (s : State) (n : Nat) (c : Bool) : State :=
  let ch := s.nextChan
  -- `x.insert(n, send)`: a replaced sender is dropped
  let reqs := match aget s.map n with
    | some old => resolveChan s.reqs old false
    | none => s.reqs
  let map := aput s.map n ch
  -- `x.first_key_value().unwrap().0 == &n`
  let modified := decide (minKey map = some n)
  { s with map := map, ver := bump s.ver modified, nextChan := ch + 1,
           reqs := aput reqs n ⟨.waiting ch, c⟩ }

/-- The `Err(ctx::Canceled)` arm of `Queue::request`. -/
def doCancel (s : State) (n : Nat) : State :=
  -- `x.first_key_value().is_some_and(|(k, _)| k == &n)`
  let modified := decide (minKey s.map = some n)
  -- `x.remove(&n)`: the removed sender is dropped
  let reqs := match aget s.map n with
    | some old => resolveChan s.reqs old false
    | none => s.reqs
  { s with map := adel s.map n, ver := bump s.ver modified, reqs := adel reqs n }

/-- Resolution of a held sender by its holder. -/
def doResolve (s : State) (h : Nat) (ok : Bool) : Option State :=
  match aget s.holds h with
  | none => none
  | some hd => some { s with holds := adel s.holds h, reqs := resolveChan s.reqs hd.chan ok }

/-- One atomic step. `none`: the event is not enabled in `s`. -/
def step? (s : State) : Event → Option (State × Option Vis)
  | .spawnReq n =>
    match aget s.reqs n with
    | some _ => none
    | none => some ({ s with reqs := aput s.reqs n ⟨.starting, false⟩ }, none)
  | .cancelReq n =>
    match aget s.reqs n with
    | none => none
    | some r => some ({ s with reqs := aput s.reqs n { r with cancelled := true } }, none)
  | .startAcc p =>
    match aget s.accs p with
    | some _ => none
    | none => some ({ s with accs := aput s.accs p ⟨.sample, false⟩ }, none)
  | .cancelAcc p =>
    match aget s.accs p with
    | none => none
    | some a => some ({ s with accs := aput s.accs p { a with cancelled := true } }, none)
  | .announce p f l => some ({ s with avail := aput s.avail p ⟨f, l⟩ }, none)
  | .succeed h => (doResolve s h true).map (·, none)
  | .fail h => (doResolve s h false).map (·, none)
  | .reqInsert n =>
    match aget s.reqs n with
    | some ⟨.starting, c⟩ => some (doInsert s n c, none)
    | some ⟨.resolved false, c⟩ => some (doInsert s n c, none)
    | _ => none
  | .reqDone n =>
    match aget s.reqs n with
    | some ⟨.resolved true, _⟩ => some ({ s with reqs := adel s.reqs n }, some (.done n))
    | _ => none
  | .reqCancel n =>
    match aget s.reqs n with
    | some ⟨.waiting _, true⟩ => some (doCancel s n, some (.cancelled n))
    | some ⟨.resolved _, true⟩ => some (doCancel s n, some (.cancelled n))
    | _ => none
  | .accSample p =>
    match aget s.accs p with
    | some ⟨.sample, false⟩ => some ({ s with accs := aput s.accs p ⟨.watch (minKey s.map) s.ver, false⟩ }, none)
    | _ => none
  | .accChanged p =>
    match aget s.accs p with
    | some ⟨.watch _ seen, c⟩ =>
      if seen = s.ver then none else some ({ s with accs := aput s.accs p ⟨.sample, c⟩ }, none)
    | _ => none
  | .accAvail p =>
    match aget s.accs p with
    | some ⟨.watch (some n) _, c⟩ =>
      if (s.availOf p).contains n then some ({ s with accs := aput s.accs p ⟨.got n, c⟩ }, none) else none
    | _ => none
  | .accRemove p =>
    match aget s.accs p with
    | some ⟨.got n, c⟩ =>
      match aget s.map n with
      | some ch =>
        let map := adel s.map n
        -- `res.is_some() && !x.is_empty()`
        let modified := !map.isEmpty
        some ({ s with map := map, ver := bump s.ver modified, accs := adel s.accs p,
                       holds := aput s.holds s.nextHold ⟨p, n, ch⟩, nextHold := s.nextHold + 1 },
              some (.accepted p n s.nextHold))
      | none => some ({ s with accs := aput s.accs p ⟨.sample, c⟩ }, none)
    | _ => none
  | .accAbort p =>
    match aget s.accs p with
    | some ⟨.sample, true⟩ => some ({ s with accs := adel s.accs p }, some (.stopped p))
    | some ⟨.watch _ _, true⟩ => some ({ s with accs := adel s.accs p }, some (.stopped p))
    | _ => none

/-- The internal events that can possibly be enabled in `s` (finite: one group per live future). -/
def internalEvents (s : State) : List Event :=
  (akeys s.reqs).flatMap (fun n => [.reqInsert n, .reqDone n, .reqCancel n]) ++
  (akeys s.accs).flatMap (fun p => [.accSample p, .accChanged p, .accAvail p, .accRemove p, .accAbort p])

/-- No future can make a step: the runtime is idle. -/
def quiescent (s : State) : Bool := (internalEvents s).all fun e => (step? s e).isNone

/-- Runs a list of events; `none` if one of them is not enabled. -/
def exec? : State → List Event → Option State
  | s, [] => some s
  | s, e :: es => match step? s e with
    | none => none
    | some (s', _) => exec? s' es

/-! ## The block fetcher (`Network::run_block_fetcher`, `gossip/mod.rs`)

```text
let sem = Semaphore::new(max_block_queue_size);
let mut next = engine_manager.queued().next();
loop { let permit = acquire(sem).await?; let number = next; next = next + 1;
       spawn { scope { spawn_bg(fetch_queue.request(ctx, Block(number)));
                       engine_manager.wait_until_queued(ctx, number).await?; Err(Canceled) }   // cancels the request
               engine_manager.wait_until_persisted(ctx, number).await } }                      // then frees the permit
```
The fetcher is an environment of the queue: it emits `spawnReq` / `cancelReq`. Its state is `next`, the free permits
and the per-number task phase. Cancelling the scope of a request that has already returned `Ok(())` does nothing; the
driver therefore skips a `cancelReq` that `step?` refuses because the request is gone. -/

inductive TaskSt
  /-- inside the inner scope: request running, waiting for `wait_until_queued` -/
  | requesting
  /-- request cancelled; waiting for `wait_until_persisted` (permit still held) -/
  | persisting
deriving DecidableEq, Repr

structure Fetcher where
  /-- `max_block_queue_size` -/
  permits : Nat
  next : Nat
  tasks : List (Nat × TaskSt)
  /-- `engine_manager.queued().next()` -/
  queuedNext : Nat
  /-- `interface.persisted().next()` -/
  persistedNext : Nat
deriving DecidableEq, Repr

def Fetcher.init (k start persisted : Nat) : Fetcher :=
  { permits := k, next := start, tasks := [], queuedNext := start, persistedNext := persisted }

inductive FEvent
  /-- a permit is free: spawn the task for `next` -/
  | spawn
  /-- `wait_until_queued(number)` returned for task `n`: the scope fails with `Canceled`, cancelling the request -/
  | queuedSeen (n : Nat)
  /-- `wait_until_persisted(number)` returned for task `n`: the task ends, the permit is dropped -/
  | persistedSeen (n : Nat)
  /-- environment: the store's queued / persisted frontier moves -/
  | setQueued (q : Nat)
  | setPersisted (q : Nat)
deriving DecidableEq, Repr

/-- One step of the fetcher; the second component lists the queue events it causes. -/
def Fetcher.step? (f : Fetcher) : FEvent → Option (Fetcher × List Event)
  | .spawn =>
    if f.permits = 0 then none
    else some ({ f with permits := f.permits - 1, next := f.next + 1, tasks := aput f.tasks f.next .requesting },
               [.spawnReq f.next])
  | .queuedSeen n =>
    match aget f.tasks n with
    | some .requesting =>
      if n < f.queuedNext then some ({ f with tasks := aput f.tasks n .persisting }, [.cancelReq n]) else none
    | _ => none
  | .persistedSeen n =>
    match aget f.tasks n with
    | some .persisting =>
      if n < f.persistedNext then some ({ f with tasks := adel f.tasks n, permits := f.permits + 1 }, []) else none
    | _ => none
  | .setQueued q => if f.queuedNext ≤ q then some ({ f with queuedNext := q }, []) else none
  | .setPersisted q => if f.persistedNext ≤ q ∧ q ≤ f.queuedNext then some ({ f with persistedNext := q }, []) else none

def Fetcher.internalEvents (f : Fetcher) : List FEvent :=
  .spawn :: (akeys f.tasks).flatMap (fun n => [.queuedSeen n, .persistedSeen n])

end EraVerif.Model.Fetch
