/-!
# Rust expression combinators used by the *generated* file `Gen/LeaderSel.lean` (C11)

`tools/translate.py` (target `LeaderSel`) re-translates, on every check run, three expressions of
`node/libs/roles/src/validator/messages/schedule.rs` into terms built from the combinators below:

* `let turn = …;` in `Schedule::view_leader`
* the index expression inside `self.leaders[…]` (round-robin arm)
* the body of `LeaderSelection::leader_weighted_eligibility`

A Rust expression of type `T` whose evaluation may panic is an `Option T'`: **`none` = panic**. A Rust
`Option<u64>` that may panic while being computed is therefore `Option (Option Nat)`. Nothing is totalised
silently: `/` and `%` by zero, `unwrap()` of `None`, `v[i]` out of bounds are all `none`.

No Mathlib, no `partial`: the model driver links this natively.
-/

namespace EraVerif.Model.LeaderOps

/-- `2^64`: `u64`/`usize` modulus of the 64-bit targets the node is built for. -/
def U64 : Nat := 18446744073709551616

/-- `a / b` on `u64`: panics (`attempt to divide by zero`) when `b = 0`. -/
def pDiv (a b : Option Nat) : Option Nat :=
  a.bind fun x => b.bind fun y => if y = 0 then none else some (x / y)

/-- `a % b` on `u64`/`usize`/`BigUint`: panics when `b = 0`. -/
def pRem (a b : Option Nat) : Option Nat :=
  a.bind fun x => b.bind fun y => if y = 0 then none else some (x % y)

/-- `a + b`, `a - b`, `a * b` on `u64`/`usize` with the wrapping semantics of the release profile. -/
def pAdd (a b : Option Nat) : Option Nat := a.bind fun x => b.bind fun y => some ((x + y) % U64)
def pSub (a b : Option Nat) : Option Nat := a.bind fun x => b.bind fun y => some ((x + U64 - y % U64) % U64)
def pMul (a b : Option Nat) : Option Nat := a.bind fun x => b.bind fun y => some ((x * y) % U64)

/-- `a.checked_div(b)`: never panics, `None` when `b = 0`. -/
def pCheckedDiv (a b : Option Nat) : Option (Option Nat) :=
  a.bind fun x => b.bind fun y => some (if y = 0 then none else some (x / y))

/-- `a.checked_rem(b)`. -/
def pCheckedRem (a b : Option Nat) : Option (Option Nat) :=
  a.bind fun x => b.bind fun y => some (if y = 0 then none else some (x % y))

/-- `o.unwrap_or(d)` (the argument is evaluated eagerly, as in Rust). -/
def pUnwrapOr (o : Option (Option Nat)) (d : Option Nat) : Option Nat :=
  o.bind fun v => d.bind fun dv => some (v.getD dv)

/-- `o.unwrap()`: panics on `None`. -/
def pUnwrap (o : Option (Option Nat)) : Option Nat := o.bind id

/-- `x as usize` / `x as u64` between the 64-bit unsigned types (the operand is a `u64`/`usize` value, so
`< 2^64` by typing): the identity on the 64-bit targets the node is built for. -/
def pCast64 (a : Option Nat) : Option Nat := a

/-- `BigUint::to_u64_digits`: base-2^64 digits, least significant first; **zero has no digits**. -/
def u64Digits (n : Nat) : List Nat :=
  if n = 0 then [] else (n % U64) :: u64Digits (n / U64)
termination_by n
decreasing_by exact Nat.div_lt_self (Nat.pos_of_ne_zero ‹_›) (by decide)

/-- `big.to_u64_digits()` -/
def pDigits (r : Option Nat) : Option (List Nat) := r.map u64Digits

/-- `v.first()` (`.copied()` is the identity on the model's values) -/
def pFirst (l : Option (List Nat)) : Option (Option Nat) := l.map List.head?

/-- `v.last()` -/
def pLast (l : Option (List Nat)) : Option (Option Nat) := l.map List.getLast?

/-- `v[i]`: panics (index out of bounds) when `i ≥ v.len()`. -/
def pIndex (l : Option (List Nat)) (i : Option Nat) : Option Nat :=
  l.bind fun xs => i.bind fun k => xs[k]?

end EraVerif.Model.LeaderOps
