import EraVerif.Model.Fetch

/-!
# The per-connection `get_block` task composed with the fetch queue and the store (C19)

`Network::run_stream` (`node/components/network/src/gossip/runner.rs`), the consumer of `Queue::accept_block`:

```text
loop {
    let call = get_block_client.reserve(ctx).await?;
    let (req, send_resp) = self.fetch_queue.accept_block(ctx, state).await?;       -- Model.Fetch: accRemove
    s.spawn(async {                                                                -- one task per hold
        let ctx = ctx.with_timeout(get_block_timeout);                             -- covers the call AND queue_block
        let resp  = call.call(ctx, &req, ..).await?;                               -- GetSt.rpc         (await point)
        let block = resp.0.context("empty response")?;                             -- Resp.empty
        anyhow::ensure!(block.number() == req.0, "received wrong block");          -- Resp.block m _,  m ≠ n
        self.engine_manager.queue_block(ctx, block).await.context(..)?;            -- verify; wait_for(queued.next() >= n); try_push
        let _ = send_resp.send(());                                                -- completion
        Ok(())
    });
}
```

and `EngineManager::queue_block` (`node/libs/engine/src/manager.rs`):

```text
verify(block)?;                                                                    -- Resp.block n false
sync::wait_for(ctx, block_store, |s| s.queued.next() >= block.number()).await?;    -- GetSt.parked      (await point)
block_store.send_if_modified(|s| s.try_push(block));                               -- pushes iff queued.next() == n
Ok(())
```

A task can stop only at an await point, so it has two states: `rpc` (inside `call.call`) and `parked` (inside the
`wait_for` of `queue_block`). Everything between two await points runs in one poll and is one event:

* `resp h r`   — the call returns `r`: the three checks are made **in the code's order** (empty response, wrong number,
                 verification); the first that fails returns `Err`, which drops `send_resp`; otherwise the task parks;
* `queue h`    — the `wait_for` fires (enabled iff `queued.next() ≥ n`): `try_push`, then `send_resp.send(())`. There is
                 no await point between the push and the send, so nothing (no timeout, no disconnect, no cancellation)
                 can separate them;
* `abort h`    — the future is dropped at one of its two await points: the `get_block_timeout` fires (the
                 `ctx.with_timeout` covers the call **and** `queue_block`), the peer disconnects, a sibling task of the
                 connection fails, the node shuts down. `send_resp` is dropped with it.

Every `Err` of a task ends the connection's scope, i.e. cancels the connection's `accept_block` call (`cancelConn`);
the sibling tasks are then dropped one by one (`abort`).

The store is `queuedNext = engine_manager.queued().next()`; other writers (consensus, other connections' tasks) only
ever increase it (`storeAdvance`).

`wanted` is a ghost variable (read by no transition): the block numbers whose requester (`run_block_fetcher`) has
created a request and has not given it up (`cancelReq`). It is what "every block a node asks its peers for … until the
requester gives up" quantifies over.

The composition restricts the queue's environment: `succeed` / `fail` of a hold can only be performed by the task that
owns the hold.
-/

namespace EraVerif.Model.Fetch

/-- What `call.call(ctx, &req, …)` returns, as far as `run_stream` / `queue_block` look at it. -/
inductive Resp
  /-- `Err(_)`: the peer closed the stream, protocol error, oversized response -/
  | err
  /-- `Ok(Resp(None))` -/
  | empty
  /-- `Ok(Resp(Some(b)))` with `b.number() = num`; `valid`: `queue_block`'s verification accepts `b` -/
  | block (num : Nat) (valid : Bool)
deriving DecidableEq, Repr

/-- State of one `get_block` task (one per hold). -/
inductive GetSt
  /-- suspended in `call.call(ctx, &req, …).await` -/
  | rpc
  /-- inside `queue_block`: the block passed all checks; suspended in `wait_for(queued.next() >= n)` -/
  | parked
deriving DecidableEq, Repr

structure NState where
  /-- the fetch queue with its request / accept futures -/
  q : State
  /-- `engine_manager.queued().next()` -/
  queuedNext : Nat
  /-- the `get_block` tasks, by hold id -/
  tasks : List (Nat × GetSt)
  /-- ghost: blocks asked for and not given up by the requester -/
  wanted : List Nat
deriving DecidableEq, Repr

def NState.init (start : Nat) : NState := { q := State.init, queuedNext := start, tasks := [], wanted := [] }

inductive NEvent
  /-- an event of the queue (any but `succeed` / `fail`) -/
  | q (e : Event)
  /-- the rpc of task `h` returns -/
  | resp (h : Nat) (r : Resp)
  /-- task `h` is dropped at an await point (timeout, disconnect, cancellation) -/
  | abort (h : Nat)
  /-- the `wait_for` of task `h` fires: `try_push`; `send_resp.send(())` -/
  | queue (h : Nat)
  /-- another writer queues the next block -/
  | storeAdvance
deriving DecidableEq, Repr

/-- `succeed` / `fail` belong to the task that owns the hold. -/
def Event.holderOnly : Event → Bool
  | .succeed _ | .fail _ => true
  | _ => false

/-- A task's `Err` ends the scope of `run_stream`: the connection's `accept_block` call (if one is running) sees a
cancelled context. -/
def cancelConn (q : State) (p : Nat) : State :=
  match step? q (.cancelAcc p) with
  | some (q', _) => q'
  | none => q

/-- Task `h` ends without having sent: `send_resp` is dropped, the connection goes down. -/
def failTask (s : NState) (h : Nat) : Option NState :=
  match aget s.q.holds h with
  | none => none
  | some hd =>
    match step? s.q (.fail h) with
    | none => none
    | some (q1, _) => some { s with q := cancelConn q1 hd.peer, tasks := adel s.tasks h }

/-- `BlockStore::try_push` as far as `queued.next()` is concerned: pushes iff the block is the next one. -/
def tryPush (queuedNext n : Nat) : Nat := if queuedNext = n then n + 1 else queuedNext

/-- A new hold gets its task (`s.spawn(async { … })` right after `accept_block` returned). -/
def spawnTask (tasks : List (Nat × GetSt)) : Option Vis → List (Nat × GetSt)
  | some (.accepted _ _ h) => aput tasks h .rpc
  | _ => tasks

/-- Ghost bookkeeping of `wanted`. -/
def updWanted (wanted : List Nat) : Event → List Nat
  | .spawnReq n => n :: wanted
  | .cancelReq n => wanted.filter (· != n)
  | _ => wanted

/-- One atomic step of the composition. `none`: not enabled. -/
def nstep? (s : NState) : NEvent → Option (NState × Option Vis)
  | .q e =>
    if e.holderOnly then none else
    match step? s.q e with
    | none => none
    | some (q', o) => some ({ s with q := q', tasks := spawnTask s.tasks o, wanted := updWanted s.wanted e }, o)
  | .resp h r =>
    match aget s.tasks h, aget s.q.holds h with
    | some .rpc, some hd =>
      match r with
      -- `call.call(..).await?`
      | .err => (failTask s h).map (·, none)
      -- `resp.0.context("empty response")?`
      | .empty => (failTask s h).map (·, none)
      | .block num valid =>
        -- `anyhow::ensure!(block.number() == req.0, "received wrong block")`
        if num ≠ hd.num then (failTask s h).map (·, none)
        -- `queue_block`: verification first
        else if valid = false then (failTask s h).map (·, none)
        -- then `wait_for(queued.next() >= n)`
        else some ({ s with tasks := aput s.tasks h .parked }, none)
    | _, _ => none
  | .abort h =>
    match aget s.tasks h with
    | some _ => (failTask s h).map (·, none)
    | none => none
  | .queue h =>
    match aget s.tasks h, aget s.q.holds h with
    | some .parked, some hd =>
      if hd.num ≤ s.queuedNext then
        -- `send_if_modified(|s| s.try_push(block))`, then `send_resp.send(())`
        match step? s.q (.succeed h) with
        | none => none
        | some (q1, _) =>
          some ({ s with q := q1, queuedNext := tryPush s.queuedNext hd.num, tasks := adel s.tasks h }, none)
      else none
    | _, _ => none
  | .storeAdvance => some ({ s with queuedNext := s.queuedNext + 1 }, none)

/-- The internal events that can possibly be enabled (the futures of the queue and the parked tasks). -/
def nInternalEvents (s : NState) : List NEvent :=
  (internalEvents s.q).map .q ++ (akeys s.tasks).map .queue

/-- No future of the node can make a step. -/
def nQuiescent (s : NState) : Bool := (nInternalEvents s).all fun e => (nstep? s e).isNone

/-- Runs a list of events; `none` if one of them is not enabled. -/
def nexec? : NState → List NEvent → Option NState
  | s, [] => some s
  | s, e :: es => match nstep? s e with
    | none => none
    | some (s', _) => nexec? s' es

end EraVerif.Model.Fetch
