import EraVerif.Gen.MuxConst
import EraVerif.Model.C10Std

/-!
# C10 — inbound side of the stream multiplexer (`node/components/network/src/mux/{mod,header,handshake,transient_stream}.rs`)

* `dispatch`: one iteration of `Mux::process_inbound_frames` on a 16-bit header, over the **generated** masks
  (`Gen/MuxConst.lean`, regenerated from `header.rs` on every run). `unreachable!` arms are `Res.panic`.
* `dataSplit`: the `while length > 0` loop that splits a DATA frame into `read_frame_size` pieces.
* `Inb.step`: the whole `process_inbound_frames` loop as a small-step machine over the raw byte stream of a peer
  (headers, lengths, bodies), with the two semaphores (`read_frame_count`, `read_buffer_size`) and the
  per-stream consumer state of a node whose application does not read (frames for a stream that has seen OPEN
  are parked and keep their permits; frames for a stream still waiting for OPEN are dropped by `recv_open`).
* `readMaxStreams`, `spawnCount`: mux handshake decoding and the number of stream ids `spawn_streams` allocates
  (`StreamId::new` asserts `id ≤ StreamId::MASK`).
-/

namespace EraVerif.Model.C10.Mux
open EraVerif.Gen.MuxConst
open EraVerif.Model.C10

/-! ## header.rs -/
/-- `Header::frame_kind` : `FrameKind(self.0 & FrameKind::MASK)` -/
def frameKind (h : Nat) : Nat := h &&& FRAME_MASK
/-- `Header::stream_kind` -/
def streamKind (h : Nat) : Nat := h &&& STREAM_MASK
/-- `Header::stream_id` -/
def streamId (h : Nat) : Nat := h &&& ID_MASK
/-- `Header::from([u8; 2])` : `u16::from_le_bytes` -/
def headerOfBytes (b0 b1 : Nat) : Nat := b0 + 256 * b1

/-- What one loop iteration does with a header once the stream lookup succeeded. -/
inductive Kind where
  | open_ | close | data
  deriving Repr, DecidableEq

/-- result of the lookup + frame-kind match: which table (`true` = `connect_streams`), which index, which arm -/
structure Dispatched where
  toConnect : Bool
  id : Nat
  kind : Kind
  deriving Repr, DecidableEq

/-- the frame-kind `match` of `process_inbound_frames` (mod.rs:228-276), **current** code:
`OPEN | CLOSE => ..`, `DATA => ..`, `_ => return Err(RunError::Protocol(..))` -/
def kindOf (h : Nat) : Res Kind :=
  let fk := frameKind h
  if fk = FRAME_OPEN then .ok .open_
  else if fk = FRAME_CLOSE then .ok .close
  else if fk = FRAME_DATA then .ok .data
  else .err "invalid frame kind in header"

/-- the same `match` before the repair of F4: `_ => unreachable!("bad FrameKind")` -/
def kindOfLegacy (h : Nat) : Res Kind :=
  let fk := frameKind h
  if fk = FRAME_OPEN then .ok .open_
  else if fk = FRAME_CLOSE then .ok .close
  else if fk = FRAME_DATA then .ok .data
  else .panic "mux/mod.rs: unreachable!(\"bad FrameKind\")"

/-- One header through the stream-kind `match`, the `.get(stream_id)` lookup and the frame-kind `match`.
`nAccept` / `nConnect` are the lengths of `accept_streams` / `connect_streams`. -/
def dispatchWith (kindFn : Nat → Res Kind) (nAccept nConnect h : Nat) : Res Dispatched :=
  let sk := streamKind h
  -- `match header.stream_kind() { ACCEPT => &connect_streams, CONNECT => &accept_streams, _ => unreachable!() }`
  if sk = STREAM_ACCEPT then
    if streamId h < nConnect then (kindFn h).bind fun k => .ok ⟨true, streamId h, k⟩
    else .err "bad stream id"
  else if sk = STREAM_CONNECT then
    if streamId h < nAccept then (kindFn h).bind fun k => .ok ⟨false, streamId h, k⟩
    else .err "bad stream id"
  else .panic "mux/mod.rs: unreachable!(\"bad StreamKind\")"

def dispatch := dispatchWith kindOf
def dispatchLegacy := dispatchWith kindOfLegacy

/-- `ReadStream::read_exact`'s `match frame.header.frame_kind()` (transient_stream.rs:46-62): the three kinds, else
`unreachable!("Bad FrameKind")`; for DATA `frame.data.as_mut().unwrap()`. `hasData` = the frame carries a buffer. -/
def readExactArm (h : Nat) (hasData : Bool) : Res Kind :=
  let fk := frameKind h
  if fk = FRAME_OPEN then .ok .open_
  else if fk = FRAME_CLOSE then .ok .close
  else if fk = FRAME_DATA then (if hasData then .ok .data else .panic "transient_stream.rs: frame.data.unwrap()")
  else .panic "transient_stream.rs: unreachable!(\"Bad FrameKind\")"

/-! ## DATA frame splitting -/
/-- `while length > 0 { size = min(length, read_frame_size); ..; length -= size }`; the list of `size`s.
`none` = the loop does not terminate within `fuel` iterations (only possible for `read_frame_size = 0`). -/
def dataSplit (rfs : Nat) : (fuel : Nat) → (length : Nat) → Option (List Nat)
  | _, 0 => some []
  | 0, _ + 1 => none
  | fuel + 1, length + 1 =>
    let size := min (length + 1) rfs
    (dataSplit rfs fuel (length + 1 - size)).map (size :: ·)

/-! ## The inbound loop as a machine over the peer's byte stream -/
structure Cfg where
  readFrameSize : Nat
  readBufferSize : Nat
  readFrameCount : Nat
  deriving Repr, DecidableEq

inductive Phase where
  | header
  | dataLen (d : Dispatched)
  /-- inside the `while length > 0` loop: `remaining` bytes of the frame still to split -/
  | chunk (d : Dispatched) (remaining : Nat)
  deriving Repr, DecidableEq

inductive Outcome where
  /-- `RunError::Closed` (end of stream while reading a header / length / body) -/
  | closed
  /-- `RunError::Protocol` -/
  | protocol
  /-- the loop waits for a permit that is never returned (application not reading): no more bytes are consumed -/
  | blocked
  /-- all bytes written so far are consumed, the peer has not closed: `read_exact` is pending -/
  | waiting
  | panic (site : String)
  deriving Repr, DecidableEq

structure St where
  cfg : Cfg
  nAccept : Nat
  nConnect : Nat
  /-- bytes of the peer not consumed yet -/
  input : List Nat
  /-- the peer closed its write side after `input` -/
  eof : Bool
  countAvail : Nat
  sizeAvail : Nat
  /-- sizes of the frames that are parked in stream channels and hold their permits (0 for OPEN/CLOSE) -/
  live : List Nat
  /-- (toConnect, id) of the reusable streams that have received their OPEN (their consumer is parked in
  `StreamQueue::push`; nothing takes frames out of their channel any more) -/
  opened : List (Bool × Nat)
  phase : Phase
  consumed : Nat
  deriving Repr

def St.init (cfg : Cfg) (nAccept nConnect : Nat) (input : List Nat) (eof : Bool) : St :=
  { cfg, nAccept, nConnect, input, eof, countAvail := cfg.readFrameCount, sizeAvail := cfg.readBufferSize,
    live := [], opened := [], phase := .header, consumed := 0 }

def St.isOpened (s : St) (d : Dispatched) : Bool := s.opened.contains (d.toConnect, d.id)

/-- delivery of a frame that holds (1 count permit, `size` size permits) to its stream: parked (permits kept)
if the stream has been opened, otherwise consumed by `recv_open` (an OPEN marks the stream opened) and the
permits return. -/
def St.deliver (s : St) (d : Dispatched) (size : Nat) : St :=
  if s.isOpened d then { s with live := size :: s.live }
  else
    let s := { s with countAvail := s.countAvail + 1, sizeAvail := s.sizeAvail + size }
    if d.kind = .open_ then { s with opened := (d.toConnect, d.id) :: s.opened } else s

/-- `io::read_exact` of `n` bytes: the bytes, or the reason it does not complete (the bytes that were there are
consumed all the same) -/
def St.take (s : St) (n : Nat) : Except (Outcome × St) (List Nat × St) :=
  if s.input.length < n then
    .error (if s.eof then .closed else .waiting, { s with input := [], consumed := s.consumed + s.input.length })
  else .ok (s.input.take n, { s with input := s.input.drop n, consumed := s.consumed + n })

/-- One step of the loop: the state after the step, and `some o` if the loop stops here with outcome `o`
(bytes taken by a `read_exact` that completed stay consumed even if the step then stops). -/
def step (s : St) : St × Option Outcome :=
  match s.phase with
  | .header =>
    match s.take 2 with
    | .error (o, s') => (s', some o)
    | .ok (bs, s) =>
      let h := headerOfBytes (bs.getD 0 0) (bs.getD 1 0)
      match dispatch s.nAccept s.nConnect h with
      | .panic site => (s, some (.panic site))
      | .err _ => (s, some .protocol)
      | .ok d =>
        match d.kind with
        | .data => ({ s with phase := .dataLen d }, none)
        | _ =>
          -- `acquire_many_owned(count_sem, 1)`, then `size_sem.try_acquire_many_owned(0).unwrap()` (always succeeds)
          if s.countAvail = 0 then (s, some .blocked)
          else ((({ s with countAvail := s.countAvail - 1 } : St).deliver d 0), none)
  | .dataLen d =>
    match s.take 2 with
    | .error (o, s') => (s', some o)
    | .ok (bs, s) =>
      let length := headerOfBytes (bs.getD 0 0) (bs.getD 1 0)
      ({ s with phase := .chunk d length }, none)
  | .chunk d remaining =>
    if remaining = 0 then ({ s with phase := .header }, none)
    else
      let size := min remaining s.cfg.readFrameSize
      if s.countAvail = 0 then (s, some .blocked)
      else if s.sizeAvail < size then (s, some .blocked)
      else
        let s1 := { s with countAvail := s.countAvail - 1, sizeAvail := s.sizeAvail - size }
        -- `bytes::Buffer::new(size)`; `read_exact(data.as_mut_capacity())`
        match s1.take size with
        -- the permits of the frame being read are dropped with it
        | .error (o, s') => ({ s with input := s'.input, consumed := s'.consumed }, some o)
        | .ok (_, s2) => ((({ s2 with phase := .chunk d (remaining - size) } : St).deliver d size), none)

/-- runs at most `fuel` steps; `none` = still running after `fuel` steps -/
def run : (fuel : Nat) → St → St × Option Outcome
  | 0, s => (s, none)
  | fuel + 1, s =>
    match step s with
    | (s', some o) => (s', some o)
    | (s', none) => run fuel s'

/-- enough steps for any input with `read_frame_size > 0`: every step except the (at most one per frame)
`chunk .. 0 → header` transition consumes at least one byte -/
def fuelFor (input : List Nat) : Nat := 2 * input.length + 4

/-! ## mux handshake (`handshake.rs`) and `spawn_streams` -/
/-- one `proto::handshake::Capability` -/
structure PCap where
  id : Option Nat          -- uint64
  maxStreams : Option Nat  -- uint32
  deriving Repr

/-- `read_max_streams`: every entry needs `id` and `max_streams`; a repeated id is an error -/
def readMaxStreams : List PCap → List (Nat × Nat) → Res (List (Nat × Nat))
  | [], acc => .ok acc.reverse
  | c :: cs, acc =>
    match c.id with
    | none => .err "id"
    | some id =>
      match c.maxStreams with
      | none => .err "max_streams"
      | some m =>
        if acc.any (fun p => p.1 = id) then .err "duplicate entry" else readMaxStreams cs ((id, m) :: acc)

/-- `impl ProtoFmt for Handshake :: read` -/
def handshakeRead (accept connect : List PCap) : Res (List (Nat × Nat) × List (Nat × Nat)) := do
  let a ← readMaxStreams accept []
  let c ← readMaxStreams connect []
  .ok (a, c)

def lookupCap (peer : List (Nat × Nat)) (cap : Nat) : Nat :=
  match peer.find? (fun p => p.1 = cap) with
  | some p => p.2
  | none => 0

/-- number of reusable streams `spawn_streams` creates for `queues` (our `(capability, max_streams)` list)
against the peer's table: `Σ min(queue.max_streams, peer.get(cap).unwrap_or(0))` -/
def spawnCount (queues : List (Nat × Nat)) (peer : List (Nat × Nat)) : Nat :=
  (queues.map fun q => min q.2 (lookupCap peer q.1)).sum

/-- `saturating_sum` of `Mux::verify` -/
def saturatingSum (xs : List Nat) : Nat := xs.foldl (fun x v => min (x + v) U32_MAX) 0

/-- `MAX_STREAM_COUNT = (StreamId::MASK + 1) as u32` -/
def MAX_STREAM_COUNT : Nat := ID_MASK + 1

/-- `Mux::verify` (stream-count part) -/
def verifyCounts (queues : List (Nat × Nat)) : Bool :=
  decide (saturatingSum (queues.map (·.2)) ≤ MAX_STREAM_COUNT)

/-- `spawn_streams` calls `StreamId::new(streams.len() as u16)` for `streams.len() = 0 .. count-1`;
`StreamId::new` is `assert!(id <= Self::MASK)`. (`as u16` truncates.) -/
def spawnStreams (queues peer : List (Nat × Nat)) : Res Nat :=
  let count := spawnCount queues peer
  if (List.range count).all (fun i => decide (i % 65536 ≤ ID_MASK)) then .ok count
  else .panic "mux/header.rs: assert!(id <= Self::MASK)"

end EraVerif.Model.C10.Mux
