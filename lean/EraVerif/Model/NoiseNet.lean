import EraVerif.Model.Noise

/-!
# The scripted network between two noise streams (environment of the C13 correspondence run)

One direction of a session: the write half of one endpoint, the read half of the other, and the bytes in flight
between them, which the test environment owns and may tamper with. This file mirrors, operation by operation, what
`harness/src/bin/c13.rs` does around the real `noise::Stream`: bookkeeping of the bytes in flight with their
provenance (frame number, offset in the frame — recomputed from the writer's output by a scanner), and the tampering
operations (flip, truncate, splice, drop / replay / swap of whole frames, drop / duplicate of a range inside a frame
body). It is not part of any theorem: the theorems in `Props/C13.lean` quantify over *all* byte streams.
-/

namespace EraVerif.Model.NoiseNet
open EraVerif.Model.Noise

/-- provenance of a byte in flight: `some (k, idx)` = byte `idx` of frame `k` as written; `none` = made up -/
abbrev ETag := Option (Nat × Nat)

/-- byte values as seen by the environment (ciphertext bytes have no modelled value) -/
def cv0 : Nat → Nat → Nat := fun _ _ => 0

structure Dir where
  w : Writer
  r : Reader
  wire : List WByte
  tags : List ETag
  cut : Bool
  sentTotal : Nat
  pulledTotal : Nat
  accepted : Nat
  delivered : Nat
  -- scanner over the writer's output
  scanK : Nat
  scanIdx : Nat
  scanLo : Nat
  scanFlen : Nat
  cur : List WByte        -- current frame, reversed
  hist : Array (List WByte)

def Dir.init : Dir :=
  { w := Writer.init, r := Reader.init, wire := [], tags := [], cut := false, sentTotal := 0, pulledTotal := 0,
    accepted := 0, delivered := 0, scanK := 0, scanIdx := 0, scanLo := 0, scanFlen := 0, cur := [], hist := #[] }

/-- scanner state threaded through the bytes of one call: direction, tags (reversed), headers seen (reversed) -/
structure ScanAcc where
  d : Dir
  tagsRev : List ETag
  hdrsRev : List Nat

def scanByte (a : ScanAcc) (b : WByte) : ScanAcc :=
  let d := a.d
  let tag : ETag := some (d.scanK, d.scanIdx)
  let v := b.val cv0
  let d1 := { d with cur := b :: d.cur }
  let (d2, hdrs) :=
    if d.scanIdx = 0 then ({ d1 with scanLo := v }, a.hdrsRev)
    else if d.scanIdx = 1 then
      let n := d.scanLo + 256 * v
      ({ d1 with scanFlen := 2 + n }, n :: a.hdrsRev)
    else (d1, a.hdrsRev)
  let idx := d.scanIdx + 1
  let d3 :=
    if idx ≥ 2 ∧ idx = d2.scanFlen then
      { d2 with hist := d2.hist.push d2.cur.reverse, cur := [], scanK := d2.scanK + 1, scanIdx := 0 }
    else { d2 with scanIdx := idx }
  { d := d3, tagsRev := tag :: a.tagsRev, hdrsRev := hdrs }

/-- the writer's transport accepted `sent`: scan, then append to the bytes in flight (dropped if the link is cut) -/
def Dir.accept (d : Dir) (sent : List WByte) : Dir × List Nat :=
  let a := sent.foldl scanByte { d := d, tagsRev := [], hdrsRev := [] }
  let d1 := { a.d with sentTotal := a.d.sentTotal + sent.length }
  let d2 := if d1.cut then d1 else { d1 with wire := d1.wire ++ sent, tags := d1.tags ++ a.tagsRev.reverse }
  (d2, a.hdrsRev.reverse)

/-- complete frames fully in flight: (start, length, frame number) -/
def completeFramesAux (hist : Array (List WByte)) : Nat → Nat → List ETag → List (Nat × Nat × Nat)
  | 0, _, _ => []
  | _, _, [] => []
  | fuel + 1, p, t :: ts =>
    match t with
    | some (k, 0) =>
      if h : k < hist.size then
        let flen := hist[k].length
        if flen ≥ 1 ∧ (t :: ts).length ≥ flen ∧ (t :: ts)[flen - 1]? = some (some (k, flen - 1)) then
          (p, flen, k) :: completeFramesAux hist fuel (p + flen) ((t :: ts).drop flen)
        else completeFramesAux hist fuel (p + 1) ts
      else completeFramesAux hist fuel (p + 1) ts
    | _ => completeFramesAux hist fuel (p + 1) ts

def Dir.completeFrames (d : Dir) : List (Nat × Nat × Nat) :=
  completeFramesAux d.hist (d.tags.length + 1) 0 d.tags

/-- first position `≥ p0` holding a byte of a frame body (offset ≥ 2 in its frame) -/
def Dir.bodyPosFrom (d : Dir) (p0 : Nat) : Option Nat :=
  match ((d.tags.drop p0).zipIdx).find? (fun ti => match ti.1 with | some (_, idx) => idx ≥ 2 | none => false) with
  | some (_, i) => some (p0 + i)
  | none => none

def Dir.splice (d : Dir) (pos del : Nat) (ins : List WByte) : Dir :=
  { d with wire := d.wire.take pos ++ ins ++ d.wire.drop (pos + del),
           tags := d.tags.take pos ++ ins.map (fun _ => (none : ETag)) ++ d.tags.drop (pos + del) }

/-- insert copies of authentic bytes; they keep their provenance -/
def Dir.spliceTagged (d : Dir) (pos : Nat) (ins : List WByte) (tags : List ETag) : Dir :=
  { d with wire := d.wire.take pos ++ ins ++ d.wire.drop pos,
           tags := d.tags.take pos ++ tags ++ d.tags.drop pos }

def clamp (x lo hi : Nat) : Nat := max lo (min x hi)

inductive Tamper where
  | flip (pos0 x : Nat)
  | trunc (pos0 : Nat)
  | splice (pos0 del : Nat) (bytes : List Nat)
  | dropf (f c : Nat)
  | replayf (k g : Nat)
  | swapf (f : Nat)
  | dropr (pos0 len : Nat)
  | dupr (src len pos0 : Nat)

/-- outcome of a tamper: whether applied, position, and a few numbers for the observation -/
structure TamperOut where
  d : Dir
  applied : Bool
  fields : List (String × Nat) := []
  hit : Option String := none

def Dir.tamper (d : Dir) : Tamper → TamperOut
  | .flip pos0 x =>
    let l := d.wire.length
    if l = 0 then { d := d, applied := false }
    else
      let pos := pos0 % l
      let hit := match d.tags[pos]? with
        | some (some (_, idx)) => if idx < 2 then "len" else "body"
        | _ => "junk"
      let x' := max (x % 256) 1
      let nb : WByte := match d.wire[pos]? with
        | some (.raw v) => .raw (Nat.xor v x')
        | _ => .raw 0
      { d := d.splice pos 1 [nb], applied := true, fields := [("pos", pos)], hit := some hit }
  | .trunc pos0 =>
    let l := d.wire.length
    let pos := pos0 % (l + 1)
    { d := { d with wire := d.wire.take pos, tags := d.tags.take pos, cut := true }, applied := true,
      fields := [("pos", pos)] }
  | .splice pos0 del bytes =>
    let l := d.wire.length
    let pos := pos0 % (l + 1)
    let del' := min del (l - pos)
    { d := d.splice pos del' (bytes.map fun v => WByte.raw (v % 256)), applied := true,
      fields := [("pos", pos), ("del", del')] }
  | .dropf f c =>
    let fr := d.completeFrames
    if fr.isEmpty then { d := d, applied := false }
    else
      let f' := f % fr.length
      let c' := clamp c 1 (fr.length - f')
      match fr[f']?, fr[f' + c' - 1]? with
      | some (start, _, k), some (s2, l2, _) =>
        let stop := s2 + l2
        { d := d.splice start (stop - start) [], applied := true,
          fields := [("pos", start), ("del", stop - start), ("k", k)] }
      | _, _ => { d := d, applied := false }
  | .replayf k g =>
    let l := d.wire.length
    let starts := (d.tags.zipIdx.filter (fun ti => match ti.1 with | some (_, 0) => true | _ => false)).map (·.2)
    let b := if d.scanIdx = 0 ∧ !d.cut then starts ++ [l] else starts
    if d.hist.size = 0 ∨ b.isEmpty then { d := d, applied := false }
    else
      let k' := k % d.hist.size
      match b[g % b.length]?, d.hist[k']? with
      | some pos, some f =>
        { d := d.spliceTagged pos f ((List.range f.length).map fun idx => some (k', idx)), applied := true,
          fields := [("pos", pos), ("k", k'), ("len", f.length)] }
      | _, _ => { d := d, applied := false }
  | .swapf f =>
    let fr := d.completeFrames
    if fr.length < 2 then { d := d, applied := false }
    else
      let f' := f % (fr.length - 1)
      match fr[f']?, fr[f' + 1]? with
      | some (a0, a1, ak), some (b0, b1, _) =>
        if a0 + a1 ≠ b0 then { d := d, applied := false }
        else
          let wa := (d.wire.drop a0).take a1
          let wb := (d.wire.drop b0).take b1
          let ta := (d.tags.drop a0).take a1
          let tb := (d.tags.drop b0).take b1
          { d := { d with wire := d.wire.take a0 ++ wb ++ wa ++ d.wire.drop (b0 + b1),
                          tags := d.tags.take a0 ++ tb ++ ta ++ d.tags.drop (b0 + b1) },
            applied := true, fields := [("pos", a0), ("k", ak)] }
      | _, _ => { d := d, applied := false }
  | .dropr pos0 len =>
    let l := d.wire.length
    if l = 0 then { d := d, applied := false }
    else match d.bodyPosFrom (pos0 % l) with
      | none => { d := d, applied := false }
      | some pos =>
        let del := clamp len 1 (l - pos)
        { d := d.splice pos del [], applied := true, fields := [("pos", pos), ("del", del)] }
  | .dupr src len pos0 =>
    let l := d.wire.length
    if l = 0 then { d := d, applied := false }
    else match d.bodyPosFrom (pos0 % l) with
      | none => { d := d, applied := false }
      | some pos =>
        let a := src % l
        -- a copy inserted in front of itself can leave the frame intact and displaced bytes behind it
        if a = pos then { d := d, applied := false } else
        let n := clamp len 1 (l - a)
        let seg := (d.wire.drop a).take n
        let segt := (d.tags.drop a).take n
        { d := d.spliceTagged pos seg segt, applied := true, fields := [("pos", pos), ("from", a), ("len", n)] }

end EraVerif.Model.NoiseNet
