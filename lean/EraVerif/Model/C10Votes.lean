import EraVerif.Model.C10Verify

/-!
# C10 — the vote caches of the replica (`node/components/bft/src/v2_chonky_bft/{commit,timeout,new_view}.rs`)

`on_commit` / `on_timeout` build quorum certificates incrementally and contain the panicking constructs
`.expect("could not add message to CommitQC")`, `.expect("could not add message to TimeoutQC")`,
`commit_qcs_cache.remove(..).unwrap().remove(..).unwrap()`, `timeout_qcs_cache.remove(..).unwrap()`,
`Signers::weight`'s `assert_eq!` and `get_justification`'s `assert!`. This model keeps exactly the state those
depend on (current view, the two "latest view per signer" maps, the two caches of partial certificates, whether a
high certificate is held) and transcribes the handlers for *any* sequence of signed votes — any signer (member or
not), any view (including `2^64-1`), any block number, any high vote / high certificate, valid or invalid
signatures. Blocks, payloads, persistence and outbound messages are not part of it.
-/

namespace EraVerif.Model.C10.Votes
open EraVerif.Model.C10 EraVerif.Model.C10.Verify

/-- a partial `CommitQC` under construction -/
structure CEntry where
  view : Nat
  msg : ReplicaCommit
  signers : List Bool
  deriving Repr, DecidableEq

/-- a partial `TimeoutQC` under construction (`timeout_qcs_cache` is keyed by the view *number*) -/
structure TEntry where
  key : Nat
  view : View
  map : List (ReplicaTimeout × List Bool)
  deriving Repr, DecidableEq

structure St where
  view : Nat
  /-- `commit_views_cache`: signer index ↦ latest view -/
  commitViews : List (Nat × Nat)
  commitQcs : List CEntry
  timeoutViews : List (Nat × Nat)
  timeoutQcs : List TEntry
  /-- `high_commit_qc.is_some() || high_timeout_qc.is_some()` -/
  hasHighQc : Bool
  deriving Repr

def St.init : St := ⟨0, [], [], [], [], false⟩

def lookup (m : List (Nat × Nat)) (k : Nat) : Option Nat := (m.find? (·.1 = k)).map (·.2)
def insert (m : List (Nat × Nat)) (k v : Nat) : List (Nat × Nat) := (k, v) :: m.filter (·.1 ≠ k)

/-- `if let Some(&view) = cache.get(author) { if view >= message.view.number { .. } }` -/
def seenAtLeast (m : List (Nat × Nat)) (i v : Nat) : Bool :=
  match lookup m i with
  | some x => decide (x ≥ v)
  | none => false

def setBit (l : List Bool) (i : Nat) : List Bool := l.set i true

inductive Verdict where
  | accepted
  | rejected (why : String)
  deriving Repr, DecidableEq

/-- a signed vote as the handler sees it -/
structure Signed (α : Type) where
  /-- index of the signer in the committee, `none` = not a member -/
  signer : Option Nat
  sigOk : Bool
  msg : α

/-- `CommitQC::add` on the entry found / created by `on_commit` -/
def commitQcAdd (c : Ctx) (e : CEntry) (i : Nat) (m : Signed ReplicaCommit) : Res CEntry :=
  -- `validators.index(&msg.key)`: the caller checked membership
  if e.signers.getD i false then .err "DuplicateSigner"
  else if !m.sigOk then .err "BadSignature"
  else if e.msg ≠ m.msg then .err "InconsistentMessages"
  else (replicaCommitVerify c m.msg).bind fun _ => .ok { e with signers := setBit e.signers i }

/-- `start_new_view` → `get_justification`: `assert!(high_commit_qc.is_some() || high_timeout_qc.is_some())` -/
def startNewView (s : St) (v : Nat) : Res St :=
  if s.hasHighQc then .ok { s with view := v }
  else .panic "new_view.rs: assert!(high_commit_qc.is_some() || high_timeout_qc.is_some())"

/-- `commit_qcs_cache.entry(view).or_default().entry(message).or_insert_with(|| CommitQC::new(message, validators))` -/
def findCEntry (c : Ctx) (s : St) (vn : Nat) (msg : ReplicaCommit) : CEntry :=
  match s.commitQcs.find? (fun e => e.view = vn ∧ e.msg = msg) with
  | some e => e
  | none => ⟨vn, msg, List.replicate c.weights.length false⟩

/-- `timeout_qcs_cache.entry(view number).or_insert_with(|| TimeoutQC::new(message.view))` -/
def findTEntry (s : St) (view : View) : TEntry :=
  match s.timeoutQcs.find? (fun e => e.key = view.number) with
  | some e => e
  | none => ⟨view.number, view, []⟩

/-- the caches after the vote was added to `entry'`: the signer's latest view is recorded and the partial certificates
of views nobody is at are dropped (`retain(|view, _| active_views.contains(view))`) -/
def commitCaches (s : St) (i vn : Nat) (msg : ReplicaCommit) (entry' : CEntry) : St :=
  { s with
    commitViews := insert s.commitViews i vn
    commitQcs := (entry' :: s.commitQcs.filter (fun e => ¬ (e.view = vn ∧ e.msg = msg))).filter
      (fun e => (insert s.commitViews i vn).any (·.2 = e.view)) }

def timeoutCaches (s : St) (i vn : Nat) (entry' : TEntry) : St :=
  { s with
    timeoutViews := insert s.timeoutViews i vn
    timeoutQcs := (entry' :: s.timeoutQcs.filter (fun e => e.key ≠ vn)).filter
      (fun e => (insert s.timeoutViews i vn).any (·.2 = e.key)) }

/-- `on_commit` after "All checks finished. Now we process the message." (commit.rs:108-182) -/
def onCommitCore (c : Ctx) (s : St) (i : Nat) (m : Signed ReplicaCommit) : Res (St × Verdict) :=
  let vn := m.msg.view.number
  let entry : CEntry := findCEntry c s vn m.msg
  match commitQcAdd c entry i m with
  | .err _ => .panic "commit.rs: .expect(\"could not add message to CommitQC\")"
  | .panic p => .panic p
  | .ok entry' =>
    match signersWeight entry'.signers c.weights with
    | .err _ => .panic "unreachable"
    | .panic p => .panic p
    | .ok weight =>
      let s1 : St := commitCaches s i vn m.msg entry'
      if weight < c.quorum then .ok (s1, .accepted)
      else
        -- `.remove(&view).unwrap().remove(message).unwrap()`
        if !(s1.commitQcs.any (fun e => e.view = vn ∧ e.msg = m.msg)) then
          .panic "commit.rs: commit_qcs_cache.remove(..).unwrap()"
        else
          let s2 : St := { s1 with commitQcs := s1.commitQcs.filter (fun e => e.view ≠ vn), hasHighQc := true }
          (startNewView s2 (viewNext vn)).bind fun s3 => .ok (s3, .accepted)

/-- `on_commit` (commit.rs:61-182) -/
def onCommit (c : Ctx) (s : St) (m : Signed ReplicaCommit) : Res (St × Verdict) :=
  match m.signer with
  | none => .ok (s, .rejected "NonValidatorSigner")
  | some i =>
    if i ≥ c.weights.length then .ok (s, .rejected "NonValidatorSigner") else
    if m.msg.view.number < s.view then .ok (s, .rejected "Old") else
    if seenAtLeast s.commitViews i m.msg.view.number then .ok (s, .rejected "DuplicateSigner") else
    if !m.sigOk then .ok (s, .rejected "InvalidSignature") else
    match replicaCommitVerify c m.msg with
    | .err _ => .ok (s, .rejected "InvalidMessage")
    | .panic p => .panic p
    | .ok _ => onCommitCore c s i m

/-- `self.map.entry(msg).or_insert_with(|| Signers::new(n)).0.set(i, true)` -/
def addToMap (c : Ctx) (map : List (ReplicaTimeout × List Bool)) (msg : ReplicaTimeout) (i : Nat) :
    List (ReplicaTimeout × List Bool) :=
  if map.any (·.1 = msg)
    then map.map (fun p => if p.1 = msg then (p.1, setBit p.2 i) else p)
    else map ++ [(msg, setBit (List.replicate c.weights.length false) i)]

/-- `TimeoutQC::add` -/
def timeoutQcAdd (c : Ctx) (e : TEntry) (i : Nat) (m : Signed ReplicaTimeout) : Res TEntry :=
  if e.map.any (fun p => p.2.getD i false) then .err "DuplicateSigner"
  else if !m.sigOk then .err "BadSignature"
  else if m.msg.view ≠ e.view then .err "InconsistentViews"
  else (replicaTimeoutVerify c m.msg).bind fun _ => .ok { e with map := addToMap c e.map m.msg i }

/-- `TimeoutQC::weight`: the sum of `signers.weight(..)` over the map -/
def timeoutQcWeight (c : Ctx) : List (ReplicaTimeout × List Bool) → Res Nat
  | [] => .ok 0
  | (_, s) :: rest => (signersWeight s c.weights).bind fun w => (timeoutQcWeight c rest).bind fun r => .ok ((w + r) % U64)

/-- `on_timeout` after "All checks finished. Now we process the message." (timeout.rs:113-165) -/
def onTimeoutCore (c : Ctx) (s : St) (i : Nat) (m : Signed ReplicaTimeout) : Res (St × Verdict) :=
  let vn := m.msg.view.number
  let entry : TEntry := findTEntry s m.msg.view
  match timeoutQcAdd c entry i m with
  | .err _ => .panic "timeout.rs: .expect(\"could not add message to TimeoutQC\")"
  | .panic p => .panic p
  | .ok entry' =>
    match timeoutQcWeight c entry'.map with
    | .err _ => .panic "unreachable"
    | .panic p => .panic p
    | .ok weight =>
      let s1 : St := timeoutCaches s i vn entry'
      if weight < c.quorum then .ok (s1, .accepted)
      else
        if !(s1.timeoutQcs.any (fun e => e.key = vn)) then .panic "timeout.rs: timeout_qcs_cache.remove(..).unwrap()"
        else
          let s2 : St := { s1 with timeoutQcs := s1.timeoutQcs.filter (fun e => e.key ≠ vn), hasHighQc := true }
          (startNewView s2 (viewNext vn)).bind fun s3 => .ok (s3, .accepted)

/-- `on_timeout` (timeout.rs:58-165) -/
def onTimeout (c : Ctx) (s : St) (m : Signed ReplicaTimeout) : Res (St × Verdict) :=
  match m.signer with
  | none => .ok (s, .rejected "NonValidatorSigner")
  | some i =>
    if i ≥ c.weights.length then .ok (s, .rejected "NonValidatorSigner") else
    if m.msg.view.number < s.view then .ok (s, .rejected "Old") else
    if seenAtLeast s.timeoutViews i m.msg.view.number then .ok (s, .rejected "DuplicateSigner") else
    if !m.sigOk then .ok (s, .rejected "InvalidSignature") else
    match replicaTimeoutVerify c m.msg with
    | .err _ => .ok (s, .rejected "InvalidMessage")
    | .panic p => .panic p
    | .ok _ => onTimeoutCore c s i m

inductive Op where
  | commit (m : Signed ReplicaCommit)
  | timeout (m : Signed ReplicaTimeout)

def step (c : Ctx) (s : St) : Op → Res (St × Verdict)
  | .commit m => onCommit c s m
  | .timeout m => onTimeout c s m

/-- a whole sequence; stops at the first panic -/
def runOps (c : Ctx) : St → List Op → Res (St × List Verdict)
  | s, [] => .ok (s, [])
  | s, op :: rest =>
    (step c s op).bind fun (s', v) => (runOps c s' rest).bind fun (s'', vs) => .ok (s'', v :: vs)

end EraVerif.Model.C10.Votes
