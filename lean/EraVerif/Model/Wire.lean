import EraVerif.Model.WireSchema

/-!
# Executable model of `zksync_protobuf::proto_fmt` (C09)

Transcription of `node/libs/protobuf/src/proto_fmt.rs` (`Wire`, `Reader::read`, `Reader::read_field`,
`read_fields`, `canonical_raw`) together with the parts of `quick-protobuf 0.8.1` it calls
(`BytesReader::{read_varint32, read_varint64, read_bytes, read_fixed32, read_fixed64, is_eof}`,
`Writer::{write_varint, write_tag, write_bytes}`), over `List UInt8`.

Conventions
* errors are values of `Err`; the correspondence run compares *accepted / rejected* only, the constructor is for
  diagnosis and for the rejection theorems;
* loops that the Rust code runs "until the reader is at EOF" are structurally recursive on a fuel argument that is
  initialised with the length of the buffer (every iteration consumes at least one byte, so the fuel never runs
  out: `Err.fuel` is unreachable, which `Proofs/Wire.lean` proves for the functions the theorems use);
* `canonical_raw` recurses into sub-message payloads; the model recurses on a depth fuel initialised with
  `buf.length + 1` (a nested payload is at least two bytes shorter than the buffer that contains it).

F9 (DESIGN §6): the unrepaired `canonical_raw` indexes `values[0]` for a scalar field whose value list is empty
(the only occurrence of the field is an empty packed chunk) and panics. This model follows the repaired code
(a field without values writes nothing), as the canonical-encoding spec at the top of proto_fmt.rs says
("0 values => field is not encoded at all").

No Mathlib; no `partial`.
-/

namespace EraVerif.Model.Wire

abbrev Bytes := List UInt8

deriving instance DecidableEq for Except

/-- Reasons for `Err(..)` in proto_fmt.rs / quick-protobuf. -/
inductive Err where
  | eof              -- quick_protobuf::Error::UnexpectedEndOfBuffer
  | varint           -- quick_protobuf::Error::Varint (more than 10 bytes)
  | wireType         -- "invalid wire type"
  | unknownField     -- "unknown field"
  | map              -- "maps unsupported"
  | implicitPresence -- "fields with implicit presence are not supported"
  | notProto3        -- "only proto3 syntax is supported"
  | unexpectedWire   -- "unexpected wire type"
  | multi            -- "non-repeated field with multiple values"
  | badSchema        -- a message index that is not in the table (cannot happen for a descriptor pool)
  | fuel             -- recursion fuel exhausted (unreachable, see above)
deriving DecidableEq, Repr, Inhabited

/-- `enum Wire` of proto_fmt.rs. -/
inductive Wire where
  | varint
  | i64
  | len
  | i32
deriving DecidableEq, Repr, Inhabited

/-- `Wire::from_tag`. -/
def Wire.fromTag (tag : Nat) : Option Wire :=
  match tag % 8 with
  | 0 => some .varint
  | 1 => some .i64
  | 2 => some .len
  | 5 => some .i32
  | _ => none

/-- `Wire::raw`. -/
def Wire.raw : Wire → Nat
  | .varint => 0
  | .i64 => 1
  | .len => 2
  | .i32 => 5

/-- `impl From<prost_reflect::Kind> for Wire`. -/
def Kind.wire : Kind → Wire
  | .varint => .varint
  | .fixed64 => .i64
  | .fixed32 => .i32
  | .bytes => .len
  | .msg _ => .len

/-! ## quick-protobuf: varints -/

/-- Common core of `read_varint32` / `read_varint64`: at most `fuel` bytes; the low 7 bits of byte `i` are
added at bit position `7 i`; a byte without the continuation bit ends the number. -/
def readVarintAux : (fuel : Nat) → (shift : Nat) → (acc : Nat) → Bytes → Except Err (Nat × Bytes)
  | 0, _, _, _ => .error .varint
  | _ + 1, _, _, [] => .error .eof
  | k + 1, sh, acc, b :: bs =>
    let acc' := acc + (b.toNat % 128) * 2 ^ sh
    if b.toNat < 128 then .ok (acc', bs) else readVarintAux k (sh + 7) acc' bs

/-- `BytesReader::read_varint64`: up to 10 bytes, bits beyond 64 silently dropped. -/
def readVarint64 (bs : Bytes) : Except Err (Nat × Bytes) :=
  match readVarintAux 10 0 0 bs with
  | .ok (v, r) => .ok (v % 2 ^ 64, r)
  | .error e => .error e

/-- `BytesReader::read_varint32` (tags and lengths): up to 10 bytes, bits beyond 32 silently dropped
(byte 4 contributes its low 4 bits, bytes 5–9 are skipped). -/
def readVarint32 (bs : Bytes) : Except Err (Nat × Bytes) :=
  match readVarintAux 10 0 0 bs with
  | .ok (v, r) => .ok (v % 2 ^ 32, r)
  | .error e => .error e

/-- `Writer::write_varint`: minimal little-endian base-128 (`while v > 0x7F { write((v as u8 & 0x7F) | 0x80); v >>= 7 }
write(v as u8)`), structurally recursive on a fuel argument so that it also evaluates inside the kernel. -/
def writeVarintAux : (fuel : Nat) → Nat → Bytes
  | 0, n => [UInt8.ofNat n]
  | f + 1, n => if n < 128 then [UInt8.ofNat n] else UInt8.ofNat (n % 128 + 128) :: writeVarintAux f (n / 128)

/-- `write_varint(n)`; the fuel `n` is more than the number of 7-bit groups of `n`
(`Proofs/Wire.lean: writeVarint_eq` is the loop equation). -/
def writeVarint (n : Nat) : Bytes := writeVarintAux n n

/-! ## `Reader` of proto_fmt.rs -/

/-- `bytes.get(start .. start + n)` then advance. -/
def takeN (n : Nat) (bs : Bytes) : Except Err (Bytes × Bytes) :=
  if bs.length < n then .error .eof else .ok (bs.take n, bs.drop n)

/-- `BytesReader::read_bytes`: `u32` length, then that many bytes. -/
def readBytes (bs : Bytes) : Except Err (Bytes × Bytes) :=
  match readVarint32 bs with
  | .ok (n, r) => takeN n r
  | .error e => .error e

/-- `Reader::read`: one value of the given wire type, returned in its canonical byte form
(a varint is re-written minimally, fixed-width values are copied, a LEN value is its payload). -/
def readValue (w : Wire) (bs : Bytes) : Except Err (Bytes × Bytes) :=
  match w with
  | .varint =>
    match readVarint64 bs with
    | .ok (v, r) => .ok (writeVarint v, r)
    | .error e => .error e
  | .i64 => takeN 8 bs
  | .len => readBytes bs
  | .i32 => takeN 4 bs

/-- The loop `while !r.0.is_eof() { out.push(r.read(field_wire)?) }` over a packed chunk. -/
def readPacked (w : Wire) : (fuel : Nat) → Bytes → Except Err (List Bytes)
  | _, [] => .ok []
  | 0, _ :: _ => .error .fuel
  | k + 1, bs@(_ :: _) =>
    match readValue w bs with
    | .ok (v, r) =>
      match readPacked w k r with
      | .ok vs => .ok (v :: vs)
      | .error e => .error e
    | .error e => .error e

/-- `Reader::read_field`: the values carried by one TLV whose tag (already read) had wire type `got`, for a
field whose kind has wire type `fieldWire`. -/
def readField (fieldWire got : Wire) (bs : Bytes) : Except Err (List Bytes × Bytes) :=
  if got = fieldWire then
    match readValue fieldWire bs with
    | .ok (v, r) => .ok ([v], r)
    | .error e => .error e
  else if got ≠ .len then .error .unexpectedWire
  else
    match readBytes bs with
    | .ok (chunk, r) =>
      match readPacked fieldWire chunk.length chunk with
      | .ok vs => .ok (vs, r)
      | .error e => .error e
    | .error e => .error e

/-! ## `read_fields` -/

/-- `BTreeMap<u32, Vec<α>>` as an association list with strictly ascending keys. -/
abbrev FieldMap (α : Type) := List (Nat × List α)

/-- `fields.entry(num).or_default()` followed by appending `vs` to the entry. -/
def FieldMap.push {α : Type} : FieldMap α → Nat → List α → FieldMap α
  | [], k, vs => [(k, vs)]
  | (k', vs') :: rest, k, vs =>
    if k < k' then (k, vs) :: (k', vs') :: rest
    else if k = k' then (k', vs' ++ vs) :: rest
    else (k', vs') :: FieldMap.push rest k vs

/-- The body of `read_fields`: `while !r.0.is_eof() { tag; wire; field; checks; read_field }`. -/
def readFieldsLoop (m : MsgSchema) : (fuel : Nat) → Bytes → FieldMap Bytes → Except Err (FieldMap Bytes)
  | _, [], acc => .ok acc
  | 0, _ :: _, _ => .error .fuel
  | k + 1, bs@(_ :: _), acc =>
    match readVarint32 bs with
    | .error e => .error e
    | .ok (tag, r) =>
      match Wire.fromTag tag with
      | none => .error .wireType
      | some wire =>
        match m.getField (tag / 8) with
        | none => .error .unknownField
        | some fd =>
          if fd.isMap then .error .map
          else if !fd.repeated && !fd.explicitPresence then .error .implicitPresence
          else
            match readField fd.kind.wire wire r with
            | .error e => .error e
            | .ok (vals, r') => readFieldsLoop m k r' (acc.push (tag / 8) vals)

/-- `read_fields`. -/
def readFields (m : MsgSchema) (bs : Bytes) : Except Err (FieldMap Bytes) :=
  if !m.proto3 then .error .notProto3 else readFieldsLoop m bs.length bs []

/-! ## `canonical_raw` -/

/-- `write_tag((num << 3) | wire)`. -/
def writeTag (num : Nat) (w : Wire) : Bytes := writeVarint (num * 8 + w.raw)

/-- `write_bytes(v)`: length prefix and payload. -/
def writeLen (v : Bytes) : Bytes := writeVarint v.length ++ v

/-- The `match wire { .. }` at the end of the loop body of `canonical_raw`: the bytes written for one field. -/
def emitField (w : Wire) (num : Nat) (values : List Bytes) : Bytes :=
  match w with
  | .len => values.flatMap (fun v => writeTag num .len ++ writeLen v)
  | w =>
    match values with
    | [] => []                                  -- repaired F9: nothing to write
    | [v] => writeTag num w ++ v
    | _ => writeTag num .len ++ writeLen values.flatten

/-- `mapM` in `Except`, written out so that it is structurally recursive and easy to unfold. -/
def mapE {α β : Type} (f : α → Except Err β) : List α → Except Err (List β)
  | [] => .ok []
  | a :: as =>
    match f a with
    | .error e => .error e
    | .ok b =>
      match mapE f as with
      | .error e => .error e
      | .ok bs => .ok (b :: bs)

/-- The body of the `for (num, mut values) in read_fields(buf, desc)?` loop of `canonical_raw` for one map entry;
`rec k v` is the recursive call `canonical_raw(v, desc_k)` on a sub-message payload. -/
def canonEntry (rec : Nat → Bytes → Except Err Bytes) (m : MsgSchema) (p : Nat × List Bytes) : Except Err Bytes :=
  match m.getField p.1 with
  | none => .error .unknownField                -- `.unwrap()`: read_fields only inserts known fields
  | some fd =>
    if p.2.length > 1 && !fd.repeated then .error .multi
    else
      match fd.kind with
      | .msg k =>
        match mapE (rec k) p.2 with
        | .error e => .error e
        | .ok vs => .ok (emitField .len p.1 vs)
      | kind => .ok (emitField kind.wire p.1 p.2)

/-- `canonical_raw(buf, desc)`; `idx` is the index of `desc` in the descriptor table, `fuel` bounds the nesting
depth. -/
def canonicalRaw (tbl : Table) : (fuel : Nat) → (idx : Nat) → Bytes → Except Err Bytes
  | 0, _, _ => .error .fuel
  | fuel + 1, idx, bs =>
    match tbl[idx]? with
    | none => .error .badSchema
    | some m =>
      match readFields m bs with
      | .error e => .error e
      | .ok fields =>
        match mapE (canonEntry (canonicalRaw tbl fuel) m) fields with
        | .error e => .error e
        | .ok chunks => .ok chunks.flatten

/-- Entry point with enough fuel for any buffer. -/
def canonical (tbl : Table) (idx : Nat) (bs : Bytes) : Except Err Bytes :=
  canonicalRaw tbl (bs.length + 1) idx bs

/-! ## The value a message denotes, and the canonical writer (specification side) -/

/-- Generic value of a message: what `canonical_raw` keeps of a buffer. A scalar / bytes value is a leaf holding
its canonical byte form and wire type; a message is the ascending map field number ↦ values in order. -/
inductive Tree where
  | leaf (w : Wire) (raw : Bytes)
  | node (fields : List (Nat × List Tree))
deriving Repr, Inhabited

/-- Wire type under which a value is written. -/
def Tree.wire : Tree → Wire
  | .leaf w _ => w
  | .node _ => .len

/-- Canonical bytes of one field given its values and their payloads: the wire type is that of the first value
(all values of a field of a well-formed tree have the same one). -/
def encodeField (num : Nat) (vs : List Tree) (ps : List Bytes) : Bytes :=
  match vs with
  | [] => []
  | v :: _ => emitField v.wire num ps

mutual
/-- The bytes a value occupies inside a TLV (for a message: its canonical encoding). -/
def Tree.payload : Tree → Bytes
  | .leaf _ raw => raw
  | .node fs => payloadFields fs

/-- Canonical encoding of a field map: fields in list order, each written by `encodeField`. -/
def payloadFields : List (Nat × List Tree) → Bytes
  | [] => []
  | (num, vs) :: rest => encodeField num vs (payloadVals vs) ++ payloadFields rest

/-- Payloads of a value list, in order. -/
def payloadVals : List Tree → List Bytes
  | [] => []
  | v :: vs => v.payload :: payloadVals vs
end

/-- Canonical encoding of a message value. -/
def encode (t : Tree) : Bytes := t.payload

/-- One map entry of `read_fields` as a value: the "non-repeated field with multiple values" check, then leaves for
scalar / bytes fields and `rec k v` (the value of the sub-message payload `v` of schema `k`) for message fields. -/
def decodeEntry (rec : Nat → Bytes → Except Err Tree) (m : MsgSchema) (p : Nat × List Bytes) :
    Except Err (Nat × List Tree) :=
  match m.getField p.1 with
  | none => .error .unknownField
  | some fd =>
    if p.2.length > 1 && !fd.repeated then .error .multi
    else
      match fd.kind with
      | .msg k =>
        match mapE (rec k) p.2 with
        | .error e => .error e
        | .ok ts => .ok (p.1, ts)
      | kind => .ok (p.1, p.2.map (Tree.leaf kind.wire))

/-- The value `canonical_raw` sees in a buffer: `read_fields`, the "non-repeated field with multiple values" check,
and recursion into message-typed fields. (`canonicalRaw_eq_encode_decode` in `Props/C09.lean`: `canonical_raw` is
`encode ∘ decode`.) -/
def decode (tbl : Table) : (fuel : Nat) → (idx : Nat) → Bytes → Except Err Tree
  | 0, _, _ => .error .fuel
  | fuel + 1, idx, bs =>
    match tbl[idx]? with
    | none => .error .badSchema
    | some m =>
      match readFields m bs with
      | .error e => .error e
      | .ok fields =>
        match mapE (decodeEntry (decode tbl fuel) m) fields with
        | .error e => .error e
        | .ok fs => .ok (.node fs)

end EraVerif.Model.Wire
