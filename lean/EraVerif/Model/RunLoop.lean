import EraVerif.Model.Replica
import EraVerif.Model.Mpsc

/-!
# The replica's message loop (`StateMachine::run`) over its input queue

Transcription of the glue around the handlers of `Model/Replica.lean`:

* `node/components/bft/src/v2_chonky_bft/mod.rs` — `StateMachine::start` (`view_timeout := now + config.view_timeout`)
  and `StateMachine::run`: view 0 ⇒ `start_timeout` before the first `recv`; then `loop { recv(&ctx.with_deadline(
  view_timeout)); timed out ⇒ start_timeout, continue; dispatch by message kind to `on_proposal` / `on_commit` /
  `on_timeout` / `on_new_view`; a handler `Err` that is not `Internal` is only logged; `req.ack.send(())` }`;
* `timeout.rs::start_timeout` and `new_view.rs::start_new_view` — the only two places that assign `view_timeout`
  (`:= now + config.view_timeout`); `on_proposal` changes `view_number` *without* `start_new_view`, hence without
  touching the deadline;
* `proposal.rs` — `wait_until_persisted(&ctx.with_deadline(self.view_timeout), prev)`: the handler (and so the whole
  loop) waits for the previous block until the *view deadline*, then gives up with `MissingPreviousPayload`;
* `node/components/bft/src/lib.rs::create_input_channel` + `sync/prunable_mpsc` — the queue (`Model/Mpsc.lean`:
  `sendGen` instantiated with `bftFilter` / `bftSel` on what the queue looks at in a request).

The clock is manual (`now`, in ms). Atomic events: a `Sender::send` into the input channel (`arrive`), the clock
moving (`advance`), the loop task running until it blocks (`quiesce`), and the death of the replica task followed by
a fresh `StateMachine::start` on a fresh channel (`restart`).

What a handler learns from its environment (`Env`) is supplied by an oracle that may depend on everything the loop
did so far and on the input being handled.

Scheduling-dependent corner, resolved here the way a single-threaded executor resolves it and **avoided by the
correspondence run**: `recv` races the queue against the deadline with an unbiased `select!`; when a message is
pending *and* the deadline has passed either may win. The model takes the message first.
-/

namespace EraVerif.Model.RunLoop
open EraVerif.Model

/-- configuration of the loop: the replica's configuration and `config.view_timeout` (ms) -/
structure LCfg where
  rc : RCfg
  viewTimeout : Nat

/-- a `FromNetworkMessage`: the signed message and its `ack` channel, identified by `id` -/
structure Req where
  id : Nat
  s : Signed
deriving DecidableEq, Repr, Inhabited

/-- `ConsensusMsg::label()` -/
def kindOf : Msg → Mpsc.Kind
  | .proposal _ _ => .proposal
  | .commit _ => .commit
  | .timeout _ => .timeout
  | .newView _ => .newView

/-- `ConsensusMsg::view_number()` (for a proposal / new-view: the view of its justification = certificate view + 1) -/
def viewOf : Msg → Nat
  | .proposal _ j => j.viewNumber
  | .commit v => v.view.number
  | .timeout t => t.view.number
  | .newView j => j.viewNumber

/-- what the queue looks at in a request (C16's message) -/
def Req.q (x : Req) : Mpsc.Msg :=
  { sender := x.s.key, kind := kindOf x.s.msg, view := viewOf x.s.msg, id := x.id, sigOk := x.s.sigOk }

/-- `inbound_filter_predicate` -/
def qFilter (x : Req) : Bool := Mpsc.bftFilter x.q
/-- `inbound_selection_function` -/
def qSel (old new : Req) : Mpsc.Sel := Mpsc.bftSel old.q new.q

/-- `Sender::send` on the channel made by `create_input_channel()` -/
def enqueue (buf : List Req) (x : Req) : List Req := Mpsc.sendGen qFilter qSel buf x

/-- the requests a `send` drops (their `ack` sender is dropped with them, closing the channel): the new one if the
filter refuses it or a pending one says `DiscardNew`; every pending one that says `DiscardOld` -/
def dropped (buf : List Req) (x : Req) : List Req :=
  if qFilter x = false then [x]
  else buf.filter (fun y => qSel y x == Mpsc.Sel.discardOld) ++
    (if buf.all (fun y => qSel y x != Mpsc.Sel.discardNew) then [] else [x])

/-- why a handler ran -/
inductive Src where
  /-- `run`: "if this is the first view, we immediately timeout" -/
  | boot
  /-- `recv` returned `Err(Canceled)` because the view deadline passed -/
  | timer
  /-- `recv` returned a request -/
  | msg (q : Req)
deriving DecidableEq, Repr

def Src.input : Src → Input
  | .boot => .tick
  | .timer => .tick
  | .msg q => .msg q.s

def Src.isMsg : Src → Bool
  | .msg _ => true
  | _ => false

/-- one handler call made by the loop -/
structure Round where
  src : Src
  /-- clock and view deadline when the handler returned (for a timer round: when `recv` timed out) -/
  now : Nat
  deadline : Nat
  env : Env
  /-- replica state and disk content before the call -/
  pre : Replica
  disk : Option Durable
  res : StepRes
  /-- `req.ack.send(())` was executed (after the handler returned) -/
  acked : Bool
deriving Repr

inductive Mode where
  /-- no replica task (before the first `quiesce`, after a `restart`) -/
  | idle
  /-- at (or on its way to) `inbound_channel.recv(..)` -/
  | recv
  /-- inside `on_proposal`, waiting for the previous block to be persisted, at most until the view deadline -/
  | waitPrev (q : Req)
  /-- a handler never returned (stuck in `queue_block`, or panicked): the request it was handling, if any, is
  never acknowledged -/
  | dead (q : Option Req)
deriving DecidableEq, Repr

structure St where
  r : Replica
  /-- last state written by `backup_state` (what a restart restores) -/
  disk : Option Durable
  /-- the input channel's buffer, front first -/
  pending : List Req
  now : Nat
  /-- `view_timeout` -/
  deadline : Nat
  mode : Mode
  /-- every handler call so far, oldest first -/
  hist : List Round
  /-- ids whose `ack` channel was closed without an acknowledgement, in the order that happened -/
  closed : List Nat
deriving Repr

def St.init : St :=
  { r := Replica.start none, disk := none, pending := [], now := 0, deadline := 0, mode := .idle, hist := [], closed := [] }

/-- the environment: its answers may depend on everything the loop did so far and on the input being handled -/
abbrev EnvF := List Round → Input → Env

def isNotify : Effect → Bool
  | .notify _ => true
  | _ => false

/-- the handler went through `start_new_view` (the only code that notifies the proposer) -/
def ranNewView (res : StepRes) : Bool := res.effs.any isNotify

/-- the handler returned to the loop (`Ok` or a non-internal `Err`) -/
def returned : Outcome → Bool
  | .accepted => true
  | .rejected _ => true
  | _ => false

/-- `on_proposal` is waiting in `wait_until_persisted(&ctx.with_deadline(self.view_timeout), prev)` -/
def waitsForPrev : Outcome → Bool
  | .rejected .missingPrevious => true
  | _ => false

/-- the last state written by `backup_state` among `effs` (`disk` if none) -/
def lastPersist (disk : Option Durable) : List Effect → Option Durable
  | [] => disk
  | .persist d :: rest => lastPersist (some d) rest
  | _ :: rest => lastPersist disk rest

/-- book-keeping of one handler call `res = step .. src.input` made in state `s`:
the deadline is re-armed iff `start_timeout` (boot, timer) or `start_new_view` ran; the request is acknowledged iff
the handler returned; a handler that does not return ends the loop. -/
def record (cfg : LCfg) (s : St) (src : Src) (e : Env) (res : StepRes) : St :=
  let ret := returned res.out
  let rd : Round := { src := src, now := s.now, deadline := s.deadline, env := e, pre := s.r, disk := s.disk, res := res,
                      acked := src.isMsg && ret }
  { s with
    r := if ret then res.r else s.r,
    disk := lastPersist s.disk res.effs,
    deadline := if !src.isMsg || ranNewView res then s.now + cfg.viewTimeout else s.deadline,
    mode := if ret then .recv else .dead (match src with | .msg q => some q | _ => none),
    hist := s.hist ++ [rd] }

/-- `StateMachine::start` followed by the prologue of `run` -/
def start (cfg : LCfg) (envf : EnvF) (s : St) : St :=
  let s1 := { s with deadline := s.now + cfg.viewTimeout, mode := .recv }
  if s1.r.view = 0 then
    let e := envf s1.hist .tick
    record cfg s1 .boot e (step cfg.rc s1.r e .tick)
  else s1

/-- one turn of `loop { .. }` (or the completion of a handler that was waiting); `none` = the task is blocked -/
def iter (cfg : LCfg) (envf : EnvF) (s : St) : Option St :=
  match s.mode with
  | .idle => none
  | .dead _ => none
  | .waitPrev q =>
    let e := envf s.hist (.msg q.s)
    let res := step cfg.rc s.r e (.msg q.s)
    if waitsForPrev res.out && decide (s.now < s.deadline) then none
    else some (record cfg s (.msg q) e res)
  | .recv =>
    match s.pending with
    | q :: rest =>
      let s1 := { s with pending := rest }
      let e := envf s.hist (.msg q.s)
      let res := step cfg.rc s.r e (.msg q.s)
      if waitsForPrev res.out && decide (s.now < s.deadline) then some { s1 with mode := .waitPrev q }
      else some (record cfg s1 (.msg q) e res)
    | [] =>
      if s.now < s.deadline then none
      else
        let e := envf s.hist .tick
        some (record cfg s .timer e (step cfg.rc s.r e .tick))

def iterN (cfg : LCfg) (envf : EnvF) : Nat → St → St
  | 0, s => s
  | n + 1, s =>
    match iter cfg envf s with
    | none => s
    | some s' => iterN cfg envf n s'

/-- the replica task runs until it blocks (the fuel suffices: `Props/C05loop.quiesce_blocks`) -/
def quiesce (cfg : LCfg) (envf : EnvF) (s : St) : St :=
  let s1 := match s.mode with
    | .idle => start cfg envf s
    | _ => s
  iterN cfg envf (2 * s1.pending.length + 2) s1

/-- the request popped by `on_proposal` that is still waiting for its previous block -/
def St.inflight (s : St) : List Req :=
  match s.mode with
  | .waitPrev q => [q]
  | _ => []

/-- the request whose handler will never return (its round is in `hist`, not acknowledged) -/
def St.stuck (s : St) : List Req :=
  match s.mode with
  | .dead (some q) => [q]
  | _ => []

/-- requests that are neither acknowledged nor closed -/
def St.unresolved (s : St) : List Req := s.stuck ++ s.inflight ++ s.pending

inductive Ev where
  | arrive (q : Req)
  | advance (dt : Nat)
  | quiesce (envf : EnvF)
  /-- the replica task dies (crash, or shutdown while idle in `recv`) and a new one is created on a fresh channel:
  what was in the old channel, and the request being handled, are dropped -/
  | restart

def apply (cfg : LCfg) (s : St) : Ev → St
  | .arrive q => { s with pending := enqueue s.pending q, closed := s.closed ++ (dropped s.pending q).map (·.id) }
  | .advance dt => { s with now := s.now + dt }
  | .quiesce envf => quiesce cfg envf s
  | .restart =>
    { s with r := Replica.start s.disk, pending := [], mode := .idle,
             closed := s.closed ++ s.unresolved.map (·.id) }

def runFrom (cfg : LCfg) (s : St) (evs : List Ev) : St := evs.foldl (apply cfg) s

def run (cfg : LCfg) (evs : List Ev) : St := runFrom cfg St.init evs

/-! ## Observables -/

/-- what an observer of the node sees, in order: the handler's effects, then the acknowledgement -/
inductive Item where
  | eff (e : Effect)
  | ack (id : Nat)
deriving Repr

def Round.items (rd : Round) : List Item :=
  rd.res.effs.map Item.eff ++
    (match rd.src with
     | .msg q => if rd.acked then [Item.ack q.id] else []
     | _ => [])

def trace (h : List Round) : List Item := h.flatMap Round.items

/-- requests handed to a handler, in order -/
def handled : List Round → List Req
  | [] => []
  | rd :: rest => (match rd.src with | .msg q => q :: handled rest | _ => handled rest)

/-- ids acknowledged, in order -/
def ackedIds (h : List Round) : List Nat :=
  h.filterMap (fun rd => match rd.src with | .msg q => if rd.acked then some q.id else none | _ => none)

/-- all requests handed to `Sender::send`, in order -/
def arrivals : List Ev → List Req
  | [] => []
  | .arrive q :: es => q :: arrivals es
  | _ :: es => arrivals es

end EraVerif.Model.RunLoop
