import EraVerif.Model.Limiter

/-!
# Per-connection composition for C15: one limiter permit per OPEN, one stream per call

A small model of how `mux/reusable_stream.rs:262-307` (the loop of one reusable stream) and
`rpc/mod.rs:191-243` (the server loop) use the limiter, for **one capability on one connection**:

* `mux::StreamQueue::new(ctx, R::INFLIGHT, rate)` owns one `Limiter` shared by all reusable streams of the
  capability; `Mux::spawn_streams` creates `min(local max_streams, peer max_streams) ≤ INFLIGHT` of them.
* every loop iteration of a stream: wait for the previous transient stream to be returned and send CLOSE
  (`closing`), `limiter.acquire(ctx, 1)` (`acquiring`), then — holding the permit — the three-step OPEN
  exchange whose order depends on the stream kind (`granted k`, k = number of exchange steps done), then hand
  the stream to the user and drop the permit at the end of the iteration (`idle`: established, request not
  yet received).
* the server task (`Server::serve`) reserved this stream for one call: it reads one request, runs the handler
  (`serving`), writes the response and drops the stream (`closing` again).

Everything the remote side controls (when its OPEN arrives, when/whether a request arrives, how long the
response is read) and everything the local scheduler controls is an *event*; the theorems quantify over all
event sequences. Each event performs at most one limiter operation (from `Model/Limiter.lean`).
-/

namespace EraVerif.Model.RpcLimit
open EraVerif.Model

/-- `StreamKind`: the server side of an RPC uses CONNECT streams (`add_server` registers its queue in
`mux.connect`), the client side ACCEPT streams. -/
inductive Kind
  | connect   -- push (reservation) → send OPEN → receive peer's OPEN   (lines 285-290)
  | accept    -- receive peer's OPEN → push (reservation) → send OPEN   (lines 279-284)
deriving Repr, DecidableEq

inductive Phase
  /-- lines 274-275: waiting for the write half, sending CLOSE -/
  | closing
  /-- line 277: inside `limiter.acquire(ctx, 1)` -/
  | acquiring
  /-- lines 278-292: `_open_permit` held, `k` of the three exchange steps done -/
  | granted (k : Nat)
  /-- line 300: transient stream established at time `estAt` and handed to the reserved call; permit dropped -/
  | idle (estAt : Nat)
  /-- `rpc/mod.rs:220`: the handler is running -/
  | serving
deriving Repr, DecidableEq

structure Stream where
  phase : Phase
  /-- an OPEN frame of the peer is waiting in the stream's inbound channel -/
  peerOpen : Bool
deriving Repr, DecidableEq

/-- One entry of the handler log: when the handler was invoked, on which stream, and when that stream had
been established. -/
structure HEv where
  t : Nat
  stream : Nat
  estAt : Nat
deriving Repr, DecidableEq

structure State where
  lim : Limiter.State
  streams : List Stream
  /-- ghost: OPEN frames sent (time, stream, 1) -/
  sent : List Limiter.Ev
  /-- ghost: handler invocations -/
  handled : List HEv
deriving Repr, DecidableEq

inductive Event
  /-- the previous transient stream of stream `i` was returned, CLOSE sent; `acquire(ctx,1)` first poll -/
  | startAcquire (i : Nat)
  /-- the runtime polls the pending `acquire` of stream `i` -/
  | pollAcquire (i : Nat)
  /-- an OPEN frame of the peer for stream `i` arrives (any time, any number of times) -/
  | peerOpen (i : Nat)
  /-- the next step of the OPEN exchange of stream `i` (the kind decides which one it is) -/
  | exchange (i : Nat)
  /-- a request arrives on the established stream `i`: the handler is invoked -/
  | request (i : Nat)
  /-- the call on stream `i` ends (response written, error, or the peer closed): the stream is dropped -/
  | finish (i : Nat)
  /-- the clock advances -/
  | tick (d : Nat)
deriving Repr, DecidableEq

def init (cfg : Limiter.Cfg) (nStreams : Nat) : State :=
  { lim := Limiter.init cfg, streams := List.replicate nStreams ⟨.closing, false⟩, sent := [], handled := [] }

/-- Is exchange step `k` (0-based) of a stream of kind `kind` the reception of the peer's OPEN? -/
def isRecvStep (kind : Kind) (k : Nat) : Bool :=
  match kind with
  | .connect => decide (2 ≤ k)
  | .accept => k == 0

/-- Is exchange step `k` the sending of our OPEN frame? -/
def isSendStep (kind : Kind) (k : Nat) : Bool :=
  match kind with
  | .connect => k == 1
  | .accept => decide (2 ≤ k)

def setPhase (s : State) (i : Nat) (st : Stream) (p : Phase) : State :=
  { s with streams := s.streams.set i { st with phase := p } }

def step (cfg : Limiter.Cfg) (kind : Kind) (s : State) : Event → State
  | .startAcquire i =>
    match s.streams[i]? with
    | some st =>
      if st.phase = .closing then
        match Limiter.step cfg s.lim (.acquire i 1) with
        | (l, .granted _) => { setPhase s i st (.granted 0) with lim := l }
        | (l, _) => { setPhase s i st .acquiring with lim := l }
      else s
    | none => s
  | .pollAcquire i =>
    match s.streams[i]? with
    | some st =>
      if st.phase = .acquiring then
        match Limiter.step cfg s.lim (.poll i) with
        | (l, .granted _) => { setPhase s i st (.granted 0) with lim := l }
        | (l, _) => { s with lim := l }
      else s
    | none => s
  | .peerOpen i =>
    match s.streams[i]? with
    | some st => { s with streams := s.streams.set i { st with peerOpen := true } }
    | none => s
  | .exchange i =>
    match s.streams[i]? with
    | some st =>
      match st.phase with
      | .granted k =>
        -- the receive step needs the peer's OPEN (and consumes it)
        if isRecvStep kind k && !st.peerOpen then s
        else
          let st1 : Stream := if isRecvStep kind k then { st with peerOpen := false } else st
          let sent1 := if isSendStep kind k then s.sent ++ [⟨s.lim.now, i, 1⟩] else s.sent
          if k < 2 then
            { s with streams := s.streams.set i { st1 with phase := .granted (k + 1) }, sent := sent1 }
          else
            -- last step done: `reservation.send(Stream{..})`, end of the iteration: `_open_permit` is dropped
            match Limiter.step cfg s.lim (.drop i) with
            | (l, .dropped) =>
              { s with lim := l, streams := s.streams.set i { st1 with phase := .idle s.lim.now }, sent := sent1 }
            | _ => s
      | _ => s
    | none => s
  | .request i =>
    match s.streams[i]? with
    | some st =>
      match st.phase with
      | .idle e => { setPhase s i st .serving with handled := s.handled ++ [⟨s.lim.now, i, e⟩] }
      | _ => s
    | none => s
  | .finish i =>
    match s.streams[i]? with
    | some st =>
      match st.phase with
      | .idle _ => setPhase s i st .closing
      | .serving => setPhase s i st .closing
      | _ => s
    | none => s
  | .tick d => { s with lim := (Limiter.step cfg s.lim (.advance d)).1 }

def run (cfg : Limiter.Cfg) (kind : Kind) (s : State) (evs : List Event) : State :=
  evs.foldl (step cfg kind) s

end EraVerif.Model.RpcLimit
