/-!
# `Schedule::new` (node/libs/roles/src/validator/messages/schedule.rs:26-85), the weight bookkeeping

Hand transcription of the constructor's loop and its post-checks, as far as the committee weight is concerned:
duplicate key → error; weight 0 → error; `total_weight.checked_add(weight)` → error on overflow;
`leader_weight += weight` (unchecked in the source: wrapping in release, modelled as `% 2^64`); after the
loop: empty committee → error, no leader → error. `none` = `Err`. Keys are abstract identifiers.
Tied to the code by the correspondence run of C07 (op `sched`).
-/
namespace EraVerif.Model.ScheduleNew

structure VInfo where
  key : Nat
  weight : Nat
  leader : Bool
deriving Repr, DecidableEq

/-- loop state: keys inserted so far, `total_weight`, `leader_weight` -/
structure Acc where
  keys : List Nat := []
  total : Nat := 0
  leaderW : Nat := 0
deriving Repr

def newLoop : List VInfo → Acc → Option Acc
  | [], a => some a
  | v :: vs, a =>
    if a.keys.contains v.key then none
    else if v.weight = 0 then none
    else if a.total + v.weight ≥ 2^64 then none
    else newLoop vs { keys := v.key :: a.keys, total := a.total + v.weight,
                      leaderW := if v.leader then (a.leaderW + v.weight) % 2^64 else a.leaderW }

/-- `Schedule::new`: `some (total_weight, leader_weight)` or `none` = `Err` -/
def scheduleNew (vs : List VInfo) : Option (Nat × Nat) :=
  match newLoop vs {} with
  | none => none
  | some a =>
    if a.keys.isEmpty then none
    else if !(vs.any (·.leader)) then none
    else some (a.total, a.leaderW)

end EraVerif.Model.ScheduleNew
