import EraVerif.Model.Mpsc
import EraVerif.Gen.QueueFns

/-!
# C16 — the queue's selection function and filter, regenerated from `bft/src/lib.rs`, are the model's

`Gen/QueueFns.lean` is produced by `tools/translate_queue.py` on every run (it also checks that
`create_input_channel` builds the channel from exactly these two functions). `bftSel` / `bftFilter` of
`Model/Mpsc.lean` — on which "one pending message per (sender, kind)", "the freshest view survives" … rest — are
proved equal to them; in particular the order is by view NUMBER alone.
-/

namespace EraVerif.Props.C16gen
open EraVerif.Model.Mpsc
open EraVerif.Gen.QueueFns

def kindLabel : Kind → Nat
  | .proposal => 0 | .commit => 1 | .timeout => 2 | .newView => 3

theorem kindLabel_inj (a b : Kind) : kindLabel a = kindLabel b ↔ a = b := by
  cases a <;> cases b <;> simp [kindLabel]

def toReq (m : Msg) : Req := { key := m.sender, label := kindLabel m.kind, view_number := m.view, verify_ok := m.sigOk }

def toSel : R → Sel
  | .Keep => .keep | .DiscardOld => .discardOld | .DiscardNew => .discardNew

/-- regenerated `inbound_selection_function` = `bftSel` -/
theorem gen_selection_eq (old new : Msg) :
    toSel (inbound_selection_function (toReq old) (toReq new)) = bftSel old new := by
  unfold inbound_selection_function bftSel toReq
  simp only [kindLabel_inj, ne_eq]
  by_cases h1 : old.sender = new.sender <;> by_cases h2 : old.kind = new.kind <;>
    by_cases h3 : old.view < new.view <;> simp [h1, h2, h3, toSel]

/-- regenerated `inbound_filter_predicate` = `bftFilter` -/
theorem gen_filter_eq (m : Msg) : inbound_filter_predicate (toReq m) = bftFilter m := rfl

/-- the regenerated rule orders by the view number only: nothing else of the two requests can change the verdict -/
theorem gen_selection_by_number_only (a b a' b' : Req)
    (hk : a.key = a'.key ∧ b.key = b'.key) (hl : a.label = a'.label ∧ b.label = b'.label)
    (hv : a.view_number = a'.view_number ∧ b.view_number = b'.view_number) :
    inbound_selection_function a b = inbound_selection_function a' b' := by
  unfold inbound_selection_function
  rw [hk.1, hk.2, hl.1, hl.2, hv.1, hv.2]

end EraVerif.Props.C16gen
