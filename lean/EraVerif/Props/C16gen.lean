import EraVerif.Model.Mpsc
import EraVerif.Gen.QueueFns

/-!
# C16 — the queue's selection function and filter, regenerated from `bft/src/lib.rs`, are the model's

`Gen/QueueFns.lean` is produced by `tools/translate_queue.py` on every run (it also checks that
`create_input_channel` builds the channel from exactly these two functions). `bftSel` / `bftFilter` of
`Model/Mpsc.lean` — on which "one pending message per (sender, kind)", "the freshest view survives" … rest — are
proved equal to them; in particular the order is by view NUMBER alone.
-/

namespace EraVerif.Props.C16gen
open EraVerif.Model.Mpsc
open EraVerif.Gen.QueueFns

def kindLabel : Kind → Nat
  | .proposal => 0 | .commit => 1 | .timeout => 2 | .newView => 3

theorem kindLabel_inj (a b : Kind) : kindLabel a = kindLabel b ↔ a = b := by
  cases a <;> cases b <;> simp [kindLabel]

def toReq (m : Msg) : Req := { key := m.sender, label := kindLabel m.kind, view_number := m.view, verify_ok := m.sigOk }

def toSel : R → Sel
  | .Keep => .keep | .DiscardOld => .discardOld | .DiscardNew => .discardNew

/-- regenerated `inbound_selection_function` = `bftSel` -/
theorem gen_selection_eq (old new : Msg) :
    toSel (inbound_selection_function (toReq old) (toReq new)) = bftSel old new := by
  unfold inbound_selection_function bftSel toReq
  simp only [kindLabel_inj, ne_eq]
  by_cases h1 : old.sender = new.sender <;> by_cases h2 : old.kind = new.kind <;>
    by_cases h3 : old.view < new.view <;> simp [h1, h2, h3, toSel]

/-- regenerated `inbound_filter_predicate` = `bftFilter` -/
theorem gen_filter_eq (m : Msg) : inbound_filter_predicate (toReq m) = bftFilter m := rfl

/-- the regenerated rule orders by the view number only: nothing else of the two requests can change the verdict -/
theorem gen_selection_by_number_only (a b a' b' : Req)
    (hk : a.key = a'.key ∧ b.key = b'.key) (hl : a.label = a'.label ∧ b.label = b'.label)
    (hv : a.view_number = a'.view_number ∧ b.view_number = b'.view_number) :
    inbound_selection_function a b = inbound_selection_function a' b' := by
  unfold inbound_selection_function
  rw [hk.1, hk.2, hl.1, hl.2, hv.1, hv.2]

/-- the regenerated `retain` fold (front to back, accumulating the retained elements and the `keep` flag) against the
model's structural `retainLoop`, for any accumulator -/
theorem gen_retain_fold {α : Type} (sel : α → α → R) (v : α) (buf acc : List α) (k : Bool) :
    buf.foldl (retainStep sel v) (acc, k)
    = (acc ++ (retainLoop (fun a b => toSel (sel a b)) v buf).1, k && (retainLoop (fun a b => toSel (sel a b)) v buf).2) := by
  induction buf generalizing acc k with
  | nil => simp [retainLoop]
  | cons x xs ih =>
    simp only [List.foldl_cons, retainLoop, retainStep]
    cases h : sel x v <;> simp [toSel, ih]

/-- regenerated `Sender::send` = `sendGen` (for every filter and selection function) -/
theorem gen_send_eq {α : Type} (filter : α → Bool) (sel : α → α → R) (buf : List α) (v : α) :
    EraVerif.Gen.QueueFns.send filter sel buf v = sendGen filter (fun a b => toSel (sel a b)) buf v := by
  unfold EraVerif.Gen.QueueFns.send sendGen
  by_cases hf : filter v = true
  · have h := gen_retain_fold sel v buf [] true
    simp only [List.nil_append, Bool.true_and] at h
    simp [hf, h]
  · have : filter v = false := by simpa using hf
    simp [this]

/-- hence the bft channel's `send`, regenerated end to end (filter, selection, pruning loop) = the model's `send` -/
theorem gen_bft_send_eq (buf : List Msg) (m : Msg) :
    (EraVerif.Gen.QueueFns.send inbound_filter_predicate inbound_selection_function (buf.map toReq) (toReq m))
      = (EraVerif.Model.Mpsc.send buf m).map toReq := by
  rw [gen_send_eq]
  unfold EraVerif.Model.Mpsc.send sendGen
  have hloop : ∀ (l : List Msg),
      retainLoop (fun a b => toSel (inbound_selection_function a b)) (toReq m) (l.map toReq)
        = ((retainLoop bftSel m l).1.map toReq, (retainLoop bftSel m l).2) := by
    intro l
    induction l with
    | nil => simp [retainLoop]
    | cons x xs ih =>
      simp only [List.map_cons, retainLoop, ih, gen_selection_eq]
      cases bftSel x m <;> simp
  by_cases hf : m.sigOk = true
  · simp [gen_filter_eq, bftFilter, hf, hloop]
    split <;> simp
  · have : m.sigOk = false := by simpa using hf
    simp [gen_filter_eq, bftFilter, this]

end EraVerif.Props.C16gen
