import EraVerif.Proofs.Leader

/-!
# C11 — Leader election is a total, deterministic, eligible-only function

Model: `Model/Leader.lean` (`Schedule.new`, `viewLeader`, transcribed from
`node/libs/roles/src/validator/messages/schedule.rs`), with the three scalar expressions `turn`, the round-robin
index and `leader_weighted_eligibility` **regenerated from the current source** (`Gen/LeaderSel.lean`) on every run.
So these theorems are re-proved against what `schedule.rs` says now: with `view / frequency` instead of
`checked_div(..).unwrap_or(0)` (finding F1) or `to_u64_digits()[0]` instead of `.first().copied().unwrap_or(0)`
(finding F2), `Proofs.Leader.turn_eq` / `lowDigit_eq` — and with them `leader_total` — no longer check.

Quantifiers: every input list (`List VInfo`: any keys, weights, eligibility flags, any order, any length), both
selection modes, every frequency (0 included), every view number (all naturals, hence all 64-bit ones), and
**every** function `H : Nat → Nat` in place of Keccak-256 (so nothing is assumed about the hash).
A *valid schedule* is one that `Schedule::new` returned: `Schedule.new vals sel = .ok s`.
-/

namespace EraVerif.Props.C11
open EraVerif.Model.LeaderOps EraVerif.Model.Leader EraVerif.Proofs.Leader

/-! ## The constructor -/

/-- `Schedule::new` never panics: in particular the unchecked `leader_weight += v.weight` cannot overflow
(`leader_weight ≤ total_weight < 2^64`, the latter enforced by `checked_add`). -/
theorem new_never_panics (vals : List VInfo) (sel : Sel) (site : String) :
    Schedule.new vals sel ≠ .panic site :=
  new_no_panic vals sel site

/-- `Schedule::new` accepts exactly: distinct keys, positive weights, total weight below 2^64, non-empty, at least
one eligible validator — and then returns the key-sorted vector, the weight sums and the eligible positions. -/
theorem new_ok_iff_accept (vals : List VInfo) (sel : Sel) (s : Schedule) :
    Schedule.new vals sel = .ok s ↔ Accept vals ∧ s = canon vals sel :=
  new_ok_iff vals sel s

/-- the weight bounds the leader walk relies on, for every schedule `new` returns -/
theorem leader_weight_bounds {vals : List VInfo} {sel : Sel} {s : Schedule} (h : Schedule.new vals sel = .ok s) :
    s.leaderWeight = sumW (eligible s) ∧ 0 < s.leaderWeight ∧ s.leaderWeight ≤ s.totalWeight ∧
      s.totalWeight = sumW vals ∧ s.totalWeight < 2 ^ 64 := by
  have hwf := new_wf h
  obtain ⟨_, rfl⟩ := (new_ok_iff vals sel s).mp h
  refine ⟨hwf.lw, ?_, hwf.lw_le, rfl, hwf.bound⟩
  rw [hwf.lw]
  cases he : eligibleOf (canon vals sel).vec with
  | nil => exact absurd he hwf.elig_ne
  | cons x xs =>
    have hx : x ∈ (canon vals sel).vec :=
      (List.mem_filter.mp (he ▸ List.mem_cons_self : x ∈ eligibleOf (canon vals sel).vec)).1
    have := hwf.pos x hx
    simp; omega

/-- the stored vector is strictly sorted by key and is a permutation of the input -/
theorem new_vec_sorted {vals : List VInfo} {sel : Sel} {s : Schedule} (h : Schedule.new vals sel = .ok s) :
    s.vec.Pairwise (fun a b => a.key < b.key) ∧ s.vec.Perm vals := by
  obtain ⟨hacc, rfl⟩ := (new_ok_iff vals sel s).mp h
  exact ⟨sortK_sorted vals, sortK_perm vals hacc.nodup⟩

/-! ## Totality, eligibility -/

/-- **Totality.** For every valid schedule, every view, both modes, every frequency (0 included) and every hash
function, `view_leader` returns a key — no division by zero, no index out of bounds, no `unwrap` on `None`, no
arithmetic overflow, and the `unreachable!()` after the weighted loop is indeed unreachable. -/
theorem leader_total {vals : List VInfo} {sel : Sel} {s : Schedule} (h : Schedule.new vals sel = .ok s)
    (H : Nat → Nat) (view : Nat) : ∃ k, viewLeader H s view = .ok k := by
  obtain ⟨v, _, hk⟩ := viewLeader_spec H (new_wf h) view
  exact ⟨v.key, hk⟩

/-- **Refinement to the specification** (`Proofs.Leader.specLeader`): round-robin = the eligible validators in key
order indexed by `turn mod #eligible`; weighted = the validator whose weight interval contains
`H turn mod Σ eligible weights`; `turn = view / frequency`, and `0` for frequency 0. -/
theorem leader_refines_spec {vals : List VInfo} {sel : Sel} {s : Schedule} (h : Schedule.new vals sel = .ok s)
    (H : Nat → Nat) (view : Nat) :
    ∃ v, specLeader H s view = some v ∧ viewLeader H s view = .ok v.key :=
  viewLeader_spec H (new_wf h) view

/-- **Eligible only.** The returned key is the key of a validator of the input list that is marked
leader-eligible (keys are distinct in an accepted list, so this validator is unique). -/
theorem leader_eligible {vals : List VInfo} {sel : Sel} {s : Schedule} (h : Schedule.new vals sel = .ok s)
    (H : Nat → Nat) (view k : Nat) (hk : viewLeader H s view = .ok k) :
    ∃ v, v ∈ vals ∧ v ∈ s.vec ∧ v.key = k ∧ v.leader = true := by
  obtain ⟨v, hs, hk'⟩ := viewLeader_spec H (new_wf h) view
  rw [hk] at hk'
  have hke : k = v.key := by cases hk'; rfl
  have hmem : v ∈ eligible s := by
    unfold specLeader at hs
    split at hs
    · exact List.mem_of_getElem? hs
    · exact pick_mem hs
  have hv := List.mem_filter.mp hmem
  exact ⟨v, (new_vec_sorted h).2.mem_iff.mp hv.1, hv.1, hke.symm, hv.2⟩

/-! ## Determinism: independence of the order in which the schedule was listed -/

/-- **Order independence of the schedule.** Listing the same validators in any other order gives the *same*
schedule value (so every node holds the same `vec`, `leaders`, weights). -/
theorem schedule_order_independent {vals vals' : List VInfo} (hp : vals'.Perm vals) (sel : Sel) {s : Schedule}
    (h : Schedule.new vals sel = .ok s) : Schedule.new vals' sel = .ok s := by
  obtain ⟨hacc, rfl⟩ := (new_ok_iff vals sel s).mp h
  exact (new_ok_iff vals' sel _).mpr ⟨accept_perm hp hacc, (canon_perm hp hacc.nodup sel).symm⟩

/-- acceptance itself does not depend on the order (which `Err` is reported may) -/
theorem acceptance_order_independent {vals vals' : List VInfo} (hp : vals'.Perm vals) (sel : Sel) :
    (∃ s, Schedule.new vals sel = .ok s) ↔ (∃ s, Schedule.new vals' sel = .ok s) :=
  ⟨fun ⟨s, h⟩ => ⟨s, schedule_order_independent hp sel h⟩,
   fun ⟨s, h⟩ => ⟨s, schedule_order_independent hp.symm sel h⟩⟩

/-- **Order independence of the leader.** Two nodes that were given the validators in different orders compute the
same leader for every view. -/
theorem leader_order_independent {vals vals' : List VInfo} (hp : vals'.Perm vals) (sel : Sel) {s s' : Schedule}
    (h : Schedule.new vals sel = .ok s) (h' : Schedule.new vals' sel = .ok s') (H : Nat → Nat) (view : Nat) :
    viewLeader H s' view = viewLeader H s view := by
  have := schedule_order_independent hp sel h
  rw [h'] at this
  cases this; rfl

/-! ## Rotation -/

/-- the leader depends on the view only through `turn = view / frequency` (any schedule) -/
theorem leader_depends_on_turn (H : Nat → Nat) (s : Schedule) (view view' : Nat)
    (ht : turnOf s.sel.frequency view = turnOf s.sel.frequency view') :
    viewLeader H s view = viewLeader H s view' := by
  unfold viewLeader
  rw [turn_eq, turn_eq]
  unfold turnOf at ht
  rw [ht]

/-- **Frequency 0 never rotates** (as documented): every view has the leader of view 0 — both modes. -/
theorem freq_zero_never_rotates (H : Nat → Nat) (s : Schedule) (hf : s.sel.frequency = 0) (view : Nat) :
    viewLeader H s view = viewLeader H s 0 :=
  leader_depends_on_turn H s view 0 (by simp [turnOf, hf])

/-- the leader is constant on each block of `frequency` consecutive views — both modes -/
theorem constant_on_block (H : Nat → Nat) (s : Schedule) (view view' : Nat)
    (hb : view / s.sel.frequency = view' / s.sel.frequency) : viewLeader H s view = viewLeader H s view' :=
  leader_depends_on_turn H s view view' (by unfold turnOf; split <;> simp [hb])

/-- **Round-robin rotation**: the leader of `view` is the eligible validator (key order) number
`(view / frequency) mod #eligible`. -/
theorem rr_rotation {vals : List VInfo} {sel : Sel} {s : Schedule} (h : Schedule.new vals sel = .ok s)
    (hm : s.sel.mode = .roundRobin) (H : Nat → Nat) (view : Nat) :
    ∃ v, (eligible s)[turnOf s.sel.frequency view % (eligible s).length]? = some v ∧
      viewLeader H s view = .ok v.key := by
  obtain ⟨v, hs, hk⟩ := viewLeader_spec H (new_wf h) view
  refine ⟨v, ?_, hk⟩
  simpa [specLeader, hm] using hs

/-- the next block of `frequency` views has the next eligible validator (cyclically) -/
theorem rr_next_block {vals : List VInfo} {sel : Sel} {s : Schedule} (h : Schedule.new vals sel = .ok s)
    (hm : s.sel.mode = .roundRobin) (hf : 0 < s.sel.frequency) (H : Nat → Nat) (view : Nat) :
    ∃ v, (eligible s)[(view / s.sel.frequency + 1) % (eligible s).length]? = some v ∧
      viewLeader H s (view + s.sel.frequency) = .ok v.key := by
  obtain ⟨v, hs, hk⟩ := rr_rotation h hm H (view + s.sel.frequency)
  refine ⟨v, ?_, hk⟩
  have : turnOf s.sel.frequency (view + s.sel.frequency) = view / s.sel.frequency + 1 := by
    unfold turnOf
    rw [if_neg (by omega), Nat.add_div_right _ hf]
  rwa [this] at hs

/-- the round-robin sequence has period `#eligible · frequency` -/
theorem rr_period {vals : List VInfo} {sel : Sel} {s : Schedule} (h : Schedule.new vals sel = .ok s)
    (hm : s.sel.mode = .roundRobin) (H : Nat → Nat) (view : Nat) :
    viewLeader H s (view + (eligible s).length * s.sel.frequency) = viewLeader H s view := by
  obtain ⟨v, hs, hk⟩ := rr_rotation h hm H (view + (eligible s).length * s.sel.frequency)
  obtain ⟨v', hs', hk'⟩ := rr_rotation h hm H view
  have : turnOf s.sel.frequency (view + (eligible s).length * s.sel.frequency) % (eligible s).length
      = turnOf s.sel.frequency view % (eligible s).length := by
    unfold turnOf
    split
    · rfl
    · rename_i hf
      rw [Nat.add_mul_div_right _ _ (Nat.pos_of_ne_zero hf), Nat.add_mod_right]
  rw [this, hs'] at hs
  cases hs
  rw [hk, hk']

/-- **every eligible validator gets its turn**: within one period each eligible validator leads some view -/
theorem rr_visits_all {vals : List VInfo} {sel : Sel} {s : Schedule} (h : Schedule.new vals sel = .ok s)
    (hm : s.sel.mode = .roundRobin) (hf : 0 < s.sel.frequency) (H : Nat → Nat) (v : VInfo)
    (hv : v ∈ eligible s) :
    ∃ view, view < (eligible s).length * s.sel.frequency ∧ viewLeader H s view = .ok v.key := by
  obtain ⟨j, hj, rfl⟩ := List.getElem_of_mem hv
  refine ⟨j * s.sel.frequency, Nat.mul_lt_mul_of_pos_right hj hf, ?_⟩
  obtain ⟨v', hs, hk⟩ := rr_rotation h hm H (j * s.sel.frequency)
  have : turnOf s.sel.frequency (j * s.sel.frequency) % (eligible s).length = j := by
    unfold turnOf
    rw [if_neg (by omega), Nat.mul_div_cancel _ hf, Nat.mod_eq_of_lt hj]
  rw [this, List.getElem?_eq_getElem hj] at hs
  cases hs
  exact hk

/-! ## Weighted selection -/

/-- **the prefix-sum walk finds a validator**: because `H turn mod W < W = Σ eligible weights`, the loop returns
inside the list, with the validator whose weight interval contains the residue. -/
theorem weighted_walk_finds {vals : List VInfo} {sel : Sel} {s : Schedule} (h : Schedule.new vals sel = .ok s)
    (hm : s.sel.mode = .weighted) (H : Nat → Nat) (view : Nat) :
    ∃ v, pick (eligible s) (H (turnOf s.sel.frequency view) % s.leaderWeight) = some v ∧
      viewLeader H s view = .ok v.key := by
  obtain ⟨v, hs, hk⟩ := viewLeader_spec H (new_wf h) view
  refine ⟨v, ?_, hk⟩
  rw [(new_wf h).lw]
  simpa [specLeader, hm, eligible] using hs

/-- **exact proportionality over the residues**: of the `W` possible values of `hash mod W`, exactly `v.weight`
select the eligible validator `v`. -/
theorem weighted_share {vals : List VInfo} {sel : Sel} {s : Schedule} (h : Schedule.new vals sel = .ok s)
    (v : VInfo) (hv : v ∈ eligible s) :
    (List.range s.leaderWeight).countP (fun e => pickKey (eligible s) e == some v.key) = v.weight := by
  have hwf := new_wf h
  rw [hwf.lw]
  have hn : (keys (eligible s)).Nodup := by
    have : (keys (eligible s)).Sublist (keys s.vec) := List.Sublist.map _ List.filter_sublist
    exact this.nodup hwf.nodup
  exact pick_count (eligible s) hn v hv

/-- the same, stated on `view_leader` itself: running the weighted mode with a hash function whose value is `e`,
exactly `v.weight` of the residues `e < W` make `v` the leader (for every view). -/
theorem weighted_share_leader {vals : List VInfo} {sel : Sel} {s : Schedule}
    (h : Schedule.new vals sel = .ok s) (hm : s.sel.mode = .weighted) (view : Nat) (v : VInfo)
    (hv : v ∈ eligible s) :
    (List.range s.leaderWeight).countP (fun e => viewLeader (fun _ => e) s view == .ok v.key) = v.weight := by
  rw [← weighted_share h v hv]
  apply List.countP_congr
  intro e he
  have he' : e < s.leaderWeight := by simpa using he
  obtain ⟨u, hu, hk⟩ := weighted_walk_finds h hm (fun _ => e) view
  simp only [Nat.mod_eq_of_lt he'] at hu
  simp [hk, pickKey, hu]

/-! ## The two repaired defects, as statements about the *unrepaired* expressions (history: F1, F2) -/

/-- F1: `view_number.0 / frequency` panics for frequency 0 -/
example (view : Nat) : pDiv (some view) (some 0) = none := by simp [pDiv]
/-- F2: `to_u64_digits()[0]` panics when the residue is 0 (zero has no digits) -/
example : pIndex (pDigits (some 0)) (some 0) = none := by simp [pIndex, pDigits, u64Digits_zero]

/-! ## Non-vacuity: the hypotheses are met by concrete schedules -/

/-- an input listed out of key order, with a non-eligible validator; weighted, frequency 3 -/
example : Schedule.new [⟨5, 3, true⟩, ⟨2, 1, false⟩, ⟨9, 2, true⟩] ⟨3, .weighted⟩
    = .ok { vec := [⟨2, 1, false⟩, ⟨5, 3, true⟩, ⟨9, 2, true⟩], totalWeight := 6, leaders := [1, 2],
            sel := ⟨3, .weighted⟩, leaderWeight := 5 } := by decide
/-- frequency 0, round robin, weights at the top of the range -/
example : Schedule.new [⟨1, 2 ^ 63, true⟩, ⟨0, 2 ^ 63 - 1, true⟩] ⟨0, .roundRobin⟩
    = .ok { vec := [⟨0, 2 ^ 63 - 1, true⟩, ⟨1, 2 ^ 63, true⟩], totalWeight := 2 ^ 64 - 1, leaders := [0, 1],
            sel := ⟨0, .roundRobin⟩, leaderWeight := 2 ^ 64 - 1 } := by decide
/-- rejected inputs exist for each reason -/
example : Schedule.new [⟨1, 2 ^ 63, true⟩, ⟨0, 2 ^ 63, true⟩] ⟨1, .roundRobin⟩ = .err .weightOverflow := by decide
example : Schedule.new [⟨1, 1, true⟩, ⟨1, 2, true⟩] ⟨1, .roundRobin⟩ = .err .duplicateKey := by decide
example : Schedule.new [⟨1, 1, false⟩] ⟨1, .roundRobin⟩ = .err .noLeader := by decide
example : Schedule.new [] ⟨1, .roundRobin⟩ = .err .empty := by decide
example : Schedule.new [⟨1, 0, true⟩] ⟨1, .roundRobin⟩ = .err .zeroWeight := by decide
/-- a non-trivial permutation -/
example : [(⟨5, 3, true⟩ : VInfo), ⟨2, 1, false⟩, ⟨9, 2, true⟩].Perm [⟨9, 2, true⟩, ⟨5, 3, true⟩, ⟨2, 1, false⟩] := by
  decide

end EraVerif.Props.C11
