import EraVerif.Proofs.RunLoop

/-!
# C05 (glue) — the replica's message loop drives the handlers, and nothing else

`Props/C05.lean` proves the property for the handlers (`step` of `Model/Replica.lean`) and for every state reachable
by applying them. This module covers the code *around* the handlers — `StateMachine::run` and the input channel
(`Model/RunLoop.lean`, compared with the real `run` loop on every check by the `c05loop` correspondence run):

1. `loop_refines_steps` — everything the loop does is a sequence of `step` applications from C05-reachable states,
   on inputs that are delivered requests or the timer (only when due, or at the view-0 start); so every theorem of
   C05 / C03 about reachable replica states holds for the states the loop goes through;
2. `view0_bootstrap` — a replica started in view 0 times out before it handles its first message (and only then);
3. `timer_fires`, `deadline_rule`, `message_keeps_deadline`, `flood_cannot_postpone` — the timer fires when due, is
   re-armed exactly by `start_timeout` / `start_new_view`, and no stream of messages that leaves the view alone can
   postpone it;
4. `every_processed_message_is_acked_once` (+ `accounting`, `dropped_never_acked`) — acknowledged exactly when the
   handler returned, after its effects, at most once; a request dropped by the queue is never acknowledged;
5. `processing_order` — requests are handled in the queue's delivery order (C16), each at most once.

Quantifiers: every loop configuration `cfg` (any committee, leader schedule, view timeout), **every** event list
`evs : List Ev` — arrivals of arbitrary requests (any sender, kind, view, validity, duplicate ids unless stated),
clock advances, runs of the task with an arbitrary environment oracle, restarts — from the initial state.
`run cfg evs` is the state reached; its `hist` lists every handler call made so far.

Vocabulary (defined in `Model/RunLoop.lean` and `Proofs/RunLoop.lean`, pinned down in §0).
-/

namespace EraVerif.Props.C05loop
open EraVerif.Model EraVerif.Model.RunLoop
open EraVerif.Proofs.RunLoop
open EraVerif.Proofs.ReplicaStep (Wf NoWrap stState ownTimeout)

/-! ## 0. Vocabulary -/

/-- consecutive rounds: the second starts from the disk the first left, in the state the first ended in — or in the
state restored from that disk (a restart in between) -/
theorem linked_iff (a b : Round) :
    Linked a b ↔
      b.disk = lastPersist a.disk a.res.effs ∧
      (b.pre = (if returned a.res.out then a.res.r else a.pre) ∨ b.pre = Replica.start b.disk) := Iff.rfl

theorem chained_iff (a b : Round) (rest : List Round) :
    Chained (a :: b :: rest) ↔ Linked a b ∧ Chained (b :: rest) := Iff.rfl

/-- the trace of a round: the handler's effects, then — for a request whose handler returned — the acknowledgement -/
theorem items_def (rd : Round) :
    rd.items = rd.res.effs.map Item.eff ++
      (match rd.src with | .msg q => if rd.acked then [Item.ack q.id] else [] | _ => []) := rfl

/-- the moves of the replica task between two blocking points (each is one turn of `loop { .. }`, the prologue of
`run`, or the continuation of a waiting `on_proposal`) -/
theorem lmove_iff (cfg : LCfg) (s s' : St) :
    LMove cfg s s' ↔
      (∃ e, s.mode = .idle ∧ s.r.view = 0 ∧ s' = record cfg (armed cfg s) .boot e (step cfg.rc s.r e .tick)) ∨
      (s.mode = .idle ∧ s.r.view ≠ 0 ∧ s' = armed cfg s) ∨
      (∃ q rest e, s.mode = .recv ∧ s.pending = q :: rest ∧
          s' = record cfg { s with pending := rest } (.msg q) e (step cfg.rc s.r e (.msg q.s))) ∨
      (∃ q rest, s.mode = .recv ∧ s.pending = q :: rest ∧ s.now < s.deadline ∧
          s' = { s with pending := rest, mode := .waitPrev q }) ∨
      (∃ q e, s.mode = .waitPrev q ∧ s' = record cfg s (.msg q) e (step cfg.rc s.r e (.msg q.s))) ∨
      (∃ e, s.mode = .recv ∧ s.pending = [] ∧ s.deadline ≤ s.now ∧
          s' = record cfg s .timer e (step cfg.rc s.r e .tick)) := by
  constructor
  · intro h
    cases h with
    | boot e hm hv => exact Or.inl ⟨e, hm, hv, rfl⟩
    | begin hm hv => exact Or.inr (Or.inl ⟨hm, hv, rfl⟩)
    | pop q rest e hm hp => exact Or.inr (Or.inr (Or.inl ⟨q, rest, e, hm, hp, rfl⟩))
    | park q rest hm hp hd => exact Or.inr (Or.inr (Or.inr (Or.inl ⟨q, rest, hm, hp, hd, rfl⟩)))
    | resume q e hm => exact Or.inr (Or.inr (Or.inr (Or.inr (Or.inl ⟨q, e, hm, rfl⟩))))
    | timer e hm hp hd => exact Or.inr (Or.inr (Or.inr (Or.inr (Or.inr ⟨e, hm, hp, hd, rfl⟩))))
  · rintro (⟨e, hm, hv, rfl⟩ | ⟨hm, hv, rfl⟩ | ⟨q, rest, e, hm, hp, rfl⟩ | ⟨q, rest, hm, hp, hd, rfl⟩ | ⟨q, e, hm, rfl⟩ |
      ⟨e, hm, hp, hd, rfl⟩)
    · exact LMove.boot s e hm hv
    · exact LMove.begin s hm hv
    · exact LMove.pop s q rest e hm hp
    · exact LMove.park s q rest hm hp hd
    · exact LMove.resume s q e hm
    · exact LMove.timer s e hm hp hd

/-- a run of the task is a sequence of such moves -/
theorem quiesce_is_moves (cfg : LCfg) (envf : EnvF) (s : St) : LReach cfg s (quiesce cfg envf s) :=
  quiesce_lreach cfg envf s

/-- … that ends blocked: the fuel of `quiesce` suffices (for a positive view timeout; with a zero timeout the real
loop spins) -/
theorem quiesce_blocks (cfg : LCfg) (hvt : 0 < cfg.viewTimeout) (envf : EnvF) (s : St) :
    iter cfg envf (quiesce cfg envf s) = none :=
  EraVerif.Proofs.RunLoop.quiesce_blocks hvt envf s

/-! ## 1. The loop is a sequence of handler steps -/

/-- **Every handler call the loop ever makes** is `step` of the replica model applied to a state that is reachable in
the sense of C05 (`Props.C05.Reachable`: so `reachable_step` — invariant, monotonicity, justified view changes,
self-justifying outputs, no panic — applies to it), on an input that is a request delivered by the queue, or the
timer — the latter only when the deadline has passed, or as the bootstrap in view 0. The calls chain (each starts
where the previous one ended, or from a restart off the disk it left), what an observer sees is the concatenation
of their effects in that order, and the state the loop is in is again reachable. -/
theorem loop_refines_steps (cfg : LCfg) (evs : List Ev) :
    (∀ rd ∈ (run cfg evs).hist,
      rd.res = step cfg.rc rd.pre rd.env rd.src.input ∧
      EraVerif.Props.C05.Reachable cfg.rc rd.pre rd.disk ∧
      (rd.src = .timer → rd.deadline ≤ rd.now) ∧
      (rd.src = .boot → rd.pre.view = 0) ∧
      (∀ q, rd.src = .msg q → q ∈ arrivals evs)) ∧
    Chained (run cfg evs).hist ∧
    (trace (run cfg evs).hist).filterMap (fun i => match i with | .eff e => some e | .ack _ => none)
      = (run cfg evs).hist.flatMap (·.res.effs) ∧
    EraVerif.Props.C05.Reachable cfg.rc (run cfg evs).r (run cfg evs).disk := by
  obtain ⟨hreach, hrounds⟩ := run_histOk cfg evs
  refine ⟨?_, (run_chainOk cfg evs).1, trace_effects _, hreach⟩
  intro rd hrd
  have h := hrounds rd hrd
  refine ⟨h.isStep, h.reach, h.timer, h.boot, ?_⟩
  intro q hq
  have h1 : q ∈ seq (run cfg evs) := by
    unfold seq
    exact List.mem_append_left _ (List.mem_append_left _ (mem_handled hrd hq))
  exact (seq_sublist_arrivals cfg evs).subset h1

/-- in particular the loop never makes the replica panic, and every state it goes through satisfies the
representation invariant of C05 -/
theorem loop_states_wf (cfg : LCfg) (evs : List Ev) :
    Wf cfg.rc (run cfg evs).r ∧ ∀ rd ∈ (run cfg evs).hist, Wf cfg.rc rd.pre ∧ ∀ site, rd.res.out ≠ .panic site := by
  obtain ⟨hrounds, _, _, hreach⟩ := loop_refines_steps cfg evs
  refine ⟨(EraVerif.Props.C05.reachable_wf _ _ _ hreach).1, fun rd hrd => ?_⟩
  obtain ⟨h1, h2, _⟩ := hrounds rd hrd
  have hw := (EraVerif.Props.C05.reachable_wf _ _ _ h2).1
  refine ⟨hw, fun site => ?_⟩
  rw [h1]
  exact EraVerif.Props.C05.no_panic cfg.rc rd.pre rd.env rd.src.input hw site

/-! ## 2. The view-0 bootstrap -/

/-- **A replica task started in view 0 times out first**: whatever is pending in the channel, the first handler call
of the new task is `start_timeout`; it is accepted, writes the state with phase `Timeout` and sends the timeout vote
for view 0 — these two effects precede everything else the task does (in particular every acknowledgement). -/
theorem view0_bootstrap (cfg : LCfg) (evs : List Ev) (envf : EnvF) (hm : (run cfg evs).mode = .idle)
    (hv : (run cfg evs).r.view = 0) :
    ∃ rd rest, (run cfg (evs ++ [.quiesce envf])).hist = (run cfg evs).hist ++ rd :: rest ∧
      rd.src = .boot ∧ rd.res.out = .accepted ∧
      rd.res.effs = [.persist (stState (run cfg evs).r).durable,
                     .send (.timeout (ownTimeout cfg.rc (stState (run cfg evs).r)))] ∧
      trace (run cfg (evs ++ [.quiesce envf])).hist =
        trace (run cfg evs).hist ++
          Item.eff (.persist (stState (run cfg evs).r).durable) ::
          Item.eff (.send (.timeout (ownTimeout cfg.rc (stState (run cfg evs).r)))) :: trace rest := by
  obtain ⟨rest, hr⟩ := quiesce_boot cfg envf (run cfg evs) hm hv
  have hst := EraVerif.Proofs.ReplicaStep.startTimeout_eq0 cfg.rc (run cfg evs).r hv
  have hstep : step cfg.rc (run cfg evs).r (envf (run cfg evs).hist .tick) .tick =
      { r := stState (run cfg evs).r,
        effs := [.persist (stState (run cfg evs).r).durable, .send (.timeout (ownTimeout cfg.rc (stState (run cfg evs).r)))],
        out := .accepted } := hst
  refine ⟨_, rest, by rw [run_snoc]; exact hr, rfl, ?_, ?_, ?_⟩
  · show (step cfg.rc (run cfg evs).r (envf (run cfg evs).hist .tick) .tick).out = .accepted
    rw [hstep]
  · show (step cfg.rc (run cfg evs).r (envf (run cfg evs).hist .tick) .tick).effs = _
    rw [hstep]
  · rw [run_snoc]
    show trace (quiesce cfg envf (run cfg evs)).hist = _
    rw [hr, trace_append]
    have : trace (roundOf (armed cfg (run cfg evs)) .boot (envf (run cfg evs).hist .tick)
        (step cfg.rc (run cfg evs).r (envf (run cfg evs).hist .tick) .tick) :: rest) =
        (roundOf (armed cfg (run cfg evs)) .boot (envf (run cfg evs).hist .tick)
          (step cfg.rc (run cfg evs).r (envf (run cfg evs).hist .tick) .tick)).items ++ trace rest := by
      simp [trace, List.flatMap_cons]
    rw [this, items_def]
    show _ ++ (List.map Item.eff (step cfg.rc (run cfg evs).r (envf (run cfg evs).hist .tick) .tick).effs ++ [] ++ trace rest) = _
    rw [hstep]
    simp

/-- **and only then**: a task that is already running, or is started in a later view (a restart), does not
bootstrap; every bootstrap call ever made found the replica in view 0 (`loop_refines_steps`) -/
theorem no_bootstrap_otherwise (cfg : LCfg) (evs : List Ev) (envf : EnvF)
    (h : (run cfg evs).mode ≠ .idle ∨ (run cfg evs).r.view ≠ 0) :
    ∃ rest, (run cfg (evs ++ [.quiesce envf])).hist = (run cfg evs).hist ++ rest ∧ ∀ rd ∈ rest, rd.src ≠ .boot := by
  rw [run_snoc]
  exact quiesce_noboot cfg envf (run cfg evs) h

/-! ## 3. The view timer -/

/-- **The timer fires when due**: with nothing pending and the deadline passed, the next thing the task does is
`start_timeout`: accepted, the own timeout vote is sent. -/
theorem timer_fires (cfg : LCfg) (evs : List Ev) (envf : EnvF) (hm : (run cfg evs).mode = .recv)
    (hp : (run cfg evs).pending = []) (hd : (run cfg evs).deadline ≤ (run cfg evs).now) :
    ∃ rd rest, (run cfg (evs ++ [.quiesce envf])).hist = (run cfg evs).hist ++ rd :: rest ∧
      rd.src = .timer ∧ rd.res.out = .accepted ∧
      Effect.send (.timeout (ownTimeout cfg.rc (stState (run cfg evs).r))) ∈ rd.res.effs := by
  obtain ⟨rest, hr⟩ := quiesce_timer cfg envf (run cfg evs) hm hp hd
  have hw := (loop_states_wf cfg evs).1
  obtain ⟨h0, h1⟩ := EraVerif.Props.C05.tick_reaction cfg.rc (run cfg evs).r (envf (run cfg evs).hist .tick) hw
  refine ⟨_, rest, by rw [run_snoc]; exact hr, rfl, ?_, ?_⟩
  · show (step cfg.rc (run cfg evs).r (envf (run cfg evs).hist .tick) .tick).out = .accepted
    by_cases hv : (run cfg evs).r.view = 0
    · rw [h0 hv]
    · obtain ⟨j, _, hj⟩ := h1 hv; rw [hj]
  · show _ ∈ (step cfg.rc (run cfg evs).r (envf (run cfg evs).hist .tick) .tick).effs
    by_cases hv : (run cfg evs).r.view = 0
    · rw [h0 hv]; simp
    · obtain ⟨j, _, hj⟩ := h1 hv; rw [hj]; simp

/-- **The deadline moves exactly when `start_timeout` or `start_new_view` ran**: a move of the task either makes no
handler call and leaves the deadline alone (except the start of the task, which arms it), or makes one call and then
the deadline is `now + view_timeout` if that call was the bootstrap, the timer, or a handler that went through
`start_new_view` — and unchanged otherwise. The clock does not move while the task runs. -/
theorem deadline_rule (cfg : LCfg) (s s' : St) (h : LMove cfg s s') :
    s'.now = s.now ∧
    ((s'.hist = s.hist ∧ (s'.deadline = s.deadline ∨ (s.mode = .idle ∧ s'.deadline = s.now + cfg.viewTimeout))) ∨
     (∃ rd, s'.hist = s.hist ++ [rd] ∧
        s'.deadline = if rd.src.isMsg && !ranNewView rd.res then s.deadline else s.now + cfg.viewTimeout)) := by
  cases h with
  | boot e hm hv => exact ⟨rfl, Or.inr ⟨_, rfl, by simp [Src.isMsg, armed]⟩⟩
  | begin hm hv => exact ⟨rfl, Or.inl ⟨rfl, Or.inr ⟨hm, rfl⟩⟩⟩
  | pop q rest e hm hp =>
    refine ⟨rfl, Or.inr ⟨_, rfl, ?_⟩⟩
    rw [record_deadline]
    cases hn : ranNewView (step cfg.rc s.r e (.msg q.s)) <;> simp [Src.isMsg]
  | park q rest hm hp hd => exact ⟨rfl, Or.inl ⟨rfl, Or.inl rfl⟩⟩
  | resume q e hm =>
    refine ⟨rfl, Or.inr ⟨_, rfl, ?_⟩⟩
    rw [record_deadline]
    cases hn : ranNewView (step cfg.rc s.r e (.msg q.s)) <;> simp [Src.isMsg]
  | timer e hm hp hd => exact ⟨rfl, Or.inr ⟨_, rfl, by simp [Src.isMsg]⟩⟩

/-- **Which handler calls go through `start_new_view`**: never a proposal (`on_proposal` enters the proposal's view
without re-arming the timer); never a rejected message; and an accepted commit vote / timeout vote / new-view only
if it changed the view (for the two votes: given that their view + 1 does not wrap). So a message that leaves the
view alone leaves the deadline alone. -/
theorem message_keeps_deadline (cfg : LCfg) (s : St) (hr : EraVerif.Props.C05.Reachable cfg.rc s.r s.disk) (q : Req)
    (e : Env)
    (h : (∃ p j, q.s.msg = .proposal p j) ∨
         (∃ w, (step cfg.rc s.r e (.msg q.s)).out = .rejected w) ∨
         ((step cfg.rc s.r e (.msg q.s)).out = .accepted ∧ NoWrap (.msg q.s) ∧
            (step cfg.rc s.r e (.msg q.s)).r.view = s.r.view)) :
    ranNewView (step cfg.rc s.r e (.msg q.s)) = false ∧
    (record cfg s (.msg q) e (step cfg.rc s.r e (.msg q.s))).deadline = s.deadline := by
  have hw := (EraVerif.Props.C05.reachable_wf _ _ _ hr).1
  have hn : ranNewView (step cfg.rc s.r e (.msg q.s)) = false := by
    rcases h with ⟨p, j, hq⟩ | ⟨w, hrej⟩ | ⟨hacc, hnw, hv⟩
    · obtain ⟨id, ⟨m, key, sigOk⟩⟩ := q
      simp only at hq
      subst hq
      exact proposal_no_newView cfg.rc s.r e key sigOk p j
    · exact rejected_no_newView hrej
    · exact no_newView_without_view_change hw e q.s hacc hnw hv
  refine ⟨hn, ?_⟩
  rw [record_deadline, hn]
  simp [Src.isMsg]

/-- **A flood cannot postpone the timeout**: if the deadline has passed when the task gets to run, then — however
many requests are pending — this very run contains a handler call that went through `start_new_view` (a genuine view
change), or kills the task, or fires the timer. Together with `message_keeps_deadline`: requests that do not change the
view cannot keep the replica from timing out. (In the model the pending requests are handled before the timer; in the
real loop `recv` may also let the timer win first — the correspondence run stays out of that race.) -/
theorem flood_cannot_postpone (cfg : LCfg) (evs : List Ev) (envf : EnvF) (hm : (run cfg evs).mode = .recv)
    (hd : (run cfg evs).deadline ≤ (run cfg evs).now) :
    ∃ rest, (run cfg (evs ++ [.quiesce envf])).hist = (run cfg evs).hist ++ rest ∧
      ((∃ rd ∈ rest, rd.src = .timer ∨ ranNewView rd.res = true) ∨
       ∃ q, (run cfg (evs ++ [.quiesce envf])).mode = .dead q) := by
  rw [run_snoc]
  show ∃ rest, (quiesce cfg envf (run cfg evs)).hist = _ ∧ (_ ∨ ∃ q, (quiesce cfg envf (run cfg evs)).mode = _)
  unfold quiesce
  simp only [hm]
  exact iterN_due cfg envf _ _ hm hd (by omega)

/-! ## 4. Acknowledgements -/

/-- **Accounting** (no hypothesis): as multisets, the ids of the requests that arrived are the acknowledged ones, the
ones whose ack channel was closed without an acknowledgement (dropped by the queue; lost in a restart), and the
unresolved ones (pending, or inside a handler that has not returned). Nothing is lost and nothing is answered twice. -/
theorem accounting (cfg : LCfg) (evs : List Ev) :
    (ackedIds (run cfg evs).hist ++ (run cfg evs).closed ++ (run cfg evs).unresolved.map (·.id)).Perm
      ((arrivals evs).map (·.id)) :=
  acct_perm cfg evs

/-- **Every request taken from the queue is acknowledged exactly when its handler returned (accepted or rejected),
after the handler's effects, and at most once**; a request whose ack channel was closed is never acknowledged, and an
unresolved one has been neither acknowledged nor closed. (`hid`: the requests carry distinct ack channels.) -/
theorem every_processed_message_is_acked_once (cfg : LCfg) (evs : List Ev)
    (hid : ((arrivals evs).map (·.id)).Nodup) :
    (∀ rd ∈ (run cfg evs).hist,
      rd.acked = (rd.src.isMsg && returned rd.res.out) ∧
      rd.items = rd.res.effs.map Item.eff ++
        (match rd.src with | .msg q => if returned rd.res.out then [Item.ack q.id] else [] | _ => [])) ∧
    (ackedIds (run cfg evs).hist).Nodup ∧
    (∀ id ∈ (run cfg evs).closed, id ∉ ackedIds (run cfg evs).hist) ∧
    (∀ id ∈ (run cfg evs).unresolved.map (·.id),
      id ∉ ackedIds (run cfg evs).hist ∧ id ∉ (run cfg evs).closed) := by
  have hnd : (ackedIds (run cfg evs).hist ++ (run cfg evs).closed ++ (run cfg evs).unresolved.map (·.id)).Nodup :=
    (accounting cfg evs).nodup_iff.mpr hid
  rw [List.nodup_append] at hnd
  obtain ⟨h12, _, h3⟩ := hnd
  rw [List.nodup_append] at h12
  obtain ⟨h1, _, h2⟩ := h12
  refine ⟨?_, h1, ?_, ?_⟩
  · intro rd hrd
    have hk := ((run_histOk cfg evs).2 rd hrd).acked
    refine ⟨hk, ?_⟩
    rw [items_def]
    cases hs : rd.src with
    | boot => rfl
    | timer => rfl
    | msg q =>
      rw [hs] at hk
      simp only [Src.isMsg, Bool.true_and] at hk
      simp only [hk]
  · intro id hc ha
    exact h2 id ha id hc rfl
  · intro id hu
    refine ⟨fun ha => ?_, fun hc => ?_⟩
    · exact h3 id (List.mem_append_left _ ha) id hu rfl
    · exact h3 id (List.mem_append_right _ hc) id hu rfl

/-- **A request dropped by the queue is never acknowledged**, whatever happens afterwards: the new request if the
signature filter refuses it or a pending request of the same sender and kind has an equal or higher view; the pending
requests of the same sender and kind with a lower view. -/
theorem dropped_never_acked (cfg : LCfg) (evs : List Ev) (q : Req) (later : List Ev)
    (hid : ((arrivals (evs ++ .arrive q :: later)).map (·.id)).Nodup) :
    ∀ x ∈ dropped (run cfg evs).pending q, x.id ∉ ackedIds (run cfg (evs ++ .arrive q :: later)).hist := by
  intro x hx
  have hsplit : evs ++ .arrive q :: later = (evs ++ [.arrive q]) ++ later := by simp
  have h1 : x.id ∈ (run cfg (evs ++ [.arrive q])).closed := by
    rw [run_snoc]
    show x.id ∈ (run cfg evs).closed ++ (dropped (run cfg evs).pending q).map (·.id)
    exact List.mem_append_right _ (List.mem_map_of_mem hx)
  have h2 : x.id ∈ (run cfg (evs ++ .arrive q :: later)).closed := by
    rw [hsplit]
    show x.id ∈ (runFrom cfg St.init ((evs ++ [.arrive q]) ++ later)).closed
    rw [runFrom_append]
    obtain ⟨rest, hr⟩ := reach_closed (runFrom_reach cfg later (runFrom cfg St.init (evs ++ [.arrive q])))
    rw [hr]
    exact List.mem_append_left _ h1
  exact (every_processed_message_is_acked_once cfg _ hid).2.2.1 x.id h2

/-! ## 5. Order of processing -/

/-- **Requests are handled in the queue's delivery order, each at most once.** The requests handed to handlers so
far (in that order), followed by the one inside a waiting handler and the pending ones (front to back), form a
subsequence of the arrivals; acknowledgements follow the same order; with distinct ack channels no request is handled
twice. The channel itself is C16's queue: projecting a request to what the queue looks at turns `enqueue` into C16's
`send`, so C16's theorems (freshest vote kept, one slot per sender and kind, bound) hold for `pending` — in
particular at most one pending request per sender and kind. -/
theorem processing_order (cfg : LCfg) (evs : List Ev) :
    (handled (run cfg evs).hist ++ (run cfg evs).inflight ++ (run cfg evs).pending).Sublist (arrivals evs) ∧
    (ackedIds (run cfg evs).hist).Sublist ((handled (run cfg evs).hist).map (·.id)) ∧
    (((arrivals evs).map (·.id)).Nodup → ((handled (run cfg evs).hist).map (·.id)).Nodup) ∧
    (∀ buf x, (enqueue buf x).map Req.q = Mpsc.send (buf.map Req.q) x.q) ∧
    (run cfg evs).pending.Pairwise (fun a b => ¬ (a.s.key = b.s.key ∧ kindOf a.s.msg = kindOf b.s.msg)) := by
  have hsub := seq_sublist_arrivals cfg evs
  refine ⟨hsub, ackedIds_sublist _, ?_, enqueue_q, ?_⟩
  · intro hid
    have h1 : (handled (run cfg evs).hist).Sublist (arrivals evs) := by
      refine List.Sublist.trans ?_ hsub
      unfold seq
      rw [List.append_assoc]
      exact List.sublist_append_left _ _
    exact (h1.map (·.id)).nodup hid
  · have hd : PendingDistinct (run cfg evs) :=
      run_inv (cfg := cfg) (I := PendingDistinct) List.Pairwise.nil (fun _ _ hI h => move_pendingDistinct hI h) evs
    unfold PendingDistinct EraVerif.Proofs.Mpsc.Distinct at hd
    rw [List.pairwise_map] at hd
    exact hd.imp (fun hab hc => hab ((EraVerif.Proofs.Mpsc.cls_eq_iff _ _).mpr hc))

/-! ## 6. Non-vacuity: a concrete committee (weights 1, 2, 3, 10: quorum 13, `Props.C05.exCfg`), view timeout 1000 ms -/

section Examples
open EraVerif.Props.C05 (exCfg exEnv exT0 exPayload)

def exL : LCfg := { rc := exCfg, viewTimeout := 1000 }
/-- the store holds nothing / holds block 0 -/
def exF : EnvF := fun _ _ => exEnv
def exF1 : EnvF := fun _ _ => { exEnv with persistedNext := 1, storeNext := 1 }

/-- timeout vote for view 0 of validator `key`, ack channel `id` -/
def tv (id key : Nat) (ok : Bool := true) : Req := ⟨id, ⟨.timeout exT0, key, ok⟩⟩

/-- Four requests are in the channel before the task first runs: the timeout votes of validators 3 and 2 for view 0,
a second vote of validator 2 (same view: dropped by the selection function) and a badly signed one (dropped by the
filter). -/
def ev1 : List Ev := [.arrive (tv 1 3), .arrive (tv 2 2), .arrive (tv 3 2), .arrive (tv 4 1 false)]
/-- the task runs: bootstrap timeout, then the two votes complete a timeout certificate: view 1 -/
def ev2 : List Ev := ev1 ++ [.quiesce exF]

-- hypotheses of `view0_bootstrap`, `dropped_never_acked`, `every_processed_message_is_acked_once`
example : (run exL ev1).mode = .idle ∧ (run exL ev1).r.view = 0 ∧ (run exL ev1).pending.map (·.id) = [1, 2] := by decide
example : (run exL ev1).closed = [3, 4] ∧ dropped (run exL [.arrive (tv 1 3), .arrive (tv 2 2)]).pending (tv 3 2) = [tv 3 2] := by
  decide
example : ((arrivals ev2).map (·.id)).Nodup := by decide
-- the run: boot (2 effects, no ack), request 1 (accepted, no effect, ack), request 2 (new view: 3 effects, ack)
example : (run exL ev2).hist.map (fun rd => (rd.src.isMsg, rd.res.effs.length, rd.acked)) =
    [(false, 2, false), (true, 0, true), (true, 3, true)] := by decide
example : (run exL ev2).r.view = 1 ∧ (run exL ev2).mode = .recv ∧ ackedIds (run exL ev2).hist = [1, 2] ∧
    (run exL ev2).closed = [3, 4] ∧ (run exL ev2).unresolved = [] ∧ (run exL ev2).deadline = 1000 := by decide

/-- the clock moves to just before the deadline: nothing happens; one more millisecond: the timer is due -/
def ev3 : List Ev := ev2 ++ [.advance 999, .quiesce exF]
def ev4 : List Ev := ev3 ++ [.advance 1]
def ev5 : List Ev := ev4 ++ [.quiesce exF]

example : (run exL ev3).hist.length = 3 := by decide
-- hypotheses of `timer_fires` and `flood_cannot_postpone`
example : (run exL ev4).mode = .recv ∧ (run exL ev4).pending = [] ∧ (run exL ev4).deadline ≤ (run exL ev4).now := by decide
example : (run exL ev5).hist.length = 4 ∧ ((run exL ev5).hist.map (·.src))[3]? = some .timer ∧
    (run exL ev5).deadline = 2000 := by decide

/-- a flood of votes for far views (accepted, no view change) is pending when the timer is due: they are handled and
acknowledged, the deadline stays, the timer fires in the same run -/
def exFar (id key view : Nat) : Req := ⟨id, ⟨.timeout { exT0 with view := { exT0.view with number := view } }, key, true⟩⟩
def ev6 : List Ev := ev4 ++ [.arrive (exFar 5 0 40), .arrive (exFar 6 1 41), .arrive (exFar 7 0 50), .quiesce exF]
example : ackedIds (run exL ev6).hist = [1, 2, 6, 7] ∧ (run exL ev6).closed = [3, 4, 5] ∧
    ((run exL ev6).hist.map (·.src)).getLast? = some .timer ∧ (run exL ev6).r.view = 1 := by decide

/-- a commit certificate for view 1 (validators 2 and 3: weight 13) -/
def exVote1 : Vote := { view := { genesis := 7, epoch := 2, number := 1 }, proposal := { number := 0, payload := 42 } }
def exQC1 : CommitQC := { message := exVote1, signers := [false, false, true, true], sig := [(2, exVote1), (3, exVote1)] }
/-- the proposal of the leader of view 2 justified by it: block 1 -/
def exProp2 : Req := ⟨8, ⟨.proposal (some exPayload) (.commit exQC1), 2, true⟩⟩

example : exQC1.verify exCfg.c = true := by decide

/-- `on_proposal` moves the replica from view 1 to view 2 **without** re-arming the timer (block 0 is in the store):
400 ms into view 1 the deadline is still 1000, not 1400 — hypotheses and conclusion of `message_keeps_deadline`
(first alternative) -/
def ev7 : List Ev := ev2 ++ [.advance 400, .arrive exProp2, .quiesce exF1]
example : (run exL ev7).r.view = 2 ∧ (run exL ev2).r.view = 1 ∧ (run exL ev7).deadline = 1000 ∧ (run exL ev7).now = 400 ∧
    ackedIds (run exL ev7).hist = [1, 2, 8] := by decide

/-- the same proposal while block 0 is missing: the handler waits — nothing is acknowledged, a request arriving behind
it is not handled — until the view deadline; then it is rejected and acknowledged, the second request is handled, and the
timer fires -/
def ev8 : List Ev := ev2 ++ [.advance 400, .arrive exProp2, .quiesce exF, .arrive (exFar 9 0 40), .quiesce exF]
def ev9 : List Ev := ev8 ++ [.advance 600, .quiesce exF]
example : (run exL ev8).mode = .waitPrev exProp2 ∧ ackedIds (run exL ev8).hist = [1, 2] ∧
    (run exL ev8).unresolved.map (·.id) = [8, 9] := by decide
example : ackedIds (run exL ev9).hist = [1, 2, 8, 9] ∧ (run exL ev9).unresolved = [] ∧
    ((run exL ev9).hist.map (fun rd => (rd.src.isMsg, returned rd.res.out))).drop 3 = [(true, true), (true, true), (false, true)] ∧
    (run exL ev9).r.view = 1 ∧ (run exL ev9).deadline = 2000 := by decide

/-- an accepted vote that leaves the view alone (validator 3 alone is below the quorum): third alternative of
`message_keeps_deadline` -/
example : (step exCfg (run exL [.quiesce exF]).r exEnv (.msg (tv 1 3).s)).out = .accepted ∧
    NoWrap (.msg (tv 1 3).s) ∧
    (step exCfg (run exL [.quiesce exF]).r exEnv (.msg (tv 1 3).s)).r.view = (run exL [.quiesce exF]).r.view := by
  refine ⟨rfl, ?_, by decide⟩
  show (0 : Nat) + 1 < 2 ^ 64
  decide

/-- a restart in view 1 (hypothesis of `no_bootstrap_otherwise`): the new task does not time out at once, its deadline
counts from its start; a restart in view 0 bootstraps again -/
def ev10 : List Ev := ev2 ++ [.advance 300, .restart, .arrive (exFar 10 0 40), .quiesce exF]
example : (run exL (ev2 ++ [.advance 300, .restart])).mode = .idle ∧ (run exL (ev2 ++ [.advance 300, .restart])).r.view ≠ 0 := by
  decide
example : (run exL ev10).hist.length = 4 ∧ ((run exL ev10).hist.map (·.src.isMsg)).getLast? = some true ∧
    (run exL ev10).deadline = 1300 ∧ (run exL ev10).r.view = 1 := by decide
example : ((run exL [.quiesce exF, .restart, .quiesce exF]).hist.map (·.src)) = [.boot, .boot] := by decide
/-- requests lost in a restart are closed, never acknowledged -/
example : (run exL [.quiesce exF, .arrive (tv 1 3), .restart, .quiesce exF]).closed = [1] ∧
    ackedIds (run exL [.quiesce exF, .arrive (tv 1 3), .restart, .quiesce exF]).hist = [] := by decide

end Examples

end EraVerif.Props.C05loop
