import EraVerif.Model.SyncSchedule
import EraVerif.Proofs.SyncProgressSafe

/-!
# C06s — Progress, composed: one synchronous round with a correct leader commits a new block

Statement (C06). From any state the system can reach, once correct validators holding a quorum of weight can exchange
messages reliably and fetch missing blocks, and timeouts keep firing, every correct validator commits a new block
within a bounded number of views with correct leaders.

`Props/C06.lean` proves the per-replica enabling lemmas. This file composes them on the **global code-level model**
(`Model/Global.lean`: all correct validators run the executable replica inside the crash system; `GReach` = every state
reachable under an adversarial network, Byzantine validators, crashes and restarts) along the explicit finite
**synchronous schedule** of `Model/SyncSchedule.lean` (the Byzantine validators are silent during it):

  (1) tick everywhere · (2) the new-view message of a correct validator with maximal view is delivered to everybody ·
  (3) tick everywhere · (4) all timeout votes are delivered to everybody · (5) the correct leader's proposal is delivered
  to everybody · (6) all commit votes are delivered to everybody.

For **every** configuration with `1 ≤ total`, every Byzantine set of weight `≤ f`, every globally reachable state, every
block-store answer `E` that is sane and has caught up with the proposal caches:

* A `views_synchronise`, B `timeout_round_advances` — phases (1)–(4) are legal global steps and move every correct
  validator to `prepare` of one common view `V + 1`, each holding a timeout certificate for `V` and having notified its
  proposer with a verifying justification for `V + 1`. This needs no correct leader: **no reachable state deadlocks
  the views**.
* C `leader_proposal_accepted_everywhere` — if the leader of `V + 1` is correct, its proposal is accepted by every
  correct validator; all cast the same commit vote, for a block `(k, h)` that is **new**: every block certified so far
  (by anybody) has a number `≤ k`, `< k` if the proposal carries a fresh payload, and a certified block with number `k`
  is the very block being re-proposed (`proposed_block_is_new`); and `k` is above every commit certificate the
  justification carries (`implied_above_carried`).
* D `sync_progress` — after phase (6) every correct validator holds a verifying commit certificate for `(V + 1, k, h)`
  and is in view `V + 2`; whoever has the payload cached next to a store that is exactly at block `k` has handed the
  block to the store (`queueBlock`). The others (a re-proposed block whose payload they never saw; a store that is
  behind or ahead) obtain the block by block sync, which is outside this model.
* E `leader_rotation_bound` — a round whose leader is silent still ends in the next view (that is B); with the
  round-robin schedule at most `n − 1` such rounds pass before a correct validator leads, then D applies
  (`progress_within_n_rounds`).
* F — the fixtures of `Props/C01r.lean` (six validators, one Byzantine; the reachable state `h11` where the validators
  are spread over two views, one has crashed, and an equivocation-free vote is stranded): the hypotheses hold and the
  executable schedule ends with block 1 committed everywhere.

**What had to be added to make this true for every reachable state.** Three invariants of `GReach`
(`Proofs/SyncProgressInv.lean`): whoever is recorded in `timeout_views_cache` for a view not yet left is a signer of
the cached timeout certificate (`TCacheFull` — a vote delivered before the synchronous period is refused as a
duplicate when re-delivered, its weight must already be there), cached certificates are below the quorum
(`TCacheLow`), and every cache entry stems from a validly signed vote (`ViewsAuth`). And one consequence of
unforgeability: a verifying authentic certificate has a correct signer, so certificates are never for views above the
correct validators' (`cert_view_lt`) — which is what makes the justification after the timeout round one for view
`V + 1` exactly, and the commit certificate of view `V + 1` newer than anything held.

**Side conditions.** No wrap of `u64`: the views of the correct validators `+ 3 < 2^64`; `JustNoWrap` of the leader's
justification (`InputOk2` of the global model). Stores: `EnvOk`/`StoreOk` below, and for phase (5) `EnvFits`: payloads
verify, nothing pruned, the predecessor of the proposed block is persisted ("missing blocks can be fetched").
`V` is the view all correct validators share after phase (2) (at least every view before the round; `SyncView`).
-/

namespace EraVerif.Props.C06s
open EraVerif.Model EraVerif.Safety EraVerif.Refine
open EraVerif.Proofs.RefineIP EraVerif.Proofs.ReplicaStep EraVerif.Proofs.Progress EraVerif.Proofs.Sync

section Main
variable {cfg : RCfg} {byz : Finset (Fin cfg.c.n)} {E : Fin cfg.c.n → Env} {C : List (Fin cfg.c.n)}

/-! ## 0. Vocabulary and standing hypotheses -/

/-- `Setup`: total weight `≥ 1`, Byzantine weight `≤ f`, `C` lists exactly the correct validators, and every correct
validator's store queue is at least at what it has persisted -/
theorem setup_iff : Setup cfg byz E C ↔
    1 ≤ cfg.c.total ∧ wt (wF cfg.c) byz ≤ cfg.c.faulty ∧ C.Nodup ∧ (∀ i, i ∈ C ↔ i ∉ byz) ∧
    ∀ i, i ∉ byz → (E i).persistedNext ≤ (E i).storeNext :=
  ⟨fun h => ⟨h.total, h.byzw, h.nodup, h.mem, h.sane⟩, fun h => ⟨h.1, h.2.1, h.2.2.1, h.2.2.2.1, h.2.2.2.2⟩⟩

/-- the correct validators in index order -/
def correctList (byz : Finset (Fin cfg.c.n)) : List (Fin cfg.c.n) := (List.finRange cfg.c.n).filter (fun i => i ∉ byz)

/-- the standing hypotheses hold for the canonical list of correct validators, for every committee with `1 ≤ total`
and every Byzantine set of weight `≤ f` -/
theorem setup_canonical (ht : 1 ≤ cfg.c.total) (hb : wt (wF cfg.c) byz ≤ cfg.c.faulty)
    (hE : ∀ i, i ∉ byz → (E i).persistedNext ≤ (E i).storeNext) : Setup cfg byz E (correctList byz) :=
  ⟨ht, hb, (List.nodup_finRange _).filter _, fun i => by simp [correctList], hE⟩

/-- so the correct validators hold a quorum of weight -/
theorem correct_hold_quorum (S : Setup cfg byz E C) :
    cfg.c.quorum ≤ (C.map (fun i => cfg.c.weights.getD i.val 0)).sum := S.correct_weight

/-- a run starts from a global state with an empty effect log -/
def start (G : Global cfg) : Run cfg := { g := G, log := [] }

/-- "missing blocks can be fetched", as far as phases (1)–(4) and (6) need it: every correct validator's store has
reached every block in its proposal cache (so `save_block` never waits in `queue_block`) -/
def StoreOk (byz : Finset (Fin cfg.c.n)) (E : Fin cfg.c.n → Env) (G : Global cfg) : Prop :=
  ∀ i, i ∉ byz → ∀ p ∈ (G.sys i).r.proposals, p.1 ≤ (E i).storeNext

/-- what phase (5) asks of the stores, given the justification `j` the leader proposes from -/
theorem envFits_iff (j : Just) : EnvFits cfg E C j ↔
    ∀ i ∈ C, (E i).payloadOk = true ∧ (E i).queuedFirst ≤ (j.impliedBlock cfg.c).1 ∧
      ((j.impliedBlock cfg.c).2 = none →
        (j.impliedBlock cfg.c).1 = 0 ∨ (j.impliedBlock cfg.c).1 - 1 < (E i).persistedNext) := Iff.rfl

/-- the commit vote cast on the proposal built from `j`: view `j.view`, the implied block number, the implied hash
or else the hash of the fresh payload -/
theorem voteFor_def (j : Just) (fresh : Payload) :
    voteFor cfg j fresh =
      { view := j.view,
        proposal := { number := (j.impliedBlock cfg.c).1, payload := ((j.impliedBlock cfg.c).2).getD fresh.id } } :=
  rfl

theorem stage_of {G : Global cfg} (hr : GReach cfg (Byz byz) G) (hs : StoreOk byz E G) : Stage byz E G := ⟨hr, hs⟩

/-! ## A. The views synchronise -/

/-- **A.** From every globally reachable state: phases (1)–(3) are legal global steps. After phases (1)–(2) every
correct validator is in the same view `V`, which is at least every view before (hence the maximum) and at most one
above the maximal view before. After phase (3) every correct validator is still in view `V`, in phase `timeout`, and
has sent a timeout vote for view `V` that verifies and is authentic (so it may be delivered to anybody). -/
theorem views_synchronise (S : Setup cfg byz E C) {G : Global cfg} (hr : GReach cfg (Byz byz) G)
    (hs : StoreOk byz E G) (hnw : ∀ i ∈ C, (G.sys i).r.view + 2 < 2 ^ 64) :
    ∃ V,
      Relation.ReflTransGen (GStep cfg (Byz byz)) G (afterSync E C (start G)).g ∧
      Relation.ReflTransGen (GStep cfg (Byz byz)) (afterSync E C (start G)).g (afterTimeouts E C (start G)).g ∧
      (∀ i ∈ C, ((afterSync E C (start G)).g.sys i).r.view = V ∧ (G.sys i).r.view ≤ V) ∧
      (V = 0 ∨ ∃ m ∈ C, V ≤ (G.sys m).r.view + 1) ∧
      ∀ i ∈ C,
        ((afterTimeouts E C (start G)).g.sys i).r.view = V ∧
        ((afterTimeouts E C (start G)).g.sys i).r.phase = .timeout ∧
        (tvoteOf cfg ((afterTimeouts E C (start G)).g.sys i).r).view.number = V ∧
        (tvoteOf cfg ((afterTimeouts E C (start G)).g.sys i).r).verify cfg.c = true ∧
        Msg.timeout (tvoteOf cfg ((afterTimeouts E C (start G)).g.sys i).r) ∈
          ((afterTimeouts E C (start G)).g.sys i).sent ∧
        Authentic (Byz byz) (afterTimeouts E C (start G)).g
          ⟨.timeout (tvoteOf cfg ((afterTimeouts E C (start G)).g.sys i).r), i.val, true⟩ := by
  obtain ⟨V, s1, s2, _, s4, s5, s6, s7⟩ := sync_spec S (x := start G) (stage_of hr hs) hnw
  refine ⟨V, s1, s2, s4, ?_, fun i hi => ?_⟩
  · rcases s5 with ⟨_, h⟩ | ⟨m, hm, j, _, hV, hle⟩
    · exact Or.inl h
    · have hle' : certView j ≤ (G.sys m).r.view := hle
      exact Or.inr ⟨m, hm, by omega⟩
  · have hF := S.facts s6.stage hi
    refine ⟨s6.view i hi, s7 i hi, s6.view i hi, tvoteOf_verify hF.wf, s6.sentT i hi, ?_⟩
    exact ⟨fun _ _ _ _ => s6.sentT i hi, fun cq hcq => hF.ra.hc cq hcq⟩

/-! ## B. The timeout round advances -/

/-- **B.** From every globally reachable state, phases (1)–(4) are legal global steps, whoever leads the next view.
Afterwards every correct validator is in view `V + 1` (`V` = the common view after phase (2)), phase `prepare`, holds a
verifying timeout certificate for view `V`, and has notified its proposer (`Effect.notify`, in the log) with its
justification `get_justification()`, which verifies and is for view `V + 1`. No reachable state deadlocks the views. -/
theorem timeout_round_advances (S : Setup cfg byz E C) {x : Run cfg} (hr : GReach cfg (Byz byz) x.g)
    (hs : StoreOk byz E x.g) (hnw : ∀ i ∈ C, (x.g.sys i).r.view + 3 < 2 ^ 64) :
    ∃ V,
      (∀ i ∈ C, ((afterSync E C x).g.sys i).r.view = V ∧ (x.g.sys i).r.view ≤ V) ∧
      Relation.ReflTransGen (GStep cfg (Byz byz)) x.g (failedRound E C x).g ∧
      GReach cfg (Byz byz) (failedRound E C x).g ∧ StoreOk byz E (failedRound E C x).g ∧
      ∀ i ∈ C,
        ((failedRound E C x).g.sys i).r.view = V + 1 ∧
        ((failedRound E C x).g.sys i).r.phase = .prepare ∧
        (∃ tq, ((failedRound E C x).g.sys i).r.highTimeoutQC = some tq ∧ tq.view.number = V ∧
          tq.verify cfg.c = true) ∧
        ∃ j, getJustification ((failedRound E C x).g.sys i).r = .ok j ∧ j.verify cfg.c = true ∧
          j.viewNumber = V + 1 ∧ (i.val, Effect.notify j) ∈ (failedRound E C x).log := by
  obtain ⟨V, s1, _, _, s4, s5⟩ := failedRound_spec S (stage_of hr hs) hnw
  refine ⟨V, s1, s4, s5.stage.reach, s5.stage.below, fun i hi => ?_⟩
  obtain ⟨tq, htq, hv⟩ := s5.tqc i hi
  obtain ⟨j, hj, hjv, hjn, _, hlog⟩ := s5.just i hi
  exact ⟨s5.view i hi, s5.phase i hi, ⟨tq, htq, hv, (S.facts s5.stage hi).wf.htqc tq htq⟩, j, hj, hjv, hjn, hlog⟩

/-! ## C. The correct leader's proposal is accepted everywhere -/

/-- **The proposed block is new.** After the timeout round (everybody in `prepare` of view `V + 1`), let `j` be the
justification a correct validator `L` holds. For every verifying commit certificate `q0` whose correct signers really
signed — held by anybody, at any time up to now — the block `q0` certifies has a number `≤` the block `(k, hash?)`
implied by `j`; strictly below `k` if `j` asks for a fresh payload; and if it has number `k`, it is the very block
`j` asks to re-propose. -/
theorem proposed_block_is_new (S : Setup cfg byz E C) {x : Run cfg} {V : Nat} (hadv : Advanced byz E C x V)
    {L : Fin cfg.c.n} (hL : L ∈ C) {j : Just} (hj : getJustification (x.g.sys L).r = .ok j) (hjw : JustNoWrap j)
    {q0 : CommitQC} (hv0 : q0.verify cfg.c = true) (ha0 : AuthenticQC (Byz byz) x.g q0) :
    q0.message.proposal.number ≤ (j.impliedBlock cfg.c).1 ∧
    (∀ hh, (j.impliedBlock cfg.c).2 = some hh → (j.impliedBlock cfg.c).1 = q0.message.proposal.number →
      hh = q0.message.proposal.payload) ∧
    ((j.impliedBlock cfg.c).2 = none → q0.message.proposal.number < (j.impliedBlock cfg.c).1) := by
  obtain ⟨j', hj', hjv, _, hcv, _⟩ := hadv.just L hL
  rw [hj] at hj'
  cases hj'
  have hF := S.facts hadv.stage hL
  have hja : AuthJust (sigsOf (Byz byz) x.g) j := by
    rcases getJustification_spec hj with ⟨q, rfl, hq, _⟩ | ⟨t, rfl, htq, _⟩
    · exact hF.ra.hc q hq
    · exact hF.ra.ht t htq
  exact implied_block_new S hadv.stage hadv.view hadv.phase hjv hja hjw hcv hv0 ha0

/-- **C.** Let the leader `L` of view `V + 1` be correct (`V` = the common view after phase (2)), `j` the justification
it holds after the timeout round (= the one it was notified with: B), `(k, hash?) = j.impliedBlock`. If the stores fit
(`EnvFits`) and `j` does not wrap, phases (1)–(5) are legal, and afterwards every correct validator is in view `V + 1`,
phase `commit`, and has cast — high vote, sent, authentic — the **same** commit vote `voteFor cfg j fresh` for block
`(k, h)`, `h` = the implied hash or else the hash of the fresh payload; a fresh payload is now cached everywhere. The
block is new w.r.t. every certificate that exists in the start state (`proposed_block_is_new`). -/
theorem leader_proposal_accepted_everywhere (S : Setup cfg byz E C) {x : Run cfg} (hr : GReach cfg (Byz byz) x.g)
    (hs : StoreOk byz E x.g) (hnw : ∀ i ∈ C, (x.g.sys i).r.view + 3 < 2 ^ 64) {L : Fin cfg.c.n} (hL : L ∈ C)
    (hlead : ∀ i ∈ C, L.val = cfg.leader (((afterSync E C x).g.sys i).r.view + 1)) (fresh : Payload)
    (hsize : fresh.size ≤ cfg.maxPayload) {j : Just}
    (hj : getJustification ((failedRound E C x).g.sys L).r = .ok j) (hjw : JustNoWrap j)
    (henv : EnvFits cfg E C j) :
    ∃ V,
      (∀ i ∈ C, ((afterSync E C x).g.sys i).r.view = V) ∧ j.viewNumber = V + 1 ∧ j.verify cfg.c = true ∧
      (L.val, Effect.notify j) ∈ (failedRound E C x).log ∧
      Relation.ReflTransGen (GStep cfg (Byz byz)) x.g (afterProposal E C L fresh x).g ∧
      (∀ i ∈ C,
        ((afterProposal E C L fresh x).g.sys i).r.view = V + 1 ∧
        ((afterProposal E C L fresh x).g.sys i).r.phase = .commit ∧
        ((afterProposal E C L fresh x).g.sys i).r.highVote = some (voteFor cfg j fresh) ∧
        Msg.commit (voteFor cfg j fresh) ∈ ((afterProposal E C L fresh x).g.sys i).sent ∧
        Authentic (Byz byz) (afterProposal E C L fresh x).g ⟨.commit (voteFor cfg j fresh), i.val, true⟩) ∧
      ((j.impliedBlock cfg.c).2 = none → ∀ i ∈ C, ∃ p ∈ ((afterProposal E C L fresh x).g.sys i).r.proposals,
        p.1 = (j.impliedBlock cfg.c).1 ∧ p.2.id = fresh.id) ∧
      ∀ q0 : CommitQC, q0.verify cfg.c = true → AuthenticQC (Byz byz) x.g q0 →
        q0.message.proposal.number ≤ (j.impliedBlock cfg.c).1 ∧
        (∀ hh, (j.impliedBlock cfg.c).2 = some hh → (j.impliedBlock cfg.c).1 = q0.message.proposal.number →
          hh = q0.message.proposal.payload) ∧
        ((j.impliedBlock cfg.c).2 = none → q0.message.proposal.number < (j.impliedBlock cfg.c).1) := by
  obtain ⟨V, r1, r2, r3, r4, _, _, _⟩ := round_spec S (stage_of hr hs) hnw hL hlead fresh hsize hj hjw henv
  obtain ⟨_, _, _, _, s4, _⟩ := failedRound_spec S (stage_of hr hs) hnw
  obtain ⟨p1, _, _⟩ := propose_spec S r2 hL
    (by rw [← (r1 L hL).1]; exact hlead L hL) fresh hsize hj hjw henv
  obtain ⟨j', hj', hjv, hjn, _, hlog⟩ := r2.just L hL
  rw [hj] at hj'
  cases hj'
  refine ⟨V, fun i hi => (r1 i hi).1, hjn, hjv, hlog, s4.trans p1, fun i hi => ?_, r4, fun q0 hv0 ha0 => ?_⟩
  · exact ⟨r3.view i hi, r3.phase i hi, (r3.vote i hi).1, (r3.vote i hi).2,
      ⟨fun _ _ _ _ => (r3.vote i hi).2, trivial⟩⟩
  · exact proposed_block_is_new S r2 hL hj hjw hv0 (Props.C01r.authenticQC_mono s4 ha0)

/-- the block implied by a justification is above every commit certificate the justification carries (the certificate
itself, or the `high_qc()` of the timeout certificate): a fresh block is the successor of the carried certificate's, a
re-proposed block (the sub-quorum high vote) is strictly above it -/
theorem implied_above_carried (c : Committee) {j : Just} (hjw : JustNoWrap j) {q : CommitQC}
    (hq : justQC j = some q) : q.message.proposal.number < (j.impliedBlock c).1 := by
  cases j with
  | commit q' =>
    simp only [justQC, Option.some.injEq] at hq
    subst hq
    rw [Props.C02d.implied_commit c q' hjw.2]
    exact Nat.lt_succ_self _
  | timeout t =>
    have hq' : t.highQC = some q := hq
    obtain ⟨e, he, hee⟩ := tqc_highQC_mem t q hq'
    have hnw : q.message.proposal.number + 1 < 2 ^ 64 := hjw.2 e he q hee
    have hnb : nextBlock q.message.proposal.number = q.message.proposal.number + 1 := nextBlock_of_lt _ hnw
    simp only [Just.impliedBlock, hq']
    cases t.highVote c with
    | none => simp only [hnb]; omega
    | some v =>
      simp only
      split
      · rename_i hgt; exact hgt
      · simp only [hnb]; omega

/-! ## D. One round with a correct leader commits a new block -/

/-- **D. The composite progress theorem.** Hypotheses as in C. The whole round (1)–(6) is a sequence of legal global
steps; afterwards every correct validator is in view `V + 2`, phase `prepare`, and holds a verifying, authentic commit
certificate for the vote of view `V + 1` for block `(k, h)` — the new block of C; the state is again reachable with
caught-up stores, so the next round can start. Every correct validator that has the payload `h` of block `k` in its
proposal cache after phase (5) (all of them, for a fresh proposal) and whose store is exactly at block `k` has handed
the block to the store: `queueBlock k h` with a verifying certificate is in the log. (A validator that never saw the
payload of a re-proposed block, or whose store is behind or ahead, gets the block by block sync — outside this model.) -/
theorem sync_progress (S : Setup cfg byz E C) {x : Run cfg} (hr : GReach cfg (Byz byz) x.g)
    (hs : StoreOk byz E x.g) (hnw : ∀ i ∈ C, (x.g.sys i).r.view + 3 < 2 ^ 64) {L : Fin cfg.c.n} (hL : L ∈ C)
    (hlead : ∀ i ∈ C, L.val = cfg.leader (((afterSync E C x).g.sys i).r.view + 1)) (fresh : Payload)
    (hsize : fresh.size ≤ cfg.maxPayload) {j : Just}
    (hj : getJustification ((failedRound E C x).g.sys L).r = .ok j) (hjw : JustNoWrap j)
    (henv : EnvFits cfg E C j) :
    ∃ V,
      (∀ i ∈ C, ((afterSync E C x).g.sys i).r.view = V ∧ (x.g.sys i).r.view ≤ V) ∧
      Relation.ReflTransGen (GStep cfg (Byz byz)) x.g (runRound E C L fresh x).g ∧
      GReach cfg (Byz byz) (runRound E C L fresh x).g ∧ StoreOk byz E (runRound E C L fresh x).g ∧
      (∀ i ∈ C,
        ((runRound E C L fresh x).g.sys i).r.view = V + 2 ∧
        ((runRound E C L fresh x).g.sys i).r.phase = .prepare ∧
        ∃ qc, ((runRound E C L fresh x).g.sys i).r.highCommitQC = some qc ∧ qc.verify cfg.c = true ∧
          AuthenticQC (Byz byz) (runRound E C L fresh x).g qc ∧
          qc.message.view.number = V + 1 ∧ qc.message.proposal.number = (j.impliedBlock cfg.c).1 ∧
          qc.message.proposal.payload = ((j.impliedBlock cfg.c).2).getD fresh.id) ∧
      (∀ i ∈ C, (∃ p ∈ ((afterProposal E C L fresh x).g.sys i).r.proposals,
          p.1 = (j.impliedBlock cfg.c).1 ∧ p.2.id = ((j.impliedBlock cfg.c).2).getD fresh.id) →
        (j.impliedBlock cfg.c).1 = (E i).storeNext → (E i).persistedNext ≤ (j.impliedBlock cfg.c).1 →
        ∃ qc : CommitQC, qc.verify cfg.c = true ∧ qc.message = voteFor cfg j fresh ∧
          (i.val, Effect.queueBlock (j.impliedBlock cfg.c).1 (((j.impliedBlock cfg.c).2).getD fresh.id) qc) ∈
            (runRound E C L fresh x).log) ∧
      ((j.impliedBlock cfg.c).2 = none → ∀ i ∈ C,
        (j.impliedBlock cfg.c).1 = (E i).storeNext → (E i).persistedNext ≤ (j.impliedBlock cfg.c).1 →
        ∃ qc : CommitQC, qc.verify cfg.c = true ∧
          (i.val, Effect.queueBlock (j.impliedBlock cfg.c).1 fresh.id qc) ∈ (runRound E C L fresh x).log) ∧
      ∀ q0 : CommitQC, q0.verify cfg.c = true → AuthenticQC (Byz byz) x.g q0 →
        q0.message.proposal.number ≤ (j.impliedBlock cfg.c).1 ∧
        ((j.impliedBlock cfg.c).2 = none → q0.message.proposal.number < (j.impliedBlock cfg.c).1) := by
  obtain ⟨V, r1, r2, r3, r4, r5, r6, r7⟩ := round_spec S (stage_of hr hs) hnw hL hlead fresh hsize hj hjw henv
  obtain ⟨_, _, _, _, s4, _⟩ := failedRound_spec S (stage_of hr hs) hnw
  refine ⟨V, r1, r5, r6.stage.reach, r6.stage.below, fun i hi => ?_, r7, fun hnone i hi hst hpn => ?_,
    fun q0 hv0 ha0 => ?_⟩
  · obtain ⟨qc, hq, hv, hm⟩ := r6.qc i hi
    refine ⟨r6.view i hi, r6.phase i hi, qc, hq, hv, (S.facts r6.stage hi).ra.hc qc hq, ?_, ?_, ?_⟩
    · rw [hm]; exact r3.vtview
    · rw [hm]; rfl
    · rw [hm]; rfl
  · obtain ⟨p, hp, hp1, hp2⟩ := r4 hnone i hi
    have hid : ((j.impliedBlock cfg.c).2).getD fresh.id = fresh.id := by rw [hnone]; rfl
    obtain ⟨qc, hv, _, hlog⟩ := r7 i hi ⟨p, hp, hp1, by rw [hid]; exact hp2⟩ hst hpn
    rw [hid] at hlog
    exact ⟨qc, hv, hlog⟩
  · obtain ⟨h1, _, h3⟩ := proposed_block_is_new S r2 hL hj hjw hv0 (Props.C01r.authenticQC_mono s4 ha0)
    exact ⟨h1, h3⟩

/-! ## E. Silent leaders cost one view each; with round-robin at most `n − 1` of them in a row -/

/-- a round without phases (5)–(6) still moves every correct validator to the next view: this is B; and `k` such
rounds in a row, from a state where everybody is in `prepare` of view `W + 1`, end in `prepare` of view `W + k + 1` -/
theorem failed_rounds_advance (S : Setup cfg byz E C) (k : Nat) {x : Run cfg} {W : Nat} (hadv : Advanced byz E C x W)
    (hnw : W + k + 4 < 2 ^ 64) :
    Relation.ReflTransGen (GStep cfg (Byz byz)) x.g (failedRounds E C k x).g ∧
    ∀ i ∈ C, ((failedRounds E C k x).g.sys i).r.view = W + k + 1 ∧
      ((failedRounds E C k x).g.sys i).r.phase = .prepare := by
  obtain ⟨h1, h2⟩ := failedRounds_spec S k hadv hnw
  exact ⟨h1, fun i hi => ⟨h2.view i hi, h2.phase i hi⟩⟩

/-- **E.** Round-robin leader schedule (`cfg.leader v = v % n`). From every globally reachable state there is `k ≤ n − 1`
and a correct validator `L` such that: `k` rounds with silent leaders (phases (1)–(4) only) are legal global steps,
lead to a reachable state with caught-up stores, and the next round synchronises on the view `V + k` whose successor
`L` leads — so `sync_progress` applies to that state with leader `L`. (`V` = the view the first round synchronises
on; every failed round moves everybody exactly one view up.) -/
theorem leader_rotation_bound (S : Setup cfg byz E C) (hrr : ∀ v, cfg.leader v = v % cfg.c.n) {x : Run cfg}
    (hr : GReach cfg (Byz byz) x.g) (hs : StoreOk byz E x.g)
    (hnw : ∀ i ∈ C, (x.g.sys i).r.view + cfg.c.n + 5 < 2 ^ 64) :
    ∃ V k, k < cfg.c.n ∧ ∃ L ∈ C,
      (∀ i ∈ C, ((afterSync E C x).g.sys i).r.view = V) ∧
      Relation.ReflTransGen (GStep cfg (Byz byz)) x.g (failedRounds E C k x).g ∧
      GReach cfg (Byz byz) (failedRounds E C k x).g ∧ StoreOk byz E (failedRounds E C k x).g ∧
      (∀ i ∈ C, ((failedRounds E C k x).g.sys i).r.view + 3 < 2 ^ 64) ∧
      (∀ i ∈ C, ((afterSync E C (failedRounds E C k x)).g.sys i).r.view = V + k) ∧
      L.val = cfg.leader (V + k + 1) := by
  have hst := stage_of hr hs
  obtain ⟨V, s1, s2, _, s4, s5⟩ := failedRound_spec S hst (fun i hi => by have := hnw i hi; omega)
  obtain ⟨c, hc⟩ := List.exists_mem_of_ne_nil C S.nonempty
  obtain ⟨k, hk, hmod⟩ := rotation cfg.c.n c.val V c.isLt
  have hVb : V + cfg.c.n + 4 < 2 ^ 64 := by
    have := s2.le (k := cfg.c.n + 4) S.nonempty (fun i hi => by have := hnw i hi; omega)
    omega
  refine ⟨V, k, hk, c, hc, fun i hi => (s1 i hi).1, ?_⟩
  cases k with
  | zero =>
    have h0 : failedRounds E C 0 x = x := rfl
    rw [h0]
    refine ⟨.refl, hr, hs, fun i hi => by have := hnw i hi; omega, fun i hi => (s1 i hi).1, ?_⟩
    rw [hrr]; exact hmod.symm
  | succ k' =>
    obtain ⟨t1, t2⟩ := failedRounds_spec S k' s5 (by omega)
    have hfr : failedRounds E C (k' + 1) x = failedRounds E C k' (failedRound E C x) := rfl
    rw [hfr]
    obtain ⟨V', u1, u2, _, _, _⟩ := failedRound_spec S t2.stage (fun i hi => by rw [t2.view i hi]; omega)
    have hV' := next_sync_view S t2 u2
    refine ⟨s4.trans t1, t2.stage.reach, t2.stage.below, fun i hi => by rw [t2.view i hi]; omega,
      fun i hi => ?_, ?_⟩
    · rw [(u1 i hi).1, hV']; omega
    · rw [hrr]; exact hmod.symm

/-- **Progress within `n` rounds.** Round-robin schedule. From every globally reachable state there is `k ≤ n − 1` and
a correct `L` such that, after `k` rounds with silent leaders, the round led by `L` — if the stores fit the block `L`
proposes — ends with every correct validator holding a verifying commit certificate for one and the same new block
and being two views further. -/
theorem progress_within_n_rounds (S : Setup cfg byz E C) (hrr : ∀ v, cfg.leader v = v % cfg.c.n) {x : Run cfg}
    (hr : GReach cfg (Byz byz) x.g) (hs : StoreOk byz E x.g)
    (hnw : ∀ i ∈ C, (x.g.sys i).r.view + cfg.c.n + 5 < 2 ^ 64) (fresh : Payload)
    (hsize : fresh.size ≤ cfg.maxPayload) :
    ∃ k, k < cfg.c.n ∧ ∃ L ∈ C,
      Relation.ReflTransGen (GStep cfg (Byz byz)) x.g (failedRounds E C k x).g ∧
      ∀ j, getJustification ((failedRound E C (failedRounds E C k x)).g.sys L).r = .ok j → JustNoWrap j →
        EnvFits cfg E C j →
        Relation.ReflTransGen (GStep cfg (Byz byz)) (failedRounds E C k x).g
          (runRound E C L fresh (failedRounds E C k x)).g ∧
        ∃ W, ∀ i ∈ C,
          ((runRound E C L fresh (failedRounds E C k x)).g.sys i).r.view = W + 2 ∧
          ∃ qc, ((runRound E C L fresh (failedRounds E C k x)).g.sys i).r.highCommitQC = some qc ∧
            qc.verify cfg.c = true ∧ qc.message = voteFor cfg j fresh ∧
            ∀ q0 : CommitQC, q0.verify cfg.c = true → AuthenticQC (Byz byz) x.g q0 →
              q0.message.proposal.number ≤ qc.message.proposal.number := by
  obtain ⟨V, k, hk, L, hL, _, e2, e3, e4, e5, e6, e7⟩ := leader_rotation_bound S hrr hr hs hnw
  refine ⟨k, hk, L, hL, e2, fun j hj hjw henv => ?_⟩
  have hlead : ∀ i ∈ C, L.val = cfg.leader (((afterSync E C (failedRounds E C k x)).g.sys i).r.view + 1) := by
    intro i hi; rw [e6 i hi]; exact e7
  obtain ⟨W, r1, r2, _, _, r5, r6, _⟩ := round_spec S (stage_of e3 e4) e5 hL hlead fresh hsize hj hjw henv
  refine ⟨r5, W, fun i hi => ?_⟩
  obtain ⟨qc, hq, hv, hm⟩ := r6.qc i hi
  refine ⟨r6.view i hi, qc, hq, hv, hm, fun q0 hv0 ha0 => ?_⟩
  obtain ⟨_, _, _, _, s4, _⟩ := failedRound_spec S (stage_of e3 e4) e5
  have := (proposed_block_is_new S r2 hL hj hjw hv0
    (Props.C01r.authenticQC_mono (e2.trans s4) ha0)).1
  rw [hm]
  exact this

end Main

/-! ## F. Non-vacuity: the fixtures of `Props/C01r.lean`

Six validators of weight 1 (`f = 1`, quorum 5), round-robin leader, validator 5 Byzantine. The start state is `h11`
of `Props/C01r.lean` §5, reachable through a crash: validator 0 has voted in view 1, died between `set_state` and the
broadcast, restarted, and voted `(1, 22)` in view 2 on a certificate only it has seen; validators 1–4 are in view 1
in phase `commit`; the commit certificate for block 0 is held by validator 0 (and the adversary) only. Every store
has block 0 and nothing else (`persisted.next() = queued.next() = 1`).

The round: the ticks and validator 0's new-view message bring everybody to view 2 (and hand them the certificate for
block 0); the timeout votes for view 2 move everybody to view 3, whose leader is validator 3; validator 0's stranded
vote `(1, 22)` weighs 1 < subquorum, so the timeout certificate implies a fresh block 1; validator 3 proposes payload
33; everybody votes `(1, 33)`, and after the commit round everybody holds the certificate for it, is in view 4, and
has handed block `(1, 33)` to its store. -/

namespace Ex
open EraVerif.Props.C01r.Ex EraVerif.Proofs.Crash.Ex

def exC : List (Fin cfg.c.n) := [vi 0, vi 1, vi 2, vi 3, vi 4]
def exE : Fin cfg.c.n → Env := fun _ => { queuedFirst := 0, persistedNext := 1, payloadOk := true, storeNext := 1 }
def exPay : Payload := { id := 33, size := 10 }

theorem ex_setup : Setup cfg byzS exE exC :=
  ⟨ex_hyps.1, ex_hyps.2, by decide, by decide, fun _ _ => Nat.le_refl _⟩

/-- `exC` is the canonical list of correct validators -/
example : exC = correctList (cfg := cfg) byzS := by decide

theorem h11_reach : GReach cfg (Byz byzS) h11 := GReach.step h10_reach h10_step

theorem ex_store : StoreOk byzS exE h11 := by
  unfold StoreOk
  decide +kernel

theorem ex_nowrap : ∀ i ∈ exC, ((start h11).g.sys i).r.view + cfg.c.n + 5 < 2 ^ 64 := by decide +kernel

theorem ex_nowrap3 : ∀ i ∈ exC, ((start h11).g.sys i).r.view + 3 < 2 ^ 64 := by decide +kernel

/-- the validators are spread over views 1 and 2 before the round … -/
example : exC.map (fun i => ((start h11).g.sys i).r.view) = [2, 1, 1, 1, 1] := by decide +kernel

/-- … in view 2 after phases (1)–(2) (A), in view 3 after phase (4) (B) -/
example : exC.map (fun i => ((afterSync exE exC (start h11)).g.sys i).r.view) = [2, 2, 2, 2, 2] := by decide +kernel
example : exC.map (fun i => ((failedRound exE exC (start h11)).g.sys i).r.view) = [3, 3, 3, 3, 3] := by
  decide +kernel

/-- validator 3 leads view 3 -/
theorem ex_lead : ∀ i ∈ exC, (vi 3).val = cfg.leader (((afterSync exE exC (start h11)).g.sys i).r.view + 1) := by
  decide +kernel

/-- the justification validator 3 holds after the timeout round -/
def exJ : Just :=
  match getJustification ((failedRound exE exC (start h11)).g.sys (vi 3)).r with
  | .ok j => j
  | .panic _ => default

theorem exJ_spec : getJustification ((failedRound exE exC (start h11)).g.sys (vi 3)).r = .ok exJ := by
  obtain ⟨_, _, _, _, _, h⟩ := timeout_round_advances ex_setup (x := start h11) h11_reach ex_store ex_nowrap3
  obtain ⟨_, _, _, j, hj, _⟩ := h (vi 3) (by decide)
  unfold exJ
  rw [hj]

/-- executable form of `JustNoWrap` -/
def justNoWrapB : Just → Bool
  | .commit q => decide (q.message.view.number + 1 < 2 ^ 64) && decide (q.message.proposal.number + 1 < 2 ^ 64)
  | .timeout q => decide (q.view.number + 1 < 2 ^ 64) && noWrapB q

theorem justNoWrap_of_check (j : Just) (h : justNoWrapB j = true) : JustNoWrap j := by
  cases j with
  | commit q =>
    simp only [justNoWrapB, Bool.and_eq_true, decide_eq_true_eq] at h
    exact h
  | timeout q =>
    simp only [justNoWrapB, Bool.and_eq_true, decide_eq_true_eq] at h
    exact ⟨h.1, noWrap_of_check q h.2⟩

theorem exJ_nowrap : JustNoWrap exJ := justNoWrap_of_check exJ (by decide +kernel)

/-- it is a timeout certificate for view 2 that implies a fresh block 1 -/
example : exJ.viewNumber = 3 ∧ exJ.impliedBlock cfg.c = (1, none) := by decide +kernel

theorem exJ_fits : EnvFits cfg exE exC exJ := by
  unfold EnvFits
  decide +kernel

/-- **the hypotheses of A–D hold** for this state, and D yields its conclusion -/
example := views_synchronise ex_setup h11_reach ex_store
  (fun i hi => by have : (h11.sys i).r.view + 3 < 2 ^ 64 := ex_nowrap3 i hi; omega)
example := timeout_round_advances ex_setup (x := start h11) h11_reach ex_store ex_nowrap3
example := leader_proposal_accepted_everywhere ex_setup (x := start h11) h11_reach ex_store ex_nowrap3
  (L := vi 3) (by decide) ex_lead exPay (by decide) exJ_spec exJ_nowrap exJ_fits
example := sync_progress ex_setup (x := start h11) h11_reach ex_store ex_nowrap3
  (L := vi 3) (by decide) ex_lead exPay (by decide) exJ_spec exJ_nowrap exJ_fits
/-- … and those of E -/
example := leader_rotation_bound ex_setup (fun _ => rfl) (x := start h11) h11_reach ex_store ex_nowrap
example := progress_within_n_rounds ex_setup (fun _ => rfl) (x := start h11) h11_reach ex_store ex_nowrap exPay
  (by decide)

/-- the hypotheses of `proposed_block_is_new` / `failed_rounds_advance` (`Advanced`: everybody in `prepare` of one
view after a timeout round) hold after phases (1)–(4) from `h11`, with `V = 2`; and the certificate for block 0 that
validator 0 holds is a verifying authentic certificate there, to which `proposed_block_is_new` applies: `0 < 1` -/
theorem ex_advanced : Advanced byzS exE exC (failedRound exE exC (start h11)) 2 := by
  obtain ⟨V, s1, _, _, _, s5⟩ := failedRound_spec ex_setup (x := start h11) (stage_of h11_reach ex_store) ex_nowrap3
  have : V = 2 := by
    have h := (s1 (vi 0) (by decide)).1
    have h2 : ((afterSync exE exC (start h11)).g.sys (vi 0)).r.view = 2 := by decide +kernel
    omega
  subst this
  exact s5

example : ∃ q0, ((failedRound exE exC (start h11)).g.sys (vi 0)).r.highCommitQC = some q0 ∧
    q0.verify cfg.c = true ∧ AuthenticQC (Byz byzS) (failedRound exE exC (start h11)).g q0 ∧
    q0.message.proposal.number < (exJ.impliedBlock cfg.c).1 := by
  have hF := ex_setup.facts ex_advanced.stage (i := vi 0) (by decide)
  cases hq : ((failedRound exE exC (start h11)).g.sys (vi 0)).r.highCommitQC with
  | none =>
    have : ((failedRound exE exC (start h11)).g.sys (vi 0)).r.highCommitQC.isSome = true := by decide +kernel
    rw [hq] at this; cases this
  | some q0 =>
    refine ⟨q0, rfl, hF.wf.hcqc q0 hq, hF.ra.hc q0 hq, ?_⟩
    exact (proposed_block_is_new ex_setup ex_advanced (L := vi 3) (by decide) exJ_spec exJ_nowrap
      (hF.wf.hcqc q0 hq) (hF.ra.hc q0 hq)).2.2 (by decide +kernel)

example := failed_rounds_advance ex_setup 3 ex_advanced (by decide)

/-- a `queueBlock n p _` of validator `i` is in the log -/
def logHasQueue (i n p : Nat) (log : List (Nat × Effect)) : Bool :=
  log.any (fun e => match e.2 with | .queueBlock a b _ => e.1 == i && a == n && b == p | _ => false)

/-- **the executable schedule ends with the new block committed everywhere**: every correct validator is in view 4,
holds the commit certificate for `(view 3, block 1, payload 33)`, and has handed block `(1, 33)` to its store; before
the round the highest certified block was block 0 -/
example : exC.map (fun i => (((runRound exE exC (vi 3) exPay (start h11)).g.sys i).r.view,
      ((runRound exE exC (vi 3) exPay (start h11)).g.sys i).r.highCommitQC.map
        (fun q => (q.message.view.number, q.message.proposal.number, q.message.proposal.payload)))) =
    [(4, some (3, 1, 33)), (4, some (3, 1, 33)), (4, some (3, 1, 33)), (4, some (3, 1, 33)), (4, some (3, 1, 33))] := by
  decide +kernel

example : exC.all (fun i => logHasQueue i.val 1 33 (runRound exE exC (vi 3) exPay (start h11)).log) = true := by
  decide +kernel

example : exC.map (fun i => ((start h11).g.sys i).r.highCommitQC.map (fun q => q.message.proposal.number)) =
    [some 0, none, none, none, none] := by decide +kernel

/-- a round with a silent leader: from the initial state (everybody in view 0, no certificate) phases (1)–(4) end in
view 1; a second such round ends in view 2 -/
example : exC.map (fun i => ((failedRounds exE exC 2 (start (Global.init cfg))).g.sys i).r.view) = [2, 2, 2, 2, 2] := by
  decide +kernel

end Ex

end EraVerif.Props.C06s
