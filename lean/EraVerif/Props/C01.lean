import EraVerif.Proofs.LayerPInv
import EraVerif.Proofs.LayerPExample

/-!
# C01 — Agreement: correct nodes never commit conflicting blocks (protocol level, Layer P)

The theorems quantify over **every** finite committee `ι` with weights `w`, every Byzantine set `byz` with
`wt byz ≤ f = (n-1)/5`, and every state reachable by **any** interleaving of the protocol steps of correct
replicas (`Reach`). Nothing is assumed about Byzantine validators or about the network: a certificate (`Cert`) only
requires its *correct* members to have recorded the vote; a correct replica may act on any certificate valid
w.r.t. the history (so loss, duplication, reordering, withholding, equivocating leaders, forged high votes in
timeout certificates are all covered); a crash/restart is a stutter because the state is the durable one (C03
proves, on the replica model, that nothing leaves the node before the state recording it is durable).

A node commits block `(k, h)` only on a commit certificate that verifies (C04: then every correct signer's vote is
in the history, under the signature assumptions), or on a block fetched from a peer carrying such a certificate
(`manager.rs::queue_block` re-verifies it; C08) — both are `Cert … k h` here.
-/

namespace EraVerif.Props.C01
open EraVerif.Safety Finset

variable {ι : Type} [Fintype ι] [DecidableEq ι] {w : ι → ℕ} {byz : Finset ι} {first : ℕ}

/-- **Agreement.** In every reachable state, two commit certificates for the same block number — formed in any
views, seen by any nodes — are for the same payload hash. -/
theorem agreement {s : PState ι} (hn : 1 ≤ total w) (hb : wt w byz ≤ faulty w) (hr : Reach w byz first s)
    {u1 u2 k h1 h2 : ℕ} (hc1 : Cert w byz s.st u1 k h1) (hc2 : Cert w byz s.st u2 k h2) : h1 = h2 := by
  have hI := inv_reachable hn hb hr
  rcases Nat.lt_trichotomy u1 u2 with hlt | heq | hgt
  · exact ((cert_monotone w byz s.st hn hb hI.i1 hc1 hc2 hlt).2 rfl).symm
  · subst heq; exact (cert_unique w byz s.st hn hb hc1 hc2).2.symm
  · exact (cert_monotone w byz s.st hn hb hI.i1 hc2 hc1 hgt).2 rfl

/-- Certificates are ordered: a certificate formed in a later view is for a block number at least as high (so a
node applying certificates in view order never goes back to a lower number — "never reorders"). -/
theorem certified_numbers_monotone {s : PState ι} (hn : 1 ≤ total w) (hb : wt w byz ≤ faulty w)
    (hr : Reach w byz first s) {u1 u2 k1 k2 h1 h2 : ℕ}
    (hc1 : Cert w byz s.st u1 k1 h1) (hc2 : Cert w byz s.st u2 k2 h2) (hle : u1 ≤ u2) : k1 ≤ k2 := by
  have hI := inv_reachable hn hb hr
  exact cert_num_le (a := ⟨u1, k1, h1⟩) (b := ⟨u2, k2, h2⟩) hn hb hI.i1 hc1 hc2 hle

/-- A certificate, once formed, stays a certificate along every step (votes are never retracted): together with
`agreement` this is "a committed block is never replaced", at any later time. -/
theorem cert_stable {s s' : PState ι} (hn : 1 ≤ total w) (hb : wt w byz ≤ faulty w) (hr : Reach w byz first s)
    (hs : Step w byz first s s') {u k h : ℕ}
    (hc : Cert w byz s.st u k h) : Cert w byz s'.st u k h := by
  have hI := inv_reachable hn hb hr
  apply cert_mono w byz _ hc
  intro j _ u' x hx
  cases hs with
  | voteCommit i hi c h' hc' hcan => exact recordVote_extends (hq' := maxQC (s.highQC i) c) hI.i3 hi hcan j u' x hx
  | voteTimeout i hi q k' oh h' hv him hconf hcan hq' hhq => exact recordVote_extends (hq' := hq') hI.i3 hi hcan j u' x hx
  | timeout i hi => exact hx
  | advance i hi v hv => exact hx
  | learn i hi c hc' => exact hx

/-- Hence over any execution: if `(k, h)` is certified at some point and `(k, h')` is certified at any later point
(after any number of further steps), then `h = h'` — no two correct nodes ever commit different payloads for the
same number, and a node never replaces a block it has committed. -/
theorem agreement_over_time {s s' : PState ι} (hn : 1 ≤ total w) (hb : wt w byz ≤ faulty w)
    (hr : Reach w byz first s) (hsteps : Relation.ReflTransGen (Step w byz first) s s')
    {u1 u2 k h1 h2 : ℕ} (hc1 : Cert w byz s.st u1 k h1) (hc2 : Cert w byz s'.st u2 k h2) : h1 = h2 := by
  induction hsteps with
  | refl => exact agreement hn hb hr hc1 hc2
  | @tail b c hab hbc ih =>
    -- carry the reachability and the first certificate along
    have hreach : ∀ {t}, Relation.ReflTransGen (Step w byz first) s t → Reach w byz first t ∧ Cert w byz t.st u1 k h1 := by
      intro t ht
      induction ht with
      | refl => exact ⟨hr, hc1⟩
      | tail _ hstep ih' => exact ⟨Reach.step ih'.1 hstep, cert_stable hn hb ih'.1 hstep ih'.2⟩
    obtain ⟨hrb, hcb⟩ := hreach hab
    exact agreement hn hb (Reach.step hrb hbc) (cert_stable hn hb hrb hbc hcb) hc2

/-! ## Non-vacuity: the hypotheses are satisfiable and certificates exist in reachable states -/

/-- Whenever the correct validators alone reach the quorum, a history in which a block is certified is reachable:
the theorems above are about real histories, not vacuous ones. -/
theorem certified_state_reachable (hn : 1 ≤ total w) (hb : wt w byz ≤ faulty w)
    (hq : quorum w ≤ wt w (univ \ byz)) (h : ℕ) :
    ∃ s, Reach w byz first s ∧ Cert w byz s.st 1 first h :=
  exists_reachable_cert w byz first hn hb hq h

/-- six validators of weight 1 (n = 6, f = 1, quorum 5), validator 5 Byzantine: the hypotheses hold … -/
example : (1 : ℕ) ≤ total (fun _ : Fin 6 => 1) ∧ wt (fun _ : Fin 6 => 1) {5} ≤ faulty (fun _ : Fin 6 => 1) ∧
    quorum (fun _ : Fin 6 => 1) ≤ wt (fun _ : Fin 6 => 1) (univ \ {5}) := by
  decide

/-- … so in that committee a state with block `(0, 42)` certified in view 1 is reachable, and by `agreement` no other
payload can ever be certified for block 0. -/
example : ∃ s : PState (Fin 6), Reach (fun _ => 1) {5} 0 s ∧ Cert (fun _ => 1) {5} s.st 1 0 42 :=
  certified_state_reachable (by decide) (by decide) (by decide) 42

end EraVerif.Props.C01
