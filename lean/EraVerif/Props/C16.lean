import EraVerif.Proofs.Mpsc

/-!
# C16 (a) — Pending consensus input stays bounded and always keeps the freshest vote

Part (a) of the property: the queue of consensus messages waiting for the replica
(`zksync_concurrency::sync::prunable_mpsc` instantiated by `zksync_consensus_bft::create_input_channel()`).
Part (b) (the replica's vote caches) is a separate module over the replica model.

All theorems are about `Model/Mpsc.lean`. Quantifier: **every** event list `evs : List Ev` from the empty
channel, where an event is one complete `Sender::send` (by any sender task), the consumer's `wait_for`
returning, or the consumer's `pop_front` critical section — i.e. every interleaving of any number of
concurrent senders with the single consumer, any messages (any senders, kinds, views, valid or invalid
signatures, duplicates). `run evs` is the state reached; `arrivals evs` the messages handed to `send`, in order.
-/

namespace EraVerif.Props.C16
open EraVerif.Model.Mpsc EraVerif.Proofs.Mpsc

/-- a non-trivial event list used by the non-vacuity examples: two senders, three kinds, a tie, an eviction,
a badly signed message, a delivery in the middle -/
def demo : List Ev :=
  [ .send ⟨0, .commit, 5, 0, true⟩, .send ⟨1, .commit, 5, 1, true⟩, .send ⟨0, .timeout, 5, 2, true⟩,
    .send ⟨0, .commit, 5, 3, true⟩,      -- tie: dropped
    .send ⟨0, .commit, 9, 4, false⟩,     -- bad signature: dropped
    .send ⟨0, .commit, 7, 5, true⟩,      -- evicts id 0, goes to the back
    .wait, .pop,                          -- delivers id 1
    .send ⟨1, .commit, 2, 6, true⟩ ]     -- slot was emptied: a lower view is accepted again

example : ((run demo).buf.map (·.id), (run demo).out.map (·.id)) = ([2, 5, 6], [1]) := by decide

/-! ## Bounded: at most one pending message per sender and kind -/

/-- **At most one message per sender and message kind is pending**, in every reachable state. -/
theorem one_per_sender_kind (evs : List Ev) :
    (run evs).buf.Pairwise (fun a b => ¬(a.sender = b.sender ∧ a.kind = b.kind)) := by
  have h : Distinct (run evs).buf := by
    refine run_induction (P := fun _ s => Distinct s.buf) ?_ ?_ evs
    · exact List.Pairwise.nil
    · intro evs e ih
      rcases step_cases (run evs) e with ⟨m, _, hb, _⟩ | ⟨hb, _, _⟩ | ⟨h, r, _, _, hbuf, hb, _⟩
      · rw [hb]; exact distinct_send _ m ih
      · rw [hb]; exact ih
      · rw [hb]; rw [hbuf] at ih; exact distinct_tail ih
  exact h.imp (fun hab hc => hab ((cls_eq_iff _ _).mpr hc))

/-- **Delivery is in arrival order and nothing is invented or duplicated**: what has been delivered so far,
followed by what is pending (front to back), is a subsequence of the arrivals. -/
theorem subsequence_of_arrivals (evs : List Ev) :
    ((run evs).out ++ (run evs).buf).Sublist (arrivals evs) := by
  refine run_induction (P := fun evs s => (s.out ++ s.buf).Sublist (arrivals evs)) ?_ ?_ evs
  · exact List.Sublist.refl _
  · intro evs e ih
    rw [arrivals_append]
    rcases step_cases (run evs) e with ⟨m, rfl, hb, ho⟩ | ⟨hb, ho, ha⟩ | ⟨h, r, rfl, _, hbuf, hb, ho⟩
    · rw [hb, ho, send_eq]
      have hr : ((run evs).out ++ retained (run evs).buf m).Sublist (arrivals evs) :=
        ((List.Sublist.refl _).append List.filter_sublist).trans ih
      show List.Sublist _ (arrivals evs ++ [m])
      split
      · exact ih.trans (List.sublist_append_left _ _)
      · split
        · rw [← List.append_assoc]; exact hr.append (List.Sublist.refl _)
        · exact hr.trans (List.sublist_append_left _ _)
    · rw [hb, ho, ha, List.append_nil]; exact ih
    · rw [hbuf] at ih
      rw [hb, ho]
      simpa [arrivals] using ih

/-- **Every pending and every delivered message carries a valid signature.** -/
theorem all_pending_signed (evs : List Ev) : ∀ m ∈ (run evs).buf ++ (run evs).out, m.sigOk = true := by
  refine run_induction (P := fun _ s => ∀ m ∈ s.buf ++ s.out, m.sigOk = true) ?_ ?_ evs
  · simp
  · intro evs e ih x hx
    rcases step_cases (run evs) e with ⟨m, _, hb, ho⟩ | ⟨hb, ho, _⟩ | ⟨h, r, _, _, hbuf, hb, ho⟩
    · rw [hb, ho, List.mem_append, mem_send_iff] at hx
      rcases hx with (⟨h, _⟩ | ⟨rfl, h, _⟩) | h
      · exact ih x (List.mem_append_left _ h)
      · exact h
      · exact ih x (List.mem_append_right _ h)
    · rw [hb, ho] at hx; exact ih x hx
    · apply ih x
      rw [hb, ho] at hx
      rw [hbuf]
      simp only [List.mem_append, List.mem_cons, List.mem_nil_iff, or_false] at hx ⊢
      rcases hx with h | h | h
      · exact Or.inl (Or.inr h)
      · exact Or.inr h
      · exact Or.inl (Or.inl h)

/-- **The queue length is bounded by 4 × the number of signing keys**: if every validly signed arrival was
signed by a key in `S` (e.g. the committee, when only members' signatures reach the queue; in general the
set of keys whose signatures have been seen), at most `4·|S|` messages are pending — however many messages,
for however many views, were sent. (The filter checks the signature, not committee membership: a non-member
key that signs its own messages occupies its own four slots.) -/
theorem len_le_4_senders (evs : List Ev) (S : List Nat)
    (hS : ∀ m ∈ arrivals evs, m.sigOk = true → m.sender ∈ S) :
    (run evs).buf.length ≤ 4 * S.length := by
  apply distinct_length_le
  · exact (one_per_sender_kind evs).imp (fun hab hc => hab ((cls_eq_iff _ _).mp hc))
  · intro x hx
    have h1 : x ∈ arrivals evs := (subsequence_of_arrivals evs).subset (List.mem_append_right _ hx)
    exact hS x h1 (all_pending_signed evs x (List.mem_append_left _ hx))

example : (run demo).buf.length ≤ 4 * [0, 1].length :=
  len_le_4_senders demo [0, 1] (by decide)

/-! ## What a `send` drops, exactly -/

/-- **Exact content of the queue after `send m`**: a pending `x` stays unless `m` is validly signed, of the same
sender and kind, and of strictly higher view; `m` itself enters iff it is validly signed and every pending
message of its sender and kind has a strictly lower view. (No reachability assumption needed.) -/
theorem pending_after_send_iff (buf : List Msg) (m x : Msg) :
    x ∈ send buf m ↔
      (x ∈ buf ∧ ¬(m.sigOk = true ∧ (x.sender = m.sender ∧ x.kind = m.kind) ∧ x.view < m.view))
      ∨ (x = m ∧ m.sigOk = true ∧ ∀ y ∈ buf, (y.sender = m.sender ∧ y.kind = m.kind) → y.view < m.view) := by
  simp only [mem_send_iff, cls_eq_iff]

/-- **A new message is dropped only if its signature is invalid or a message of the same sender and kind with
an equal or higher view is pending.** -/
theorem dropped_only_if (buf : List Msg) (m : Msg) (h : m ∉ send buf m) :
    m.sigOk = false ∨ ∃ y ∈ buf, y.sender = m.sender ∧ y.kind = m.kind ∧ m.view ≤ y.view := by
  by_cases hs : m.sigOk = true
  · right
    apply Classical.byContradiction
    intro hn
    apply h
    rw [pending_after_send_iff]
    refine Or.inr ⟨rfl, hs, ?_⟩
    intro y hy hc
    apply Classical.byContradiction
    intro hv
    exact hn ⟨y, hy, hc.1, hc.2, by omega⟩
  · left; simpa using hs

/-- **A pending message is evicted only by a validly signed message of the same sender and kind with a
strictly higher view, and that message is then pending** (in every reachable state). -/
theorem evicted_only_by_higher (evs : List Ev) (m x : Msg)
    (hx : x ∈ (run evs).buf) (hgone : x ∉ (run (evs ++ [.send m])).buf) :
    m.sigOk = true ∧ x.sender = m.sender ∧ x.kind = m.kind ∧ x.view < m.view
      ∧ m ∈ (run (evs ++ [.send m])).buf := by
  rw [run_snoc] at hgone ⊢
  show _ ∧ _ ∧ _ ∧ _ ∧ m ∈ send (run evs).buf m
  have hgone : x ∉ send (run evs).buf m := hgone
  rw [pending_after_send_iff] at hgone
  have h1 : m.sigOk = true ∧ (x.sender = m.sender ∧ x.kind = m.kind) ∧ x.view < m.view := by
    apply Classical.byContradiction
    intro hn
    exact hgone (Or.inl ⟨hx, hn⟩)
  refine ⟨h1.1, h1.2.1.1, h1.2.1.2, h1.2.2, ?_⟩
  rw [pending_after_send_iff]
  refine Or.inr ⟨rfl, h1.1, ?_⟩
  -- the only pending message of that sender and kind is `x`
  intro y hy hc
  have hd := one_per_sender_kind evs
  by_cases hyx : y = x
  · rw [hyx]; exact h1.2.2
  · exfalso
    have hcx : y.sender = x.sender ∧ y.kind = x.kind := ⟨hc.1.trans h1.2.1.1.symm, hc.2.trans h1.2.1.2.symm⟩
    -- two different pending entries of one slot contradict `one_per_sender_kind`
    have key : ∀ (l : List Msg), l.Pairwise (fun a b => ¬(a.sender = b.sender ∧ a.kind = b.kind)) →
        y ∈ l → x ∈ l → False := by
      intro l hl
      induction hl with
      | nil => intro h; simp at h
      | cons hal _ ih =>
        intro hy' hx'
        rcases List.mem_cons.mp hy' with rfl | hy'' <;> rcases List.mem_cons.mp hx' with rfl | hx''
        · exact hyx rfl
        · exact hal _ hx'' hcx
        · exact hal _ hy'' ⟨hcx.1.symm, hcx.2.symm⟩
        · exact ih hy'' hx''
    exact key _ hd hy hx

example : (⟨0, .commit, 5, 0, true⟩ : Msg) ∈ (run (demo.take 5)).buf
    ∧ (⟨0, .commit, 5, 0, true⟩ : Msg) ∉ (run (demo.take 5 ++ [.send ⟨0, .commit, 7, 5, true⟩])).buf := by decide

/-! ## The freshest vote is the one that is kept -/

/-! `since evs c` (defined in `Proofs/Mpsc.lean` by the ghost update `sinceStep` run beside the channel) is the
list of validly signed arrivals of sender `c.1` and kind `c.2` since that slot was last emptied by a delivery:
a validly signed `send m` appends `m` to the list of `m`'s slot, a `pop` that delivers `h` resets the list of
`h`'s slot to `[]`, nothing else changes it. `firstMax l` folds "replace the holder iff the newcomer's view is
strictly higher" over `l`; `firstMax_is_first_of_max_view` says what that is. -/

/-- **For each sender and kind, the pending message is the first arrival attaining the maximal view among the
validly signed arrivals of that sender and kind since the slot was last emptied by `recv`** — and the slot
is empty iff there were none. (`firstMax` is characterised by `firstMax_spec`.) -/
theorem pending_is_max_since_last_recv (evs : List Ev) (c : Nat × Kind) (x : Msg) :
    (x ∈ (run evs).buf ∧ (x.sender, x.kind) = c) ↔ firstMax (since evs c) = some x := by
  show (x ∈ (run evs).buf ∧ cls x = c) ↔ _
  revert c x
  refine run_induction
    (P := fun evs s => ∀ c x, (x ∈ s.buf ∧ cls x = c) ↔ firstMax (since evs c) = some x) ?_ ?_ evs
  · intro c x
    simp [since, runG, firstMax]
  · intro evs e ih c x
    rw [since_snoc]
    cases e with
    | wait =>
      have : (step (run evs) Ev.wait).buf = (run evs).buf := by
        simp only [step]; split <;> rfl
      rw [this]; exact ih c x
    | send m =>
      show (x ∈ send (run evs).buf m ∧ cls x = c) ↔ _
      rw [mem_send_iff]
      by_cases hs : m.sigOk = true
      · simp only [sinceStep, hs, if_true, true_and]
        by_cases hc : c = cls m
        · subst hc
          simp only [if_true, firstMax_snoc]
          cases hf : firstMax (since evs (cls m)) with
          | none =>
            have hno : ∀ y, ¬(y ∈ (run evs).buf ∧ cls y = cls m) := by
              intro y hy; have := (ih (cls m) y).mp hy; rw [hf] at this; cases this
            simp only [fresher, Option.some.injEq]
            constructor
            · rintro ⟨(⟨hx, _⟩ | ⟨rfl, _⟩), hcx⟩
              · exact absurd ⟨hx, hcx⟩ (hno x)
              · rfl
            · rintro rfl
              exact ⟨Or.inr ⟨rfl, fun y hy hcy => absurd ⟨hy, hcy⟩ (hno y)⟩, rfl⟩
          | some x0 =>
            have hx0 := (ih (cls m) x0).mpr hf
            have huniq : ∀ y, y ∈ (run evs).buf → cls y = cls m → y = x0 := by
              intro y hy hcy
              have := (ih (cls m) y).mp ⟨hy, hcy⟩
              rw [hf] at this; cases this; rfl
            simp only [fresher]
            by_cases hlt : x0.view < m.view
            · simp only [hlt, if_true, Option.some.injEq]
              constructor
              · rintro ⟨(⟨hx, hn⟩ | ⟨rfl, _⟩), hcx⟩
                · have := huniq x hx hcx; subst this; exact absurd ⟨hcx, hlt⟩ hn
                · rfl
              · rintro rfl
                refine ⟨Or.inr ⟨rfl, ?_⟩, rfl⟩
                intro y hy hcy; rw [huniq y hy hcy]; exact hlt
            · simp only [hlt, if_false, Option.some.injEq]
              constructor
              · rintro ⟨(⟨hx, _⟩ | ⟨_, hall⟩), hcx⟩
                · exact (huniq x hx hcx).symm
                · exact absurd (hall x0 hx0.1 hx0.2) hlt
              · rintro rfl
                exact ⟨Or.inl ⟨hx0.1, fun h => hlt h.2⟩, hx0.2⟩
        · simp only [hc, if_false]
          rw [← ih c x]
          constructor
          · rintro ⟨(⟨hx, _⟩ | ⟨rfl, _⟩), hcx⟩
            · exact ⟨hx, hcx⟩
            · exact absurd hcx.symm hc
          · rintro ⟨hx, hcx⟩
            exact ⟨Or.inl ⟨hx, fun h => hc (hcx.symm.trans h.1)⟩, hcx⟩
      · have hs' : m.sigOk = false := by simpa using hs
        simp only [sinceStep, hs', Bool.false_eq_true, if_false, false_and, and_false, not_false_eq_true,
          and_true, or_false]
        exact ih c x
    | pop =>
      by_cases ha : (run evs).armed = true
      · cases hb : (run evs).buf with
        | nil =>
          have : (step (run evs) Ev.pop).buf = (run evs).buf := by simp [step, ha, hb]
          rw [this]
          simp only [sinceStep, ha, if_true, hb]
          rw [← hb]; exact ih c x
        | cons h r =>
          have hbuf : (step (run evs) Ev.pop).buf = r := by simp [step, ha, hb]
          rw [hbuf]
          simp only [sinceStep, ha, if_true, hb]
          have hd : ∀ y ∈ r, cls y ≠ cls h := by
            have := one_per_sender_kind evs
            rw [hb, List.pairwise_cons] at this
            intro y hy hc
            exact this.1 y hy ((cls_eq_iff _ _).mp hc.symm)
          by_cases hc : c = cls h
          · subst hc
            simp only [if_true, firstMax]
            constructor
            · rintro ⟨hx, hcx⟩; exact absurd hcx (hd x hx)
            · intro h'; simp at h'
          · simp only [hc, if_false]
            rw [← ih c x, hb]
            constructor
            · rintro ⟨hx, hcx⟩; exact ⟨List.mem_cons_of_mem _ hx, hcx⟩
            · rintro ⟨hx, hcx⟩
              rcases List.mem_cons.mp hx with rfl | hx'
              · exact absurd hcx.symm hc
              · exact ⟨hx', hcx⟩
      · have : (step (run evs) Ev.pop).buf = (run evs).buf := by simp [step, ha]
        rw [this]
        simp only [sinceStep, ha]
        exact ih c x

/-- what `firstMax` means: the first arrival attaining the maximal view -/
theorem firstMax_is_first_of_max_view (l : List Msg) (x : Msg) (h : firstMax l = some x) :
    ∃ l1 l2, l = l1 ++ x :: l2 ∧ (∀ y ∈ l1, y.view < x.view) ∧ (∀ y ∈ l2, y.view ≤ x.view) :=
  firstMax_spec l x h

/-- While the consumer takes nothing, the pending message of a slot is determined by that slot's own valid
arrivals alone — whatever the interleaving with the other senders' traffic. -/
theorem since_without_pop (evs : List Ev) (hnp : ∀ e ∈ evs, e ≠ Ev.pop) (c : Nat × Kind) :
    since evs c = (arrivals evs).filter (fun m => m.sigOk && decide (cls m = c)) := by
  induction evs using rev_ind with
  | nil => rfl
  | snoc evs e ih =>
    have ih' := ih (fun e he => hnp e (List.mem_append_left _ he))
    rw [since_snoc, arrivals_append, List.filter_append, ← ih']
    cases e with
    | wait => simp [sinceStep, arrivals]
    | pop => exact absurd rfl (hnp Ev.pop (by simp))
    | send m =>
      by_cases hs : m.sigOk = true <;> by_cases hc : c = cls m
      · subst hc; simp [sinceStep, arrivals, hs]
      · have : ¬ cls m = c := fun h => hc h.symm
        simp [sinceStep, arrivals, hs, hc, this]
      · simp [sinceStep, arrivals, hs]
      · simp [sinceStep, arrivals, hs]

example : firstMax (since demo (0, .commit)) = some ⟨0, .commit, 7, 5, true⟩
    ∧ firstMax (since demo (1, .commit)) = some ⟨1, .commit, 2, 6, true⟩
    ∧ since demo (1, .timeout) = [] := by decide

/-- **The newest vote is never the one discarded** (`freshest_vote_survives_queue`): once a validly signed
message `m` has been sent, at every later moment a message of the same sender and kind with view ≥ `m`'s is
pending, or has been delivered since `m` arrived. -/
theorem freshest_vote_survives_queue (pre post : List Ev) (m : Msg) (hs : m.sigOk = true) :
    ∃ x o, x.sender = m.sender ∧ x.kind = m.kind ∧ m.view ≤ x.view
      ∧ (run (pre ++ Ev.send m :: post)).out = (run pre).out ++ o
      ∧ (x ∈ (run (pre ++ Ev.send m :: post)).buf ∨ x ∈ o) := by
  have hsplit : run (pre ++ Ev.send m :: post) = runFrom (step (run pre) (Ev.send m)) post := by
    simp [run, runFrom, List.foldl_append]
  rw [hsplit]
  obtain ⟨y0, hy0, hc0, hv0⟩ := send_leaves_fresh (run pre).buf m hs
  obtain ⟨y, o, hc, hv, hout, hmem⟩ := pending_survives post (step (run pre) (Ev.send m)) y0 hy0
  have hcm := (cls_eq_iff _ _).mp (hc.trans hc0)
  exact ⟨y, o, hcm.1, hcm.2, by omega, hout, hmem⟩

example : ∃ x o, x.view ≥ 5 ∧ (run demo).out = (run (demo.take 0)).out ++ o ∧ (x ∈ (run demo).buf ∨ x ∈ o) := by
  obtain ⟨x, o, _, _, hv, ho, hm⟩ :=
    freshest_vote_survives_queue [] demo.tail ⟨0, .commit, 5, 0, true⟩ rfl
  exact ⟨x, o, hv, ho, hm⟩

/-! ## `recv` -/

/-- **`Receiver::recv` never panics** (`value.unwrap()`): between the consumer seeing a non-empty buffer and
its `pop_front`, no interleaving of `send`s can empty the buffer. -/
theorem recv_never_panics (evs : List Ev) : (run evs).panicked = false := by
  have h : (run evs).panicked = false ∧ ((run evs).armed = true → (run evs).buf ≠ []) := by
    refine run_induction (P := fun _ s => s.panicked = false ∧ (s.armed = true → s.buf ≠ [])) ?_ ?_ evs
    · exact ⟨rfl, by intro h; cases h⟩
    · intro evs e ih
      cases e with
      | send m => exact ⟨ih.1, fun ha => sendGen_ne_nil _ _ _ _ (ih.2 ha)⟩
      | wait =>
        simp only [step]
        split
        · exact ih
        · rename_i hne
          exact ⟨ih.1, fun _ hb => hne (by rw [show (run evs).buf = [] from hb]; rfl)⟩
      | pop =>
        by_cases ha : (run evs).armed = true
        · cases hb : (run evs).buf with
          | nil => exact absurd hb (ih.2 ha)
          | cons h r => simp [step, ha, hb, ih.1]
        · simp only [step, ha]
          exact ⟨ih.1, fun h => absurd h ha⟩
  exact h.1

/-- This holds for the channel itself, whatever filter predicate and selection function it is created with:
a `send` never turns a non-empty buffer into an empty one. -/
theorem send_never_empties {α : Type} (filter : α → Bool) (sel : α → α → Sel) (buf : List α) (v : α)
    (h : buf ≠ []) : sendGen filter sel buf v ≠ [] := sendGen_ne_nil filter sel buf v h

/-- `n` complete `recv` calls -/
def recvs : Nat → List Ev
  | 0 => []
  | n + 1 => Ev.wait :: Ev.pop :: recvs n

/-- **The retained messages are delivered in queue (= arrival) order**: with no further `send`, `n` calls of
`recv` return exactly the first `n` pending messages, front to back, and leave the rest. -/
theorem recvs_deliver_pending_in_order (n : Nat) : ∀ (s : St), s.armed = false → n ≤ s.buf.length →
    (runFrom s (recvs n)).out = s.out ++ s.buf.take n ∧ (runFrom s (recvs n)).buf = s.buf.drop n
      ∧ (runFrom s (recvs n)).armed = false := by
  induction n with
  | zero => intro s ha _; simp [recvs, runFrom, ha]
  | succ n ih =>
    intro s ha hn
    cases hb : s.buf with
    | nil => rw [hb] at hn; simp at hn
    | cons h r =>
      have hstep : step (step s Ev.wait) Ev.pop = { s with buf := r, out := s.out ++ [h], armed := false } := by
        simp [step, hb]
      simp only [recvs, runFrom_cons, hstep]
      have hn' : n ≤ r.length := by rw [hb] at hn; simpa using hn
      obtain ⟨h1, h2, h3⟩ := ih { s with buf := r, out := s.out ++ [h], armed := false } rfl hn'
      exact ⟨by rw [h1]; simp, by rw [h2]; simp, h3⟩

example : (runFrom (run demo) (recvs 3)).out.map (·.id) = [1, 2, 5, 6] := by decide

end EraVerif.Props.C16
