import EraVerif.Proofs.MuxOpen
import EraVerif.Proofs.MuxPermitR
import EraVerif.Proofs.MuxReader
import EraVerif.Proofs.MuxTxS
import EraVerif.Proofs.MuxWire
import EraVerif.Proofs.MuxChan
import EraVerif.Proofs.MuxCancel

/-!
# C14 — Multiplexed streams are isolated, ordered and flow-controlled

Statement (properties.jsonl): *Data written on a transient sub-stream is received, complete and in order, on exactly the
peer's matching sub-stream of the same capability and on no other, and closing one sub-stream is seen as end-of-stream
only by its counterpart. The number of concurrently open sub-streams per capability never exceeds the smaller of the two
sides' announced limits, and the amount of received-but-unconsumed data held by the multiplexer never exceeds its
configured buffer and frame-count limits no matter how fast the peer sends.*

Everything below is about `Model/Mux.lean` (`step?`, one `Mux` instance; the peer is the environment: *any* sequence of
`wireIn` frames, any interleaving of application calls and internal steps). `Reachable s` = `s` is reached from
`State.init cfg acc con pacc pcon` by some list of events accepted by `step?` — no bound on the number of streams, events,
bytes. The bit layout is `Gen/MuxConst.lean` (regenerated from `header.rs` on every run).

What is **not** covered here and why (see also `level_text` of the registry entry): the tokio primitives are assumed to
behave as written at the top of `Model/Mux.lean`; the end-to-end statement "bytes read on A = bytes written on B" is the
composition of `sender_*`, `writer_channel_fifo` and `acked_data_delivered_or_error` (B's wire output per stream is
well-formed and carries exactly the bytes its `write_all` calls accepted — all of a call that returned `Ok`, the copied
prefix of a cancelled one — also under back-pressure and with calls cancelled at their await),
`dispatch_faithful` + `dispatch_isolation` (A's inbound loop hands every stream exactly the events addressed to it, in
order) and `reader_sees_its_session` (a transient reader returns exactly the payload between its OPEN and its CLOSE); the
composition step itself (the transport delivers B's frames to A unchanged — C13 — and session n matches session n) is
exercised by the `pair` sessions of the correspondence run, not proved.
-/

namespace EraVerif.Props.C14
open EraVerif.Model.Mux EraVerif.Gen.MuxConst EraVerif.Proofs.Mux

/-! ## header layout (header.rs) -/

/-- The three header fields occupy disjoint bits and together all 16 bits. -/
theorem header_masks_partition :
    FRAME_MASK ||| STREAM_MASK ||| ID_MASK = 65535 ∧ FRAME_MASK &&& STREAM_MASK = 0 ∧ FRAME_MASK &&& ID_MASK = 0 ∧
    STREAM_MASK &&& ID_MASK = 0 ∧ FRAME_OPEN &&& FRAME_MASK = FRAME_OPEN ∧ FRAME_DATA &&& FRAME_MASK = FRAME_DATA ∧
    FRAME_CLOSE &&& FRAME_MASK = FRAME_CLOSE ∧ STREAM_CONNECT &&& STREAM_MASK = STREAM_CONNECT := by decide

/-- `Header::new(f, s, id)` decodes to `(f, s, id)` for every id the mask admits. -/
theorem header_roundtrip (fk : FK) (conn : Bool) (id : Nat) (hid : id ≤ ID_MASK) :
    hdrFK (mkHdr fk conn id) = some fk ∧ hdrSenderConn (mkHdr fk conn id) = some conn ∧ hdrId (mkHdr fk conn id) = id :=
  hdr_roundtrip fk conn id hid

/-- Two different 16-bit headers differ in frame kind, stream kind or stream id: a frame is never attributed to two streams. -/
theorem header_fields_determine (h h' : Nat) (hh : h < 65536) (hh' : h' < 65536)
    (e1 : h &&& FRAME_MASK = h' &&& FRAME_MASK) (e2 : h &&& STREAM_MASK = h' &&& STREAM_MASK)
    (e3 : h &&& ID_MASK = h' &&& ID_MASK) : h = h' := hdr_fields_inj h h' hh hh' e1 e2 e3

/-- `match header.stream_kind() { ACCEPT, CONNECT, _ => unreachable!() }`: the third arm is dead for every header. -/
theorem header_stream_kind_total (h : Nat) : hdrSenderConn h ≠ none := by
  rw [hdrSenderConn_total]; simp

/-- The only headers without a frame kind are those with both kind bits set (`RunError::Protocol` since 65ce706). -/
theorem header_frame_kind_invalid_iff (h : Nat) : hdrFK h = none ↔ h / 16384 % 4 = 3 := by
  rw [hdrFK_eq]
  have : h / 16384 % 4 < 4 := Nat.mod_lt _ (by decide)
  generalize h / 16384 % 4 = x at this ⊢
  match x, this with
  | 0, _ => simp
  | 1, _ => simp
  | 2, _ => simp
  | 3, _ => simp

/-! ## stream ids are partitioned by capability using `min(local, peer)` (`spawn_streams`) -/

/-- `ranges loc peer 0` is what `spawn_streams` builds: capabilities in the order of the local map; every id below the
total belongs to exactly one capability; capability `c` gets `min(local[c], peer.get(c).unwrap_or(0))` ids; the total
is at most the sum of the local limits. -/
theorem stream_ids_partition (loc peer : Caps) :
    (ranges loc peer 0).map (·.cap) = loc.map (·.1) ∧
    (∀ id, id < rangesTotal (ranges loc peer 0) →
      ∃ r ∈ ranges loc peer 0, r.has id = true ∧ capOfId (ranges loc peer 0) id = some r.cap ∧
        ∀ r' ∈ ranges loc peer 0, r'.has id = true → r' = r) ∧
    (∀ r ∈ ranges loc peer 0, ∃ m, (r.cap, m) ∈ loc ∧ r.count = min m (peerGet peer r.cap)) ∧
    rangesTotal (ranges loc peer 0) ≤ capSum loc := by
  refine ⟨ranges_map_cap loc peer 0, ?_, ?_, rangesTotal_le loc peer 0⟩
  · intro id hid
    obtain ⟨r, hr, hh⟩ := ranges_cover loc peer 0 id (Nat.zero_le _) (by omega)
    have hp := ranges_pairwise loc peer 0
    exact ⟨r, hr, hh, capOfId_eq_some _ hp r hr id hh, fun r' hr' hh' => ranges_unique _ hp r' r hr' hr id hh' hh⟩
  · intro r hr
    exact (ranges_mem loc peer 0 r hr).2.2

/-- After `Mux::verify` every stream id fits the 13-bit field: the `assert!` of `StreamId::new` cannot fire, and
`Mux::run` does not panic while setting up. -/
theorem stream_ids_fit (cfg : Cfg) (acc con pacc pcon : Caps) (hv : muxVerify cfg acc con = true) :
    rangesTotal (ranges acc pcon 0) ≤ MAX_STREAM_COUNT ∧ rangesTotal (ranges con pacc 0) ≤ MAX_STREAM_COUNT ∧
    (State.init cfg acc con pacc pcon).dead ≠ some .panic := by
  have hv' := hv
  simp only [muxVerify, Bool.and_eq_true, decide_eq_true_eq] at hv
  have h1 := rangesTotal_le acc pcon 0
  have h2 := rangesTotal_le con pacc 0
  refine ⟨by omega, by omega, ?_⟩
  have h3 : ¬ MAX_STREAM_COUNT < rangesTotal (ranges acc pcon 0) := by omega
  have h4 : ¬ MAX_STREAM_COUNT < rangesTotal (ranges con pacc 0) := by omega
  unfold State.init
  simp only [State.start]
  by_cases b : (capsNodup pacc && capsNodup pcon) = true <;> simp [hv', b, h3, h4]

/-- `Mux::verify` rejects whatever would overflow the id space. -/
theorem verify_rejects (cfg : Cfg) (acc con pacc pcon : Caps) (hv : muxVerify cfg acc con = false) :
    (State.init cfg acc con pacc pcon).dead = some .config := by
  unfold State.init; simp [hv]

/-! ## inbound frames are dispatched by (kind, id): isolation and order -/

/-- **Isolation / order / completeness at the frame level.** In every reachable state, for every stream `k`: the frames
its consumers have taken so far, followed by the frames still queued for it, are exactly the frames the inbound loop
dispatched with key `k`, in dispatch order. Nothing addressed to another stream ever shows up, nothing is lost,
duplicated or reordered — for every peer, every interleaving. -/
theorem dispatch_isolation {s : State} (h : Reachable s) (k : Key) :
    (s.st k).taken ++ (s.st k).queue.map absF = proj k s.dispatched :=
  (FInv_reachable h).fifo k

/-- **The inbound loop is faithful to the wire.** Seen as per-stream events (OPEN, CLOSE, payload byte), what has been
dispatched plus what is still owed for the frame in progress is exactly what the peer wrote, in order; a frame goes to
the stream named by its header (`(!sender kind, id)`), frames for ids outside the agreed ranges and frames with both
kind bits set carry nothing (they end the run); splitting a DATA frame into `read_frame_size` pieces is invisible. -/
theorem dispatch_faithful {s : State} (h : Reachable s) :
    s.dispatched.flatMap flatD ++ curEv s.cur = s.rxDone.flatMap (wireEv s) :=
  (WInv_reachable h).w

/-- **What a transient reader returns.** For every stream not currently inside `recv_open`: the bytes copied into
application buffers since the last OPEN consumed by `recv_open`, plus the cached rest of a partially read frame, are
exactly the payloads of the DATA frames taken from the stream's own queue since that OPEN, concatenated in order; the
transient stream began right after an OPEN addressed to this stream. -/
theorem reader_sees_its_session {s : State} (h : Reachable s) (k : Key) (hp : (s.st k).rphase ≠ .discard) :
    (s.st k).delivered ++ cacheData (s.st k) = dataOf (sess (s.st k)) ∧
    (s.st k).sessStart ≤ (s.st k).taken.length ∧
    (0 < (s.st k).sessStart → ∃ d, (s.st k).taken[(s.st k).sessStart - 1]? = some (FK.open, d)) := by
  have hi := RInv_reachable h
  exact ⟨hi.r1 k hp, hi.r5 k, hi.r4 k⟩

/-- **The reader stops at CLOSE.** While `close_received` is false no CLOSE has been taken in this session; once it is
true the CLOSE is the last frame taken: nothing behind it is ever handed to this transient stream. -/
theorem reader_stops_at_close {s : State} (h : Reachable s) (k : Key) (hp : (s.st k).rphase ≠ .discard) :
    ((s.st k).closeRecv = false → ∀ e ∈ sess (s.st k), e.1 ≠ FK.close) ∧
    ((s.st k).closeRecv = true →
      ∃ pre d, sess (s.st k) = pre ++ [(FK.close, d)] ∧ ∀ e ∈ pre, e.1 ≠ FK.close) := by
  have hi := RInv_reachable h
  exact ⟨hi.r2 k hp, hi.r3 k hp⟩

/-- **Closing is seen only by the counterpart.** `close_received` of stream `k` is set only if a CLOSE frame addressed
to `k` itself was dispatched. -/
theorem close_only_counterpart {s : State} (h : Reachable s) (k : Key) (hc : (s.st k).closeRecv = true) :
    ∃ d, (FK.close, d) ∈ proj k s.dispatched := by
  have hi := RInv_reachable h
  have hp : (s.st k).rphase ≠ .discard := by
    intro hd; have := (hi.disc k hd).2; rw [hc] at this; cases this
  obtain ⟨pre, d, hs, _⟩ := hi.r3 k hp hc
  refine ⟨d, ?_⟩
  rw [← dispatch_isolation h k]
  apply List.mem_append_left
  have : (FK.close, d) ∈ sess (s.st k) := by rw [hs]; simp
  exact List.mem_of_mem_drop this

/-- **End of stream.** A `read_exact` returns fewer bytes than asked for only if this stream has seen its CLOSE, or the
transport is gone ("Transport termination is equivalent to EOS"). -/
theorem eos_only_after_close {s s' : State} {k : Key} (h : step? s (.readStep k) = some s')
    (slot : Nat) (bytes : List Nat) (hd : s'.doneLog = s.doneLog ++ [Done.read slot bytes true]) :
    (s.st k).closeRecv = true ∨ s.dead.isSome = true := by
  simp only [step?] at h
  unfold stepReadStep readFrame at h
  leaves h
  all_goals (subst h; simp_all [State.upd, State.release, State.log, finishRead] <;> omega)

/-! ## flow control: the read permits -/

/-- **Permits are conserved.** `count_sem`: available + one per frame held by a stream (+ the one the inbound loop holds
while it waits for size permits) = `read_frame_count`; `size_sem`: available + the size permits of the held frames =
`read_buffer_size`. Streams outside the agreed ranges hold nothing. -/
theorem permits_conserved {s : State} (h : Reachable s) :
    s.countAvail + sumK (keysOf s) cntOf s.st + curCnt s.cur = s.cfg.rfc ∧
    s.sizeAvail + sumK (keysOf s) szOf s.st = s.cfg.rbs ∧
    (∀ k, k.valid s = false → frames (s.st k) = []) := by
  have hi := PInv_reachable h
  exact ⟨hi.count, hi.size, hi.supp⟩

/-- **The buffer bound, for any sender.** In every reachable state the number of received-but-unconsumed frames the
multiplexer holds is at most `read_frame_count` and their payload bytes total at most `read_buffer_size`. -/
theorem buffered_bounded {s : State} (h : Reachable s) :
    sumK (keysOf s) cntOf s.st ≤ s.cfg.rfc ∧ sumK (keysOf s) bytesOf s.st ≤ s.cfg.rbs := by
  have hi := PInv_reachable h
  refine ⟨by have := hi.count; omega, ?_⟩
  have hle : sumK (keysOf s) bytesOf s.st ≤ sumK (keysOf s) szOf s.st := by
    unfold sumK
    generalize keysOf s = ks
    induction ks with
    | nil => simp
    | cons a ks ih =>
      simp only [List.map_cons, List.sum_cons]
      have : bytesOf (s.st a) ≤ szOf (s.st a) := by
        unfold bytesOf szOf
        have hd := hi.dlen a
        generalize frames (s.st a) = fs at hd
        induction fs with
        | nil => simp
        | cons f fs ih2 =>
          simp only [List.map_cons, List.sum_cons]
          have := hd f (List.mem_cons_self ..)
          have := ih2 (fun g hg => hd g (List.mem_cons_of_mem _ hg))
          omega
      omega
  have := hi.size
  omega

/-- **Permits come back.** Once the application (or `recv_open`) has consumed everything that was queued, all permits
are available again: a slow reader delays the peer, it never wedges the multiplexer. -/
theorem permits_return_when_consumed {s : State} (h : Reachable s) (he : ∀ k, frames (s.st k) = []) :
    s.countAvail + curCnt s.cur = s.cfg.rfc ∧ s.sizeAvail = s.cfg.rbs := by
  have hi := PInv_reachable h
  have hz : ∀ (g : StreamSt → Nat), (∀ k, g (s.st k) = 0) → sumK (keysOf s) g s.st = 0 := by
    intro g hg
    unfold sumK
    generalize keysOf s = ks
    induction ks with
    | nil => rfl
    | cons a ks ih => simp only [List.map_cons, List.sum_cons, hg a, ih]
  have h1 := hz cntOf (fun k => by simp [cntOf, he k])
  have h2 := hz szOf (fun k => by simp [szOf, he k])
  have := hi.count
  have := hi.size
  omega

/-! ## the OPEN / CLOSE state machine and the hand-over of the exclusive locks -/

/-- **At most `min(local, peer)` transient streams per capability.** Take any set of distinct application slots each
holding (at least one half of) a transient stream of kind `conn` whose id lies in the range of capability `r.cap`:
there are at most `min(local limit, peer limit)` of them. -/
theorem open_streams_le_min {s : State} (h : Reachable s) (conn : Bool) (r : Range) (hr : r ∈ s.rng conn)
    (xs : List Nat) (hnd : xs.Nodup)
    (hx : ∀ x ∈ xs, ∃ k rr ww, s.slots x = .held k rr ww ∧ (rr || ww) = true ∧ k.conn = conn ∧ r.has k.id = true) :
    ∃ (loc peer : Caps) (m : Nat), (r.cap, m) ∈ loc ∧ xs.length ≤ min m (peerGet peer r.cap) := by
  have hle := held_le_count (LInv_reachable h) conn r xs hnd hx
  obtain ⟨acc, con, pacc, pcon, ha, hc⟩ := reachable_rng h
  cases conn with
  | false =>
    simp only [State.rng, Bool.false_eq_true, if_false] at hr
    rw [ha] at hr
    obtain ⟨_, _, m, hm, hcnt⟩ := ranges_mem acc pcon 0 r hr
    exact ⟨acc, pcon, m, hm, by omega⟩
  | true =>
    simp only [State.rng, if_true] at hr
    rw [hc] at hr
    obtain ⟨_, _, m, hm, hcnt⟩ := ranges_mem con pacc 0 r hr
    exact ⟨con, pacc, m, hm, by omega⟩

/-- **Lock hand-over.** A half of reusable stream `k` is held by at most one application slot, and a slot's claim is
backed by the stream's lock flag: the next transient stream on `k` is handed out only after both halves of the previous
one came back. -/
theorem halves_held_once {s : State} (h : Reachable s) (x y : Nat) (k : Key) (r w r' w' : Bool)
    (hx : s.slots x = .held k r w) (hy : s.slots y = .held k r' w') (hne : x ≠ y) :
    ¬((r || w) = true ∧ (r' || w') = true) ∧ (r = true → (s.st k).readHeld = true) ∧ (w = true → (s.st k).writeHeld = true) := by
  have hi := LInv_reachable h
  exact ⟨hi.uniq x y k r w r' w' hx hy hne, (hi.sl x k r w hx).1, (hi.sl x k r w hx).2⟩

/-! ## the sending side -/

/-- **What a stream puts on the wire is well-formed**: its frames, in order, are accepted by the grammar
`CLOSE* (OPEN DATA* CLOSE)*` (`txRun`), ending in the state "session open? / payload sent in this session" the stream
is in. In particular DATA is only sent between OPEN and CLOSE, and a new OPEN only after the CLOSE of the previous
transient stream. -/
theorem sender_wire_wellformed {s : State} (h : Reachable s) (k : Key) :
    txRun (false, []) (projOut k s.out) = some ((s.st k).txOpen, (s.st k).sent) :=
  (TInv_reachable h).wf k

/-- **Nothing written is lost or invented**: while the run is alive, the bytes `write_all` accepted in this session are
the bytes already sent as DATA, then the write buffer, then what `write_all` has not copied yet; after `send_close`'s
`send_data` (phase `closing`) everything accepted has been sent, so the CLOSE that follows is behind all of it. -/
theorem sender_session_bytes {s : State} (h : Reachable s) (k : Key) (ha : s.dead = none) :
    (s.st k).wlog = (s.st k).sent ++ (s.st k).wbuf ++ pendRest (s.st k) ∧
    ((s.st k).mphase = .closing → (s.st k).wlog = (s.st k).sent) := by
  have hi := TInv_reachable h
  have hl := LInv_reachable h
  have hlog := (hi.st k).log (by rw [ha]; rfl)
  refine ⟨hlog, ?_⟩
  intro hm
  have hne : (s.st k).mphase ≠ .waitWrite := by rw [hm]; decide
  have hb := (hi.st k).cl hne
  have hw := hl.d1 k hne
  have hp : (s.st k).pendW = none := by
    cases hq : (s.st k).pendW with
    | none => rfl
    | some p => have := hl.pw k (by rw [hq]; rfl); rw [hw] at this; cases this
  rw [hlog, hb]; simp [pendRest, hp]

/-- Every DATA frame sent is non-empty and at most `write_frame_size` bytes. -/
theorem sender_frames_bounded {s : State} (h : Reachable s) (f : OFrame) (hf : f ∈ s.out) (hk : f.kind = .data) :
    f.data ≠ [] ∧ f.data.length ≤ s.cfg.wfs :=
  (TInv_reachable h).fr f hf hk

/-! ## the write path under back-pressure, and the cancellation of a single `write_all` / `flush`

`write_all(ctx, buf)` and `flush(ctx)` have one await: `write_send.reserve_or_disconnected(ctx)` inside `send_data`, the
reservation of the one slot of the channel to the writer task. It blocks while the slot is occupied (the writer task is
stuck on a transport that does not take bytes: the peer's reader has stalled). If the `ctx` of the call is cancelled
there, the call returns `Canceled` (`cancelWrite`, `cancelFlush`), and the sub-stream stays usable. The theorems below
say that nothing `write_all` had accepted is lost by that, at any point, for every interleaving.

Vocabulary: `s.wire` = the frames written to the transport, in order (the first `s.flushed` are visible to the peer);
`s.wcur`, `s.chan` = the command in the hands of the writer task / in the channel slot; `(s.st k).wbuf` = the stream's
write buffer; `(s.st k).calls` = (ghost) the finished `write_all` calls of the current transient stream: their data, how
many bytes of it had been copied into the buffer (`took`), the result; `ackedOf calls` = the concatenation, call by call,
of `data.take took`; `pendDone` = what the call in flight has copied so far; `sessPayload` = the concatenated DATA payload
behind the last OPEN / CLOSE in a stream's frame sequence. -/

/-- **The channel and the writer task neither lose nor reorder.** What has been written to the transport, then the frame
the writer task is holding, then the frame in the channel slot, are exactly the frames whose `send` / `reserve` completed,
in that order; what the peer can see is a prefix of what has been written. -/
theorem writer_channel_fifo {s : State} (h : Reachable s) :
    s.wire ++ cmdFrames s.wcur ++ cmdFrames s.chan = s.out ∧ s.flushed ≤ s.wire.length :=
  ⟨(CInv_reachable h).fifo, (CInv_reachable h).fl⟩

/-- **Acknowledged data is delivered (or the multiplexer has failed).** In every reachable state with the multiplexer
alive, for every stream `k`: the payload of its current transient stream that is on the transport or on its way there (in
the writer's hands, in the channel slot) — which is what the peer's matching sub-stream has read or will read, in this
order — followed by the write buffer, is exactly: for every finished `write_all` in call order, the whole data if it
returned `Ok` and the prefix `data.take took` if it was cancelled, followed by what the call in flight has copied.
For a cancelled call the prefix is determined (`CallOk`): `took < data.length`, and `fill0 + took = (j + 1) *
write_frame_size` where `fill0` is the fill level of the buffer when the call started and `j` the number of frames the
call itself had sent — the call stopped at a `send_data` with a full buffer, and that buffer is still there.
When the stream's task is about to send CLOSE (phase `closing`) everything accepted is ahead of it on the wire. -/
theorem acked_data_delivered_or_error {s : State} (h : Reachable s) (k : Key) (ha : s.dead = none) :
    sessPayload (projOut k (s.wire ++ cmdFrames s.wcur ++ cmdFrames s.chan)) ++ (s.st k).wbuf =
      ackedOf (s.st k).calls ++ pendDone (s.st k) ∧
    (∀ c ∈ (s.st k).calls, CallOk s.cfg.wfs c) ∧
    ((s.st k).mphase = .closing →
      sessPayload (projOut k (s.wire ++ cmdFrames s.wcur ++ cmdFrames s.chan)) = ackedOf (s.st k).calls) := by
  have hA := (AInv_reachable h).st k
  have hT := TInv_reachable h
  rw [(CInv_reachable h).fifo, sessPayload_of_txRun (hT.wf k)]
  have hlog := (hT.st k).log (by rw [ha]; rfl)
  have hkey : (s.st k).sent ++ (s.st k).wbuf = ackedOf (s.st k).calls ++ pendDone (s.st k) := by
    have := hA.log
    rw [hlog] at this
    exact List.append_cancel_right this
  refine ⟨hkey, hA.calls, ?_⟩
  intro hm
  have hne : (s.st k).mphase ≠ .waitWrite := by rw [hm]; decide
  have hb := (hT.st k).cl hne
  have hp := no_write_in_flight (LInv_reachable h) k hne
  rw [hb, List.append_nil] at hkey
  rw [hkey]; simp [pendDone, hp]

/-- **Cancelling is safe.** Cancel the context of the `write_all` or `flush` in flight on stream `k` (at its await, in any
reachable state, whatever else is going on). Then (1) nothing that is sent, in flight or buffered changes, on this or any
other stream; (2) the call is over and the stream is still held by the application with no call in flight, so any further
`write_all` / `flush` on it is accepted; (3) what the stream has accepted so far is exactly its payload on the wire plus
its buffer; and (4) every continuation keeps extending this very byte sequence: in any later state of the same transient
stream (no CLOSE / OPEN of `k` in between), with the multiplexer alive, the payload on the wire plus the buffer still
starts with everything accepted up to the cancellation. -/
theorem cancel_is_safe {s s' : State} (h : Reachable s) (k : Key) (ha : s.dead = none)
    (hc : step? s (.cancelWrite k) = some s' ∨ step? s (.cancelFlush k) = some s') :
    (s'.out = s.out ∧ s'.wire = s.wire ∧ s'.chan = s.chan ∧ s'.wcur = s.wcur ∧ s'.flushed = s.flushed ∧
      (s'.st k).sent = (s.st k).sent ∧ (s'.st k).wbuf = (s.st k).wbuf ∧ ∀ k', k' ≠ k → s'.st k' = s.st k') ∧
    ((s'.st k).pendW = none ∧ (s'.st k).pendF = none ∧ (s'.st k).writeHeld = true ∧
      ∀ slot r, s'.slots slot = .held k r true →
        ∀ bytes, (step? s' (.appWrite slot bytes)).isSome = true ∧ (step? s' (.appFlush slot)).isSome = true) ∧
    sessPayload (projOut k s'.out) ++ (s'.st k).wbuf = ackedOf (s'.st k).calls ∧
    (∀ es s'', run? s' es = some s'' → s''.dead = none → Event.closeFrame k ∉ es → Event.sendOpen k ∉ es →
      ackedOf (s'.st k).calls <+: sessPayload (projOut k s''.out) ++ (s''.st k).wbuf) := by
  have hA := AInv_reachable h
  have hL := LInv_reachable h
  have hf := cancel_frame hA hc
  have hheld := cancel_held hL hA hc
  have hr' : Reachable s' := by
    rcases hc with hc | hc <;> exact reachable_step h hc
  have ha' : s'.dead = none := by rw [hf.dead]; exact ha
  have key : ∀ {t : State}, Reachable t → t.dead = none →
      sessPayload (projOut k t.out) ++ (t.st k).wbuf = ackedOf (t.st k).calls ++ pendDone (t.st k) := by
    intro t ht hta
    have := (acked_data_delivered_or_error ht k hta).1
    rwa [(CInv_reachable ht).fifo] at this
  refine ⟨⟨hf.out, hf.wire, hf.chan, hf.wcur, hf.flushed, hf.sent, hf.wbuf, hf.other⟩,
    ⟨hf.idle.1, hf.idle.2, by rw [hf.held]; exact hheld, ?_⟩, ?_, ?_⟩
  · intro slot r hs bytes
    simp [step?, stepAppWrite, stepAppFlush, hs, hf.idle.1, hf.idle.2]
  · have := key hr' ha'
    simpa [pendDone, hf.idle.1] using this
  · intro es s'' hrun ha'' h1 h2
    obtain ⟨l, hl⟩ := run_calls_mono k es s' s'' hrun h1 h2
    rw [key (run?_reachable hr' es s'' hrun) ha'', hl, ackedOf_append, List.append_assoc]
    exact List.prefix_append _ _

/-! ## the tie to the correspondence run -/

/-- The deterministic scheduler the model driver uses between two operations (`settle`, whatever scheduling advice `prio`
it is given) only applies `step?`: every
state whose observation is compared with the real `Mux` is a reachable state of the LTS the theorems above quantify
over. -/
theorem scheduler_stays_reachable (first : List Event) (prio : List Key) (n : Nat) {s : State} (h : Reachable s) :
    Reachable (settle first prio n s).1 :=
  settle_reachable first prio n h

/-! ## non-vacuity: a concrete run (handshake, peer OPEN, accept, DATA split into pieces, partial read, CLOSE, EOS) -/

/-- local accept capability 0 with limit 2, peer connects with limit 1 → one ACCEPT stream; `read_frame_size` 4 -/
def demoInit : State := State.init ⟨4, 16, 4, 5⟩ [(0, 2)] [(7, 2)] [(7, 5)] [(0, 1)]
def demoKey : Key := ⟨false, 0⟩
def demoEvents : List Event :=
  [.closeData demoKey, .closeFrame demoKey, .wtake, .wdo, .doFlush, .wtake, .wdo,
   .wireIn ⟨mkHdr .open true 0, []⟩, .wireIn ⟨mkHdr .data true 0, [1, 2, 3, 4, 5, 6]⟩, .wireIn ⟨mkHdr .close true 0, []⟩,
   .recvOpenStart demoKey, .pump, .pump, .discard demoKey, .joinedA demoKey, .push demoKey,
   .appOpen 1 false 0, .pop false 0, .sendOpen demoKey,
   .pump, .pump, .pump, .pump, .pump, .pump, .pump,
   .appRead 1 5, .readStep demoKey, .readStep demoKey,
   .appRead 1 5, .readStep demoKey, .readStep demoKey, .readStep demoKey]

example : (run? demoInit demoEvents).map (fun s =>
    ((s.st demoKey).delivered, (s.st demoKey).closeRecv, s.doneLog, s.countAvail, s.sizeAvail, s.pulled)) =
    some ([1, 2, 3, 4, 5, 6], true,
      [.opened 1 false 0, .read 1 [1, 2, 3, 4, 5] false, .read 1 [6] true], 4, 16, 14) := by decide

example : ∃ s, Reachable s ∧ (s.st demoKey).closeRecv = true ∧ (s.st demoKey).rphase ≠ .discard := by
  refine ⟨(run? demoInit demoEvents).get (by decide), ⟨⟨4, 16, 4, 5⟩, [(0, 2)], [(7, 2)], [(7, 5)], [(0, 1)], demoEvents, ?_⟩, by decide, by decide⟩
  exact (Option.some_get _).symm


/-! ### non-vacuity of the cancellation theorems: a transport that stops taking bytes, a `write_all` and a `flush` that
block on the channel slot and are cancelled, further writes on the same stream, CLOSE -/

/-- up to the hand-over of the accept stream to slot 1 (its OPEN is in the channel slot); then the transport stalls -/
def demoOpen : List Event :=
  [.closeData demoKey, .closeFrame demoKey, .wtake, .wdo, .doFlush, .wtake, .wdo,
   .wireIn ⟨mkHdr .open true 0, []⟩, .recvOpenStart demoKey, .pump, .pump, .discard demoKey, .joinedA demoKey, .push demoKey,
   .appOpen 1 false 0, .pop false 0, .sendOpen demoKey,
   .txWindow (some 0), .wtake]
/-- `write_all([1..7])` returns Ok (one frame goes into the slot, `[6,7]` stay buffered); `write_all([8..11])` copies
`[8,9,10]`, then blocks on the slot with a full buffer -/
def demoBlock : List Event :=
  [.appWrite 1 [1, 2, 3, 4, 5, 6, 7], .writeStep demoKey, .writeStep demoKey, .writeStep demoKey, .writeStep demoKey,
   .appWrite 1 [8, 9, 10, 11], .writeStep demoKey]
/-- both the blocked `write_all` and a blocked `flush` are cancelled; the transport resumes; `write_all([12])`; drop -/
def demoCancel : List Event :=
  [.cancelWrite demoKey, .appFlush 1, .cancelFlush demoKey,
   .txWindow none, .wdo, .wtake, .wdo,
   .appWrite 1 [12], .writeStep demoKey, .writeStep demoKey, .writeStep demoKey,
   .appDrop 1 false true, .wtake, .wdo, .closeData demoKey, .wtake, .wdo]

/-- the blocked state: the step of `write_all` is not enabled, its cancellation is -/
example : (run? demoInit (demoOpen ++ demoBlock)).map (fun s =>
    ((step? s (.writeStep demoKey)).isSome, (step? s (.cancelWrite demoKey)).isSome, s.chan, s.wcur,
      (s.st demoKey).wbuf)) =
    some (false, true, some (.frame ⟨false, 0, .data, [1, 2, 3, 4, 5]⟩), some (.frame ⟨false, 0, .open, []⟩),
      [6, 7, 8, 9, 10]) := by decide

/-- after the cancellations and the last write, about to send CLOSE: the calls, and everything accepted is on the wire -/
example : (run? demoInit (demoOpen ++ demoBlock ++ demoCancel)).map (fun s =>
    ((s.st demoKey).calls, (s.st demoKey).mphase, sessPayload (projOut demoKey s.wire), s.doneLog)) =
    some ([⟨[1, 2, 3, 4, 5, 6, 7], 7, 0, .ok⟩, ⟨[8, 9, 10, 11], 3, 2, .canceled⟩, ⟨[12], 1, 5, .ok⟩], .closing,
      [1, 2, 3, 4, 5, 6, 7, 8, 9, 10, 12],
      [.opened 1 false 0, .wrote 1 true, .canceled 1, .canceled 1, .wrote 1 true]) := by decide

/-- the hypotheses of `cancel_is_safe` are met in a reachable state -/
example : ∃ s, Reachable s ∧ s.dead = none ∧ (step? s (.cancelWrite demoKey)).isSome = true := by
  refine ⟨(run? demoInit (demoOpen ++ demoBlock)).get (by decide),
    ⟨⟨4, 16, 4, 5⟩, [(0, 2)], [(7, 2)], [(7, 5)], [(0, 1)], demoOpen ++ demoBlock, (Option.some_get _).symm⟩, by decide, by decide⟩

example : stream_ids_partition [(0, 4), (1, 3), (2, 5)] [(0, 9), (1, 2)] =
    stream_ids_partition [(0, 4), (1, 3), (2, 5)] [(0, 9), (1, 2)] := rfl
example : ranges [(0, 4), (1, 3), (2, 5)] [(0, 9), (1, 2)] 0 = [⟨0, 0, 4⟩, ⟨1, 4, 2⟩, ⟨2, 6, 0⟩] := by decide
example : muxVerify ⟨4, 16, 4, 5⟩ [(0, 8192)] [(0, 1)] = true ∧ muxVerify ⟨4, 16, 4, 5⟩ [(0, 8192), (1, 1)] [] = false := by decide

end EraVerif.Props.C14
