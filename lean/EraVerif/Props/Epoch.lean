import EraVerif.Proofs.EpochNode

/-!
# Component `epoch` — the epoch boundary (used by C01 *agreement* and C03 *no equivocation across crashes*)

The proofs of C01 / C03 are about one epoch (a fixed committee). With a dynamic validator schedule two things keep
them valid across a boundary, and both live outside the replica's handlers:

* **who may vote on a block number** — `EngineManager::verify_payload(number, epoch)` refuses a new block whose
  number is not inside `[activation(epoch), expiration(epoch)]` (`epoch_for_block`); this is the only thing that
  stops the committee of epoch `e` from certifying block `expiration(e)+1`, which belongs to the committee of `e+1`
  (`queue_block` verifies a block against the epoch the block itself names, nothing else);
* **who may write the single durable replica-state slot** — `bft::Config::run` of epoch `e+1` stays passive until the
  last block of `e` is *persisted*; `StateMachine::start` discards a backup tagged with another epoch.

All theorems are about `Model/Epoch.lean` (a transcription of `manager.rs` 125-132, 183-213, 336-349, 424-435,
504-612; `bft/src/lib.rs` 43-70; `v2_chonky_bft/mod.rs` 83-117; `block.rs` 52-79; the gates of `proposal.rs`), for
**every** schedule map, **every** block number, and **every** state reachable by **any** event list (provider answers,
polls, spawns, starts, handler steps of any instance, queueing, persistence incl. side-channel jumps, teardown,
cancellation, crashes) whose provider answers agree with one activation table `T` (`Reach T P`).

`step` is the code with fix a8b4c3e (finding F13: `StateMachine::start` stops an instance whose epoch is older than the
stored replica state), `stepLegacy` the code before it. What remains assumed after the fix (`Benign`), why it cannot be
dropped (`late_write_counterexample`), and that the fix is load-bearing (`restart_at_boundary_counterexample`: the old
rule equivocates under the same assumption) is stated in part (b).
-/

namespace EraVerif.Props.Epoch
open EraVerif.Model.Epoch EraVerif.Proofs.Epoch

/-! ## (a) Who may vote on a block number -/

/-- **verify_payload_within_epoch.** If the epoch guard of `verify_payload(number, epoch)` passes on a schedule map
(any map with one entry per epoch — `BTreeMap`), the map has a schedule for that epoch and the number lies inside
that epoch's lifetime: `activation ≤ number`, and `number ≤ expiration` whenever the expiration is known. -/
theorem verify_payload_within_epoch {s : Sched} (hs : Sorted s) {number epoch : Nat}
    (h : verifyPayloadGuard s number epoch = true) :
    ∃ l, schedOf s epoch = some l ∧ l.act ≤ number ∧ (l.exp = none ∨ ∃ x, l.exp = some x ∧ number ≤ x) := by
  unfold verifyPayloadGuard at h
  have h' : epochForBlock s number = some epoch := by simpa using h
  obtain ⟨l, hl, hc⟩ := epochForBlock_some h'
  rw [covers_iff] at hc
  exact ⟨l, get_of_mem hs hl, hc.1, hc.2⟩

/-- non-vacuity: epoch 0 = blocks 3..5, epoch 1 = 6.. ; block 5 passes for epoch 0, block 6 does not -/
example :
    let s : Sched := [(0, ⟨3, some 5, 0⟩), (1, ⟨6, none, 1⟩)]
    Sorted s ∧ verifyPayloadGuard s 5 0 = true ∧ verifyPayloadGuard s 6 0 = false ∧
      verifyPayloadGuard s 6 1 = true ∧ verifyPayloadGuard s 2 0 = false := by
  refine ⟨by simp [Sorted], by decide, by decide, by decide, by decide⟩

/-- **epochs_disjoint_votes.** On a map whose epoch ranges are pairwise disjoint, (1) for every block number at
most one epoch passes the guard, and (2) an epoch passes it exactly for the numbers of its *own* range — so the
replicas of two different epochs (two committees) never both vote on a new block with the same number. -/
theorem epochs_disjoint_votes {s : Sched} (hs : Sorted s) (hd : Disjoint s) (number e1 e2 : Nat) :
    (verifyPayloadGuard s number e1 = true → verifyPayloadGuard s number e2 = true → e1 = e2) ∧
    (verifyPayloadGuard s number e1 = true ↔ ∃ l, schedOf s e1 = some l ∧ covers l number = true) := by
  constructor
  · intro h1 h2
    unfold verifyPayloadGuard at h1 h2
    have h1' : epochForBlock s number = some e1 := by simpa using h1
    have h2' : epochForBlock s number = some e2 := by simpa using h2
    rw [h1'] at h2'; cases h2'; rfl
  · constructor
    · intro h
      unfold verifyPayloadGuard at h
      have h' : epochForBlock s number = some e1 := by simpa using h
      obtain ⟨l, hl, hc⟩ := epochForBlock_some h'
      exact ⟨l, get_of_mem hs hl, hc⟩
    · rintro ⟨l, hl, hc⟩
      unfold verifyPayloadGuard
      rw [epochForBlock_of_covers hd hs (get_mem hl) hc]; simp

/-- The maps the schedule task of `EngineManagerRunner::run` can build: from the first `insert`, any number of
polling iterations at any heads, with any answers of `get_pending_validator_schedule` that activate after the head
they were asked at ("the block number at which it *will* become active"). -/
inductive RunnerReach : Runner → Prop
  | init (last : LastKind) (act com : Nat) : RunnerReach (runnerInit [] last act com)
  | poll {r r' : Runner} {head : Nat} {pending : Option (Nat × Nat)} {asked : Bool} :
      RunnerReach r → (∀ pact pcom, pending = some (pact, pcom) → head < pact) →
      runnerPoll r head pending = .ok r' asked → RunnerReach r'

/-- **runner_maps_disjoint.** Every map the schedule task builds from such answers has one entry per epoch,
consecutive epochs, strictly increasing activations, `expiration(e) = activation(e+1) - 1`, an open last epoch —
hence pairwise disjoint ranges (the hypothesis of `epochs_disjoint_votes`) — and the task never panics. -/
theorem runner_maps_disjoint {r : Runner} (h : RunnerReach r) :
    Sorted r.sched ∧ Disjoint r.sched ∧ Chain r.sched ∧
    ∀ head pending, (∀ pact pcom, pending = some (pact, pcom) → head < pact) → runnerPoll r head pending ≠ .panic := by
  have hinv : RunnerInv r := by
    induction h with
    | init last act com => exact runnerInit_inv last act com
    | poll _ hf hp ih =>
      obtain ⟨r'', asked', he, hi⟩ := runnerPoll_inv ih _ _ hf
      rw [hp] at he; cases he; exact hi
  refine ⟨hinv.chain.sorted, hinv.chain.disjoint, hinv.chain, ?_⟩
  intro head pending hf hp
  obtain ⟨r', asked, he, _⟩ := runnerPoll_inv hinv head pending hf
  rw [hp] at he; cases he

/-- non-vacuity: three epochs announced one after the other; the oldest entry is pruned by the third insert -/
example :
    let r0 := runnerInit [] .empty 3 0
    ∃ r1 r2 r3, runnerPoll r0 4 (some (6, 1)) = .ok r1 true ∧ runnerPoll r1 7 (some (9, 2)) = .ok r2 true ∧
      runnerPoll r2 10 (some (12, 3)) = .ok r3 true ∧
      r2.sched = [(0, ⟨3, some 5, 0⟩), (1, ⟨6, some 8, 1⟩), (2, ⟨9, none, 2⟩)] ∧
      r3.sched = [(1, ⟨6, some 8, 1⟩), (2, ⟨9, some 11, 2⟩), (3, ⟨12, none, 3⟩)] := by
  exact ⟨_, _, _, rfl, rfl, rfl, rfl, rfl⟩

/-- What the answers must *not* do: a pending schedule that activates at or below an older activation breaks the
shape (here epoch 1 gets the empty range 10..6, and epoch 2 — activation 7 — now passes the guard for block 10, which
epoch 1 passed before the poll), and one that activates at block 0 panics the task (`prev().unwrap()`). -/
example :
    (∃ r1 r2, runnerPoll (runnerInit [] .empty 5 0) 6 (some (10, 1)) = .ok r1 true ∧
      runnerPoll r1 11 (some (7, 2)) = .ok r2 true ∧
      verifyPayloadGuard r1.sched 10 1 = true ∧ verifyPayloadGuard r2.sched 10 2 = true ∧
      r2.sched = [(1, ⟨10, some 6, 1⟩), (2, ⟨7, none, 2⟩)]) ∧
    runnerPoll (runnerInit [] .empty 5 0) 6 (some (0, 1)) = .panic := by
  refine ⟨⟨_, _, rfl, rfl, ?_, ?_, ?_⟩, rfl⟩ <;> decide

/-- A node's map is a *view* of the activation table `T`: every entry activates at `T epoch` and a known
expiration is `T (epoch+1) - 1` (this is `SchedT`, an invariant of every reachable node: `node_map_is_view`). -/
theorem node_map_is_view {T : Nat → Nat} {legacy : Bool} {P : Node → Ev → Prop} {s : Node}
    (h : Reach T legacy P s) : SchedT T s.sched :=
  (InvA.reach h).schedT

/-- **epochs_disjoint_votes_two_nodes.** Two nodes whose maps are views of the same strictly increasing activation
table — possibly different views: one may know more epochs, or an expiration the other does not know yet — never let
replicas of two different epochs pass the guard for the same block number, **provided** a node that does not know
the expiration of its epoch yet is not asked about a number at or beyond the next activation (`informed`). -/
theorem epochs_disjoint_votes_two_nodes {T : Nat → Nat} (hm : Mono T) {s1 s2 : Sched}
    (h1 : SchedT T s1) (h2 : SchedT T s2) (hs1 : Sorted s1) (hs2 : Sorted s2) {number e1 e2 : Nat}
    (g1 : verifyPayloadGuard s1 number e1 = true) (g2 : verifyPayloadGuard s2 number e2 = true)
    (informed1 : ∀ l, schedOf s1 e1 = some l → l.exp = none → number < T (e1 + 1))
    (informed2 : ∀ l, schedOf s2 e2 = some l → l.exp = none → number < T (e2 + 1)) :
    e1 = e2 := by
  have range : ∀ {s : Sched}, SchedT T s → Sorted s → ∀ {e : Nat}, verifyPayloadGuard s number e = true →
      (∀ l, schedOf s e = some l → l.exp = none → number < T (e + 1)) → T e ≤ number ∧ number < T (e + 1) := by
    intro s hT hs e g inf
    obtain ⟨l, hl, ha, hx⟩ := verify_payload_within_epoch hs g
    have hv := hT (e, l) (get_mem hl)
    simp only at hv
    refine ⟨by omega, ?_⟩
    rcases hx with hx | ⟨x, hx, hnx⟩
    · exact inf l hl hx
    · have := hv.2 x hx; omega
  have r1 := range h1 hs1 g1 informed1
  have r2 := range h2 hs2 g2 informed2
  have a : e1 < e2 + 1 := hm.lt_of (by omega)
  have b : e2 < e1 + 1 := hm.lt_of (by omega)
  omega

/-- Without `informed` the statement is false on the transcription: a member of the old committee that has not
polled the pending schedule yet (expiration of epoch 0 unknown) passes the guard for block 6 in epoch 0, while a
node that has polled passes it for block 6 in epoch 1. (An assumption on the deployment: the pending schedule is
visible for longer than `fetch_schedule_interval` before it activates.) -/
example :
    let lagging : Sched := [(0, ⟨3, none, 0⟩)]
    let informed : Sched := [(0, ⟨3, some 5, 0⟩), (1, ⟨6, none, 1⟩)]
    verifyPayloadGuard lagging 6 0 = true ∧ verifyPayloadGuard informed 6 1 = true := by
  exact ⟨by decide, by decide⟩

/-- `queue_block` checks a block against the committee of the epoch the block **names**; the block number plays no
role. So a certificate of the old committee for a number beyond its epoch is stored if one exists — the vote guard
above is what prevents it from existing (given ≤ f faulty members of the old committee). -/
theorem queue_block_checks_claimed_epoch_only (s : Sched) (claimed signedBy : Nat) (payloadOk : Bool) :
    queueBlockVerify s claimed signedBy payloadOk = .ok ↔
      ∃ l, schedOf s claimed = some l ∧ payloadOk = true ∧ signedBy = l.com := by
  unfold queueBlockVerify
  cases h : schedOf s claimed with
  | none => simp
  | some l => cases payloadOk <;> simp <;> omega

/-! ## (b) Who may write the durable replica-state slot -/

/-- **slot_not_overwritten_before_persist.** In every reachable state — any interleaving, any crashes, no assumption
on the scheduling of the teardown, with or without fix a8b4c3e — if the durable slot holds a state of epoch `e+1`,
then the last block of epoch `e` (number `T (e+1) - 1`) is persisted; in the node's own terms: the expiration block it
knows for `e` is below `persisted().next()`. (This is what justifies the fix: an instance that finds a later epoch's
state in the slot knows that its own epoch is over.) -/
theorem slot_not_overwritten_before_persist {T : Nat → Nat} (hm : Mono T) {legacy : Bool} {P : Node → Ev → Prop}
    {s : Node} (h : Reach T legacy P s) {st : RState} (hslot : s.slot = some st) {e : Nat} (he : st.epoch = e + 1) :
    T (e + 1) - 1 < s.persistedNext ∧
    ∀ l x, schedOf s.sched e = some l → l.exp = some x → x < s.persistedNext := by
  have hI := InvA.reach h
  have hb := (hI.bkT _ _ (hI.slotBk st hslot)).2
  rw [he] at hb
  have : T e < T (e + 1) := hm e
  refine ⟨by omega, ?_⟩
  intro l x hl hx
  have := (hI.schedT (e, l) (get_mem hl)).2 x hx
  simp only at this
  omega

/-- The same for any epoch: whoever wrote the slot had the block before its epoch's first block persisted. -/
theorem slot_writer_epoch_begun {T : Nat → Nat} {legacy : Bool} {P : Node → Ev → Prop} {s : Node}
    (h : Reach T legacy P s) {st : RState} (hslot : s.slot = some st) :
    T st.epoch = 0 ∨ T st.epoch ≤ s.persistedNext :=
  ((InvA.reach h).bkT _ _ ((InvA.reach h).slotBk st hslot)).2

/-- Epoch 0 runs from a fresh node (view-0 timeout, then a vote in view 1), two blocks get persisted, the pending
schedule is polled, the bft instance of epoch 1 is spawned and waits; block 2 (the last of epoch 0) is queued. -/
def boundaryPrefix : List Ev :=
  [.runnerInit .empty 0 0, .spawn 0, .start 0, .timeout 0, .newView 0 1, .vote 0 1 (some 0) 11,
   .queue, .persist, .newView 0 2, .vote 0 2 (some 1) 12, .queue, .persist, .poll (some (3, 1)), .spawn 1,
   .newView 0 3, .vote 0 3 (some 2) 13, .queue]

/-- non-vacuity of `slot_not_overwritten_before_persist`: while block 2 is only queued the instance of epoch 1
cannot start (`start 1` is not enabled); once it is persisted it starts from the default state and writes
`(epoch 1, view 0, Timeout)` into the slot. -/
example :
    (runChecked T3 false false (Node.init none 0) (boundaryPrefix ++ [.start 1])).isNone = true ∧
    ((runChecked T3 false false (Node.init none 0) (boundaryPrefix ++ [.persist, .start 1, .timeout 1])).map
      fun s => (s.slot, s.persistedNext, s.inst 1)) =
      some (some ⟨1, 0, .timeout⟩, 3, .running 0 .timeout) := by
  exact ⟨by decide, by decide⟩

/-- Corollary of the invariants: while `e` is the current epoch, `StateMachine::start` for `e` (with the fix) resumes
from the last backup of `e`, or — if that backup is only the view-0 bootstrap state — possibly from the default state. -/
theorem restore_of_current_epoch {T : Nat → Nat} (hm : Mono T) {s : Node} (hI : InvB T s) {e : Nat} {st : RState}
    (hb : s.lastBackup e = some st) (hcur : s.persistedNext < T (e + 1)) :
    (s.slot = some st ∧ restore s.slot e = .running st.view st.phase) ∨
    (st.view = 0 ∧ st.phase = .timeout ∧ restore s.slot e = .running 0 .prepare) := by
  have hep := (hI.a.bkT e st hb).1
  -- no later epoch has written
  have nolater : ∀ b, s.slot = some b → ¬ e < b.epoch := by
    intro b hsb hlt
    have := (hI.a.bkT _ _ (hI.a.slotBk b hsb)).2
    have h1 : T (e + 1) ≤ T b.epoch := hm.le (by omega)
    have h2 : T e < T (e + 1) := hm e
    omega
  have same : ∀ b, s.slot = some b → b.epoch = e → b = st := by
    intro b hsb hbe
    have := hI.a.slotBk b hsb
    rw [hbe, hb] at this; cases this; rfl
  rcases hI.top e st hb with ⟨st', hs', hle⟩ | hboot
  · have heq : st'.epoch = e := by have := nolater st' hs'; omega
    have := same st' hs' heq
    subst this
    exact Or.inl ⟨hs', by simp [restore, stored, hs', heq]⟩
  · cases hsl : s.slot with
    | none =>
      right
      refine ⟨hboot.1, hboot.2, ?_⟩
      simp only [restore, stored, RState.default]
      by_cases h0 : 0 = e
      · simp [h0]
      · simp [h0]
    | some b =>
      by_cases hbe : b.epoch = e
      · have := same b hsl hbe
        subst this
        exact Or.inl ⟨rfl, by simp [restore, stored, hbe]⟩
      · right
        refine ⟨hboot.1, hboot.2, ?_⟩
        have := nolater b hsl
        simp [restore, stored, hbe, this, RState.default]

/-- **restart_keeps_votes_of_current_epoch_partial.**

Full statement: *after a crash at any point, if the node restarts in epoch `e` — the last block of `e` is not
persisted yet — the slot still holds the latest backup made in `e`, so the restarted instance of `e` resumes from
it and does not begin `e` at view 0 after votes were signed in `e`.*

Proved on the code with fix a8b4c3e for every reachable state of every event list (any interleaving, any crash
points, any number of epochs, **no promptness of the teardown**) under one remaining assumption, `Benign`: an instance
that has been *overtaken* — an instance of a later epoch made a durable write during its life, so its epoch is over and
its teardown is on the way — lands a durable write of its in-flight handler only while the later epochs' last backups
are still their view-0 bootstrap states. Then: if an instance of `e` ever made a backup and `persisted().next() <
T (e+1)`, the slot holds exactly the latest of those backups and `StateMachine::start` for `e` resumes from it — or
that backup is the bootstrap one `(0, Timeout)` and the instance may begin at the default state (which `run` turns
into `(0, Timeout)` again before anything else).

What is missing, exactly: the teardown of `Config::run` is a concurrent task; when the last block of `e` gets
persisted, the replica of `e` (typically inside `save_block`) and the instance of `e+1` (waiting in `Config::run`) are
woken by the same event, and nothing orders the old replica's next `backup_state` (its `start_new_view`) against the
new instance's writes. The runs of the real code show this late write regularly (`_stale_wrote` in harness cepoch) —
always over a bootstrap state, i.e. inside `Benign`. Outside `Benign` (the new instance has already voted when the
old write lands — the old task starved for several network round trips, or a storage that applies a write issued
before the cancellation) the statement is false: `late_write_counterexample`. -/
theorem restart_keeps_votes_of_current_epoch_partial {T : Nat → Nat} (hm : Mono T) {s : Node}
    (h : Reach T false Benign s) {e : Nat} {st : RState} (hb : s.lastBackup e = some st)
    (hcur : s.persistedNext < T (e + 1)) :
    st.epoch = e ∧
    ((s.slot = some st ∧ restore s.slot e = .running st.view st.phase) ∨
     (st.view = 0 ∧ st.phase = .timeout ∧ restore s.slot e = .running 0 .prepare)) :=
  ⟨((InvB.reach h).a.bkT e st hb).1, restore_of_current_epoch hm (InvB.reach h) hb hcur⟩

/-- **restart_view_covers_signed_partial.** Under `Benign`, for everything the node ever signed in an epoch that is
still current: a (re)start of that epoch's instance puts it at a view / phase that records the signature (a later
view, or the same view and a phase other than `Prepare`) — or the signature is a view-0 timeout vote and the
instance begins at the default state (it signs the same view-0 timeout again, nothing else is possible at view 0). -/
theorem restart_view_covers_signed_partial {T : Nat → Nat} (hm : Mono T) {s : Node}
    (h : Reach T false Benign s) {sg : Signed} (hsg : sg ∈ s.signed) (hcur : s.persistedNext < T (sg.epoch + 1)) :
    ∃ v p, restore s.slot sg.epoch = .running v p ∧
      ((sg.view < v ∨ (sg.view = v ∧ p ≠ .prepare)) ∨ (sg.view = 0 ∧ v = 0 ∧ p = .prepare)) := by
  have hI := InvB.reach h
  obtain ⟨st, hst, hc⟩ := hI.cover sg hsg
  rcases restore_of_current_epoch hm hI hst hcur with ⟨_, hr⟩ | ⟨hv, hp, hr⟩
  · exact ⟨st.view, st.phase, hr, Or.inl hc⟩
  · refine ⟨0, .prepare, hr, Or.inr ⟨?_, rfl, rfl⟩⟩
    rw [hv] at hc
    rcases hc with hc | hc <;> omega

/-- **no_equivocation_across_epochs_partial.** Under `Benign`, over all process lives and all epochs, with the teardown
scheduled in any way: within every epoch the views of the votes the node signs never go back, and a commit vote is
for a view strictly above every view of that epoch it signed anything for before (so: at most one commit vote per
(epoch, view), none at or below a view already timed out). This is C03's statement lifted over epoch boundaries. -/
theorem no_equivocation_across_epochs_partial {T : Nat → Nat} {s : Node} (h : Reach T false Benign s) :
    s.signed.Pairwise (fun newer older =>
      older.epoch = newer.epoch → older.view ≤ newer.view ∧ (newer.kind = .commit → older.view < newer.view)) :=
  (InvB.reach h).order

/-- corollary: a commit vote and any other vote signed later or earlier for the same epoch and view cannot both exist
with the commit vote being the later one -/
theorem one_commit_per_view_across_epochs_partial {T : Nat → Nat} {s : Node}
    (h : Reach T false Benign s) {i j : Nat} (hij : i < j) {a b : Signed}
    (ha : s.signed[i]? = some a) (hb : s.signed[j]? = some b)
    (hka : a.kind = .commit) (he : a.epoch = b.epoch) : a.view ≠ b.view := by
  have hp := no_equivocation_across_epochs_partial h
  rw [List.pairwise_iff_getElem] at hp
  obtain ⟨hi, hai⟩ := List.getElem?_eq_some_iff.mp ha
  obtain ⟨hj, hbj⟩ := List.getElem?_eq_some_iff.mp hb
  have := hp i j hi hj hij
  rw [hai, hbj] at this
  have h2 := (this he.symm).2 hka
  omega

/-- The crash of the C03 scenario: the node votes for the last block of epoch 0 in view 3, the block is queued but
not persisted, the process dies. -/
def crashBeforePersist : List Ev := boundaryPrefix ++ [.crash, .runnerInit (.final 0) 0 0, .spawn 0, .start 0]

/-- non-vacuity (no writer is ever overtaken in this run, so `Benign` holds): after the crash the node is still in
epoch 0 (`persisted().next() = 2 < 3`), the slot still holds `(0, 3, Commit)` and the restarted instance resumes
there, so a second proposal for view 3 is `Old`. -/
example :
    ((runChecked T3 false true (Node.init none 0) crashBeforePersist).map
      fun s => (s.slot, s.persistedNext, s.inst 0, s.lastBackup 0)) =
      some (some ⟨0, 3, .commit⟩, 2, .running 3 .commit, some ⟨0, 3, .commit⟩) ∧
    (runChecked T3 false true (Node.init none 0) (crashBeforePersist ++ [.vote 0 3 (some 2) 99])).isNone = true := by
  exact ⟨by decide, by decide⟩

/-- Restart at the boundary (finding F13): the last block of epoch 0 is persisted, the instance of epoch 1 has voted
in view 1 (`tag 7`), the process dies before block 3 is persisted. The new process finds `persisted().last` = block 2
with a certificate of epoch 0, so the schedule task starts at `cur_epoch = 0` and the executor spawns the bft instance
of epoch 0 first; its expiration is not known before the first poll returns, `Config::run` only waits for the block
*before* the epoch. Before the fix `StateMachine::start` discards the backup of epoch 1 and the view-0 bootstrap of
`run` writes `(0, 0, Timeout)` over `(1, 1, Commit)`; the instance of epoch 1 then starts from the default state and
votes for a second proposal in view 1 (`tag 8`). -/
def restartAtBoundary : List Ev :=
  boundaryPrefix ++
  [.persist, .teardown 0, .start 1, .timeout 1, .newView 1 1, .vote 1 1 (some 3) 7,
   .crash,
   .runnerInit (.final 0) 0 0, .spawn 0, .start 0, .timeout 0,
   .poll (some (3, 1)), .teardown 0, .spawn 1, .start 1, .vote 1 1 (some 3) 8]

theorem two_commits_of_run {T : Nat → Nat} {legacy fresh : Bool} {evs : List Ev} {P : Node → Ev → Prop}
    (hP : ∀ s ev, fresh = true → Benign s ev → P s ev) (hP' : fresh = false → ∀ s ev, P s ev)
    (hsome : (runChecked T legacy fresh (Node.init none 0) evs).isSome = true)
    (h8 : ((runChecked T legacy fresh (Node.init none 0) evs).map fun s => s.signed.head?) = some (some ⟨1, 1, .commit, 8⟩))
    (h7 : ((runChecked T legacy fresh (Node.init none 0) evs).map fun s => decide ((⟨1, 1, .commit, 7⟩ : Signed) ∈ s.signed)) = some true)
    (hT : ∀ fb c, (none : Option (Nat × Nat)) = some (fb, c) → fb = T 0) :
    ∃ s, Reach T legacy P s ∧ (⟨1, 1, .commit, 7⟩ : Signed) ∈ s.signed ∧ (⟨1, 1, .commit, 8⟩ : Signed) ∈ s.signed := by
  cases hr : runChecked T legacy fresh (Node.init none 0) evs with
  | none => rw [hr] at hsome; cases hsome
  | some s =>
    rw [hr] at h8 h7
    simp only [Option.map_some, Option.some.injEq] at h8 h7
    refine ⟨s, reach_of_runChecked hP hP' (Reach.init none 0 hT) hr, by simpa using h7, ?_⟩
    cases hsg : s.signed with
    | nil => rw [hsg] at h8; cases h8
    | cons a t => rw [hsg] at h8; simp at h8; subst h8; simp

/-- **restart_at_boundary_counterexample (the fix is load-bearing).** On the code BEFORE fix a8b4c3e the statements
above are false even under `Benign`: `restartAtBoundary` is a run of `stepLegacy` in which no writer has been overtaken
(every event satisfies `Benign`) and every provider answer agrees with `T3`, and at its end the node has signed two
different commit votes for view 1 of epoch 1. On the code WITH the fix the same event list is not a run: the instance of
epoch 0 of the second life stops in `start` (its `timeout 0` is not enabled). -/
theorem restart_at_boundary_counterexample :
    (∃ s, Reach T3 true Benign s ∧
      (⟨1, 1, .commit, 7⟩ : Signed) ∈ s.signed ∧ (⟨1, 1, .commit, 8⟩ : Signed) ∈ s.signed) ∧
    (runChecked T3 false false (Node.init none 0) restartAtBoundary).isNone = true ∧
    ((runChecked T3 false false (Node.init none 0) (restartAtBoundary.take 27)).map fun s => (s.inst 0, s.slot)) =
      some (.done, some ⟨1, 1, .commit⟩) :=
  ⟨two_commits_of_run (legacy := true) (fresh := true) (evs := restartAtBoundary) (fun _ _ _ h => h)
      (fun h => by cases h) (by decide) (by decide) (by decide) (by simp),
   by decide, by decide⟩

/-- The in-flight late write: the last block of epoch 0 gets persisted while the replica of epoch 0 is inside
`save_block`; the instance of epoch 1 starts, bootstraps and votes in view 1 (`tag 7`) BEFORE the old replica's
`start_new_view` makes `(0, 4, Prepare)` durable (`newView 0 4`, the only event violating `Benign`); the process dies.
The next life restores epoch 0 at `(4, Prepare)` (torn down at once), epoch 1 finds a state of an EARLIER epoch in the
slot, starts from the default state and votes for a second proposal in view 1 (`tag 8`). -/
def lateWrite : List Ev :=
  boundaryPrefix ++
  [.persist, .start 1, .timeout 1, .newView 1 1, .vote 1 1 (some 3) 7, .newView 0 4,
   .crash,
   .runnerInit (.final 0) 0 0, .spawn 0, .start 0, .poll (some (3, 1)), .teardown 0, .spawn 1, .start 1,
   .vote 1 1 (some 3) 8]

/-- **late_write_counterexample (`Benign` cannot be dropped).** On the code with the fix, without `Benign`, the
statements are still false: `lateWrite` is a run of `step` (every provider answer agreeing with `T3`) that ends with two
different commit votes for view 1 of epoch 1; its only event outside `Benign` is the late `newView 0 4` (the run up to
it satisfies the stronger "no writer overtaken", the run including it does not). -/
theorem late_write_counterexample :
    (∃ s, Reach T3 false (fun _ _ => True) s ∧
      (⟨1, 1, .commit, 7⟩ : Signed) ∈ s.signed ∧ (⟨1, 1, .commit, 8⟩ : Signed) ∈ s.signed) ∧
    (runChecked T3 false true (Node.init none 0) (lateWrite.take 22)).isSome = true ∧
    (runChecked T3 false true (Node.init none 0) (lateWrite.take 23)).isNone = true ∧
    ((runChecked T3 false false (Node.init none 0) (lateWrite.take 22)).map
      fun s => (s.overtaken 0, s.lastBackup 1)) = some (true, some ⟨1, 1, .commit⟩) :=
  ⟨two_commits_of_run (legacy := false) (fresh := false) (evs := lateWrite) (fun _ _ h => by cases h)
      (fun _ _ _ => trivial) (by decide) (by decide) (by decide) (by simp),
   by decide, by decide, by decide⟩

end EraVerif.Props.Epoch
