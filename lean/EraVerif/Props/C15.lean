import EraVerif.Proofs.Limiter
import EraVerif.Proofs.RpcLimit

/-!
# C15 — Rate and concurrency limits are enforced on every RPC stream

Part A (this section): the rate limiter `zksync_concurrency::limiter::Limiter`, modelled in
`Model/Limiter.lean` (a transcription of `limiter/mod.rs`; one model step = one poll of an `acquire()`
future / one `Permit::drop` / one future drop / one clock advance).

Quantifier of every theorem: **every** configuration with `burst ≤ usize::MAX`, **every** finite sequence of
`acquire / poll / cancel / drop / advance` operations with arbitrary ids, permit counts, hold times and clock
advances, started from `Limiter::new`. Nothing is bounded.

The runtime facts the model takes from tokio (FIFO hand-over of `sync::Mutex`, `watch::wait_for` re-evaluating
its predicate at every poll, `ManualClock` sleeps) are assumptions, exercised by the correspondence run.
-/

namespace EraVerif.Props.C15
open EraVerif.Model.Limiter EraVerif.Proofs.Limiter

/-- The state reached from `Limiter::new` by a sequence of operations. -/
abbrev final (cfg : Cfg) (ops : List Op) : State := (run cfg (init cfg) ops).1

/-- Sum of the permits granted at instants in the closed window `[a, a+T]`, read off the **results** of the
operations (time = sum of the clock advances so far). -/
def grantedInWindow (cfg : Cfg) (ops : List Op) (a T : Nat) : Nat :=
  wsum a (a + T) (obsGrants cfg (init cfg) ops)

/-- Sum of the permits consumed (dropped `Permit`s) at instants in `[a, a+T]`. -/
def consumedInWindow (cfg : Cfg) (ops : List Op) (a T : Nat) : Nat :=
  wsum a (a + T) (final cfg ops).dlog

/-! ## The struct invariant `0 <= reserved <= permits <= burst` -/

/-- `state_inv`: in every reachable state `reserved ≤ permits ≤ burst`, and `reserved` is exactly the sum of
the live `Permit`s. -/
theorem state_inv (cfg : Cfg) (hb : cfg.burst ≤ USIZE_MAX) (ops : List Op) :
    (final cfg ops).reserved ≤ (final cfg ops).permits ∧ (final cfg ops).permits ≤ cfg.burst ∧
    (((final cfg ops).held.map Prod.snd).sum = (final cfg ops).reserved) := by
  have h := inv_run hb ops _ (inv_init cfg)
  exact ⟨h.res_le, h.per_le, h.held_sum⟩

/-- `Permit::drop` never underflows `reserved`/`permits` and never divides by a zero `refresh`
("No overflow, since both have been incremented when permit was constructed"). -/
theorem drop_never_underflows (cfg : Cfg) (hb : cfg.burst ≤ USIZE_MAX) (ops : List Op) :
    Res.panic ∉ (run cfg (init cfg) ops).2 :=
  run_no_panic hb ops _ (inv_init cfg)

/-! ## The window bound -/

/-- **window_bound.** With burst `b` and a positive refresh period `r`, the permits granted in any closed time
window `[a, a+T]` number at most `b + ⌊T/r⌋ + 1` (this is ≤ the `b + T/r + 1` of the property text). -/
theorem window_bound (cfg : Cfg) (hb : cfg.burst ≤ USIZE_MAX) (hr : 0 < cfg.refresh)
    (ops : List Op) (a T : Nat) :
    grantedInWindow cfg ops a T ≤ cfg.burst + T / cfg.refresh.toNat + 1 := by
  have hr' : 0 < rOf cfg := by unfold rOf; omega
  have hq := QW_grants_run hb (Nat.le_add_right a T) ops _ (inv_init cfg) (by
    simpa [init] using QW_init cfg a (a + T) (Nat.le_add_right a T))
  have := hq.bound hr'
  have e := glog_run cfg ops (init cfg)
  simp only [init, List.nil_append] at e
  unfold grantedInWindow
  rw [← show (run cfg (init cfg) ops).1.glog = obsGrants cfg (init cfg) ops from e]
  exact this

/-- The same bound for consumption: the permits whose `Permit` is dropped inside `[a, a+T]`. (This is the
form the per-connection half uses: a transient stream is handed over when its permit is dropped.) -/
theorem consumption_window_bound (cfg : Cfg) (hb : cfg.burst ≤ USIZE_MAX) (hr : 0 < cfg.refresh)
    (ops : List Op) (a T : Nat) :
    consumedInWindow cfg ops a T ≤ cfg.burst + T / cfg.refresh.toNat + 1 := by
  have hr' : 0 < rOf cfg := by unfold rOf; omega
  have hq := QW_drops_run hb (Nat.le_add_right a T) ops _ (inv_init cfg) (by
    simpa [init] using QW_init cfg a (a + T) (Nat.le_add_right a T))
  exact hq.bound hr'

/-- The constant is exact: burst 1, refresh 10 ns, window `[9, 20]` (T = 11) sees 3 = 1 + ⌊11/10⌋ + 1 grants. -/
theorem window_bound_tight :
    let cfg : Cfg := ⟨1, 10⟩
    grantedInWindow cfg
      [.advance 9, .acquire 0 1, .drop 0, .advance 1, .acquire 1 1, .drop 1, .advance 10, .acquire 2 1] 9 11
      = cfg.burst + 11 / cfg.refresh.toNat + 1 := by decide

/-! ## Arrival order -/

/-- **fifo.** The ids in grant order, followed by the ids still waiting in queue order, form a subsequence of
the ids in arrival order (`arrivalsOf` = the `acquire` operations with `n ≤ burst`, in order): nobody is served
before a caller that arrived earlier and is still waiting. -/
theorem fifo (cfg : Cfg) (hb : cfg.burst ≤ USIZE_MAX) (ops : List Op) :
    ((obsGrants cfg (init cfg) ops).map (·.id) ++ (final cfg ops).queue.map (·.id)).Sublist
      (arrivalsOf cfg ops) := by
  have h := fifo_run hb ops _ (inv_init cfg) (by simp [Fifo, init])
  unfold Fifo at h
  have e := glog_run cfg ops (init cfg)
  have e2 := arrivals_run cfg ops (init cfg)
  simp only [init, List.nil_append] at e e2
  rw [show (run cfg (init cfg) ops).1.glog = obsGrants cfg (init cfg) ops from e,
      show (run cfg (init cfg) ops).1.arrivals = arrivalsOf cfg ops from e2] at h
  exact h

/-- A poll returns a permit only to the caller at the head of the queue, and for the count it asked for. -/
theorem served_is_queue_head (cfg : Cfg) (s : State) (id n : Nat)
    (hs : s.stuck.contains id = false)
    (h : (step cfg s (.poll id)).2 = .granted n) :
    ∃ w rest, s.queue = w :: rest ∧ w.id = id ∧ w.n = n := by
  simp only [step, hs] at h
  exact granted_is_head h

/-! ## Cancellation -/

/-- **cancel_consumes_nothing.** Dropping a pending `acquire()` future — whichever await point it is parked
at — leaves `refresh_ticks`, `permits`, `reserved`, the live permits and the accounting untouched; only the
wait queue loses that caller. -/
theorem cancel_consumes_nothing (cfg : Cfg) (s : State) (id : Nat) :
    CoreEq s (step cfg s (.cancel id)).1 ∧
    ((step cfg s (.cancel id)).1.queue = s.queue.eraseP (fun w => w.id = id) ∨
     (step cfg s (.cancel id)).1.queue = s.queue) := by
  refine ⟨core_step _ (.inr (.inr ⟨id, rfl⟩)) (by
    intro n; simp only [step]; split
    · simp
    · split <;> simp), ?_⟩
  simp only [step]
  split
  · exact .inr rfl
  · split
    · exact .inl rfl
    · exact .inr rfl

/-- The whole life of a wait that is never served (first poll, any number of further polls, cancellation —
interleaved with other callers' unserved polls) consumes and reserves nothing. -/
theorem unserved_waits_consume_nothing (cfg : Cfg) (ops : List Op)
    (hops : ∀ op ∈ ops, (∃ id n, op = .acquire id n) ∨ (∃ id, op = .poll id) ∨ (∃ id, op = .cancel id)) :
    ∀ s, (∀ r ∈ (run cfg s ops).2, ∀ n, r ≠ .granted n) → CoreEq s (run cfg s ops).1 := by
  induction ops with
  | nil => intro s _; exact CoreEq.rfl'
  | cons op ops ih =>
    intro s hres
    simp only [run] at *
    have h1 := core_step (cfg := cfg) (s := s) op (hops op (by simp)) (fun n => hres _ (by simp) n)
    have h2 := ih (fun o ho => hops o (by simp [ho])) (step cfg s op).1
      (fun r hr n => hres r (by simp [hr]) n)
    exact ⟨h2.ticks.trans h1.ticks, h2.permits.trans h1.permits, h2.reserved.trans h1.reserved,
      h2.now.trans h1.now, h2.held.trans h1.held, h2.granted.trans h1.granted, h2.dropped.trans h1.dropped,
      h2.glog.trans h1.glog, h2.dlog.trans h1.dlog⟩

/-! ## Infinite rate -/

/-- **inf_rate_no_limit.** With `refresh ≤ 0` every request of at most `burst` permits is granted at its
first poll, with an empty `Permit`, and the counters do not move. -/
theorem inf_rate_no_limit (cfg : Cfg) (hr : cfg.refresh ≤ 0) (s : State) (id n : Nat) (hn : n ≤ cfg.burst) :
    (step cfg s (.acquire id n)).2 = .granted 0 ∧
    (step cfg s (.acquire id n)).1.permits = s.permits ∧
    (step cfg s (.acquire id n)).1.reserved = s.reserved ∧
    (step cfg s (.acquire id n)).1.queue = s.queue := by
  have : ¬ cfg.burst < n := by omega
  simp [step, this, hr]

/-- A request for more than `burst` permits is never served (it parks until cancelled). -/
theorem over_burst_never_served (cfg : Cfg) (s : State) (id n : Nat) (hn : cfg.burst < n) :
    (step cfg s (.acquire id n)).2 = .pending ∧ CoreEq s (step cfg s (.acquire id n)).1 := by
  refine ⟨by simp [step, hn], ?_⟩
  simp only [step, hn, if_true]
  exact ⟨rfl, rfl, rfl, rfl, rfl, rfl, rfl, rfl, rfl⟩

/-! ## Non-vacuity -/

/-- the hypotheses of `window_bound` are met by the shipped default `get_block_rate` (burst 10, 100 ms) -/
example : (⟨10, 100000000⟩ : Cfg).burst ≤ USIZE_MAX ∧ 0 < (⟨10, 100000000⟩ : Cfg).refresh := by decide

/-- a run in which a caller waits, is overtaken by nobody, a cancelled wait leaves no trace, and the third
grant comes exactly one refresh after the first consumption -/
example :
    (run ⟨2, 10⟩ (init ⟨2, 10⟩)
      [.acquire 0 2, .acquire 1 1, .acquire 2 1, .cancel 1, .poll 2, .advance 3, .drop 0, .poll 2, .advance 6,
       .poll 2, .advance 1, .poll 2]).2
      = [.granted 2, .pending, .pending, .cancelled, .pending, .advanced, .dropped, .pending, .advanced,
         .pending, .advanced, .granted 1] := by decide


/-!
# Part B — per connection and RPC kind (composition)

`Model/RpcLimit.lean`: the `n = min(INFLIGHT, peer's max_streams)` reusable streams of one capability on one
connection share one limiter; every loop iteration of a stream takes one permit before the OPEN exchange
(`reusable_stream.rs:277`) and drops it when the transient stream is handed over; the server reserves one
stream per call (`rpc/mod.rs:197-200`) and invokes the handler once per established stream. The remote side
and the local scheduler are arbitrary: the theorems hold for **every** event sequence.

That the real `ReusableStream::run` / `Server::serve` refine this model is compared by the correspondence run
only for the ping server (see the registry entry); it is not proved.
-/

section PartB
open EraVerif.Model.RpcLimit (Kind Event)
open EraVerif.Proofs.RpcLimit

/-- The state reached on a fresh connection with `n` reusable streams. -/
abbrev rfinal (cfg : Cfg) (kind : Kind) (n : Nat) (evs : List Event) : EraVerif.Model.RpcLimit.State :=
  EraVerif.Model.RpcLimit.run cfg kind (EraVerif.Model.RpcLimit.init cfg n) evs

/-- **opens_rate_limited.** The OPEN frames a node sends for one capability of one connection inside any
window `[a, a+T]` number at most `burst + ⌊T/refresh⌋ + 1`, whatever the peer does (one limiter permit per
OPEN, the limiter shared by the capability's streams). -/
theorem opens_rate_limited (cfg : Cfg) (hb : cfg.burst ≤ USIZE_MAX) (hr : 0 < cfg.refresh) (kind : Kind)
    (n : Nat) (evs : List Event) (a T : Nat) :
    wsum a (a + T) (rfinal cfg kind n evs).sent ≤ cfg.burst + T / cfg.refresh.toNat + 1 :=
  (winv_reach cfg hb hr kind n evs a T).qs.bound (by unfold rOf; omega)

/-- The transient streams established (handed to a call) inside any window obey the same bound. -/
theorem established_rate_limited (cfg : Cfg) (hb : cfg.burst ≤ USIZE_MAX) (hr : 0 < cfg.refresh) (kind : Kind)
    (n : Nat) (evs : List Event) (a T : Nat) :
    wsum a (a + T) (rfinal cfg kind n evs).lim.dlog ≤ cfg.burst + T / cfg.refresh.toNat + 1 :=
  (winv_reach cfg hb hr kind n evs a T).qd.bound (by unfold rOf; omega)

/-- **requests_started_window_bound.** The handler invocations (requests a node starts serving) for one RPC
kind on one connection inside any window `[a, a+T]` number at most
`n + burst + ⌊T/refresh⌋ + 1`, `n ≤ INFLIGHT` being the number of reusable streams: at most `n` calls whose
stream was opened before the window, plus the streams opened inside it. -/
theorem requests_started_window_bound (cfg : Cfg) (hb : cfg.burst ≤ USIZE_MAX) (hr : 0 < cfg.refresh)
    (kind : Kind) (n : Nat) (evs : List Event) (a T : Nat) :
    hWin a (a + T) (rfinal cfg kind n evs).handled ≤ n + cfg.burst + T / cfg.refresh.toNat + 1 := by
  have w : WInv cfg a (a + T) (rfinal cfg kind n evs) := winv_reach cfg hb hr kind n evs a T
  have h1 := w.hn
  have h2 := w.ho
  have h3 := (w.qd.bound (by unfold rOf; omega) : _ ≤ cfg.burst + T / rOf cfg + 1)
  have h4 := streams_length_run hb hr kind evs _ (rinv_init cfg kind n)
  have h5 : (EraVerif.Model.RpcLimit.init cfg n).streams.length = n := by simp [EraVerif.Model.RpcLimit.init]
  have h6 := hWin_split a (a + T) (rfinal cfg kind n evs).handled
  have e : rOf cfg = cfg.refresh.toNat := rfl
  rw [e] at h3
  have h4' : (rfinal cfg kind n evs).streams.length = n := h4.trans h5
  omega

/-- **inflight_le_INFLIGHT.** At any moment at most `min(INFLIGHT, peer's max_streams) ≤ INFLIGHT` handlers of
one RPC kind run on one connection (a call occupies a reusable stream from OPEN to drop, and there are only
that many streams). Holds for every rate, including the infinite one. -/
theorem inflight_le_INFLIGHT (cfg : Cfg) (hb : cfg.burst ≤ USIZE_MAX) (hr : 0 < cfg.refresh) (kind : Kind)
    (inflight peerMax : Nat) (evs : List Event) :
    (rfinal cfg kind (min inflight peerMax) evs).streams.countP isServing ≤ inflight := by
  have h4 := streams_length_run hb hr kind evs _ (rinv_init cfg kind (min inflight peerMax))
  have h5 : (EraVerif.Model.RpcLimit.init cfg (min inflight peerMax)).streams.length = min inflight peerMax := by
    simp [EraVerif.Model.RpcLimit.init]
  have := List.countP_le_length (p := isServing) (l := (rfinal cfg kind (min inflight peerMax) evs).streams)
  have h4' : (rfinal cfg kind (min inflight peerMax) evs).streams.length = min inflight peerMax := h4.trans h5
  omega

/-- **handler_only_after_open.** Every handler invocation used up a transient stream that had been established
(its permit taken and consumed) and not used by another call: invocations + streams still idle ≤ streams
established so far. -/
theorem handler_only_after_open (cfg : Cfg) (hb : cfg.burst ≤ USIZE_MAX) (hr : 0 < cfg.refresh) (kind : Kind)
    (n : Nat) (evs : List Event) :
    (rfinal cfg kind n evs).handled.length + (rfinal cfg kind n evs).streams.countP isIdle
      ≤ (rfinal cfg kind n evs).lim.dropped :=
  (rinv_reach cfg hb hr kind n evs).handled_le

/-- **one_permit_per_open.** Every OPEN frame was sent under its own limiter permit: consumed permits ≤ OPENs
sent ≤ permits granted, and the permits currently reserved are exactly the streams in the OPEN exchange. -/
theorem one_permit_per_open (cfg : Cfg) (hb : cfg.burst ≤ USIZE_MAX) (hr : 0 < cfg.refresh) (kind : Kind)
    (n : Nat) (evs : List Event) :
    (rfinal cfg kind n evs).lim.dropped ≤ (rfinal cfg kind n evs).sent.length ∧
    (rfinal cfg kind n evs).sent.length ≤ (rfinal cfg kind n evs).lim.granted ∧
    (rfinal cfg kind n evs).lim.reserved = (rfinal cfg kind n evs).streams.countP isGranted := by
  have h : RInv cfg kind (rfinal cfg kind n evs) := rinv_reach cfg hb hr kind n evs
  exact ⟨(sent_le_granted h).1, (sent_le_granted h).2, h.res_count⟩

/-- non-vacuity: a server stream (CONNECT kind) of a connection with one ping stream goes through a whole
call; the handler is invoked at t = 7 on the stream established at t = 5 -/
example :
    (rfinal ⟨2, 10⟩ .connect 1
      [.startAcquire 0, .exchange 0, .exchange 0, .exchange 0, .tick 5, .peerOpen 0, .exchange 0, .tick 2,
       .request 0]).handled = [⟨7, 0, 5⟩] := by decide

/-- non-vacuity: with burst 1 the second OPEN of the same stream has to wait for the refill -/
example :
    ((rfinal ⟨1, 10⟩ .accept 1
      [.peerOpen 0, .startAcquire 0, .exchange 0, .exchange 0, .exchange 0, .request 0, .finish 0,
       .peerOpen 0, .startAcquire 0, .pollAcquire 0, .tick 9, .pollAcquire 0, .exchange 0, .tick 1,
       .pollAcquire 0, .exchange 0, .exchange 0, .exchange 0]).sent.map (·.t)) = [0, 10] := by decide

end PartB

end EraVerif.Props.C15
