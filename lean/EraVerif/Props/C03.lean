import EraVerif.Model.ReplicaSys
import EraVerif.Proofs.Crash

/-!
# C03 — No vote equivocation by a correct validator, even across crashes

Statement. A correct validator never signs two different commit votes for the same view, never signs a commit vote
for a view in which (or before which) it has already signed a timeout vote, and the views of the votes it signs
never go backwards. This remains true if the process is killed at any instant and restarted from its durable state,
because nothing it signs leaves the node before the state that records it is durable.

All theorems are over the executable replica `Model/Replica.lean` (compared step by step, ordered effect list
included, with the real `StateMachine` by the correspondence run) composed with the crash system of
`Model/ReplicaSys.lean`: the effects of a step are applied one at a time, the process may die after **any** prefix
of them (`SysStep.crash`, every `k`: before the durable write, right after it, between the write and each
broadcast) or between two steps (`SysStep.restart`) and then restarts from the last durable state; `sent` is
everything that left the node over all incarnations. Quantifier: every configuration (`cfg : RCfg`: any committee,
any leader schedule), every `Reachable cfg s` — any number of steps, any interleaving of messages (valid, invalid,
replayed, from an equivocating leader: the inputs are arbitrary `Signed` values), timer ticks, environment answers
(`Env`) and crashes.

The only hypothesis on inputs is `InputOk` (in the definition of `SysStep`): an incoming *vote* (not a proposal,
not a new-view) is not for the view number `2^64 - 1`, the one value at which `ViewNumber::next` wraps; a quorum of
such votes cannot exist while at most f weight is faulty.
-/

namespace EraVerif.Props.C03
open EraVerif.Model
open EraVerif.Proofs.Crash (send_decomp quiet_of_silent inv_of_reachable core_prefix)

/-! ## 1. Nothing leaves the node before the state that records it is durable -/

/-- **The durable write comes first.** For every state of the replica, every environment and every input, in the
ordered effect list of the step:

* whatever precedes the broadcast of a commit vote `v` ends with `persist d` — **immediately** before the send —
  where `d` is in phase `commit` of `v`'s view with `highVote = some v`;
* whatever precedes the broadcast of a timeout vote `t` ends with `persist d` followed by sends only, where `d` is in
  phase `timeout` of `t`'s view and has the high vote that `t` reports;
* whatever precedes the broadcast of a new-view message ends with `persist d` followed by sends only.

In each case nothing before that `persist` in the step writes or sends: it is the single durable write
of the step, and every message of the step comes after it. -/
theorem effects_persist_before_send (cfg : RCfg) (r : Replica) (e : Env) (inp : Input) :
    (∀ p q v, (step cfg r e inp).effs = p ++ Effect.send (Msg.commit v) :: q →
      ∃ pre d, p = pre ++ [Effect.persist d] ∧ (∀ x ∈ pre, (∀ m, x ≠ Effect.send m) ∧ ∀ d', x ≠ Effect.persist d') ∧
        d.view = v.view.number ∧ d.phase = Phase.commit ∧ d.highVote = some v) ∧
    (∀ p q t, (step cfg r e inp).effs = p ++ Effect.send (Msg.timeout t) :: q →
      ∃ (pre : List Effect) (d : Durable) (sends : List Msg), p = pre ++ Effect.persist d :: sends.map Effect.send ∧ (∀ x ∈ pre, (∀ m, x ≠ Effect.send m) ∧ ∀ d', x ≠ Effect.persist d') ∧
        d.view = t.view.number ∧ d.phase = Phase.timeout ∧ d.highVote = t.highVote) ∧
    (∀ p q j, (step cfg r e inp).effs = p ++ Effect.send (Msg.newView j) :: q →
      ∃ (pre : List Effect) (d : Durable) (sends : List Msg), p = pre ++ Effect.persist d :: sends.map Effect.send ∧ (∀ x ∈ pre, (∀ m, x ≠ Effect.send m) ∧ ∀ d', x ≠ Effect.persist d')) := by
  refine ⟨?_, ?_, ?_⟩
  · intro p q v h
    obtain ⟨pre, d, ms1, hp, hpre, hm, hc⟩ := send_decomp cfg r e inp h
    have := hc v rfl
    subst this
    exact ⟨pre, d, hp, fun x hx => quiet_of_silent (hpre x hx), hm.2.2.symm, hm.1, hm.2.1⟩
  · intro p q t h
    obtain ⟨pre, d, ms1, hp, hpre, hm, _⟩ := send_decomp cfg r e inp h
    exact ⟨pre, d, ms1, hp, fun x hx => quiet_of_silent (hpre x hx), hm.2.1.symm, hm.1, hm.2.2.symm⟩
  · intro p q j h
    obtain ⟨pre, d, ms1, hp, hpre, _, _⟩ := send_decomp cfg r e inp h
    exact ⟨pre, d, ms1, hp, fun x hx => quiet_of_silent (hpre x hx)⟩

/-- A step never broadcasts a vote without a durable write in the same step (corollary, membership form). -/
theorem send_needs_persist (cfg : RCfg) (r : Replica) (e : Env) (inp : Input) (m : Msg)
    (h : Effect.send m ∈ (step cfg r e inp).effs) : ∃ d, Effect.persist d ∈ (step cfg r e inp).effs := by
  obtain ⟨p, q, hpq⟩ := List.append_of_mem h
  obtain ⟨pre, d, ms1, hp, _, _, _⟩ := send_decomp cfg r e inp hpq
  refine ⟨d, ?_⟩
  rw [hpq, hp]
  simp only [List.mem_append, List.mem_cons, true_or, or_true]

/-! ## 5. The key invariant -/

/-- **Everything sent is covered by the durable state.** In every reachable state, with `d` the state a restart
would read (`initDurable` if nothing was ever written):

1. the live replica agrees with `d` on view, phase and high vote;
2. every vote that ever left the node has a view `≤ d.view`;
3. a commit vote of view `d.view` left the node only if `d` is past `prepare` and `d.highVote` is that vote;
4. a timeout vote of view `d.view` left the node only if `d` is in phase `timeout`. -/
theorem sent_covered_by_durable {cfg : RCfg} {s : Sys} (h : Reachable cfg s) :
    (s.r.view = (s.d.getD initDurable).view ∧ s.r.phase = (s.d.getD initDurable).phase ∧
      s.r.highVote = (s.d.getD initDurable).highVote) ∧
    (∀ m ∈ s.sent, ∀ a, voteView m = some a → a ≤ (s.d.getD initDurable).view) ∧
    (∀ v, Msg.commit v ∈ s.sent → v.view.number = (s.d.getD initDurable).view →
      (s.d.getD initDurable).phase ≠ Phase.prepare ∧ (s.d.getD initDurable).highVote = some v) ∧
    (∀ t, Msg.timeout t ∈ s.sent → t.view.number = (s.d.getD initDurable).view →
      (s.d.getD initDurable).phase = Phase.timeout) := by
  have i := inv_of_reachable h
  exact ⟨i.agree, i.core.le_view, i.core.commit_at, i.core.timeout_at⟩

/-- The invariant also holds at every crash point *inside* a step: after any prefix of the effects of a step from a
reachable state, every vote already out is covered by what is durable at that moment. (This is the statement for
the instants between the effects; `sent_covered_by_durable` is the statement for the states after a crash.) -/
theorem sent_covered_at_every_crash_point {cfg : RCfg} {s : Sys} (h : Reachable cfg s) (e : Env) (inp : Input)
    (hin : ∀ b, inp ≠ .restart b) (hok : InputOk inp) (k : Nat) :
    let s' := applyEffs s ((step cfg s.r e inp).effs.take k)
    (∀ m ∈ s'.sent, ∀ a, voteView m = some a → a ≤ (s'.d.getD initDurable).view) ∧
    (∀ v, Msg.commit v ∈ s'.sent → v.view.number = (s'.d.getD initDurable).view →
      (s'.d.getD initDurable).phase ≠ Phase.prepare ∧ (s'.d.getD initDurable).highVote = some v) ∧
    (∀ t, Msg.timeout t ∈ s'.sent → t.view.number = (s'.d.getD initDurable).view →
      (s'.d.getD initDurable).phase = Phase.timeout) := by
  have c := core_prefix cfg s e inp hin hok k (inv_of_reachable h)
  exact ⟨c.le_view, c.commit_at, c.timeout_at⟩

/-! ## 2–4. The three clauses, over everything that left the node across all incarnations -/

/-- A correct validator never signs two different commit votes for the same view. -/
theorem one_commit_per_view {cfg : RCfg} {s : Sys} (h : Reachable cfg s) {v1 v2 : Vote}
    (h1 : Msg.commit v1 ∈ s.sent) (h2 : Msg.commit v2 ∈ s.sent) (hv : v1.view.number = v2.view.number) : v1 = v2 :=
  (inv_of_reachable h).core.one_commit v1 v2 h1 h2 hv

/-- After signing a timeout vote for view `w`, every commit vote it signs is for a view `> w`. -/
theorem no_commit_at_or_below_timeout {cfg : RCfg} {s : Sys} (h : Reachable cfg s) {pre post : List Msg} {t : TVote}
    {v : Vote} (hs : s.sent = pre ++ [Msg.timeout t] ++ post) (hv : Msg.commit v ∈ post) :
    t.view.number < v.view.number := by
  have o := (inv_of_reachable h).core.ordered
  rw [hs] at o
  have := (List.pairwise_append.1 o).2.2 (Msg.timeout t)
    (by simp only [List.mem_append, List.mem_singleton, or_true]) (Msg.commit v) hv
  exact this.2 t v rfl rfl

/-- The views of the votes it signs never go backwards (in send order). -/
theorem signed_views_monotone {cfg : RCfg} {s : Sys} (h : Reachable cfg s) {pre post : List Msg} {m1 m2 : Msg}
    {a b : Nat} (hs : s.sent = pre ++ [m1] ++ post) (h2 : m2 ∈ post) (ha : voteView m1 = some a)
    (hb : voteView m2 = some b) : a ≤ b := by
  have o := (inv_of_reachable h).core.ordered
  rw [hs] at o
  have := (List.pairwise_append.1 o).2.2 m1 (by simp only [List.mem_append, List.mem_singleton, or_true]) m2 h2
  exact this.1 a b ha hb

/-! ## 6. Non-vacuity: concrete reachable states (six validators of weight 1, `Proofs.Crash.Ex`) -/

section NonVacuity
open EraVerif.Proofs.Crash.Ex

/-- the timer fires in the initial state: reachable, and a timeout vote has left the node -/
example : Reachable cfg (runStep Sys.init .tick) ∧ Msg.timeout tv0 ∈ (runStep Sys.init .tick).sent :=
  ⟨.step .init (.run Sys.init env .tick (by intro b h; cases h) trivial (Or.inl rfl)), by decide⟩

/-- the replica votes for proposal A of view 1, then times out in view 1: reachable, `sent` is
`[commit voteA, newView _, timeout _]` — hypotheses of all three clauses are met by a concrete state -/
example : Reachable cfg (runStep (runStep Sys.init propA) .tick) ∧
    (∃ j t, (runStep (runStep Sys.init propA) .tick).sent = [] ++ [Msg.commit voteA] ++ [Msg.newView j, Msg.timeout t] ∧
      voteView (Msg.commit voteA) = some 1 ∧ voteView (Msg.timeout t) = some 1) :=
  ⟨.step (.step .init (.run Sys.init env propA (by intro b h; cases h) trivial (Or.inl rfl)))
      (.run _ env .tick (by intro b h; cases h) trivial (Or.inl rfl)),
   ⟨_, _, rfl, rfl, rfl⟩⟩

/-- **crash between the durable write and the broadcast** (`k = 1`: behind `persist`, before `send`) while voting
for proposal A: the state is reachable, nothing has left the node, and the durable state — hence the restarted
replica — already records the vote; the conflicting proposal B of the same view is then refused without effects. -/
example : Reachable cfg (crashStep Sys.init propA 1) ∧
    (crashStep Sys.init propA 1).sent = [] ∧
    (crashStep Sys.init propA 1).d.map (fun d => (d.view, d.phase, d.highVote)) = some (1, Phase.commit, some voteA) ∧
    (crashStep Sys.init propA 1).r.phase = Phase.commit ∧
    (step cfg (crashStep Sys.init propA 1).r env propB).effs.length = 0 :=
  ⟨.step .init (.crash Sys.init env propA (by intro b h; cases h) trivial 1), rfl, by decide, rfl, rfl⟩

/-- crash before the durable write (`k = 0`): nothing durable, nothing sent — both outcomes of the write are covered -/
example : Reachable cfg (crashStep Sys.init propA 0) ∧ (crashStep Sys.init propA 0).sent = [] ∧
    (crashStep Sys.init propA 0).d = none :=
  ⟨.step .init (.crash Sys.init env propA (by intro b h; cases h) trivial 0), rfl, rfl⟩

end NonVacuity

end EraVerif.Props.C03
