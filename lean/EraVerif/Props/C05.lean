import EraVerif.Model.Replica
import EraVerif.Proofs.Certs
import EraVerif.Proofs.ReplicaStep
import EraVerif.Proofs.ReplicaTqc

/-!
# C05 — The replica follows the ChonkyBFT replica specification

Statement. A correct replica moves to a new view only on a valid commit or timeout certificate for the preceding
view, and the view it is in, the highest commit certificate and the highest timeout certificate it holds never
decrease. Every new-view, timeout and proposal message it emits is self-justifying (it carries the highest
certificate the replica holds, and that certificate verifies in isolation), and on every input its reaction — accept
or reject, resulting state, messages emitted — is the one prescribed by the ChonkyBFT replica specification (with the
implementation's documented refinements).

All theorems are over the executable model `Model/Replica.lean` (`step`, which the correspondence run compares with
the real `StateMachine`), for **every** configuration `cfg` (any committee, any leader schedule), every state `r`
satisfying the representation invariant `Wf`, every environment answer `e` and every input. `Wf` holds initially
(`wf_init`), after a restart from any state the replica itself persisted (`wf_restart`, `persisted_wf`) and is
preserved by every accepted step (`wf_preserved`); §9 lifts everything to all reachable states by induction over the
run (`Reachable`, `reachable_wf`, `reachable_step`).

Outcomes. `rejected` = the handler returned an `Err` before touching anything (`rejected_unchanged`); `blocked` = the
handler is stuck in `queue_block` and the replica task ends with it (it has then written nothing to disk:
`blocked_no_persist`, so the only continuation is a restart from the unchanged disk); `panic` never happens from a
`Wf` state (`no_panic`). The theorems about the resulting state are stated for `accepted` steps.

View numbers. `ViewNumber::next` is `self.0 + 1` in the release profile, i.e. wrapping at 2^64 (`nextU64`). The only
theorems that need a no-wrap hypothesis are `view_monotone` (`NoWrap`: the commit / timeout vote's view + 1 < 2^64)
and the §10 invariant "a held timeout certificate is for a view strictly below the current view" (`NoWrapJ`: `NoWrap`,
and the view + 1 < 2^64 of a timeout certificate that justifies a proposal / new-view message); everything else holds
as stated with the wrapping successor.

Vocabulary (defined in `Proofs/ReplicaStep.lean`, pinned down in §0).
-/

namespace EraVerif.Props.C05
open EraVerif.Model
open EraVerif.Proofs
open EraVerif.Proofs.Certs (CqcAssembled TqcAssembled tqcGroupWeight)
open EraVerif.Proofs.ReplicaStep
open EraVerif.Proofs.ReplicaTqc (TqcBelow DurableTqcBelow NoWrapJ)

/-! ## 0. Vocabulary -/

/-- the commit-vote caches are coherent: every cached partial certificate was assembled (`CommitQC::new` + successful
`add`s) for the vote it is stored under and sits under that vote's view number; every signer recorded in a cached
certificate of view `u` has a `commit_views_cache` entry `≥ u` -/
theorem ccacheOk_iff (c : Committee) (cvs : List (Nat × Nat)) (cqs : List (Nat × List (Vote × CommitQC))) :
    CCacheOk c cvs cqs ↔
      (∀ u l, (u, l) ∈ cqs → ∀ v qc, (v, qc) ∈ l → CqcAssembled c v qc ∧ v.view.number = u) ∧
      (∀ u l, (u, l) ∈ cqs → ∀ v qc, (v, qc) ∈ l → ∀ i : Nat, qc.signers[i]? = some true →
        ∃ w, alGet cvs i = some w ∧ u ≤ w) :=
  ⟨fun h => ⟨h.asm, h.bits⟩, fun h => ⟨h.1, h.2⟩⟩

/-- the same for the timeout-vote caches; the cached certificate of view number `u` was assembled for the view
`(this genesis, this epoch, u)` -/
theorem tcacheOk_iff (c : Committee) (tvs : List (Nat × Nat)) (tqs : List (Nat × TimeoutQC)) :
    TCacheOk c tvs tqs ↔
      (∀ u qc, (u, qc) ∈ tqs → TqcAssembled c { genesis := c.genesis, epoch := c.epoch, number := u } qc) ∧
      (∀ u qc, (u, qc) ∈ tqs → ∀ g ∈ qc.map, ∀ i : Nat, g.2[i]? = some true → ∃ w, alGet tvs i = some w ∧ u ≤ w) :=
  ⟨fun h => ⟨h.asm, h.bits⟩, fun h => ⟨h.1, h.2⟩⟩

/-- the replica holds a commit or timeout certificate whose view number + 1 is at least `n` -/
theorem heldAtLeast_iff (r : Replica) (n : Nat) :
    HeldAtLeast r n ↔
      (∃ q, r.highCommitQC = some q ∧ n ≤ q.message.view.number + 1) ∨
      (∃ q, r.highTimeoutQC = some q ∧ n ≤ q.view.number + 1) := Iff.rfl

/-- **The representation invariant.** (a) the high vote and the stored certificates verify; (c) the current view is 0
or justified by a held certificate (`+ 1 ≥`, not `=`: a timeout certificate may carry a commit certificate of a far
higher view, which `process_timeout_qc` adopts); (b) the vote caches are coherent. -/
theorem wf_iff (cfg : RCfg) (r : Replica) :
    Wf cfg r ↔
      (∀ v, r.highVote = some v → v.verify cfg.c = true) ∧
      (∀ q, r.highCommitQC = some q → q.verify cfg.c = true) ∧
      (∀ q, r.highTimeoutQC = some q → q.verify cfg.c = true) ∧
      (r.view = 0 ∨ HeldAtLeast r r.view) ∧
      CCacheOk cfg.c r.commitViews r.commitQCs ∧
      TCacheOk cfg.c r.timeoutViews r.timeoutQCs :=
  ⟨fun h => ⟨h.hvote, h.hcqc, h.htqc, h.held, h.ccache, h.tcache⟩,
   fun h => ⟨h.1, h.2.1, h.2.2.1, h.2.2.2.1, h.2.2.2.2.1, h.2.2.2.2.2⟩⟩

/-- what a persisted state must satisfy for a restart from it to be well-formed (the durable part of `Wf`) -/
theorem durableWf_iff (cfg : RCfg) (d : Durable) :
    DurableWf cfg d ↔
      (∀ v, d.highVote = some v → v.verify cfg.c = true) ∧
      (∀ q, d.highCommitQC = some q → q.verify cfg.c = true) ∧
      (∀ q, d.highTimeoutQC = some q → q.verify cfg.c = true) ∧
      (d.view = 0 ∨ (∃ q, d.highCommitQC = some q ∧ d.view ≤ q.message.view.number + 1) ∨
        (∃ q, d.highTimeoutQC = some q ∧ d.view ≤ q.view.number + 1)) :=
  ⟨fun h => ⟨h.hvote, h.hcqc, h.htqc, h.held⟩, fun h => ⟨h.1, h.2.1, h.2.2.1, h.2.2.2⟩⟩

/-- `none ≤ some`, `some a ≤ some b ↔ a ≤ b` -/
theorem optLe_iff (a b : Option Nat) :
    OptLe a b ↔ match a, b with | none, _ => True | some _, none => False | some x, some y => x ≤ y := by
  cases a <;> cases b <;> simp [OptLe]

theorem hcView_def (r : Replica) : hcView r = r.highCommitQC.map (·.message.view.number) := rfl
theorem htView_def (r : Replica) : htView r = r.highTimeoutQC.map (·.view.number) := rfl

/-- the timeout vote of a replica in state `r` -/
theorem ownTimeout_def (cfg : RCfg) (r : Replica) :
    ownTimeout cfg r = { view := { genesis := cfg.c.genesis, epoch := cfg.c.epoch, number := r.view },
                         highVote := r.highVote, highQC := r.highCommitQC } := rfl

/-- the no-wrap hypothesis of `view_monotone` -/
theorem noWrap_iff (s : Signed) :
    NoWrap (.msg s) ↔ match s.msg with
      | .commit v => v.view.number + 1 < 2 ^ 64
      | .timeout t => t.view.number + 1 < 2 ^ 64
      | _ => True := by
  obtain ⟨m, k, so⟩ := s
  cases m <;> exact Iff.rfl

/-- where the certificate that justifies a view change came from -/
theorem provenance_iff (cfg : RCfg) (s : Signed) (j : Just) :
    Provenance cfg (.msg s) j ↔ match s.msg with
      | .proposal _ j' => j = j'
      | .newView j' => j = j'
      | .commit v => ∃ qc, j = .commit qc ∧ qc.message = v ∧ CqcAssembled cfg.c v qc
      | .timeout t => ∃ qc, j = .timeout qc ∧ qc.view = t.view ∧ TqcAssembled cfg.c t.view qc := by
  obtain ⟨m, k, so⟩ := s
  cases m <;> exact Iff.rfl

theorem provenance_tick (cfg : RCfg) (j : Just) : ¬ Provenance cfg .tick j := fun h => h

/-- a held timeout certificate is for a view strictly below the replica's view (§10) -/
theorem tqcBelow_iff (r : Replica) : TqcBelow r ↔ ∀ q, r.highTimeoutQC = some q → q.view.number < r.view := Iff.rfl

/-- the same for a persisted state -/
theorem durableTqcBelow_iff (d : Durable) :
    DurableTqcBelow d ↔ ∀ q, d.highTimeoutQC = some q → q.view.number < d.view := Iff.rfl

/-- the no-wrap hypothesis of §10: `NoWrap`, and for a proposal / new-view message justified by a timeout
certificate, that certificate's view + 1 < 2^64 (`justification.view()` is its wrapping successor) -/
theorem noWrapJ_iff (s : Signed) :
    NoWrapJ (.msg s) ↔ match s.msg with
      | .commit v => v.view.number + 1 < 2 ^ 64
      | .timeout t => t.view.number + 1 < 2 ^ 64
      | .proposal _ (.timeout q) => q.view.number + 1 < 2 ^ 64
      | .newView (.timeout q) => q.view.number + 1 < 2 ^ 64
      | _ => True := by
  obtain ⟨m, k, so⟩ := s
  cases m with
  | commit v => exact Iff.rfl
  | timeout t => exact Iff.rfl
  | proposal p j => cases j <;> exact Iff.rfl
  | newView j => cases j <;> exact Iff.rfl

theorem noWrapJ_tick : NoWrapJ .tick := trivial

/-- it implies the hypothesis of `view_monotone` -/
theorem noWrapJ_noWrap (inp : Input) (h : NoWrapJ inp) : NoWrap inp := h.noWrap

/-! ## 1. A rejected input changes nothing -/

/-- no hypothesis on the state: every `Err` is returned before any state update and before any effect -/
theorem rejected_unchanged (cfg : RCfg) (r : Replica) (e : Env) (inp : Input) (w : Reject)
    (h : (step cfg r e inp).out = .rejected w) : (step cfg r e inp).r = r ∧ (step cfg r e inp).effs = [] :=
  step_rejected h

/-! ## 2. The invariant -/

theorem wf_init (cfg : RCfg) : Wf cfg (Replica.start none) := wf_start_none cfg

/-- restoring a durable state whose certificates verify and whose view is justified by them -/
theorem wf_restart (cfg : RCfg) (d : Durable) (h : DurableWf cfg d) : Wf cfg (Replica.start (some d)) :=
  wf_start_some cfg d h

private theorem accepted_facts {cfg : RCfg} {r : Replica} {e : Env} {inp : Input} (hw : Wf cfg r)
    (hin : ∀ b, inp ≠ .restart b) (hacc : (step cfg r e inp).out = .accepted) :
    Accepted cfg r (NoWrap inp) (Provenance cfg inp) (step cfg r e inp) := by
  rcases step_wf hw e inp hin with ⟨w, h⟩ | ⟨h, _⟩ | ⟨_, h⟩
  · rw [h] at hacc; cases hacc
  · rw [h] at hacc; cases hacc
  · exact h

/-- every accepted step preserves the invariant (`blocked` steps end the replica task, see `blocked_no_persist`;
`panic` does not occur, see `no_panic`) -/
theorem wf_preserved (cfg : RCfg) (r : Replica) (e : Env) (inp : Input) (hw : Wf cfg r) (hin : ∀ b, inp ≠ .restart b)
    (hacc : (step cfg r e inp).out = .accepted) : Wf cfg (step cfg r e inp).r :=
  (accepted_facts hw hin hacc).wf

/-- everything an accepted step writes to disk is the durable part of the resulting (well-formed) state, so a
restart from it is well-formed again -/
theorem persisted_wf (cfg : RCfg) (r : Replica) (e : Env) (inp : Input) (hw : Wf cfg r) (hin : ∀ b, inp ≠ .restart b)
    (hacc : (step cfg r e inp).out = .accepted) (d : Durable) (hd : Effect.persist d ∈ (step cfg r e inp).effs) :
    d = (step cfg r e inp).r.durable ∧ DurableWf cfg d := by
  have h := accepted_facts hw hin hacc
  have := h.persist d hd
  exact ⟨this, this ▸ h.wf.durable⟩

/-- a step that ends blocked in `queue_block` has emitted block hand-overs only: nothing was persisted or sent -/
theorem blocked_no_persist (cfg : RCfg) (r : Replica) (e : Env) (inp : Input) (hw : Wf cfg r)
    (hin : ∀ b, inp ≠ .restart b) (hb : (step cfg r e inp).out = .blocked) :
    ∀ x ∈ (step cfg r e inp).effs, ∃ n p q, x = Effect.queueBlock n p q := by
  rcases step_wf hw e inp hin with ⟨w, h⟩ | ⟨_, h⟩ | ⟨h, _⟩
  · rw [h] at hb; cases hb
  · exact h
  · rw [h] at hb; cases hb

/-! ## 3. Monotonicity -/

/-- the view never decreases (`NoWrap`: for a commit / timeout vote, its view + 1 < 2^64; vacuous for the other
inputs). Without the hypothesis the statement is false for the model as for the release build: a commit quorum for
view 2^64 - 1 makes `start_new_view(view.next())` enter view 0. -/
theorem view_monotone (cfg : RCfg) (r : Replica) (e : Env) (inp : Input) (hw : Wf cfg r) (hin : ∀ b, inp ≠ .restart b)
    (hacc : (step cfg r e inp).out = .accepted) (hnw : NoWrap inp) : r.view ≤ (step cfg r e inp).r.view :=
  (accepted_facts hw hin hacc).view_mono hnw

/-- the view of the highest commit certificate never decreases (`none ≤ some`) -/
theorem hcqc_view_monotone (cfg : RCfg) (r : Replica) (e : Env) (inp : Input) (hw : Wf cfg r)
    (hin : ∀ b, inp ≠ .restart b) (hacc : (step cfg r e inp).out = .accepted) :
    OptLe (hcView r) (hcView (step cfg r e inp).r) :=
  (accepted_facts hw hin hacc).hc_mono

/-- the view of the highest timeout certificate never decreases -/
theorem htqc_view_monotone (cfg : RCfg) (r : Replica) (e : Env) (inp : Input) (hw : Wf cfg r)
    (hin : ∀ b, inp ≠ .restart b) (hacc : (step cfg r e inp).out = .accepted) :
    OptLe (htView r) (htView (step cfg r e inp).r) :=
  (accepted_facts hw hin hacc).ht_mono

/-! ## 4. A view change is justified by a certificate for the preceding view -/

/-- If the view changes, then (1) the new state holds a verifying commit or timeout certificate whose view + 1 is at
least the new view, and (2) there is a verifying certificate `j` for exactly the preceding view
(`j.viewNumber = nextU64 (its view) = new view`) that was carried by the proposal / new-view message, or completed
by this very commit / timeout vote from the votes cached for it (`Provenance`). A tick never changes the view. -/
theorem view_change_justified (cfg : RCfg) (r : Replica) (e : Env) (inp : Input) (hw : Wf cfg r)
    (hin : ∀ b, inp ≠ .restart b) (hacc : (step cfg r e inp).out = .accepted)
    (hne : (step cfg r e inp).r.view ≠ r.view) :
    ((∃ q, (step cfg r e inp).r.highCommitQC = some q ∧ q.verify cfg.c = true ∧
          (step cfg r e inp).r.view ≤ q.message.view.number + 1) ∨
     (∃ q, (step cfg r e inp).r.highTimeoutQC = some q ∧ q.verify cfg.c = true ∧
          (step cfg r e inp).r.view ≤ q.view.number + 1)) ∧
    ∃ j, j.verify cfg.c = true ∧ j.viewNumber = (step cfg r e inp).r.view ∧ Provenance cfg inp j := by
  have h := accepted_facts hw hin hacc
  refine ⟨?_, h.justified hne⟩
  rcases h.held hne with ⟨q, hq, hle⟩ | ⟨q, hq, hle⟩
  · exact Or.inl ⟨q, hq, h.wf.hcqc q hq, hle⟩
  · exact Or.inr ⟨q, hq, h.wf.htqc q hq, hle⟩

/-- per handler, the certificate is the message's own -/
theorem view_change_justified_proposal (cfg : RCfg) (r : Replica) (e : Env) (key : Nat) (sigOk : Bool)
    (p : Option Payload) (j : Just) (hw : Wf cfg r)
    (hacc : (step cfg r e (.msg ⟨.proposal p j, key, sigOk⟩)).out = .accepted)
    (hne : (step cfg r e (.msg ⟨.proposal p j, key, sigOk⟩)).r.view ≠ r.view) :
    j.verify cfg.c = true ∧ j.viewNumber = (step cfg r e (.msg ⟨.proposal p j, key, sigOk⟩)).r.view := by
  obtain ⟨_, j', h1, h2, h3⟩ := view_change_justified cfg r e _ hw (by intro b h; cases h) hacc hne
  have : j' = j := h3
  subst this
  exact ⟨h1, h2⟩

theorem view_change_justified_newView (cfg : RCfg) (r : Replica) (e : Env) (key : Nat) (sigOk : Bool) (j : Just)
    (hw : Wf cfg r) (hacc : (step cfg r e (.msg ⟨.newView j, key, sigOk⟩)).out = .accepted)
    (hne : (step cfg r e (.msg ⟨.newView j, key, sigOk⟩)).r.view ≠ r.view) :
    j.verify cfg.c = true ∧ j.viewNumber = (step cfg r e (.msg ⟨.newView j, key, sigOk⟩)).r.view := by
  obtain ⟨_, j', h1, h2, h3⟩ := view_change_justified cfg r e _ hw (by intro b h; cases h) hacc hne
  have : j' = j := h3
  subst this
  exact ⟨h1, h2⟩

/-- ... or the commit certificate for the vote's view completed by this vote -/
theorem view_change_justified_commit (cfg : RCfg) (r : Replica) (e : Env) (key : Nat) (sigOk : Bool) (v : Vote)
    (hw : Wf cfg r) (hacc : (step cfg r e (.msg ⟨.commit v, key, sigOk⟩)).out = .accepted)
    (hne : (step cfg r e (.msg ⟨.commit v, key, sigOk⟩)).r.view ≠ r.view) :
    ∃ qc, qc.message = v ∧ CqcAssembled cfg.c v qc ∧ qc.verify cfg.c = true ∧
      (step cfg r e (.msg ⟨.commit v, key, sigOk⟩)).r.view = nextU64 v.view.number := by
  obtain ⟨_, j', h1, h2, qc, rfl, h3, h4⟩ := view_change_justified cfg r e _ hw (by intro b h; cases h) hacc hne
  refine ⟨qc, h3, h4, h1, ?_⟩
  rw [← h2, ← h3]; rfl

/-- ... or the timeout certificate for the vote's view completed by this vote -/
theorem view_change_justified_timeout (cfg : RCfg) (r : Replica) (e : Env) (key : Nat) (sigOk : Bool) (t : TVote)
    (hw : Wf cfg r) (hacc : (step cfg r e (.msg ⟨.timeout t, key, sigOk⟩)).out = .accepted)
    (hne : (step cfg r e (.msg ⟨.timeout t, key, sigOk⟩)).r.view ≠ r.view) :
    ∃ qc, qc.view = t.view ∧ TqcAssembled cfg.c t.view qc ∧ qc.verify cfg.c = true ∧
      (step cfg r e (.msg ⟨.timeout t, key, sigOk⟩)).r.view = nextU64 t.view.number := by
  obtain ⟨_, j', h1, h2, qc, rfl, h3, h4⟩ := view_change_justified cfg r e _ hw (by intro b h; cases h) hacc hne
  refine ⟨qc, h3, h4, h1, ?_⟩
  rw [← h2, ← h3]; rfl

theorem tick_keeps_view (cfg : RCfg) (r : Replica) (e : Env) (hw : Wf cfg r) :
    (step cfg r e .tick).out = .accepted ∧ (step cfg r e .tick).r.view = r.view := by
  obtain ⟨h1, h2⟩ := startTimeout_accepted (cfg := cfg) hw
  refine ⟨h1, ?_⟩
  apply Classical.byContradiction
  intro hne
  obtain ⟨_, _, _, hf⟩ := h2.justified hne
  exact hf

/-! ## 5. Every emitted message is self-justifying -/

/-- `ReplicaNewView`: the justification sent is `get_justification()` of the new state — its highest certificate —
and verifies in isolation -/
theorem newView_self_justifying (cfg : RCfg) (r : Replica) (e : Env) (inp : Input) (hw : Wf cfg r)
    (hin : ∀ b, inp ≠ .restart b) (hacc : (step cfg r e inp).out = .accepted) (j : Just)
    (hj : Effect.send (.newView j) ∈ (step cfg r e inp).effs) :
    j.verify cfg.c = true ∧ getJustification (step cfg r e inp).r = .ok j := by
  have h := accepted_facts hw hin hacc
  have hg := h.newView j hj
  refine ⟨?_, hg⟩
  rcases getJustification_spec hg with ⟨q, rfl, hq, _⟩ | ⟨q, rfl, hq, _⟩
  · exact h.wf.hcqc q hq
  · exact h.wf.htqc q hq

/-- `ReplicaTimeout`: for the new state's view, carrying the new state's high vote and high commit certificate; it
verifies in isolation -/
theorem timeout_self_justifying (cfg : RCfg) (r : Replica) (e : Env) (inp : Input) (hw : Wf cfg r)
    (hin : ∀ b, inp ≠ .restart b) (hacc : (step cfg r e inp).out = .accepted) (t : TVote)
    (ht : Effect.send (.timeout t) ∈ (step cfg r e inp).effs) :
    t.verify cfg.c = true ∧ t.view.number = (step cfg r e inp).r.view ∧
      t.highVote = (step cfg r e inp).r.highVote ∧ t.highQC = (step cfg r e inp).r.highCommitQC := by
  have h := accepted_facts hw hin hacc
  have := h.timeout t ht
  subst this
  refine ⟨?_, rfl, rfl, rfl⟩
  simp only [TVote.verify, ownTimeout, View.verify, beq_self_eq_true, Bool.and_self, Bool.true_and, Bool.and_eq_true]
  constructor
  · cases hv : (step cfg r e inp).r.highVote with
    | none => rfl
    | some v => exact h.wf.hvote v hv
  · cases hq : (step cfg r e inp).r.highCommitQC with
    | none => rfl
    | some q => exact h.wf.hcqc q hq

/-- `ReplicaCommit`: the vote sent is the new high vote (and is for this chain and epoch) -/
theorem commit_is_high_vote (cfg : RCfg) (r : Replica) (e : Env) (inp : Input) (hw : Wf cfg r)
    (hin : ∀ b, inp ≠ .restart b) (hacc : (step cfg r e inp).out = .accepted) (v : Vote)
    (hv : Effect.send (.commit v) ∈ (step cfg r e inp).effs) :
    (step cfg r e inp).r.highVote = some v ∧ v.verify cfg.c = true := by
  have h := accepted_facts hw hin hacc
  have := h.commit v hv
  exact ⟨this, h.wf.hvote v this⟩

/-- the justification handed to the proposer task (`justification_watch.send`, `Effect.notify`) — the one a proposal
of this node will carry, see `proposal_self_justifying` — is `get_justification()` of the new state as well, and
verifies in isolation -/
theorem proposer_justification (cfg : RCfg) (r : Replica) (e : Env) (inp : Input) (hw : Wf cfg r)
    (hin : ∀ b, inp ≠ .restart b) (hacc : (step cfg r e inp).out = .accepted) (j : Just)
    (hj : Effect.notify j ∈ (step cfg r e inp).effs) :
    j.verify cfg.c = true ∧ getJustification (step cfg r e inp).r = .ok j := by
  have h := accepted_facts hw hin hacc
  have hg := h.notify j hj
  refine ⟨?_, hg⟩
  rcases getJustification_spec hg with ⟨q, rfl, hq, _⟩ | ⟨q, rfl, hq, _⟩
  · exact h.wf.hcqc q hq
  · exact h.wf.htqc q hq

/-- the replica component never sends a proposal itself: proposals come from the proposer task, which is handed the
justification through `Effect.notify` (the same `get_justification()` value as the new-view message) -/
theorem no_proposal_sent (cfg : RCfg) (r : Replica) (e : Env) (inp : Input) (hw : Wf cfg r)
    (hin : ∀ b, inp ≠ .restart b) (hacc : (step cfg r e inp).out = .accepted) (p : Option Payload) (j : Just) :
    Effect.send (.proposal p j) ∉ (step cfg r e inp).effs :=
  (accepted_facts hw hin hacc).proposal p j

/-- `create_proposal` carries exactly the justification it is given, with a payload iff that justification implies
no block to re-propose -/
theorem proposal_self_justifying (cfg : RCfg) (e : Env) (j : Just) (fresh : Payload) (m : Msg)
    (h : createProposal cfg e j fresh = some m) :
    (∃ hsh, (j.impliedBlock cfg.c).2 = some hsh ∧ m = .proposal none j) ∨
    ((j.impliedBlock cfg.c).2 = none ∧ m = .proposal (some fresh) j) := by
  unfold createProposal at h
  cases hib : (j.impliedBlock cfg.c) with
  | mk num oh =>
    rw [hib] at h
    cases oh with
    | some hsh =>
      simp only [Option.some.injEq] at h
      exact Or.inl ⟨hsh, rfl, h.symm⟩
    | none =>
      simp only at h
      split at h
      · cases h
      · simp only [Option.some.injEq] at h
        exact Or.inr ⟨rfl, h.symm⟩

/-- all outputs of an accepted step, in one statement -/
theorem outputs_self_justifying (cfg : RCfg) (r : Replica) (e : Env) (inp : Input) (hw : Wf cfg r)
    (hin : ∀ b, inp ≠ .restart b) (hacc : (step cfg r e inp).out = .accepted) :
    (∀ j, Effect.send (.newView j) ∈ (step cfg r e inp).effs →
      j.verify cfg.c = true ∧ getJustification (step cfg r e inp).r = .ok j) ∧
    (∀ t, Effect.send (.timeout t) ∈ (step cfg r e inp).effs →
      t.verify cfg.c = true ∧ t.view.number = (step cfg r e inp).r.view ∧
        t.highVote = (step cfg r e inp).r.highVote ∧ t.highQC = (step cfg r e inp).r.highCommitQC) ∧
    (∀ v, Effect.send (.commit v) ∈ (step cfg r e inp).effs →
      (step cfg r e inp).r.highVote = some v ∧ v.verify cfg.c = true) ∧
    (∀ j, Effect.notify j ∈ (step cfg r e inp).effs →
      j.verify cfg.c = true ∧ getJustification (step cfg r e inp).r = .ok j) ∧
    (∀ p j, Effect.send (.proposal p j) ∉ (step cfg r e inp).effs) :=
  ⟨newView_self_justifying cfg r e inp hw hin hacc, timeout_self_justifying cfg r e inp hw hin hacc,
   commit_is_high_vote cfg r e inp hw hin hacc, proposer_justification cfg r e inp hw hin hacc,
   no_proposal_sent cfg r e inp hw hin hacc⟩

/-! ## 6. `get_justification` -/

/-- the justification is one of the two held certificates: the commit certificate whenever its view is at least the
timeout certificate's (or there is no timeout certificate), else the timeout certificate -/
theorem justification_is_highest (r : Replica) (j : Just) (h : getJustification r = .ok j) :
    (∃ q, j = .commit q ∧ r.highCommitQC = some q ∧
      ∀ t, r.highTimeoutQC = some t → t.view.number ≤ q.message.view.number) ∨
    (∃ t, j = .timeout t ∧ r.highTimeoutQC = some t ∧
      ∀ q, r.highCommitQC = some q → q.message.view.number < t.view.number) :=
  getJustification_spec h

theorem justification_prefers_commit_on_tie (r : Replica) (c : CommitQC) (t : TimeoutQC)
    (hc : r.highCommitQC = some c) (ht : r.highTimeoutQC = some t) (hge : t.view.number ≤ c.message.view.number) :
    getJustification r = .ok (.commit c) := by
  unfold getJustification
  rw [hc, ht]
  simp only [ge_iff_le, hge, if_true]

theorem justification_commit_only (r : Replica) (c : CommitQC) (hc : r.highCommitQC = some c)
    (ht : r.highTimeoutQC = none) : getJustification r = .ok (.commit c) := by
  unfold getJustification
  rw [hc, ht]

/-! ## 7. No panic -/

/-- From a well-formed state no input makes the handler panic: the two `.expect("could not add message to …QC")`,
the assertion of `get_justification` and the length assertion of `Signers::weight` are unreachable. (For a restart
the model's step is total by construction.) -/
theorem no_panic (cfg : RCfg) (r : Replica) (e : Env) (inp : Input) (hw : Wf cfg r) (s : String) :
    (step cfg r e inp).out ≠ .panic s := by
  intro hp
  cases inp with
  | restart b => simp [step] at hp
  | tick =>
    rcases step_wf hw e .tick (by intro b h; cases h) with ⟨w, h⟩ | ⟨h, _⟩ | ⟨h, _⟩ <;> (rw [h] at hp; cases hp)
  | msg m =>
    rcases step_wf hw e (.msg m) (by intro b h; cases h) with ⟨w, h⟩ | ⟨h, _⟩ | ⟨h, _⟩ <;> (rw [h] at hp; cases hp)

/-- the outcome of a non-restart input from a well-formed state is one of: rejected, blocked, accepted -/
theorem outcome_trichotomy (cfg : RCfg) (r : Replica) (e : Env) (inp : Input) (hw : Wf cfg r) :
    (∃ w, (step cfg r e inp).out = .rejected w) ∨ (step cfg r e inp).out = .blocked ∨
      (step cfg r e inp).out = .accepted := by
  cases inp with
  | restart b => exact Or.inr (Or.inr rfl)
  | tick =>
    rcases step_wf hw e .tick (by intro b h; cases h) with h | ⟨h, _⟩ | ⟨h, _⟩
    · exact Or.inl h
    · exact Or.inr (Or.inl h)
    · exact Or.inr (Or.inr h)
  | msg m =>
    rcases step_wf hw e (.msg m) (by intro b h; cases h) with h | ⟨h, _⟩ | ⟨h, _⟩
    · exact Or.inl h
    · exact Or.inr (Or.inl h)
    · exact Or.inr (Or.inr h)

/-! ## 8. Conformance with `spec/informal-spec/replica.rs`

For each handler: (i) the input is rejected **iff** one of the checks fails (`*_rejected_iff`: the `assert!`s of the
spec, plus the implementation's refinements: non-validator signer, duplicate = "this validator already voted for the
same **or a later** view" since only the latest view per validator is cached, `pruned`, `missingPrevious`,
`oversized`); (ii) if the checks pass the reaction is the one spelled out in `*_reaction`: resulting state and the
exact list of effects. -/

/-- `on_proposal`: rejected iff one of the spec's asserts (view is current-and-not-yet-voted or future; the sender is
the leader of that view; signature and justification verify) or the implementation's refinements fails -/
theorem proposal_rejected_iff (cfg : RCfg) (r : Replica) (e : Env) (key : Nat) (sigOk : Bool) (p : Option Payload)
    (j : Just) :
    (∃ w, (step cfg r e (.msg ⟨.proposal p j, key, sigOk⟩)).out = .rejected w) ↔
      ¬ ((r.view < j.viewNumber ∨ (j.viewNumber = r.view ∧ r.phase = .prepare)) ∧ key = cfg.leader j.viewNumber ∧
          sigOk = true ∧ j.verify cfg.c = true ∧ e.queuedFirst ≤ (j.impliedBlock cfg.c).1 ∧
          ((∃ hsh, (j.impliedBlock cfg.c).2 = some hsh ∧ p = none) ∨
           ((j.impliedBlock cfg.c).2 = none ∧ ∃ pl, p = some pl ∧ pl.size ≤ cfg.maxPayload ∧
              ((j.impliedBlock cfg.c).1 = 0 ∨ (j.impliedBlock cfg.c).1 - 1 < e.persistedNext) ∧ e.payloadOk = true))) := by
  show (∃ w, (onProposal cfg r e key sigOk p j).out = .rejected w) ↔ _
  rw [onProposal_rejected_iff]
  apply not_congr
  unfold PropChecks
  constructor
  · intro ⟨⟨h1, h2, h3, h4, h5⟩, hash, r0, hd⟩
    refine ⟨?_, h2, h3, h4, h5, ?_⟩
    · by_cases hlt : r.view < j.viewNumber
      · exact Or.inl hlt
      · refine Or.inr ⟨?_, ?_⟩
        · apply Classical.byContradiction; intro hne; exact h1 (Or.inl (by omega))
        · apply Classical.byContradiction; intro hne
          have : j.viewNumber = r.view := by
            apply Classical.byContradiction; intro hne'; exact h1 (Or.inl (by omega))
          exact h1 (Or.inr ⟨this, hne⟩)
    · rcases propDecide_ok hd with ⟨a, b, _⟩ | ⟨a, pl, b, c, d, e', _, _⟩
      · exact Or.inl ⟨hash, a, b⟩
      · exact Or.inr ⟨a, pl, b, c, d, e'⟩
  · intro ⟨h1, h2, h3, h4, h5, h6⟩
    refine ⟨⟨?_, h2, h3, h4, h5⟩, ?_⟩
    · intro hn
      rcases hn with hn | ⟨hn1, hn2⟩
      · rcases h1 with h1 | ⟨h1, _⟩ <;> omega
      · rcases h1 with h1 | ⟨_, h1⟩
        · omega
        · exact hn2 h1
    · rcases h6 with ⟨hsh, a, b⟩ | ⟨a, pl, b, c, d, e'⟩
      · exact ⟨hsh, r, by unfold propDecide; rw [a, b]⟩
      · refine ⟨pl.id, { r with proposals := cacheProposal r.proposals (j.impliedBlock cfg.c).1 pl }, ?_⟩
        unfold propDecide
        rw [a, b]
        have c' : ¬ pl.size > cfg.maxPayload := by omega
        have d' : ¬ ((j.impliedBlock cfg.c).1 ≠ 0 ∧ ¬ ((j.impliedBlock cfg.c).1 - 1 < e.persistedNext)) := by
          intro ⟨x, y⟩; rcases d with d | d
          · exact x d
          · exact y d
        simp only [c', d', e', if_false, Bool.not_true, Bool.false_eq_true]

/-- `on_proposal`, accepted: the asserts of the spec held, the vote cast is for exactly the block the justification
implies (`j.impliedBlock`: re-proposal ⇒ the implied hash, and no payload was sent; fresh ⇒ the hash of the payload,
which is small enough, verified, follows a persisted block, and is now cached), the replica is in the proposal's
view in phase `commit` with that vote as high vote, and the effects are: block hand-overs of `process_commit_qc`,
then `backup_state`, then the broadcast of the vote. -/
theorem accepted_proposal_conforms (cfg : RCfg) (r : Replica) (e : Env) (key : Nat) (sigOk : Bool) (p : Option Payload)
    (j : Just) (hacc : (step cfg r e (.msg ⟨.proposal p j, key, sigOk⟩)).out = .accepted) :
    (r.view < j.viewNumber ∨ (j.viewNumber = r.view ∧ r.phase = .prepare)) ∧ key = cfg.leader j.viewNumber ∧
    sigOk = true ∧ j.verify cfg.c = true ∧ e.queuedFirst ≤ (j.impliedBlock cfg.c).1 ∧
    ∃ hash,
      ((((j.impliedBlock cfg.c).2 = some hash ∧ p = none)) ∨
       ((j.impliedBlock cfg.c).2 = none ∧ ∃ pl, p = some pl ∧ hash = pl.id ∧ pl.size ≤ cfg.maxPayload ∧
          ((j.impliedBlock cfg.c).1 = 0 ∨ (j.impliedBlock cfg.c).1 - 1 < e.persistedNext) ∧ e.payloadOk = true ∧
          ∃ q ∈ (step cfg r e (.msg ⟨.proposal p j, key, sigOk⟩)).r.proposals,
            q.1 = (j.impliedBlock cfg.c).1 ∧ q.2.id = pl.id)) ∧
      (step cfg r e (.msg ⟨.proposal p j, key, sigOk⟩)).r.view = j.viewNumber ∧
      (step cfg r e (.msg ⟨.proposal p j, key, sigOk⟩)).r.phase = .commit ∧
      (step cfg r e (.msg ⟨.proposal p j, key, sigOk⟩)).r.highVote =
        some { view := j.view, proposal := { number := (j.impliedBlock cfg.c).1, payload := hash } } ∧
      ∃ qs, (∀ x ∈ qs, ∃ n pl q, x = Effect.queueBlock n pl q) ∧
        (step cfg r e (.msg ⟨.proposal p j, key, sigOk⟩)).effs =
          qs ++ [.persist (step cfg r e (.msg ⟨.proposal p j, key, sigOk⟩)).r.durable,
                 .send (.commit { view := j.view, proposal := { number := (j.impliedBlock cfg.c).1, payload := hash } })] := by
  have hacc' : (onProposal cfg r e key sigOk p j).out = .accepted := hacc
  obtain ⟨⟨h1, h2, h3, h4, h5⟩, hash, r0, hd, hok, heq⟩ := onProposal_accepted_shape hacc'
  have hstep : step cfg r e (.msg ⟨.proposal p j, key, sigOk⟩) = onProposal cfg r e key sigOk p j := rfl
  rw [hstep, heq]
  obtain ⟨hup, hoq, _⟩ := processJust_spec cfg (propR1 cfg r0 j hash) e j h4
  refine ⟨?_, h2, h3, h4, h5, hash, ?_, hup.view, hup.phase, hup.highVote, _, hoq, rfl⟩
  · by_cases hlt : r.view < j.viewNumber
    · exact Or.inl hlt
    · refine Or.inr ⟨?_, ?_⟩
      · apply Classical.byContradiction; intro hne; exact h1 (Or.inl (by omega))
      · apply Classical.byContradiction; intro hne
        have : j.viewNumber = r.view := by
          apply Classical.byContradiction; intro hne'; exact h1 (Or.inl (by omega))
        exact h1 (Or.inr ⟨this, hne⟩)
  · rcases propDecide_ok hd with ⟨a, b, _⟩ | ⟨a, pl, b, c, d, e', f, g⟩
    · exact Or.inl ⟨a, b⟩
    · refine Or.inr ⟨a, pl, b, f, c, d, e', ?_⟩
      show ∃ q ∈ (processJust (propR1 cfg r0 j hash) e j).1.proposals, _
      rw [hup.proposals, g]
      show ∃ q ∈ cacheProposal r.proposals (j.impliedBlock cfg.c).1 pl, _
      unfold cacheProposal
      split
      · rename_i hany
        obtain ⟨q, hq, hqq⟩ := List.any_eq_true.mp hany
        simp only [Bool.and_eq_true, beq_iff_eq] at hqq
        exact ⟨q, hq, hqq.1, hqq.2⟩
      · exact ⟨_, List.mem_append_right _ (List.mem_singleton.mpr rfl), rfl, rfl⟩

/-- `on_commit` is rejected iff: the signer is not a validator, or the vote is for a past view, or this validator
already has a cached vote for the same or a later view, or the signature or the vote does not verify -/
theorem commit_rejected_iff (cfg : RCfg) (r : Replica) (e : Env) (key : Nat) (sigOk : Bool) (v : Vote) :
    (∃ w, (step cfg r e (.msg ⟨.commit v, key, sigOk⟩)).out = .rejected w) ↔
      ¬ (key < cfg.c.n ∧ r.view ≤ v.view.number ∧ (∀ w, alGet r.commitViews key = some w → w < v.view.number) ∧
          sigOk = true ∧ v.verify cfg.c = true) :=
  onCommit_rejected_iff cfg r e key sigOk v

/-- `on_commit`, checks passed, from a well-formed state: the vote is added to the certificate cached for exactly this
vote (`cQc0`: the cached one, else `CommitQC::new`) — never a panic; below the quorum only the two commit caches
change (`commitR1`) and nothing is emitted; at the quorum the completed certificate verifies, is handed to
`process_commit_qc` on the state with that view's cache entry removed (`commitR2`), and the replica starts view
`vote.view + 1` (`snvState`): effects are the block hand-overs, then the proposer notification, `backup_state`, and
the new-view broadcast with `get_justification()`. -/
theorem commit_reaction (cfg : RCfg) (r : Replica) (e : Env) (key : Nat) (sigOk : Bool) (v : Vote) (hw : Wf cfg r)
    (hc : key < cfg.c.n ∧ r.view ≤ v.view.number ∧ (∀ w, alGet r.commitViews key = some w → w < v.view.number) ∧
          sigOk = true ∧ v.verify cfg.c = true) :
    ∃ qc, (cQc0 cfg.c r.commitQCs v).add cfg.c { key := some key, sigOk := sigOk } v = .ok qc ∧
      CqcAssembled cfg.c v qc ∧
      (weightOf cfg.c.weights qc.signers < cfg.c.quorum →
        step cfg r e (.msg ⟨.commit v, key, sigOk⟩) = { r := commitR1 r key v qc, effs := [], out := .accepted }) ∧
      (cfg.c.quorum ≤ weightOf cfg.c.weights qc.signers →
        qc.verify cfg.c = true ∧
        ((processCommitQC (commitR2 r key v qc) e qc).2.2 = false →
          step cfg r e (.msg ⟨.commit v, key, sigOk⟩) =
            { r := (processCommitQC (commitR2 r key v qc) e qc).1,
              effs := (processCommitQC (commitR2 r key v qc) e qc).2.1, out := .blocked }) ∧
        ((processCommitQC (commitR2 r key v qc) e qc).2.2 = true →
          ∃ j, getJustification (processCommitQC (commitR2 r key v qc) e qc).1 = .ok j ∧
            step cfg r e (.msg ⟨.commit v, key, sigOk⟩) =
              { r := snvState (processCommitQC (commitR2 r key v qc) e qc).1 (nextU64 v.view.number),
                effs := (processCommitQC (commitR2 r key v qc) e qc).2.1 ++
                  [.notify j,
                   .persist (snvState (processCommitQC (commitR2 r key v qc) e qc).1 (nextU64 v.view.number)).durable,
                   .send (.newView j)],
                out := .accepted })) := by
  have heq : step cfg r e (.msg ⟨.commit v, key, sigOk⟩) = commitTail cfg r e key sigOk v := by
    rcases onCommit_cases cfg r e key sigOk v with ⟨hn, _⟩ | ⟨_, ht⟩
    · exact absurd hc hn
    · exact ht
  rw [heq]
  exact commitTail_reaction e hw hc

/-- what must have held for a commit vote to be accepted (the asserts of the spec's `on_commit`, with "store" refined
to the per-validator latest-view cache), and what the accepted step did -/
theorem accepted_commit_conforms (cfg : RCfg) (r : Replica) (e : Env) (key : Nat) (sigOk : Bool) (v : Vote)
    (hw : Wf cfg r) (hacc : (step cfg r e (.msg ⟨.commit v, key, sigOk⟩)).out = .accepted) :
    key < cfg.c.n ∧ r.view ≤ v.view.number ∧ (∀ w, alGet r.commitViews key = some w → w < v.view.number) ∧
    sigOk = true ∧ v.verify cfg.c = true ∧
    (((step cfg r e (.msg ⟨.commit v, key, sigOk⟩)).r.durable = r.durable ∧
        (step cfg r e (.msg ⟨.commit v, key, sigOk⟩)).effs = []) ∨
     ((step cfg r e (.msg ⟨.commit v, key, sigOk⟩)).r.view = nextU64 v.view.number ∧
        (step cfg r e (.msg ⟨.commit v, key, sigOk⟩)).r.phase = .prepare ∧
        ∃ qc : CommitQC, qc.message = v ∧ qc.verify cfg.c = true ∧
          OptLe (some v.view.number) (hcView (step cfg r e (.msg ⟨.commit v, key, sigOk⟩)).r))) := by
  have hc : VoteChecks cfg r r.commitViews key sigOk v.view.number (v.verify cfg.c) := by
    apply Classical.byContradiction
    intro hn
    obtain ⟨w, hw'⟩ := (onCommit_rejected_iff cfg r e key sigOk v).mpr hn
    have : (step cfg r e (.msg ⟨.commit v, key, sigOk⟩)).out = .rejected w := hw'
    rw [this] at hacc; cases hacc
  obtain ⟨h1, h2, h3, h4, h5⟩ := hc
  refine ⟨h1, h2, h3, h4, h5, ?_⟩
  obtain ⟨qc, _, hasm, hlow, hhigh⟩ := commit_reaction cfg r e key sigOk v hw ⟨h1, h2, h3, h4, h5⟩
  by_cases hlt : weightOf cfg.c.weights qc.signers < cfg.c.quorum
  · rw [hlow hlt]; exact Or.inl ⟨rfl, rfl⟩
  · obtain ⟨hver, hb, ha⟩ := hhigh (by omega)
    cases hok : (processCommitQC (commitR2 r key v qc) e qc).2.2 with
    | false => rw [hb hok] at hacc; cases hacc
    | true =>
      obtain ⟨j, _, heq⟩ := ha hok
      rw [heq]
      obtain ⟨f1, f2, _, f4, _⟩ := snvState_fields (processCommitQC (commitR2 r key v qc) e qc).1 (nextU64 v.view.number)
      refine Or.inr ⟨f1, f2, qc, (Certs.cqcAssembled_inv hasm).1, hver, ?_⟩
      obtain ⟨_, _, _, q', hq', hle⟩ := processCommitQC_spec cfg (commitR2 r key v qc) e qc hver
      show OptLe _ (hcView (snvState _ _))
      unfold hcView
      rw [f4, hq', (Certs.cqcAssembled_inv hasm).1] at *
      simpa [OptLe] using hle

theorem timeout_rejected_iff (cfg : RCfg) (r : Replica) (e : Env) (key : Nat) (sigOk : Bool) (t : TVote) :
    (∃ w, (step cfg r e (.msg ⟨.timeout t, key, sigOk⟩)).out = .rejected w) ↔
      ¬ (key < cfg.c.n ∧ r.view ≤ t.view.number ∧ (∀ w, alGet r.timeoutViews key = some w → w < t.view.number) ∧
          sigOk = true ∧ t.verify cfg.c = true) :=
  onTimeout_rejected_iff cfg r e key sigOk t

/-- `on_timeout`, checks passed, from a well-formed state: as `commit_reaction`, with `TimeoutQC::weight` (whose
`Signers::weight` length assertion does not fire) returning the sum of the groups' weights, and
`process_timeout_qc` (which first processes the certificate's high commit certificate) in place of
`process_commit_qc`. -/
theorem timeout_reaction (cfg : RCfg) (r : Replica) (e : Env) (key : Nat) (sigOk : Bool) (t : TVote) (hw : Wf cfg r)
    (hc : key < cfg.c.n ∧ r.view ≤ t.view.number ∧ (∀ w, alGet r.timeoutViews key = some w → w < t.view.number) ∧
          sigOk = true ∧ t.verify cfg.c = true) :
    ∃ qc, (tQc0 r.timeoutQCs t).add cfg.c { key := some key, sigOk := sigOk } t = .ok qc ∧
      TqcAssembled cfg.c t.view qc ∧ qc.weight cfg.c = .ok (tqcGroupWeight cfg.c qc) ∧
      (tqcGroupWeight cfg.c qc < cfg.c.quorum →
        step cfg r e (.msg ⟨.timeout t, key, sigOk⟩) = { r := timeoutR1 r key t qc, effs := [], out := .accepted }) ∧
      (cfg.c.quorum ≤ tqcGroupWeight cfg.c qc →
        qc.verify cfg.c = true ∧
        ((processTimeoutQC (timeoutR2 r key t qc) e qc).2.2 = false →
          step cfg r e (.msg ⟨.timeout t, key, sigOk⟩) =
            { r := (processTimeoutQC (timeoutR2 r key t qc) e qc).1,
              effs := (processTimeoutQC (timeoutR2 r key t qc) e qc).2.1, out := .blocked }) ∧
        ((processTimeoutQC (timeoutR2 r key t qc) e qc).2.2 = true →
          ∃ j, getJustification (processTimeoutQC (timeoutR2 r key t qc) e qc).1 = .ok j ∧
            step cfg r e (.msg ⟨.timeout t, key, sigOk⟩) =
              { r := snvState (processTimeoutQC (timeoutR2 r key t qc) e qc).1 (nextU64 t.view.number),
                effs := (processTimeoutQC (timeoutR2 r key t qc) e qc).2.1 ++
                  [.notify j,
                   .persist (snvState (processTimeoutQC (timeoutR2 r key t qc) e qc).1 (nextU64 t.view.number)).durable,
                   .send (.newView j)],
                out := .accepted })) := by
  have heq : step cfg r e (.msg ⟨.timeout t, key, sigOk⟩) = timeoutTail cfg r e key sigOk t := by
    rcases onTimeout_cases cfg r e key sigOk t with ⟨hn, _⟩ | ⟨_, ht⟩
    · exact absurd hc hn
    · exact ht
  rw [heq]
  exact timeoutTail_reaction e hw hc

theorem accepted_timeout_conforms (cfg : RCfg) (r : Replica) (e : Env) (key : Nat) (sigOk : Bool) (t : TVote)
    (hw : Wf cfg r) (hacc : (step cfg r e (.msg ⟨.timeout t, key, sigOk⟩)).out = .accepted) :
    key < cfg.c.n ∧ r.view ≤ t.view.number ∧ (∀ w, alGet r.timeoutViews key = some w → w < t.view.number) ∧
    sigOk = true ∧ t.verify cfg.c = true ∧
    (((step cfg r e (.msg ⟨.timeout t, key, sigOk⟩)).r.durable = r.durable ∧
        (step cfg r e (.msg ⟨.timeout t, key, sigOk⟩)).effs = []) ∨
     ((step cfg r e (.msg ⟨.timeout t, key, sigOk⟩)).r.view = nextU64 t.view.number ∧
        (step cfg r e (.msg ⟨.timeout t, key, sigOk⟩)).r.phase = .prepare ∧
        ∃ qc : TimeoutQC, qc.view = t.view ∧ qc.verify cfg.c = true ∧
          OptLe (some t.view.number) (htView (step cfg r e (.msg ⟨.timeout t, key, sigOk⟩)).r))) := by
  have hc : VoteChecks cfg r r.timeoutViews key sigOk t.view.number (t.verify cfg.c) := by
    apply Classical.byContradiction
    intro hn
    obtain ⟨w, hw'⟩ := (onTimeout_rejected_iff cfg r e key sigOk t).mpr hn
    have : (step cfg r e (.msg ⟨.timeout t, key, sigOk⟩)).out = .rejected w := hw'
    rw [this] at hacc; cases hacc
  obtain ⟨h1, h2, h3, h4, h5⟩ := hc
  refine ⟨h1, h2, h3, h4, h5, ?_⟩
  obtain ⟨qc, _, hasm, _, hlow, hhigh⟩ := timeout_reaction cfg r e key sigOk t hw ⟨h1, h2, h3, h4, h5⟩
  by_cases hlt : tqcGroupWeight cfg.c qc < cfg.c.quorum
  · rw [hlow hlt]; exact Or.inl ⟨rfl, rfl⟩
  · obtain ⟨hver, hb, ha⟩ := hhigh (by omega)
    cases hok : (processTimeoutQC (timeoutR2 r key t qc) e qc).2.2 with
    | false => rw [hb hok] at hacc; cases hacc
    | true =>
      obtain ⟨j, _, heq⟩ := ha hok
      rw [heq]
      obtain ⟨f1, f2, _, _, f5, _⟩ := snvState_fields (processTimeoutQC (timeoutR2 r key t qc) e qc).1 (nextU64 t.view.number)
      have hm := (Certs.tqcAssembled_inv hasm).view_eq
      refine Or.inr ⟨f1, f2, qc, hm, hver, ?_⟩
      obtain ⟨_, _, hheld⟩ := processTimeoutQC_spec cfg (timeoutR2 r key t qc) e qc hver
      obtain ⟨q', hq', hle⟩ := hheld hok
      show OptLe _ (htView (snvState _ _))
      unfold htView
      rw [f5, hq']
      rw [hm] at hle
      simpa [OptLe] using hle

/-- `on_new_view` is rejected iff: the view is past, or it is the current view and the sender is not its leader
(refinement: current-view new-view messages are only useful from the leader), or the signer is not a validator, or
the signature or the justification does not verify -/
theorem newView_rejected_iff (cfg : RCfg) (r : Replica) (e : Env) (key : Nat) (sigOk : Bool) (j : Just) :
    (∃ w, (step cfg r e (.msg ⟨.newView j, key, sigOk⟩)).out = .rejected w) ↔
      ¬ (¬ (j.viewNumber < r.view ∨ (j.viewNumber = r.view ∧ key ≠ cfg.leader r.view)) ∧ key < cfg.c.n ∧
          sigOk = true ∧ j.verify cfg.c = true) :=
  onNewView_rejected_iff cfg r e key sigOk j

/-- `on_new_view`, checks passed: the certificate is processed; if it justifies a higher view the replica starts that
view (new-view broadcast with `get_justification()`), otherwise only the high certificates may have grown and
nothing is sent -/
theorem newView_reaction (cfg : RCfg) (r : Replica) (e : Env) (key : Nat) (sigOk : Bool) (j : Just)
    (hc : ¬ (j.viewNumber < r.view ∨ (j.viewNumber = r.view ∧ key ≠ cfg.leader r.view)) ∧ key < cfg.c.n ∧
          sigOk = true ∧ j.verify cfg.c = true) :
    ((processJust r e j).2.2 = false →
      step cfg r e (.msg ⟨.newView j, key, sigOk⟩) =
        { r := (processJust r e j).1, effs := (processJust r e j).2.1, out := .blocked }) ∧
    ((processJust r e j).2.2 = true →
      (j.viewNumber > r.view →
        ∃ j', getJustification (processJust r e j).1 = .ok j' ∧
          step cfg r e (.msg ⟨.newView j, key, sigOk⟩) =
            { r := snvState (processJust r e j).1 j.viewNumber,
              effs := (processJust r e j).2.1 ++
                [.notify j', .persist (snvState (processJust r e j).1 j.viewNumber).durable, .send (.newView j')],
              out := .accepted }) ∧
      (¬ j.viewNumber > r.view →
        step cfg r e (.msg ⟨.newView j, key, sigOk⟩) =
          { r := (processJust r e j).1, effs := (processJust r e j).2.1, out := .accepted })) := by
  have heq : step cfg r e (.msg ⟨.newView j, key, sigOk⟩) = newViewTail r e j := by
    rcases onNewView_cases cfg r e key sigOk j with ⟨hn, _⟩ | ⟨_, ht⟩
    · exact absurd hc hn
    · exact ht
  rw [heq]
  exact newViewTail_reaction e hc.2.2.2

theorem accepted_newview_conforms (cfg : RCfg) (r : Replica) (e : Env) (key : Nat) (sigOk : Bool) (j : Just)
    (hacc : (step cfg r e (.msg ⟨.newView j, key, sigOk⟩)).out = .accepted) :
    r.view ≤ j.viewNumber ∧ (j.viewNumber = r.view → key = cfg.leader r.view) ∧ key < cfg.c.n ∧ sigOk = true ∧
    j.verify cfg.c = true ∧
    (step cfg r e (.msg ⟨.newView j, key, sigOk⟩)).r.view = j.viewNumber ∧
    (r.view < j.viewNumber → (step cfg r e (.msg ⟨.newView j, key, sigOk⟩)).r.phase = .prepare) := by
  have hc : NewViewChecks cfg r key sigOk j := by
    apply Classical.byContradiction
    intro hn
    obtain ⟨w, hw'⟩ := (onNewView_rejected_iff cfg r e key sigOk j).mpr hn
    have : (step cfg r e (.msg ⟨.newView j, key, sigOk⟩)).out = .rejected w := hw'
    rw [this] at hacc; cases hacc
  obtain ⟨h1, h2, h3, h4⟩ := hc
  have hge : r.view ≤ j.viewNumber := by
    apply Classical.byContradiction; intro hn; exact h1 (Or.inl (by omega))
  have hl : j.viewNumber = r.view → key = cfg.leader r.view := by
    intro heq; apply Classical.byContradiction; intro hn; exact h1 (Or.inr ⟨heq, hn⟩)
  refine ⟨hge, hl, h2, h3, h4, ?_⟩
  obtain ⟨hb, ha⟩ := newView_reaction cfg r e key sigOk j ⟨h1, h2, h3, h4⟩
  obtain ⟨hup, _, _⟩ := processJust_spec cfg r e j h4
  cases hok : (processJust r e j).2.2 with
  | false => rw [hb hok] at hacc; cases hacc
  | true =>
    obtain ⟨hgt, hle⟩ := ha hok
    by_cases hlt : j.viewNumber > r.view
    · obtain ⟨j', _, heq⟩ := hgt hlt
      rw [heq]
      obtain ⟨f1, f2, _⟩ := snvState_fields (processJust r e j).1 j.viewNumber
      exact ⟨f1, fun _ => f2⟩
    · rw [hle hlt]
      refine ⟨?_, fun h => absurd h hlt⟩
      show (processJust r e j).1.view = j.viewNumber
      rw [hup.view]; omega

/-- the timer (`start_timeout`): always accepted; the phase becomes `timeout`, nothing else changes; the effects are
`backup_state`, then (unless in view 0) the new-view broadcast with `get_justification()`, then the timeout vote -/
theorem tick_reaction (cfg : RCfg) (r : Replica) (e : Env) (hw : Wf cfg r) :
    (r.view = 0 →
      step cfg r e .tick = { r := stState r,
                             effs := [.persist (stState r).durable, .send (.timeout (ownTimeout cfg (stState r)))],
                             out := .accepted }) ∧
    (r.view ≠ 0 → ∃ j, getJustification r = .ok j ∧
      step cfg r e .tick = { r := stState r,
                             effs := [.persist (stState r).durable, .send (.newView j),
                                      .send (.timeout (ownTimeout cfg (stState r)))],
                             out := .accepted }) := by
  refine ⟨fun h0 => startTimeout_eq0 cfg r h0, fun h0 => ?_⟩
  have hheld : HeldAtLeast r r.view := by
    rcases hw.held with h | h
    · exact absurd h h0
    · exact h
  obtain ⟨j, hj⟩ := getJustification_ok hheld
  exact ⟨j, hj, startTimeout_eq1 cfg r j h0 hj⟩

theorem stState_def (r : Replica) : stState r = { r with phase := .timeout } := rfl

/-! ## 9. All reachable states -/

/-- the last state written by `backup_state` during a step (`disk` if none) -/
def lastPersist (disk : Option Durable) : List Effect → Option Durable
  | [] => disk
  | .persist d :: rest => lastPersist (some d) rest
  | _ :: rest => lastPersist disk rest

/-- States (with the content of the disk) reachable by a correct replica: start without backup; any accepted step
(a rejected input changes neither the state nor the disk: `rejected_unchanged`); a crash at any time followed by a
restart from the disk. A handler that ends `blocked` kills the replica task without having written to disk
(`blocked_no_persist`), so what follows it is `crash` from the same `(r, disk)`; panics do not occur (`no_panic`). -/
inductive Reachable (cfg : RCfg) : Replica → Option Durable → Prop
  | init : Reachable cfg (Replica.start none) none
  | step {r : Replica} {disk : Option Durable} (e : Env) (inp : Input) :
      Reachable cfg r disk → (∀ b, inp ≠ .restart b) → (step cfg r e inp).out = .accepted →
      Reachable cfg (step cfg r e inp).r (lastPersist disk (step cfg r e inp).effs)
  | crash {r : Replica} {disk : Option Durable} :
      Reachable cfg r disk → Reachable cfg (step cfg r default (.restart disk)).r disk

private theorem lastPersist_inv (P : Durable → Prop) (effs : List Effect) (disk : Option Durable)
    (h0 : ∀ d, disk = some d → P d) (h1 : ∀ d, Effect.persist d ∈ effs → P d) :
    ∀ d, lastPersist disk effs = some d → P d := by
  induction effs generalizing disk with
  | nil => exact h0
  | cons x xs ih =>
    cases x with
    | persist d' =>
      exact ih (some d') (fun d hd => by cases hd; exact h1 d' List.mem_cons_self)
        (fun d hd => h1 d (List.mem_cons_of_mem _ hd))
    | send m => exact ih disk h0 (fun d hd => h1 d (List.mem_cons_of_mem _ hd))
    | notify j => exact ih disk h0 (fun d hd => h1 d (List.mem_cons_of_mem _ hd))
    | queueBlock n p q => exact ih disk h0 (fun d hd => h1 d (List.mem_cons_of_mem _ hd))

/-- every reachable state is well-formed, and so is whatever is on its disk -/
theorem reachable_wf (cfg : RCfg) (r : Replica) (disk : Option Durable) (h : Reachable cfg r disk) :
    Wf cfg r ∧ ∀ d, disk = some d → DurableWf cfg d := by
  induction h with
  | init => exact ⟨wf_init cfg, fun d hd => by cases hd⟩
  | @step r disk e inp _ hin hacc ih =>
    refine ⟨wf_preserved cfg r e inp ih.1 hin hacc, ?_⟩
    exact lastPersist_inv _ _ _ ih.2 (fun d hd => (persisted_wf cfg r e inp ih.1 hin hacc d hd).2)
  | @crash r disk _ ih =>
    refine ⟨?_, ih.2⟩
    cases disk with
    | none => exact wf_init cfg
    | some d => exact wf_restart cfg d (ih.2 d rfl)

/-- **C05 for all reachable states and every next input** (other than the crash/restart already covered by
`Reachable.crash`): the input is rejected without any change, or leaves the handler blocked having emitted only block
hand-overs, or is accepted, and then: the invariant holds again; the view (no-wrap), the highest commit certificate's
view and the highest timeout certificate's view did not decrease; a view change is justified by a verifying
certificate for the preceding view carried or completed by the input; every message sent is self-justifying; and
everything persisted is the new state. It never panics. -/
theorem reachable_step (cfg : RCfg) (r : Replica) (disk : Option Durable) (h : Reachable cfg r disk) (e : Env)
    (inp : Input) (hin : ∀ b, inp ≠ .restart b) :
    (∀ s, (step cfg r e inp).out ≠ .panic s) ∧
    ((∃ w, (step cfg r e inp).out = .rejected w ∧ (step cfg r e inp).r = r ∧ (step cfg r e inp).effs = []) ∨
     ((step cfg r e inp).out = .blocked ∧ ∀ x ∈ (step cfg r e inp).effs, ∃ n p q, x = Effect.queueBlock n p q) ∨
     ((step cfg r e inp).out = .accepted ∧
        Wf cfg (step cfg r e inp).r ∧
        (NoWrap inp → r.view ≤ (step cfg r e inp).r.view) ∧
        OptLe (hcView r) (hcView (step cfg r e inp).r) ∧
        OptLe (htView r) (htView (step cfg r e inp).r) ∧
        ((step cfg r e inp).r.view ≠ r.view →
          ∃ j, j.verify cfg.c = true ∧ j.viewNumber = (step cfg r e inp).r.view ∧ Provenance cfg inp j) ∧
        (∀ j, Effect.send (.newView j) ∈ (step cfg r e inp).effs →
          j.verify cfg.c = true ∧ getJustification (step cfg r e inp).r = .ok j) ∧
        (∀ t, Effect.send (.timeout t) ∈ (step cfg r e inp).effs →
          t.verify cfg.c = true ∧ t.view.number = (step cfg r e inp).r.view ∧
            t.highVote = (step cfg r e inp).r.highVote ∧ t.highQC = (step cfg r e inp).r.highCommitQC) ∧
        (∀ v, Effect.send (.commit v) ∈ (step cfg r e inp).effs →
          (step cfg r e inp).r.highVote = some v ∧ v.verify cfg.c = true) ∧
        (∀ d, Effect.persist d ∈ (step cfg r e inp).effs → d = (step cfg r e inp).r.durable))) := by
  have hw := (reachable_wf cfg r disk h).1
  refine ⟨no_panic cfg r e inp hw, ?_⟩
  rcases step_wf hw e inp hin with ⟨w, hr⟩ | ⟨hb, hq⟩ | ⟨hacc, ha⟩
  · exact Or.inl ⟨w, hr, step_rejected hr⟩
  · exact Or.inr (Or.inl ⟨hb, hq⟩)
  · exact Or.inr (Or.inr ⟨hacc, ha.wf, ha.view_mono, ha.hc_mono, ha.ht_mono, ha.justified,
      newView_self_justifying cfg r e inp hw hin hacc, timeout_self_justifying cfg r e inp hw hin hacc,
      commit_is_high_vote cfg r e inp hw hin hacc, ha.persist⟩)

/-! ## 10. A held timeout certificate is for a view strictly below the current view

`high_timeout_qc.view.number < view_number` — the harness checks this on the real replica after every step (monitor
`view_not_above_timeout_qc`). In the code a timeout certificate for view `W` is only adopted together with a move to
a view `≥ W.next()`: `on_timeout` calls `process_timeout_qc` and then `start_new_view(W.next())`; `on_new_view` /
`on_proposal` have checked `justification.view().number = W.next() ≥` current view before processing it.

Because `next` wraps, the statement needs the no-wrap hypothesis `NoWrapJ` on the input (`noWrapJ_iff`): it is
`NoWrap` (needed as for `view_monotone`: a commit or timeout quorum for view 2^64 - 1 enters view 0 while a timeout
certificate is held), and additionally "the timeout certificate that justifies a proposal / new-view message is not
for view 2^64 - 1". The additional clause is necessary too, for the model as for the release build: in view 0, a
new-view message from the leader of view 0 (or a proposal, in phase `prepare`) justified by a verifying timeout
certificate for view 2^64 - 1 has `justification.view().number = 0`, is accepted, and the certificate is adopted while
the replica stays in view 0 — see `exTqcWrap*` in §11 (a reachable state: `reachable_tqcBelow` is false for plain
`Reachable`). Such a certificate needs a quorum of timeout votes for view 2^64 - 1, i.e. more than `f` faulty weight. -/

theorem tqcBelow_init : TqcBelow (Replica.start none) := ReplicaTqc.tqcBelow_start_none

/-- Every step preserves the invariant — from **any** state (`Wf` is not needed), for every environment answer and
every input other than a restart, and whatever the outcome (accepted; rejected: state unchanged; blocked in
`queue_block`: the certificate was not yet adopted) — if no view carried by the input wraps (`NoWrapJ`).

Full statement (without `NoWrapJ`, or with `NoWrap` only): false, see the section comment and `exTqcWrap_violates`. -/
theorem tqcBelow_preserved (cfg : RCfg) (r : Replica) (e : Env) (inp : Input) (hin : ∀ b, inp ≠ .restart b)
    (ht : TqcBelow r) (hnw : NoWrapJ inp) : TqcBelow (step cfg r e inp).r :=
  ReplicaTqc.tqcBelow_step cfg ht e inp hin hnw

/-- every state written to disk by a step from a well-formed state satisfying the invariant satisfies it (only
accepted steps write: what they write is the durable part of the resulting state) -/
theorem persisted_tqcBelow (cfg : RCfg) (r : Replica) (e : Env) (inp : Input) (hw : Wf cfg r)
    (hin : ∀ b, inp ≠ .restart b) (ht : TqcBelow r) (hnw : NoWrapJ inp) (d : Durable)
    (hd : Effect.persist d ∈ (step cfg r e inp).effs) : DurableTqcBelow d := by
  rcases step_wf hw e inp hin with ⟨w, hr⟩ | ⟨_, hq⟩ | ⟨_, ha⟩
  · rw [(step_rejected hr).2] at hd; cases hd
  · exact absurd hd (hq.no_persist d)
  · rw [ha.persist d hd]
    exact (tqcBelow_preserved cfg r e inp hin ht hnw).durable

/-- restoring a persisted state that satisfies the invariant -/
theorem tqcBelow_restart (d : Durable) (h : DurableTqcBelow d) : TqcBelow (Replica.start (some d)) :=
  ReplicaTqc.tqcBelow_start_some d h

/-- `Reachable` restricted to runs in which no input wraps a view number (`NoWrapJ`; `Reachable` itself has no such
side condition) -/
inductive ReachableNoWrap (cfg : RCfg) : Replica → Option Durable → Prop
  | init : ReachableNoWrap cfg (Replica.start none) none
  | step {r : Replica} {disk : Option Durable} (e : Env) (inp : Input) :
      ReachableNoWrap cfg r disk → (∀ b, inp ≠ .restart b) → NoWrapJ inp → (step cfg r e inp).out = .accepted →
      ReachableNoWrap cfg (step cfg r e inp).r (lastPersist disk (step cfg r e inp).effs)
  | crash {r : Replica} {disk : Option Durable} :
      ReachableNoWrap cfg r disk → ReachableNoWrap cfg (step cfg r default (.restart disk)).r disk

theorem ReachableNoWrap.reachable {cfg : RCfg} {r : Replica} {disk : Option Durable} (h : ReachableNoWrap cfg r disk) :
    Reachable cfg r disk := by
  induction h with
  | init => exact .init
  | step e inp _ hin _ hacc ih => exact .step e inp ih hin hacc
  | crash _ ih => exact .crash ih

/-- **in every state reachable without wrapping a view number the held timeout certificate is for a view strictly
below the current view, and so is the one on disk** (any input sequence, crashes and restarts included).

For plain `Reachable` the statement is false (`exTqcWrap_reachable`, `exTqcWrap_violates`); `NoWrapJ` on every input
of the run is the extra hypothesis. -/
theorem reachable_tqcBelow (cfg : RCfg) (r : Replica) (disk : Option Durable) (h : ReachableNoWrap cfg r disk) :
    TqcBelow r ∧ ∀ d, disk = some d → DurableTqcBelow d := by
  induction h with
  | init => exact ⟨tqcBelow_init, fun d hd => by cases hd⟩
  | @step r disk e inp hr hin hnw hacc ih =>
    have hw := (reachable_wf cfg r disk hr.reachable).1
    refine ⟨tqcBelow_preserved cfg r e inp hin ih.1 hnw, ?_⟩
    exact lastPersist_inv _ _ _ ih.2 (fun d hd => persisted_tqcBelow cfg r e inp hw hin ih.1 hnw d hd)
  | @crash r disk _ ih =>
    refine ⟨?_, ih.2⟩
    cases disk with
    | none => exact tqcBelow_init
    | some d => exact tqcBelow_restart d (ih.2 d rfl)

/-! ## 11. Non-vacuity: a concrete committee (weights 1, 2, 3, 10: quorum 13) and a concrete run -/

section Examples

def exCfg : RCfg :=
  { c := { weights := [1, 2, 3, 10], genesis := 7, epoch := 2, first := 0 }, leader := fun v => v % 4, maxPayload := 100 }

def exEnv : Env := { queuedFirst := 0, persistedNext := 0, payloadOk := true, storeNext := 0 }

def exView0 : View := { genesis := 7, epoch := 2, number := 0 }
def exT0 : TVote := { view := exView0, highVote := none, highQC := none }

/-- start, the timer fires in view 0, then the timeout votes of validators 3 (weight 10) and 2 (weight 3) -/
def exS1 : Replica := (step exCfg (Replica.start none) exEnv .tick).r
def exS2 : Replica := (step exCfg exS1 exEnv (.msg ⟨.timeout exT0, 3, true⟩)).r
def exS3 : Replica := (step exCfg exS2 exEnv (.msg ⟨.timeout exT0, 2, true⟩)).r

/-- the timeout certificate for view 0 completed by the second vote -/
def exTQC : TimeoutQC := exS3.highTimeoutQC.getD default

/-- the leader of view 1 (validator 1) proposes a fresh block 0 on that certificate; validators 3 and 2 vote for it -/
def exPayload : Payload := { id := 42, size := 10 }
def exS4 : Replica := (step exCfg exS3 exEnv (.msg ⟨.proposal (some exPayload) (.timeout exTQC), 1, true⟩)).r
def exVote : Vote := exS4.highVote.getD default
def exS5 : Replica := (step exCfg exS4 exEnv (.msg ⟨.commit exVote, 3, true⟩)).r
def exS6 : Replica := (step exCfg exS5 exEnv (.msg ⟨.commit exVote, 2, true⟩)).r

example : exCfg.c.quorum = 13 := by decide

/-- the run is what the comments say: view 0 → 1 on the timeout quorum, a commit vote for block 0 in view 1, view 2 on
the commit quorum; the first vote of each kind only fills the cache -/
example : exS1.view = 0 ∧ exS1.phase = .timeout := by decide
example : exS2.view = 0 ∧ exS2.timeoutViews = [(3, 0)] ∧ exS2.highTimeoutQC = none := by decide
example : exS3.view = 1 ∧ exS3.phase = .prepare ∧ exS3.highTimeoutQC = some exTQC ∧ exTQC.verify exCfg.c = true ∧
    exS3.timeoutQCs = [] := by decide
example : exS4.view = 1 ∧ exS4.phase = .commit ∧ exS4.proposals = [(0, exPayload)] ∧
    exS4.highVote = some { view := { genesis := 7, epoch := 2, number := 1 }, proposal := { number := 0, payload := 42 } } := by
  decide
example : exS5.view = 1 ∧ exS5.commitViews = [(3, 1)] ∧ exS5.highCommitQC = none := by decide
example : exS6.view = 2 ∧ exS6.phase = .prepare ∧ (exS6.highCommitQC.map (·.message)) = some exVote ∧
    (exS6.highCommitQC.map (·.verify exCfg.c)) = some true ∧ exS6.proposals = [] := by decide

/-- all six steps are accepted … -/
example : (step exCfg (Replica.start none) exEnv .tick).out = .accepted := rfl
example : (step exCfg exS1 exEnv (.msg ⟨.timeout exT0, 3, true⟩)).out = .accepted := rfl
example : (step exCfg exS2 exEnv (.msg ⟨.timeout exT0, 2, true⟩)).out = .accepted := rfl
example : (step exCfg exS3 exEnv (.msg ⟨.proposal (some exPayload) (.timeout exTQC), 1, true⟩)).out = .accepted := rfl
example : (step exCfg exS4 exEnv (.msg ⟨.commit exVote, 3, true⟩)).out = .accepted := rfl
example : (step exCfg exS5 exEnv (.msg ⟨.commit exVote, 2, true⟩)).out = .accepted := rfl

/-- … so the non-initial states `exS3` (holding a timeout certificate) and `exS6` (holding a commit certificate) are
reachable and satisfy `Wf`: the hypotheses of the theorems above are met by non-trivial states -/
theorem exS3_reachable : ∃ disk, Reachable exCfg exS3 disk :=
  ⟨_, .step exEnv _ (.step exEnv _ (.step exEnv _ .init (by intro b h; cases h) rfl) (by intro b h; cases h) rfl)
    (by intro b h; cases h) rfl⟩

theorem exS6_reachable : ∃ disk, Reachable exCfg exS6 disk := by
  obtain ⟨d, h⟩ := exS3_reachable
  exact ⟨_, .step exEnv _ (.step exEnv _ (.step exEnv _ h (by intro b h; cases h) rfl) (by intro b h; cases h) rfl)
    (by intro b h; cases h) rfl⟩

example : Wf exCfg exS3 := by
  obtain ⟨d, h⟩ := exS3_reachable
  exact (reachable_wf _ _ _ h).1

example : Wf exCfg exS6 := by
  obtain ⟨d, h⟩ := exS6_reachable
  exact (reachable_wf _ _ _ h).1

/-- a restart after the run comes back in view 2 with the certificates, empty caches -/
example : ∃ disk, Reachable exCfg (Replica.start disk) disk ∧ (Replica.start disk).view = 2 := by
  refine ⟨_, .crash (.step exEnv (.msg ⟨.commit exVote, 2, true⟩)
    (.step exEnv (.msg ⟨.commit exVote, 3, true⟩)
      (.step exEnv (.msg ⟨.proposal (some exPayload) (.timeout exTQC), 1, true⟩)
        (.step exEnv (.msg ⟨.timeout exT0, 2, true⟩)
          (.step exEnv (.msg ⟨.timeout exT0, 3, true⟩)
            (.step exEnv .tick .init (by intro b h; cases h) rfl)
            (by intro b h; cases h) rfl) (by intro b h; cases h) rfl) (by intro b h; cases h) rfl)
      (by intro b h; cases h) rfl) (by intro b h; cases h) rfl), ?_⟩
  decide

/-- the view changes of the run are non-trivial instances of `view_change_justified` (`exS2 → exS3`), of `NoWrap`,
and rejections are real: a second timeout vote of validator 3, a proposal from the wrong leader, an old commit vote -/
example : exS3.view ≠ exS2.view ∧ NoWrap (.msg ⟨.timeout exT0, 2, true⟩) := by
  refine ⟨by decide, ?_⟩
  show (0 : Nat) + 1 < 2 ^ 64
  decide

example : (step exCfg exS2 exEnv (.msg ⟨.timeout exT0, 3, true⟩)).out = .rejected .duplicate := rfl
example : (step exCfg exS3 exEnv (.msg ⟨.proposal (some exPayload) (.timeout exTQC), 2, true⟩)).out
    = .rejected .invalidLeader := rfl
example : (step exCfg exS6 exEnv (.msg ⟨.commit exVote, 1, true⟩)).out = .rejected .old := rfl

/-- `view_monotone` really needs `NoWrap`: in a (well-formed) state that has reached view 2^64 - 1, the commit quorum
for that view makes the wrapping `view.next()` enter view 0 -/
def exWrapVote : Vote := { view := { genesis := 7, epoch := 2, number := 2 ^ 64 - 1 }, proposal := { number := 0, payload := 42 } }
def exWrapQC : CommitQC :=
  { message := { exWrapVote with view := { genesis := 7, epoch := 2, number := 2 ^ 64 - 2 } },
    signers := [false, false, true, true],
    sig := [(2, { exWrapVote with view := { genesis := 7, epoch := 2, number := 2 ^ 64 - 2 } }),
            (3, { exWrapVote with view := { genesis := 7, epoch := 2, number := 2 ^ 64 - 2 } })] }
def exWrapS0 : Replica :=
  Replica.start (some { view := 2 ^ 64 - 1, phase := .prepare, highVote := none, highCommitQC := some exWrapQC,
                        highTimeoutQC := none, proposals := [] })
def exWrapS1 : Replica := (step exCfg exWrapS0 exEnv (.msg ⟨.commit exWrapVote, 3, true⟩)).r
def exWrapS2 : StepRes := step exCfg exWrapS1 exEnv (.msg ⟨.commit exWrapVote, 2, true⟩)

example : Wf exCfg exWrapS0 :=
  wf_restart _ _ ⟨by simp, by intro q hq; cases hq; decide, by simp, Or.inr (Or.inl ⟨exWrapQC, rfl, by decide⟩)⟩

example : exWrapS1.view = 2 ^ 64 - 1 ∧ exWrapS2.r.view = 0 := by decide
example : exWrapS2.out = .accepted := rfl

/-- §10 is not vacuous: `exS3` is reachable without wrapping, holds the timeout certificate for view 0 and is in
view 1 -/
theorem exS3_reachableNoWrap : ∃ disk, ReachableNoWrap exCfg exS3 disk :=
  ⟨_, .step exEnv (.msg ⟨.timeout exT0, 2, true⟩)
    (.step exEnv (.msg ⟨.timeout exT0, 3, true⟩)
      (.step exEnv .tick .init (by intro b h; cases h) trivial rfl)
      (by intro b h; cases h) (show (0 : Nat) + 1 < 2 ^ 64 by decide) rfl)
    (by intro b h; cases h) (show (0 : Nat) + 1 < 2 ^ 64 by decide) rfl⟩

example : TqcBelow exS3 ∧ exS3.highTimeoutQC = some exTQC ∧ exTQC.view.number = 0 ∧ exS3.view = 1 := by
  obtain ⟨d, h⟩ := exS3_reachableNoWrap
  exact ⟨(reachable_tqcBelow _ _ _ h).1, by decide⟩

/-- the proposal on that certificate is a non-trivial instance of `NoWrapJ` (and of `tqcBelow_preserved`) -/
example : NoWrapJ (.msg ⟨.proposal (some exPayload) (.timeout exTQC), 1, true⟩) ∧ TqcBelow exS4 := by
  have hnw : NoWrapJ (.msg ⟨.proposal (some exPayload) (.timeout exTQC), 1, true⟩) := by
    show exTQC.view.number + 1 < 2 ^ 64
    decide
  obtain ⟨d, h⟩ := exS3_reachableNoWrap
  exact ⟨hnw, tqcBelow_preserved exCfg exS3 exEnv _ (by intro b h; cases h) (reachable_tqcBelow _ _ _ h).1 hnw⟩

/-- §10 really needs the clause `NoWrapJ` adds to `NoWrap`: a verifying timeout certificate for view 2^64 - 1 (signed
by validators 2 and 3: weight 13) justifies "view 0"; the new-view message carrying it, sent by the leader of view 0
to the freshly started replica, is accepted, the certificate is adopted, and the replica stays in view 0 -/
def exTqcWrapVote : TVote := { view := { genesis := 7, epoch := 2, number := 2 ^ 64 - 1 }, highVote := none, highQC := none }
def exTqcWrapQC : TimeoutQC :=
  { view := exTqcWrapVote.view, map := [(exTqcWrapVote, [false, false, true, true])],
    sig := [(2, exTqcWrapVote), (3, exTqcWrapVote)] }
def exTqcWrapIn : Input := .msg ⟨.newView (.timeout exTqcWrapQC), 0, true⟩
def exTqcWrapS : StepRes := step exCfg (Replica.start none) exEnv exTqcWrapIn

example : exTqcWrapQC.verify exCfg.c = true ∧ (Just.timeout exTqcWrapQC).viewNumber = 0 := by decide
example : exTqcWrapS.out = .accepted := rfl
example : NoWrap exTqcWrapIn ∧ ¬ NoWrapJ exTqcWrapIn := by
  refine ⟨trivial, ?_⟩
  show ¬ (2 ^ 64 - 1 + 1 < 2 ^ 64)
  decide

theorem exTqcWrap_reachable : ∃ disk, Reachable exCfg exTqcWrapS.r disk :=
  ⟨_, .step exEnv exTqcWrapIn .init (by intro b h; cases h) rfl⟩

theorem exTqcWrap_violates : TqcBelow (Replica.start none) ∧ Wf exCfg (Replica.start none) ∧ ¬ TqcBelow exTqcWrapS.r := by
  refine ⟨tqcBelow_init, wf_init _, fun h => ?_⟩
  have h1 : exTqcWrapS.r.highTimeoutQC = some exTqcWrapQC := by decide
  have h2 : exTqcWrapS.r.view = 0 := by decide
  have := h _ h1
  rw [h2] at this
  exact Nat.not_lt_zero _ this

/-- the same through a proposal (phase `prepare`, view 0, from the leader of view 0: a re-proposal is not implied, so
with a fresh payload) -/
example : (step exCfg (Replica.start none) exEnv (.msg ⟨.proposal (some exPayload) (.timeout exTqcWrapQC), 0, true⟩)).out
      = .accepted ∧
    (step exCfg (Replica.start none) exEnv (.msg ⟨.proposal (some exPayload) (.timeout exTqcWrapQC), 0, true⟩)).r.view = 0 ∧
    (step exCfg (Replica.start none) exEnv
      (.msg ⟨.proposal (some exPayload) (.timeout exTqcWrapQC), 0, true⟩)).r.highTimeoutQC = some exTqcWrapQC :=
  ⟨rfl, by decide⟩

end Examples

end EraVerif.Props.C05
