import EraVerif.Model.Fetch
import EraVerif.Props.C08gen

/-!
# C19 — the availability test of the fetch queue is the regenerated `BlockStoreState::contains`

`gossip::fetch::Queue::accept_block` hands a request to a peer only if the peer's announced state `contains` the number.
`Avail.contains` of `Model/Fetch.lean` is proved equal to the program regenerated from `block_store.rs` on every run
(`Gen/StoreFns`), whatever `BlockNumber::next` does.
-/

namespace EraVerif.Props.C19gen
open EraVerif.Model.Fetch

theorem gen_avail_contains_eq (bn : Nat → Except String Nat) (a : Avail) (n : Nat) :
    EraVerif.Gen.StoreFns.BlockStoreState.contains bn { first := a.first, last := a.last } n = .ok (a.contains n) := by
  have := EraVerif.Props.C08gen.gen_contains_eq bn ⟨a.first, a.last⟩ n
  rw [show ({ first := a.first, last := a.last } : EraVerif.Gen.StoreFns.BlockStoreState)
        = EraVerif.Props.C08gen.gR ⟨a.first, a.last⟩ from rfl, this]
  cases h : a.last <;> simp [Avail.contains, EraVerif.Model.Store.Range.contains, h]

end EraVerif.Props.C19gen
