import EraVerif.Proofs.Wire
import EraVerif.Gen.Schemas

/-!
# C09 — Wire encoding is lossless and canonical (work in progress)
-/

namespace EraVerif.Props.C09
open EraVerif.Model.Wire EraVerif.Proofs.Wire

/-- `read_varint64 ∘ write_varint = id` on every `u64`, whatever follows in the buffer. -/
theorem varint_roundtrip (n : Nat) (h : n < 2 ^ 64) (rest : Bytes) :
    readVarint64 (writeVarint n ++ rest) = .ok (n, rest) := by
  have := readVarintAux_write n 9 0 0 rest (by omega)
  simp [readVarint64, this, Nat.mod_eq_of_lt h]

end EraVerif.Props.C09
