import EraVerif.Proofs.Wire
import EraVerif.Proofs.Conv
import EraVerif.Gen.Schemas

/-!
# C09 — Wire encoding is lossless and canonical

*Statement.* Every value of every message type that is sent, signed or stored decodes back to an equal value after
encoding, and equal values always encode to identical bytes regardless of how they were constructed or in which
order fields and repeated entries were produced, so hashes and signatures computed by different nodes agree. Any
valid protobuf serialisation of a known message (fields reordered, repeated scalars packed or unpacked) normalises
to that same canonical byte string.

## What is proved here, and about what

**Wire layer** (`Model/Wire.lean`, a transcription of `proto_fmt.rs` + the `quick-protobuf` reader/writer calls it
makes; schema-generic: *every* descriptor table, *every* message, *every* byte string — no bound on sizes or
nesting). The objects:

* `canonical tbl idx b` — `canonical_raw(b, desc)`;
* `Tree` — the generic value of a message (`leaf`: canonical byte form of a scalar / bytes value; `node`: ascending
  map field number ↦ values); `encode t` — the canonical writer; `decode` — the parser `canonical_raw` runs;
* `SerMsg tbl d idx fs b` (`Proofs/Wire.lean`) — "`b` is a valid protobuf serialisation of the message value `fs`":
  records in any order, each repeated scalar split into packed / unpacked records at will (also empty packed
  records), tags / lengths / varints minimal or padded up to 10 bytes, sub-messages serialised in the same liberal
  way to any depth;
* `WF tbl d idx fs` — "`fs` is a well-formed value of message `tbl[idx]`" (ascending declared field numbers, singular
  fields single-valued, leaves of the right shape, sizes below the 4 GiB a `u32` length prefix can express).

**Type layer** (`Model/Conv.lean`): the conversions that are not field-by-field copies.

**Schemas**: the table regenerated from every `.proto` file under `/repo/node` on each run satisfies the build-time
restriction of `protobuf_build/src/canonical.rs`.

The structural `read`/`build` pairs (plain field copies) and `prost`'s own encoder are *not* modelled; they are
covered by the correspondence run and the monitors on the implementation (see `tools/reg/C09.py`).
-/

namespace EraVerif.Props.C09
open EraVerif.Model.Wire EraVerif.Model.Conv EraVerif.Proofs.Wire EraVerif.Proofs.Conv

/-! ## 1. Varints -/

/-- `read_varint64 ∘ write_varint = id` on every `u64`, whatever follows in the buffer. -/
theorem varint_roundtrip (n : Nat) (h : n < 2 ^ 64) (rest : Bytes) :
    readVarint64 (writeVarint n ++ rest) = .ok (n, rest) :=
  readVarint64_enc (writeVarint_enc h) h rest

/-- Every valid encoding of `n` — minimal or padded with continuation bytes, 1 to 10 bytes — reads back as `n`. -/
theorem varint_any_encoding_accepted (n : Nat) (h : n < 2 ^ 64) (bs rest : Bytes) (he : EncVarint n bs) :
    readVarint64 (bs ++ rest) = .ok (n, rest) :=
  readVarint64_enc he h rest

/-- `write_varint` is minimal: no complete varint with the same value is shorter. -/
theorem varint_minimal (k : Nat) (bs : Bytes) (h : IsVarintN k bs) :
    (writeVarint (varintVal bs)).length ≤ k :=
  writeVarint_minimal h

/-- non-vacuity: `85 00` is a (padded) 2-byte varint of value 5, whose minimal form `05` has one byte -/
example : IsVarintN 2 [0x85, 0x00] ∧ varintVal [0x85, 0x00] = 5 ∧ writeVarint 5 = [0x05] :=
  ⟨.more _ _ _ (by decide) (.last _ (by decide)), by decide, by decide⟩

/-! ## 2. `canonical_raw` refines "parse, then write canonically" -/

/-- **Refinement to the specification**: for every table, message, fuel and buffer, `canonical_raw` returns exactly
the canonical encoding of the value the parser sees, and fails exactly when (and as) the parser fails. -/
theorem canonicalRaw_eq_encode_decode (tbl : Table) (fuel idx : Nat) (b : Bytes) :
    canonicalRaw tbl fuel idx b = (decode tbl fuel idx b).map encode :=
  canonicalRaw_eq tbl fuel idx b

/-! ## 3. Any valid serialisation normalises to the canonical bytes -/

/-- **The parser accepts every valid serialisation and returns the value it denotes.** -/
theorem parse_of_any_serialisation (tbl : Table) (d idx : Nat) (fs : List (Nat × List Tree)) (b : Bytes)
    (h : SerMsg tbl d idx fs b) (fuel : Nat) (hf : d ≤ fuel) : decode tbl fuel idx b = .ok (.node fs) :=
  decode_of_ser tbl d idx fs b h fuel hf

/-- **Canonicity.** Whatever valid serialisation `b` of the message value `fs` a peer produced (records reordered,
repeated scalars packed / unpacked / split, varints padded, the same inside sub-messages), `canonical_raw(b)` is the
canonical encoding of `fs` — the byte string every node hashes and signs. -/
theorem canonical_of_any_reserialisation (tbl : Table) (d idx : Nat) (fs : List (Nat × List Tree)) (b : Bytes)
    (h : SerMsg tbl d idx fs b) : canonical tbl idx b = .ok (encode (.node fs)) :=
  canonical_of_ser tbl d idx fs b h

/-- Two serialisations of the same value have the same canonical form. -/
theorem serialisations_of_one_value_agree (tbl : Table) (d₁ d₂ idx : Nat) (fs : List (Nat × List Tree))
    (b₁ b₂ : Bytes) (h₁ : SerMsg tbl d₁ idx fs b₁) (h₂ : SerMsg tbl d₂ idx fs b₂) :
    canonical tbl idx b₁ = canonical tbl idx b₂ := by
  rw [canonical_of_ser tbl d₁ idx fs b₁ h₁, canonical_of_ser tbl d₂ idx fs b₂ h₂]

/-- "in any order": exchanging two adjacent records of different fields does not change the denoted value -/
theorem record_order_irrelevant (xs ys : List Chunk) (a b : Chunk) (h : a.num ≠ b.num) :
    groupPairs (xs ++ a :: b :: ys) = groupPairs (xs ++ b :: a :: ys) :=
  groupPairs_swap xs ys a b h

/-- "packed or unpacked": splitting a record of a field into two adjacent records (or merging two) does not change
the denoted value -/
theorem record_split_irrelevant (xs ys : List Chunk) (n : Nat) (v₁ v₂ : List (Tree × Bytes)) (b₁ b₂ b : Bytes) :
    groupPairs (xs ++ ⟨n, v₁, b₁⟩ :: ⟨n, v₂, b₂⟩ :: ys) = groupPairs (xs ++ ⟨n, v₁ ++ v₂, b⟩ :: ys) :=
  groupPairs_split xs ys n v₁ v₂ b₁ b₂ b

/-! ### Non-vacuity: a concrete non-canonical serialisation

Message `T { optional uint64 a = 1; repeated uint64 r = 2; optional T sub = 3; }`, value `a = 5, r = [1, 2]`.
Canonical bytes `08 05 12 02 01 02`; the serialisation below sends `r` first, as two unpacked records, then `a` with
a padded varint: `10 01 10 02 08 85 00`. -/

def exTable : Table :=
  [{ name := "T", proto3 := true, fields := [
      { num := 1, kind := .varint, repeated := false, explicitPresence := true },
      { num := 2, kind := .varint, repeated := true, explicitPresence := false },
      { num := 3, kind := .msg 0, repeated := false, explicitPresence := true }] }]

def exValue : List (Nat × List Tree) :=
  [(1, [.leaf .varint [0x05]]), (2, [.leaf .varint [0x01], .leaf .varint [0x02]])]

def exBytes : Bytes := [0x10, 0x01, 0x10, 0x02, 0x08, 0x85, 0x00]

theorem exOne (b : UInt8) (h : b.toNat < 128) : EncVarint b.toNat [b] :=
  ⟨1, by decide, .last b h, by simp [varintVal]; omega⟩

theorem exSer : SerMsg exTable 1 0 exValue exBytes := by
  refine ⟨exTable[0], [⟨2, [(.leaf .varint [0x01], [0x01])], [0x10, 0x01]⟩,
                       ⟨2, [(.leaf .varint [0x02], [0x02])], [0x10, 0x02]⟩,
                       ⟨1, [(.leaf .varint [0x05], [0x05])], [0x08, 0x85, 0x00]⟩], rfl, rfl, ?_, rfl, rfl, ?_⟩
  · intro c hc
    simp only [List.mem_cons, List.not_mem_nil, or_false] at hc
    rcases hc with rfl | rfl | rfl
    · refine ⟨RawTLV.single (fd := exTable[0].fields[1]) (w := .varint) (tg := [0x10]) (vb := [0x01]) rfl
        ⟨rfl, Or.inl rfl⟩ rfl (by decide) ⟨by decide, exOne 0x10 (by decide)⟩
        ⟨1, by decide, by decide, exOne 0x01 (by decide)⟩, ?_⟩
      intro fd hfd p hp
      have : fd = exTable[0].fields[1] := by simpa [exTable, MsgSchema.getField] using hfd.symm
      subst this; simp at hp; subst hp; rfl
    · refine ⟨RawTLV.single (fd := exTable[0].fields[1]) (w := .varint) (tg := [0x10]) (vb := [0x02]) rfl
        ⟨rfl, Or.inl rfl⟩ rfl (by decide) ⟨by decide, exOne 0x10 (by decide)⟩
        ⟨2, by decide, by decide, exOne 0x02 (by decide)⟩, ?_⟩
      intro fd hfd p hp
      have : fd = exTable[0].fields[1] := by simpa [exTable, MsgSchema.getField] using hfd.symm
      subst this; simp at hp; subst hp; rfl
    · refine ⟨RawTLV.single (fd := exTable[0].fields[0]) (w := .varint) (tg := [0x08]) (vb := [0x85, 0x00]) rfl
        ⟨rfl, Or.inr rfl⟩ rfl (by decide) ⟨by decide, exOne 0x08 (by decide)⟩
        ⟨5, by decide, by decide, 2, by decide, .more _ _ _ (by decide) (.last _ (by decide)), by decide⟩, ?_⟩
      intro fd hfd p hp
      have : fd = exTable[0].fields[0] := by simpa [exTable, MsgSchema.getField] using hfd.symm
      subst this; simp at hp; subst hp; rfl
  · intro p hp hlen fd hfd
    have hp' : p = (1, [(Tree.leaf .varint [0x05], [0x05])]) ∨
        p = (2, [(Tree.leaf .varint [0x01], [0x01]), (Tree.leaf .varint [0x02], [0x02])]) := by
      simpa [groupPairs, groupFrom, FieldMap.push] using hp
    rcases hp' with rfl | rfl
    · simp at hlen
    · have : fd = exTable[0].fields[1] := by simpa [exTable, MsgSchema.getField] using hfd.symm
      subst this; rfl

/-- the theorem applies to it, and what it says is what the executable model computes -/
example : canonical exTable 0 exBytes = .ok [0x08, 0x05, 0x12, 0x02, 0x01, 0x02] := by
  rw [canonical_of_any_reserialisation exTable 1 0 exValue exBytes exSer]; decide

/-! ## 4. Lossless, injective, idempotent on canonical forms -/

/-- The canonical encoding of a well-formed value is itself one of its valid serialisations. -/
theorem encode_is_a_serialisation (tbl : Table) (d idx : Nat) (fs : List (Nat × List Tree))
    (h : WF tbl d idx fs) : SerMsg tbl d idx fs (encode (.node fs)) :=
  wf_ser tbl d idx fs h

/-- **Lossless.** Parsing the canonical encoding of a well-formed value returns exactly that value. -/
theorem decode_encode_id (tbl : Table) (d idx : Nat) (fs : List (Nat × List Tree)) (h : WF tbl d idx fs)
    (fuel : Nat) (hf : d ≤ fuel) : decode tbl fuel idx (encode (.node fs)) = .ok (.node fs) :=
  decode_encode tbl d idx fs h fuel hf

/-- **Canonical forms are fixed points** of `canonical_raw` (idempotence on everything `encode` produces). -/
theorem canonical_fixed_point (tbl : Table) (d idx : Nat) (fs : List (Nat × List Tree)) (h : WF tbl d idx fs) :
    canonical tbl idx (encode (.node fs)) = .ok (encode (.node fs)) :=
  canonical_of_ser tbl d idx fs _ (wf_ser tbl d idx fs h)

/-- **Idempotent on every accepted buffer**: whatever `b` is, if `canonical_raw` accepts it (output below 4 GiB), the
output is a fixed point. (Proved by showing that what the parser returns is, up to entries without values, a
well-formed value.) -/
theorem canonical_idempotent (tbl : Table) (idx : Nat) (b c : Bytes) (h : canonical tbl idx b = .ok c)
    (hsize : c.length < 2 ^ 32) : canonical tbl idx c = .ok c :=
  canonical_idem tbl idx b c h hsize

/-- **Injective.** Two well-formed values with the same encoding are the same value: equal bytes (hence equal hashes
and signature inputs) mean equal messages, and — with `canonical_of_any_reserialisation` — conversely. -/
theorem encode_injective (tbl : Table) (d₁ d₂ idx : Nat) (fs₁ fs₂ : List (Nat × List Tree))
    (h₁ : WF tbl d₁ idx fs₁) (h₂ : WF tbl d₂ idx fs₂) (he : encode (.node fs₁) = encode (.node fs₂)) :
    fs₁ = fs₂ := by
  have e₁ := decode_encode tbl d₁ idx fs₁ h₁ (max d₁ d₂) (Nat.le_max_left _ _)
  have e₂ := decode_encode tbl d₂ idx fs₂ h₂ (max d₁ d₂) (Nat.le_max_right _ _)
  simp only [encode, Tree.payload] at he
  rw [he, e₂] at e₁
  injection e₁ with e₁
  injection e₁ with e₁
  exact e₁.symm

/-- **Agreement of canonical forms characterises equality of values**: serialisations `b₁` of `fs₁` and `b₂` of `fs₂`
(well-formed values, any valid serialisations) have the same canonical bytes iff `fs₁ = fs₂`. -/
theorem canonical_eq_iff (tbl : Table) (d₁ d₂ e₁ e₂ idx : Nat) (fs₁ fs₂ : List (Nat × List Tree)) (b₁ b₂ : Bytes)
    (w₁ : WF tbl e₁ idx fs₁) (w₂ : WF tbl e₂ idx fs₂)
    (s₁ : SerMsg tbl d₁ idx fs₁ b₁) (s₂ : SerMsg tbl d₂ idx fs₂ b₂) :
    canonical tbl idx b₁ = canonical tbl idx b₂ ↔ fs₁ = fs₂ := by
  rw [canonical_of_ser tbl d₁ idx fs₁ b₁ s₁, canonical_of_ser tbl d₂ idx fs₂ b₂ s₂]
  constructor
  · intro h
    injection h with h
    exact encode_injective tbl e₁ e₂ idx fs₁ fs₂ w₁ w₂ h
  · intro h; rw [h]

/-- non-vacuity: the example value is well-formed -/
theorem exWF : WF exTable 1 0 exValue := by
  refine ⟨exTable[0], rfl, rfl, by decide, ?_⟩
  intro p hp
  simp only [exValue, List.mem_cons, List.not_mem_nil, or_false] at hp
  rcases hp with rfl | rfl
  · refine ⟨exTable[0].fields[0], rfl, ⟨rfl, Or.inr rfl⟩, by decide, by simp, by simp, ?_, fun _ => by decide⟩
    intro v hv; simp at hv; subst hv
    exact ⟨5, by decide, rfl⟩
  · refine ⟨exTable[0].fields[1], rfl, ⟨rfl, Or.inl rfl⟩, by decide, by simp, fun _ => rfl, ?_, fun _ => by decide⟩
    intro v hv; simp at hv
    rcases hv with rfl | rfl
    · exact ⟨1, by decide, rfl⟩
    · exact ⟨2, by decide, rfl⟩

example : decode exTable 1 0 (encode (.node exValue)) = .ok (.node exValue) :=
  decode_encode_id exTable 1 0 exValue exWF 1 (Nat.le_refl _)

/-! ## 5. What is rejected -/

/-- A buffer made of well-formed records followed by a record that `read_fields` refuses — wire type 3/4/6/7, an
unknown field number, a map field, a field with implicit presence, a wire type that is neither the field's nor LEN —
is refused by `canonical_raw`, with that error, whatever follows. -/
theorem reject_bad_record (tbl : Table) (idx : Nat) (m : MsgSchema) (hm : tbl[idx]? = some m)
    (hp : m.proto3 = true) (cs : List Chunk) (rest : Bytes) (e : Err)
    (hall : ∀ c ∈ cs, RawTLV m c.num (c.vals.map (·.2)) c.bytes) (hbad : BadHead m rest e) :
    canonical tbl idx (chunksBytes cs ++ rest) = .error e :=
  canonical_reject tbl idx hm hp cs rest e hall hbad

/-- A non-proto3 message is refused outright. -/
theorem reject_not_proto3 (tbl : Table) (idx : Nat) (m : MsgSchema) (hm : tbl[idx]? = some m)
    (hp : m.proto3 = false) (b : Bytes) : canonical tbl idx b = .error .notProto3 :=
  canonical_reject_not_proto3 tbl idx hm hp b

/-- A singular field that ends up with several values (two records, or one packed record with two elements) is
refused. -/
theorem reject_singular_with_several_values (tbl : Table) (idx : Nat) (m : MsgSchema) (hm : tbl[idx]? = some m)
    (hp : m.proto3 = true) (cs : List Chunk) (hall : ∀ c ∈ cs, RawTLV m c.num (c.vals.map (·.2)) c.bytes)
    (p : Nat × List (Tree × Bytes)) (hmem : p ∈ groupPairs cs) (hlen : 1 < p.2.length)
    (fd : FieldSchema) (hfd : m.getField p.1 = some fd) (hrep : fd.repeated = false) :
    ∀ out, canonical tbl idx (chunksBytes cs) ≠ .ok out :=
  canonical_reject_multi tbl idx hm hp cs hall hmem hlen hfd hrep

/-- non-vacuity: an unknown field number (4) after nothing, and field 1 sent twice -/
example : canonical exTable 0 [0x20, 0x01] = .error .unknownField := by decide
example : canonical exTable 0 [0x08, 0x01, 0x08, 0x02] = .error .multi := by decide
example : canonical exTable 0 [0x0b, 0x01] = .error .wireType := by decide
example : canonical exTable 0 [0x09, 1, 2, 3, 4, 5, 6, 7, 8] = .error .unexpectedWire := by decide

/-! ## 6. The schemas of the repository -/

/-- **Every message of every `.proto` file under `/repo/node`** (the table is regenerated by `tools/translate.py` on
each run) is proto3, has no map field, gives every singular field explicit presence, has distinct field numbers
below 2²⁹, and refers only to messages of the table — the build-time restriction of `protobuf_build/src/canonical.rs`,
re-established on the current sources. -/
theorem all_schemas_support_canonical : supportsCanonical EraVerif.Gen.Schemas.table = true := by decide

/-- What the restriction buys: for every field of every message of such a table `read_fields` raises none of its
schema errors, and tags fit the `u32` they are read into. -/
theorem schema_restriction_sufficient (tbl : Table) (h : supportsCanonical tbl = true) (idx : Nat) (m : MsgSchema)
    (hm : tbl[idx]? = some m) (num : Nat) (fd : FieldSchema) (hf : m.getField num = some fd) :
    m.proto3 = true ∧ FieldOk fd ∧ num * 8 + 7 < 2 ^ 32 ∧ (∀ k, fd.kind = .msg k → k < tbl.length) :=
  supportsCanonical_field h hm hf

/-! ## 7. Conversions that are not field-by-field copies -/

/-- **BitVec** (signer sets): every bit vector, of any length — also 0, and not a multiple of 8 — survives
`build` then `read`. -/
theorem bitvec_roundtrip (bits : List Bool) :
    bitvecRead (bitvecBuild bits).1 (bitvecBuild bits).2 = .ok bits :=
  bitvec_read_build bits

/-- **Duration / Timestamp**: every `time::Duration` whose second count is above `i64::MIN` (or whose nanoseconds are
not negative) survives `build` then `read`; negative durations are normalised to non-negative nanos on the wire. -/
theorem duration_roundtrip (d : Dur) (hv : d.Valid) (hmin : i64Min < d.secs ∨ 0 ≤ d.nanos) :
    durRead (durBuild d).1 (durBuild d).2 = .ok d ∧ 0 ≤ (durBuild d).2 := by
  refine ⟨duration_read_build d hv hmin, ?_⟩
  obtain ⟨_, _, h3, _⟩ := hv
  simp only [durBuild, nanosPerSec] at *
  split <;> simp <;> omega

example : (⟨-5, -3⟩ : Dur).Valid ∧ (i64Min < (⟨-5, -3⟩ : Dur).secs ∨ 0 ≤ (⟨-5, -3⟩ : Dur).nanos) :=
  ⟨⟨by decide, by decide, by decide, by decide, by decide, by decide⟩, Or.inl (by decide)⟩

/-- repair F12 (`duration_from_parts` refuses what `build` cannot re-encode): every duration / timestamp that `read`
accepts lies in the domain of `duration_roundtrip` — it never has `i64::MIN` whole seconds with a negative sub-second
part, so nothing accepted from the wire is later hashed or re-sent through the overflowing `seconds -= 1`. -/
theorem duration_accepted_is_representable (s n : Int) (d : Dur) (h : durRead s n = .ok d) :
    i64Min < d.secs ∨ 0 ≤ d.nanos :=
  duration_read_representable s n d h

example : durRead (i64Min + 1) (-1000000001) = .err ∧ durRead i64Min (-1) = .err ∧ durRead i64Min 0 = .ok ⟨i64Min, 0⟩ := by
  decide

/-- the corner the property excludes is excluded for a reason: `(i64::MIN s, −1 ns)` does not survive -/
theorem duration_min_excluded :
    durRead (durBuild ⟨i64Min, -1⟩).1 (durBuild ⟨i64Min, -1⟩).2 ≠ .ok ⟨i64Min, -1⟩ :=
  duration_min_not_roundtrip

/-- **SocketAddr** as ip (4 or 16 octets) + port. -/
theorem sockaddr_roundtrip (a : SockAddr) (hv : a.Valid) : sockRead (sockBuild a).1 (sockBuild a).2 = .ok a :=
  sockaddr_read_build a hv

/-- The derived `Ord` of `ReplicaTimeout` (lexicographic through `View`, `ReplicaCommit`, `CommitQC`, `Signers`,
signature bytes, `Option`) is a lawful total order — the precondition for a `BTreeMap` keyed by it to have a
content-determined iteration order. -/
theorem replicaTimeout_order_lawful : LawfulCmp ReplicaTimeout.cmp := lawful_replicaTimeout

/-- **TimeoutQC**: vote maps holding the same entries — inserted in any two orders — `build` to the same message
(hence the same bytes, hash, signature input). -/
theorem timeoutQC_build_order_independent (view : View) (sig : Bytes) (e₁ e₂ : List (ReplicaTimeout × List Bool))
    (hp : e₁.Perm e₂) (hnd : (e₁.map (·.1)).Nodup) :
    (TimeoutQC.tree ⟨view, e₁, sig⟩).payload = (TimeoutQC.tree ⟨view, e₂, sig⟩).payload := by
  rw [timeoutQC_tree_perm view sig hp hnd]

/-- **Schedule**: `Schedule::new` accepts or refuses a validator list independently of its order, and when it
accepts, `build` writes the same message. -/
theorem schedule_build_order_independent (l₁ l₂ : List ValidatorInfo) (hp : l₁.Perm l₂) (sel : LeaderSelection) :
    (scheduleNew l₁ sel).map (fun s => s.tree.payload) = (scheduleNew l₂ sel).map (fun s => s.tree.payload) := by
  rw [scheduleNew_perm hp sel]

/-- **mux handshake** (repaired F7): equal capability maps encode equally, whatever the insertion order. -/
theorem muxHandshake_build_order_independent (a₁ a₂ c₁ c₂ : List (Nat × Nat)) (ha : a₁.Perm a₂) (hc : c₁.Perm c₂)
    (hna : (a₁.map (·.1)).Nodup) (hnc : (c₁.map (·.1)).Nodup) :
    (muxHandshakeTree a₁ c₁).payload = (muxHandshakeTree a₂ c₂).payload := by
  rw [muxHandshake_tree_perm ha hc hna hnc]

/-- non-vacuity of the permutation hypotheses -/
example : [(3, 1), (1, 2)].Perm [(1, 2), (3, 1)] ∧ (([(3, 1), (1, 2)] : List (Nat × Nat)).map (·.1)).Nodup :=
  ⟨List.Perm.swap _ _ _, by decide⟩

end EraVerif.Props.C09
