import EraVerif.Model.Consensus
import EraVerif.Proofs.Certs

/-!
# C04 — Certificates are accepted exactly when genuinely backed by a quorum

Statement. A commit certificate, timeout certificate, finalized block, proposal or new-view message is accepted if
and only if it belongs to this chain and epoch, its signer set is a set of distinct committee members whose weight
reaches the quorum n-f, the aggregate signature is exactly the aggregate of those members' signatures over the
stated votes, and (for blocks) the payload hashes to the certified header. Every certificate assembled
incrementally from individually valid votes that reach the quorum is accepted, and adding a vote from a
non-member, a repeated signer, a different vote or a bad signature is refused.

All theorems are over the executable model `Model/Consensus.lean` (which the correspondence run compares with the
real `verify` / `add` functions), with symbolic signatures (DESIGN §4.1): a signature is the pair
`(signer index, message)`, an aggregate is a list of such pairs up to permutation. Quantifier: every committee
(any number of validators, any weights), every certificate value (so every signer subset and every corruption of
every field), every sequence of `add` calls.

Vocabulary (defined in `Proofs/Certs.lean`, pinned down here by `disj_def`, `tqcUnion_get`, `tqcGroupWeight_def`):
`Disj a b` — no index set in both bitmaps; `tqcUnion c q` — bitwise or of all groups' bitmaps;
`tqcGroupWeight c q` — the sum of the groups' weights; `CqcAssembled c v q` / `TqcAssembled c view q` — `q` was
built by `new` followed by any number of **successful** `add`s (a failing `add` returns `Err` and, by construction
of `Except`, yields no certificate: the caller keeps the old one).
-/

namespace EraVerif.Props.C04
open EraVerif.Model
open EraVerif.Proofs
open EraVerif.Proofs.Certs (Disj unionFrom tqcUnion tqcGroupWeight CqcAssembled TqcAssembled unionFrom_get
  unionFrom_length replicate_false_get tqcWeight_ok tqcUnion_weight_eq view_verify_iff cqc_add_ok set_get
  getD_false_iff cqcAssembled_inv tqc_add_ok mapSet_present mapSet_absent tqcAssembled_inv)

/-! ## 1. Commit certificates -/

/-- `CommitQC::verify` accepts iff: this chain ∧ this epoch ∧ bitmap of committee length ∧ signers' weight ≥ quorum ∧
the aggregate is exactly the signatures of the set signers over the stated vote. -/
theorem commitQC_verify_iff (c : Committee) (q : CommitQC) :
    q.verify c = true ↔
      (q.message.view.genesis = c.genesis ∧ q.message.view.epoch = c.epoch ∧ q.signers.length = c.n ∧
        c.quorum ≤ weightOf c.weights q.signers ∧
        List.Perm q.sig ((signerIdxs q.signers).map (fun i => (i, q.message)))) :=
  Certs.commitQC_verify_iff c q

/-! ## 2. The signer set is a set of distinct committee members, each counted once -/

theorem signerIdxs_nodup (s : List Bool) : (signerIdxs s).Nodup := Certs.signerIdxs_nodup s

theorem signerIdxs_lt (s : List Bool) (i : Nat) (h : i ∈ signerIdxs s) : i < s.length := Certs.signerIdxs_lt s i h

theorem mem_signerIdxs_iff (s : List Bool) (i : Nat) : i ∈ signerIdxs s ↔ s[i]? = some true :=
  Certs.mem_signerIdxs_iff s i

/-- the weight counts each signer exactly once -/
theorem weight_eq_sum (ws : List Nat) (s : List Bool) (_h : s.length = ws.length) :
    weightOf ws s = ((signerIdxs s).map (fun i => ws.getD i 0)).sum := Certs.weight_eq_sum' ws s

/-- an accepted commit certificate's signers are distinct members of the committee -/
theorem commitQC_signers_members (c : Committee) (q : CommitQC) (h : q.verify c = true) :
    (signerIdxs q.signers).Nodup ∧ ∀ i ∈ signerIdxs q.signers, i < c.n := by
  have hl := ((commitQC_verify_iff c q).mp h).2.2.1
  exact ⟨signerIdxs_nodup _, fun i hi => hl ▸ signerIdxs_lt _ i hi⟩

/-! ## 3. Timeout certificates -/

theorem disj_def (a b : List Bool) : Disj a b ↔ ∀ i : Nat, ¬ (a[i]? = some true ∧ b[i]? = some true) := Iff.rfl

theorem tqcGroupWeight_def (c : Committee) (q : TimeoutQC) :
    tqcGroupWeight c q = (q.map.map (fun e => weightOf c.weights e.2)).sum := rfl

/-- the union bitmap has exactly the indices set in some group -/
theorem tqcUnion_get (c : Committee) (q : TimeoutQC) (hlen : ∀ e ∈ q.map, e.2.length = c.n) (i : Nat) :
    (tqcUnion c q)[i]? = some true ↔ ∃ e ∈ q.map, e.2[i]? = some true := by
  rw [tqcUnion, unionFrom_get _ _ (fun e he => by simpa using hlen e he)]
  simp [replicate_false_get]

theorem tqcUnion_length (c : Committee) (q : TimeoutQC) (hlen : ∀ e ∈ q.map, e.2.length = c.n) :
    (tqcUnion c q).length = c.n := by
  rw [tqcUnion, unionFrom_length _ _ (fun e he => by simpa using hlen e he)]
  simp

/-- What `some sum'` of the loop of `TimeoutQC::verify` means: every group has the certificate's view, the length of
the running bitmap, a set bit, a valid vote, is disjoint from the incoming `sum` and from every other group; and
`sum'` is the bitwise or of `sum` with all groups. -/
theorem verifyLoop_eq_some_iff (c : Committee) (view : View) (gs : List (TVote × List Bool)) (sum sum' : List Bool) :
    TimeoutQC.verifyLoop c view gs sum = some sum' ↔
      (∀ e ∈ gs, e.1.view = view ∧ e.2.length = sum.length ∧ (∃ i : Nat, e.2[i]? = some true) ∧
        e.1.verify c = true ∧ Disj sum e.2) ∧
      gs.Pairwise (fun a b => Disj a.2 b.2) ∧ sum' = unionFrom sum gs :=
  Certs.verifyLoop_eq_some_iff c view gs sum sum'

/-- `TimeoutQC::verify` accepts iff: this chain ∧ this epoch ∧ every group (vote, signers) has the certificate's view,
a bitmap of committee length with at least one signer and a valid vote (which includes its nested high vote /
high certificate, see `timeoutQC_verify_nested`) ∧ no index is set in two different groups ∧ the weight of all
signers ≥ quorum ∧ the aggregate is exactly the signatures of each group's signers over that group's vote. -/
theorem timeoutQC_verify_iff (c : Committee) (q : TimeoutQC) :
    q.verify c = true ↔
      (q.view.genesis = c.genesis ∧ q.view.epoch = c.epoch ∧
        (∀ e ∈ q.map, e.1.view = q.view ∧ e.2.length = c.n ∧ (∃ i : Nat, e.2[i]? = some true) ∧
          e.1.verify c = true) ∧
        q.map.Pairwise (fun a b => Disj a.2 b.2) ∧
        c.quorum ≤ weightOf c.weights (tqcUnion c q) ∧
        List.Perm q.sig q.expected) :=
  Certs.timeoutQC_verify_iff c q

/-- the expected aggregate of a timeout certificate, group by group -/
theorem tqc_expected_eq (q : TimeoutQC) :
    q.expected = q.map.flatMap (fun e => (signerIdxs e.2).map (fun i => (i, e.1))) := rfl

/-- no double counting: for disjoint groups of committee length `TimeoutQC::weight` does not panic and returns the
sum of the groups' weights, which is the weight of the union of the signer sets. -/
theorem tqc_weight_no_double_count (c : Committee) (q : TimeoutQC) (hlen : ∀ e ∈ q.map, e.2.length = c.n)
    (hd : q.map.Pairwise (fun a b => Disj a.2 b.2)) :
    ∃ w, TimeoutQC.weight c q = .ok w ∧ w = weightOf c.weights (tqcUnion c q) ∧ w = tqcGroupWeight c q :=
  ⟨tqcGroupWeight c q, tqcWeight_ok c q hlen, (tqcUnion_weight_eq c q hlen hd).symm, rfl⟩

/-- the same for an accepted certificate, where the weight reaches the quorum -/
theorem tqc_weight_of_verify (c : Committee) (q : TimeoutQC) (h : q.verify c = true) :
    ∃ w, TimeoutQC.weight c q = .ok w ∧ w = weightOf c.weights (tqcUnion c q) ∧ w = tqcGroupWeight c q ∧
      c.quorum ≤ w := by
  obtain ⟨_, _, hg, hd, hw, _⟩ := (timeoutQC_verify_iff c q).mp h
  have hlen : ∀ e ∈ q.map, e.2.length = c.n := fun e he => (hg e he).2.1
  refine ⟨tqcGroupWeight c q, tqcWeight_ok c q hlen, (tqcUnion_weight_eq c q hlen hd).symm, rfl, ?_⟩
  rw [← tqcUnion_weight_eq c q hlen hd]
  exact hw

/-- an accepted timeout certificate's signers (over all groups) are distinct members: each member index appears in
at most one group, and all indices are below the committee size -/
theorem timeoutQC_signers_members (c : Committee) (q : TimeoutQC) (h : q.verify c = true) :
    q.map.Pairwise (fun a b => ∀ i, ¬ (i ∈ signerIdxs a.2 ∧ i ∈ signerIdxs b.2)) ∧
      ∀ e ∈ q.map, ∀ i ∈ signerIdxs e.2, i < c.n := by
  obtain ⟨_, _, hg, hd, _, _⟩ := (timeoutQC_verify_iff c q).mp h
  refine ⟨hd.imp (fun hab i => by simpa only [mem_signerIdxs_iff] using hab i), fun e he i hi => ?_⟩
  exact (hg e he).2.1 ▸ signerIdxs_lt _ i hi

/-! ## 4. Nested validity -/

/-- `ReplicaTimeout::verify`: its view, its high vote and its high certificate are all on this chain / valid -/
theorem tvote_verify_iff (c : Committee) (t : TVote) :
    t.verify c = true ↔
      t.view.genesis = c.genesis ∧ t.view.epoch = c.epoch ∧
      (∀ hv, t.highVote = some hv → hv.verify c = true) ∧ (∀ hq, t.highQC = some hq → hq.verify c = true) := by
  simp only [TVote.verify, Bool.and_eq_true, view_verify_iff, and_assoc]
  cases t.highVote <;> cases t.highQC <;> simp

/-- every high certificate and high vote reported inside an accepted timeout certificate is itself valid -/
theorem timeoutQC_verify_nested (c : Committee) (q : TimeoutQC) (h : q.verify c = true) :
    ∀ e ∈ q.map,
      (∀ hq, e.1.highQC = some hq → hq.verify c = true) ∧ (∀ hv, e.1.highVote = some hv → hv.verify c = true) := by
  intro e he
  have hv := (((timeoutQC_verify_iff c q).mp h).2.2.1 e he).2.2.2
  have := (tvote_verify_iff c e.1).mp hv
  exact ⟨this.2.2.2, this.2.2.1⟩

/-! ## 5. Proposals, new-view messages, finalized blocks -/

/-- `ProposalJustification::verify` is the verification of its certificate; `LeaderProposal::verify` and
`ReplicaNewView::verify` are exactly `justification.verify` (`leader_proposal.rs:27-37`, `replica_new_view.rs:24-36`). -/
theorem just_verify_iff (c : Committee) (j : Just) :
    j.verify c = true ↔
      (∃ q, j = .commit q ∧ q.verify c = true) ∨ (∃ q, j = .timeout q ∧ q.verify c = true) := by
  cases j <;> simp [Just.verify]

theorem just_verify_commit (c : Committee) (q : CommitQC) : (Just.commit q).verify c = q.verify c := rfl
theorem just_verify_timeout (c : Committee) (q : TimeoutQC) : (Just.timeout q).verify c = q.verify c := rfl

/-- `FinalBlock::verify`: the payload hashes to the certified header's payload hash and the certificate verifies -/
theorem finalBlock_verify_iff (c : Committee) (h : Nat) (q : CommitQC) :
    finalBlockVerify c h q = true ↔ h = q.message.proposal.payload ∧ q.verify c = true := by
  simp [finalBlockVerify]

/-! ## 6. Incremental assembly of commit certificates -/

/-- `CommitQC::add` succeeds iff the signer is a committee member, has not signed yet, the signature is valid, the
vote is the certificate's vote and the vote is valid. -/
theorem cqc_add_ok_iff (c : Committee) (q : CommitQC) (sb : SignedBy) (msg : Vote) :
    (∃ q', q.add c sb msg = .ok q') ↔
      (∃ i, sb.key = some i ∧ i < c.n ∧ q.signers.getD i false = false ∧ sb.sigOk = true ∧ q.message = msg ∧
        msg.verify c = true) := by
  constructor
  · intro ⟨q', h⟩
    obtain ⟨i, h1, h2, h3, h4, h5, h6, _⟩ := (cqc_add_ok c q sb msg q').mp h
    exact ⟨i, h1, h2, h3, h4, h5, h6⟩
  · intro ⟨i, h1, h2, h3, h4, h5, h6⟩
    exact ⟨_, (cqc_add_ok c q sb msg _).mpr ⟨i, h1, h2, h3, h4, h5, h6, rfl⟩⟩

/-- on success exactly bit `i` of the signer is set and its signature is added to the aggregate; nothing else changes -/
theorem cqc_add_effect (c : Committee) (q q' : CommitQC) (sb : SignedBy) (msg : Vote) (h : q.add c sb msg = .ok q') :
    ∃ i, sb.key = some i ∧ q'.message = q.message ∧ q'.signers = q.signers.set i true ∧
      q'.sig = q.sig ++ [(i, msg)] ∧
      (i < q.signers.length → ∀ j, q'.signers[j]? = some true ↔ j = i ∨ q.signers[j]? = some true) := by
  obtain ⟨i, h1, _, _, _, _, _, rfl⟩ := (cqc_add_ok c q sb msg q').mp h
  exact ⟨i, h1, rfl, rfl, rfl, fun hi j => set_get _ i j hi⟩

/-- a vote from a non-member, a repeated signer, a different vote, or with a bad signature is refused -/
theorem cqc_add_refused (c : Committee) (q : CommitQC) (sb : SignedBy) (msg : Vote)
    (h : sb.key = none ∨ (∃ i, sb.key = some i ∧ c.n ≤ i) ∨ (∃ i, sb.key = some i ∧ q.signers.getD i false = true) ∨
      q.message ≠ msg ∨ sb.sigOk = false) :
    ∃ e, q.add c sb msg = .error e := by
  cases hadd : q.add c sb msg with
  | error e => exact ⟨e, rfl⟩
  | ok q' =>
    obtain ⟨i, h1, h2, h3, h4, h5, _⟩ := (cqc_add_ok c q sb msg q').mp hadd
    rcases h with h | ⟨j, hj, h⟩ | ⟨j, hj, h⟩ | h | h
    · simp [h] at h1
    · simp only [h1, Option.some.injEq] at hj; omega
    · simp only [h1, Option.some.injEq] at hj; subst hj; rw [h3] at h; contradiction
    · exact absurd h5 h
    · simp [h4] at h

/-- invariant of assembly: the vote is the one given to `new`, the bitmap has committee length, the aggregate is
exactly the signers' signatures, and as soon as there is a signer the vote is valid -/
theorem cqc_assembled_inv (c : Committee) (v : Vote) (q : CommitQC) (h : CqcAssembled c v q) :
    q.message = v ∧ q.signers.length = c.n ∧ q.sig.Perm q.expected ∧
      ((∃ i : Nat, q.signers[i]? = some true) → v.verify c = true) :=
  cqcAssembled_inv h

/-- Every certificate assembled from `new` by accepted votes verifies exactly when the accepted signers' weight
reaches the quorum. (Only `1 ≤ total` is needed; positivity of the individual weights is not.) -/
theorem cqc_assembled_verify_iff (c : Committee) (v : Vote) (q : CommitQC) (ht : 1 ≤ c.total)
    (h : CqcAssembled c v q) : q.verify c = true ↔ c.quorum ≤ weightOf c.weights q.signers :=
  Certs.cqc_assembled_verify_iff ht h

/-! ## 7. Incremental assembly of timeout certificates -/

/-- `TimeoutQC::add` succeeds iff the signer is a committee member, is in no group yet, the signature is valid, the
vote has the certificate's view and the vote is valid. -/
theorem tqc_add_ok_iff (c : Committee) (q : TimeoutQC) (sb : SignedBy) (msg : TVote) :
    (∃ q', q.add c sb msg = .ok q') ↔
      (∃ i, sb.key = some i ∧ i < c.n ∧ (∀ e ∈ q.map, e.2.getD i false = false) ∧ sb.sigOk = true ∧
        msg.view = q.view ∧ msg.verify c = true) := by
  constructor
  · intro ⟨q', h⟩
    obtain ⟨i, h1, h2, h3, h4, h5, h6, _⟩ := (tqc_add_ok c q sb msg q').mp h
    exact ⟨i, h1, h2, h3, h4, h5, h6⟩
  · intro ⟨i, h1, h2, h3, h4, h5, h6⟩
    exact ⟨_, (tqc_add_ok c q sb msg _).mpr ⟨i, h1, h2, h3, h4, h5, h6, rfl⟩⟩

/-- on success the signature is added to the aggregate and the map either gains bit `i` in the existing group of
this very vote, or gains a new group `{i}` for it -/
theorem tqc_add_effect (c : Committee) (q q' : TimeoutQC) (sb : SignedBy) (msg : TVote)
    (h : q.add c sb msg = .ok q') :
    ∃ i, sb.key = some i ∧ q'.view = q.view ∧ q'.sig = q.sig ++ [(i, msg)] ∧
      (((∃ e ∈ q.map, e.1 = msg) ∧
          q'.map = q.map.map (fun e => if e.1 = msg then (e.1, e.2.set i true) else e)) ∨
       ((∀ e ∈ q.map, e.1 ≠ msg) ∧ q'.map = q.map ++ [(msg, (List.replicate c.n false).set i true)])) := by
  obtain ⟨i, h1, _, _, _, _, _, rfl⟩ := (tqc_add_ok c q sb msg q').mp h
  refine ⟨i, h1, rfl, rfl, ?_⟩
  by_cases hex : ∃ e ∈ q.map, e.1 = msg
  · exact Or.inl ⟨hex, mapSet_present c q.map msg i hex⟩
  · have hne : ∀ e ∈ q.map, e.1 ≠ msg := fun e he h => hex ⟨e, he, h⟩
    exact Or.inr ⟨hne, mapSet_absent c q.map msg i hne⟩

/-- a timeout vote from a non-member, a repeated signer (already in any group), for a different view, or with a
bad signature is refused -/
theorem tqc_add_refused (c : Committee) (q : TimeoutQC) (sb : SignedBy) (msg : TVote)
    (h : sb.key = none ∨ (∃ i, sb.key = some i ∧ c.n ≤ i) ∨
      (∃ i, sb.key = some i ∧ ∃ e ∈ q.map, e.2.getD i false = true) ∨ msg.view ≠ q.view ∨ sb.sigOk = false) :
    ∃ e, q.add c sb msg = .error e := by
  cases hadd : q.add c sb msg with
  | error e => exact ⟨e, rfl⟩
  | ok q' =>
    obtain ⟨i, h1, h2, h3, h4, h5, _⟩ := (tqc_add_ok c q sb msg q').mp hadd
    rcases h with h | ⟨j, hj, h⟩ | ⟨j, hj, e, he, h⟩ | h | h
    · simp [h] at h1
    · simp only [h1, Option.some.injEq] at hj; omega
    · simp only [h1, Option.some.injEq] at hj; subst hj; rw [h3 e he] at h; contradiction
    · exact absurd h5 h
    · simp [h4] at h

/-- invariant of assembly: every group has the certificate's view, a valid vote, a non-empty bitmap of committee
length; different groups have different votes and disjoint signers; the aggregate is exactly the expected one -/
theorem tqc_assembled_inv (c : Committee) (view : View) (q : TimeoutQC) (h : TqcAssembled c view q) :
    q.view = view ∧
      (∀ e ∈ q.map, e.1.view = view ∧ e.2.length = c.n ∧ (∃ i : Nat, e.2[i]? = some true) ∧ e.1.verify c = true) ∧
      q.map.Pairwise (fun a b => a.1 ≠ b.1 ∧ Disj a.2 b.2) ∧ q.sig.Perm q.expected :=
  let inv := tqcAssembled_inv h
  ⟨inv.view_eq, inv.groups, inv.pw, inv.sig⟩

/-- Every timeout certificate assembled from `new` by accepted votes verifies exactly when the weight of all
accepted signers reaches the quorum; that weight is both the sum over the groups and the weight of their union. -/
theorem tqc_assembled_verify_iff (c : Committee) (view : View) (q : TimeoutQC) (ht : 1 ≤ c.total)
    (h : TqcAssembled c view q) : q.verify c = true ↔ c.quorum ≤ tqcGroupWeight c q :=
  Certs.tqc_assembled_verify_iff ht h

theorem tqc_assembled_weight (c : Committee) (view : View) (q : TimeoutQC) (h : TqcAssembled c view q) :
    TimeoutQC.weight c q = .ok (tqcGroupWeight c q) ∧ tqcGroupWeight c q = weightOf c.weights (tqcUnion c q) := by
  obtain ⟨_, hg, hpw, _⟩ := tqc_assembled_inv c view q h
  have hlen : ∀ e ∈ q.map, e.2.length = c.n := fun e he => (hg e he).2.1
  exact ⟨tqcWeight_ok c q hlen, (tqcUnion_weight_eq c q hlen (hpw.imp (fun h => h.2))).symm⟩

/-! ## 8. Non-vacuity: a concrete committee (weights 1, 2, 3, 10: total 16, f = 3, quorum 13) -/

section Examples

def exC : Committee := { weights := [1, 2, 3, 10], genesis := 7, epoch := 2, first := 0 }
def exVote : Vote := { view := { genesis := 7, epoch := 2, number := 5 }, proposal := { number := 9, payload := 42 } }

/-- signers {2, 3}: weight 13, exactly the quorum -/
def exQC : CommitQC := { message := exVote, signers := [false, false, true, true], sig := [(3, exVote), (2, exVote)] }
/-- signers {1, 3}: weight 12, one below the quorum -/
def exQCBelow : CommitQC :=
  { message := exVote, signers := [false, true, false, true], sig := [(1, exVote), (3, exVote)] }

example : exC.quorum = 13 ∧ 1 ≤ exC.total := by decide

example : exQC.message.view.genesis = exC.genesis ∧ exQC.message.view.epoch = exC.epoch ∧ exQC.signers.length = exC.n ∧
    exC.quorum ≤ weightOf exC.weights exQC.signers ∧
    List.Perm exQC.sig ((signerIdxs exQC.signers).map (fun i => (i, exQC.message))) := by decide

example : exQC.verify exC = true := by decide
example : weightOf exC.weights exQCBelow.signers = 12 ∧ exQCBelow.verify exC = false := by decide
/-- the same signers with one signature replaced by another vote's -/
example : ({ exQC with sig := [(3, exVote), (2, { exVote with proposal := { number := 9, payload := 43 } })] } :
    CommitQC).verify exC = false := by decide
example : finalBlockVerify exC 42 exQC = true ∧ finalBlockVerify exC 43 exQC = false := by decide
example : (Just.commit exQC).verify exC = true := by decide

/-- `exQC` is assembled: validator 3 then validator 2 -/
example : CqcAssembled exC exVote exQC :=
  .add (sb := ⟨some 2, true⟩) (msg := exVote)
    (.add (sb := ⟨some 3, true⟩) (msg := exVote) .new rfl) rfl

/-- and the refusals are real -/
example : (CommitQC.new exC exVote).add exC ⟨some 4, true⟩ exVote = .error .notInCommittee ∧
    exQC.add exC ⟨some 3, true⟩ exVote = .error .duplicate ∧
    exQC.add exC ⟨some 0, false⟩ exVote = .error .badSignature ∧
    exQC.add exC ⟨some 0, true⟩ { exVote with proposal := { number := 9, payload := 43 } } = .error .inconsistent :=
  ⟨rfl, rfl, rfl, rfl⟩

def exView : View := { genesis := 7, epoch := 2, number := 6 }
def exT1 : TVote := { view := exView, highVote := some exVote, highQC := some exQC }
def exT2 : TVote := { view := exView, highVote := none, highQC := none }

/-- two groups {3} and {0, 1}: weight 13 -/
def exTQC : TimeoutQC :=
  { view := exView, map := [(exT1, [false, false, false, true]), (exT2, [true, true, false, false])],
    sig := [(0, exT2), (3, exT1), (1, exT2)] }
/-- two groups {3} and {1}: weight 12 -/
def exTQCBelow : TimeoutQC :=
  { view := exView, map := [(exT1, [false, false, false, true]), (exT2, [false, true, false, false])],
    sig := [(3, exT1), (1, exT2)] }
/-- validator 3 counted in both groups -/
def exTQCOverlap : TimeoutQC :=
  { view := exView, map := [(exT1, [false, false, false, true]), (exT2, [true, true, false, true])],
    sig := [(0, exT2), (3, exT1), (1, exT2), (3, exT2)] }

example : exTQC.verify exC = true := by decide
example : exTQCBelow.verify exC = false := by decide
example : exTQCOverlap.verify exC = false := by decide
example : (Just.timeout exTQC).verify exC = true := by decide
example : tqcGroupWeight exC exTQC = 13 ∧ weightOf exC.weights (tqcUnion exC exTQC) = 13 := by decide

/-- `exTQC`'s groups are assembled: validator 3 votes `exT1`, validators 0 and 1 vote `exT2` -/
example : ∃ q, TqcAssembled exC exView q ∧ q.map = exTQC.map ∧ q.verify exC = true :=
  ⟨_, .add (sb := ⟨some 1, true⟩) (msg := exT2)
        (.add (sb := ⟨some 0, true⟩) (msg := exT2)
          (.add (sb := ⟨some 3, true⟩) (msg := exT1) .new rfl) rfl) rfl,
    by decide, by decide⟩

end Examples

end EraVerif.Props.C04
