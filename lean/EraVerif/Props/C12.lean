import EraVerif.Proofs.Handshake
import EraVerif.Proofs.Pool
import EraVerif.Proofs.PeerNet

/-!
# C12 — Connections are admitted only for authenticated, expected, unique peers

Statement. A connection is attributed to identity K only if the remote end proved possession of K's secret key by
signing the identifier of this very encrypted session and announced the same chain (genesis); an outbound
connection additionally requires K to be the peer that was dialled, and the validator network admits only members
of the current committee. A handshake transcript recorded on, or relayed through, a different session is refused,
and each identity holds at most one connection per direction with non-configured peers limited to the configured
quota.

Four layers, all over the executable models in `Model/Handshake.lean`, `Model/Pool.lean`, `Model/PeerNet.lean`
(which the correspondence run compares with the real functions on every check):

1. **decision** — for each of the four handshake functions, *accept ⇔ …* for every input;
2. **protocol** (symbolic cryptography, DESIGN §4.1) — attribution: an accepted key's owner is the other end of
   this very session, for every set of concurrent runs and every adversary that can only replay / relay / reorder
   honest signatures and sign with keys it holds. The side condition `K ≠ own key` is necessary: the signed message
   is the bare session id, so a party's own frame reflected back satisfies an *outbound* run dialling its own key
   (finding F8) — `reflection_on_self_dial_accepted` is the kernel-checked witness;
3. **pool** — invariants of `PoolWatch` over every sequence of `insert` / `remove`, and refinement to a
   set-with-quota specification;
4. **admission** — handshake + pool as composed by `run_inbound_stream` / `run_outbound_stream` on the pools as
   `gossip::Network::new` / `consensus::Network::new` configure them, over every sequence of connection attempts
   and disconnects.

Assumed, not proved (see `level_text`): unforgeability of signatures and uniqueness of the Noise handshake hash per
session are hypotheses (`Unforgeable`, `SessionsWellFormed`); the atomicity of a `PoolWatch` call (async mutex of
`watch.rs`) is what makes "every interleaving" equal "every sequence".
-/

namespace EraVerif.Props.C12
open EraVerif.Model.Handshake EraVerif.Model.PeerNet
open EraVerif.Model.Pool (Pool Obs Op Spec)
open EraVerif.Proofs

/-! ## 1. Decision layer: accept ⇔ session id = own session ∧ genesis equal ∧ signature valid [∧ key = dialled peer] -/

theorem gossip_inbound_accept_iff (me g sid : Nat) (sendOk : Bool) (recv : Option Frame) (K : Key) :
    (gossipInbound me g sid sendOk recv).res = .ok K ↔
      sendOk = true ∧ ∃ f, recv = some f ∧ f.genesis = g ∧ f.sessionId.msg = sid ∧
        f.sessionId.verify = true ∧ K = f.sessionId.key :=
  Handshake.gossipInbound_ok_iff me g sid sendOk recv K

theorem gossip_outbound_accept_iff (me g sid peer : Nat) (sendOk : Bool) (recv : Option Frame) (K : Key) :
    (gossipOutbound me g sid peer sendOk recv).res = .ok K ↔
      sendOk = true ∧ ∃ f, recv = some f ∧ f.genesis = g ∧ f.sessionId.msg = sid ∧ f.sessionId.key = peer ∧
        f.sessionId.verify = true ∧ K = f.sessionId.key :=
  Handshake.gossipOutbound_ok_iff me g sid peer sendOk recv K

theorem consensus_inbound_accept_iff (me g sid : Nat) (sendOk : Bool) (recv : Option Frame) (K : Key) :
    (consensusInbound me g sid sendOk recv).res = .ok K ↔
      sendOk = true ∧ ∃ f, recv = some f ∧ f.genesis = g ∧ f.sessionId.msg = sid ∧
        f.sessionId.verify = true ∧ K = f.sessionId.key :=
  Handshake.consensusInbound_ok_iff me g sid sendOk recv K

theorem consensus_outbound_accept_iff (me g sid peer : Nat) (sendOk : Bool) (recv : Option Frame) (K : Key) :
    (consensusOutbound me g sid peer sendOk recv).res = .ok K ↔
      sendOk = true ∧ ∃ f, recv = some f ∧ f.genesis = g ∧ f.sessionId.msg = sid ∧ f.sessionId.key = peer ∧
        f.sessionId.verify = true ∧ K = f.sessionId.key :=
  Handshake.consensusOutbound_ok_iff me g sid peer sendOk recv K

/-- Whatever a run accepts was *really signed*: by the accepted key, over the id of the run's own session; the
    genesis is the own one; an outbound run accepts only the dialled peer. (All four functions.) -/
theorem accept_requires (r : Run) (K : Key) (h : r.outcome.res = .ok K) :
    ∃ f, r.recv = some f ∧ f.sessionId.sig = { signer := K, msg := r.sid } ∧ f.sessionId.key = K ∧
      f.sessionId.msg = r.sid ∧ f.genesis = r.genesis ∧ (r.dir = .outbound → K = r.peer) := by
  obtain ⟨_, f, hr, hg, hm, hv, hk, hp⟩ := (Handshake.run_ok_iff r K).mp h
  have hs := (Handshake.verify_iff _).mp hv
  refine ⟨f, hr, ?_, hk.symm, hm, hg, ?_⟩
  · rw [hs, ← hk, hm]
  · intro hd; rw [hk]; exact hp hd

/-- A transcript recorded on, or relayed through, another session is refused — even if the adversary rewrites
    the carried session id: what counts is the id that was actually signed. -/
theorem signature_over_other_session_refused (r : Run) (f : Frame) (hr : r.recv = some f)
    (hne : f.sessionId.sig.msg ≠ r.sid) (K : Key) : r.outcome.res ≠ .ok K := by
  intro h
  obtain ⟨f', hr', hs, _⟩ := accept_requires r K h
  rw [hr] at hr'; cases hr'
  rw [hs] at hne; exact hne rfl

/-- a signature by another key than the claimed one is refused -/
theorem signature_by_other_key_refused (r : Run) (f : Frame) (hr : r.recv = some f)
    (hne : f.sessionId.sig.signer ≠ f.sessionId.key) (K : Key) : r.outcome.res ≠ .ok K := by
  intro h
  obtain ⟨f', hr', hs, hk, _⟩ := accept_requires r K h
  rw [hr] at hr'; cases hr'
  rw [hs, hk] at hne; exact hne rfl

/-- another chain is refused -/
theorem other_genesis_refused (r : Run) (f : Frame) (hr : r.recv = some f) (hne : f.genesis ≠ r.genesis)
    (K : Key) : r.outcome.res ≠ .ok K := by
  intro h
  obtain ⟨f', hr', _, _, _, hg, _⟩ := accept_requires r K h
  rw [hr] at hr'; cases hr'
  exact hne hg

/-- an outbound run refuses everybody but the dialled peer -/
theorem unexpected_peer_refused (r : Run) (f : Frame) (hr : r.recv = some f) (hd : r.dir = .outbound)
    (hne : f.sessionId.key ≠ r.peer) (K : Key) : r.outcome.res ≠ .ok K := by
  intro h
  obtain ⟨f', hr', _, hk, _, _, hp⟩ := accept_requires r K h
  rw [hr] at hr'; cases hr'
  rw [hk] at hne; exact hne (hp hd)

/-- a failing stream (EOF, oversize / undecodable frame, failed send) never yields a connection -/
theorem stream_failure_refused (r : Run) (h : r.recv = none ∨ r.sendOk = false) (K : Key) :
    r.outcome.res ≠ .ok K := by
  intro hacc
  obtain ⟨hs, f, hr, _⟩ := (Handshake.run_ok_iff r K).mp hacc
  rcases h with h | h
  · rw [h] at hr; cases hr
  · rw [h] at hs; cases hs

/-- Honest parties sign only the id of the session they terminate (with their own genesis). -/
theorem honest_signs_only_own_session (r : Run) :
    ∀ f ∈ r.outcome.sent, f.sessionId = sign r.me r.sid ∧ f.genesis = r.genesis := by
  intro f hf
  rw [Handshake.sent_eq r f hf]; exact ⟨rfl, rfl⟩

/-- The inbound side signs only after the peer's frame passed every check. -/
theorem inbound_signs_after_verifying (r : Run) (hd : r.dir = .inbound) (hs : r.outcome.sent ≠ []) :
    ∃ f, r.recv = some f ∧ f.genesis = r.genesis ∧ f.sessionId.msg = r.sid ∧ f.sessionId.verify = true :=
  Handshake.inbound_sent_nonempty r hd hs

/-! ## 2. Protocol layer: attribution under symbolic cryptography -/

/-- A set of handshake executions by honest parties (any number, any interleaving — the theorems do not depend on
    an order), and the keys whose secret the adversary holds. -/
structure World where
  bad : List Key
  runs : List Run

/-- Unforgeability + Dolev-Yao adversary: a frame delivered to an honest run carries either a signature by a key
    the adversary holds, or a signature some honest run (of the same network: node keys and validator keys are
    different schemes) produced — the adversary may record, replay, relay, reflect and re-wrap it at will. -/
def Unforgeable (w : World) : Prop :=
  ∀ r ∈ w.runs, ∀ f, r.recv = some f → f.sessionId.sig.signer ∉ w.bad →
    ∃ r' ∈ w.runs, r'.net = r.net ∧ ∃ f' ∈ r'.outcome.sent, f'.sessionId.sig = f.sessionId.sig

/-- As `Unforgeable`, and additionally causal: an inbound run receives before it signs, so the signature it
    receives was not produced by that same run. -/
def CausallyUnforgeable (w : World) : Prop :=
  ∀ r ∈ w.runs, ∀ f, r.recv = some f → f.sessionId.sig.signer ∉ w.bad →
    ∃ r' ∈ w.runs, r'.net = r.net ∧ (r.dir = .inbound → r' ≠ r) ∧
      ∃ f' ∈ r'.outcome.sent, f'.sessionId.sig = f.sessionId.sig

/-- Noise sessions: the handshake hash identifies the session (assumption on Noise: distinct sessions have distinct
    ids), and each of the two ends of a session runs at most one handshake (the stream is consumed by it). -/
def SessionsWellFormed (w : World) : Prop :=
  (∀ r₁ ∈ w.runs, ∀ r₂ ∈ w.runs, r₁.sid = r₂.sid → r₁.session = r₂.session) ∧
  (∀ r₁ ∈ w.runs, ∀ r₂ ∈ w.runs, r₁.session = r₂.session → r₁.initiator = r₂.initiator → r₁ = r₂)

/-- An accepted honest key signed the id of this very session in some honest run of its owner (no side condition). -/
theorem accept_implies_owner_signed_this_session (w : World) (hU : Unforgeable w) (r : Run) (hr : r ∈ w.runs)
    (K : Key) (hacc : r.outcome.res = .ok K) (hK : K ∉ w.bad) :
    ∃ r' ∈ w.runs, r'.net = r.net ∧ r'.me = K ∧ r'.sid = r.sid ∧ r'.outcome.sent ≠ [] := by
  obtain ⟨f, hrecv, hsig, _⟩ := accept_requires r K hacc
  have hs : f.sessionId.sig.signer ∉ w.bad := by rw [hsig]; exact hK
  obtain ⟨r', hr', hnet, f', hf', he⟩ := hU r hr f hrecv hs
  have hf'eq := Handshake.sent_eq r' f' hf'
  rw [hf'eq, hsig] at he
  simp only [sign, Sig.mk.injEq] at he
  exact ⟨r', hr', hnet, he.1, he.2, fun e => by rw [e] at hf'; cases hf'⟩

/-- **Attribution.** If an honest endpoint attributes a connection on session σ to an honest key K ≠ its own key,
    then K's owner ran the handshake at the *other end of σ*: same session, opposite end. Relayed, replayed and
    re-wrapped transcripts cannot achieve this. -/
theorem accept_implies_peer_on_this_session (w : World) (hU : Unforgeable w) (hS : SessionsWellFormed w)
    (r : Run) (hr : r ∈ w.runs) (K : Key) (hacc : r.outcome.res = .ok K) (hK : K ∉ w.bad) (hne : K ≠ r.me) :
    ∃ r' ∈ w.runs, r'.net = r.net ∧ r'.me = K ∧ r'.session = r.session ∧ r'.initiator = !r.initiator ∧
      r'.outcome.sent ≠ [] := by
  obtain ⟨r', hr', hnet, hme, hsid, hsent⟩ := accept_implies_owner_signed_this_session w hU r hr K hacc hK
  have hsess := hS.1 r' hr' r hr hsid
  refine ⟨r', hr', hnet, hme, hsess, ?_, hsent⟩
  cases hi : r'.initiator <;> cases hi2 : r.initiator <;> simp
  all_goals
    have := hS.2 r' hr' r hr hsess (by rw [hi, hi2])
    rw [this] at hme
    exact hne hme.symm

/-- The inbound direction needs no side condition: the inbound side signs only after verifying, so the signature it
    accepts comes from another run — the other end of this session (possibly the node's own outbound end, which is
    a genuine loopback connection). -/
theorem inbound_accept_implies_peer_on_this_session (w : World) (hU : CausallyUnforgeable w)
    (hS : SessionsWellFormed w) (r : Run) (hr : r ∈ w.runs) (hd : r.dir = .inbound) (K : Key)
    (hacc : r.outcome.res = .ok K) (hK : K ∉ w.bad) :
    ∃ r' ∈ w.runs, r'.net = r.net ∧ r'.me = K ∧ r'.session = r.session ∧ r'.initiator = !r.initiator := by
  obtain ⟨f, hrecv, hsig, _⟩ := accept_requires r K hacc
  have hs : f.sessionId.sig.signer ∉ w.bad := by rw [hsig]; exact hK
  obtain ⟨r', hr', hnet, hner, f', hf', he⟩ := hU r hr f hrecv hs
  have hf'eq := Handshake.sent_eq r' f' hf'
  rw [hf'eq, hsig] at he
  simp only [sign, Sig.mk.injEq] at he
  have hsess := hS.1 r' hr' r hr he.2
  refine ⟨r', hr', hnet, he.1, hsess, ?_⟩
  cases hi : r'.initiator <;> cases hi2 : r.initiator <;> simp
  all_goals exact hner hd (hS.2 r' hr' r hr hsess (by rw [hi, hi2]))

/-- the frame a party sends on session `sid` -/
def ownFrame (me : Key) (g : Gen) (sid : Sid) : Frame := { sessionId := sign me sid, genesis := g }

/-- the world of finding F8: one honest outbound run dialling its own key; the other end of the session is the
    adversary, who holds no key at all and echoes the frame it received -/
def reflectionWorld (net : Net) : World :=
  { bad := []
    runs := [{ net := net, dir := .outbound, me := 0, genesis := 0, session := 0, initiator := true, sid := 7,
               peer := 0, sendOk := true, recv := some (ownFrame 0 0 7) }] }

/-- **F8 (negation witness).** Without the side condition attribution fails, on both networks: a node dialling its
    own key accepts its own handshake frame reflected by an adversary that holds no key. All hypotheses of the
    attribution theorem hold (the adversary only replays an honest signature), the accepted key is honest, and no
    honest run exists at the other end of the session. -/
theorem reflection_on_self_dial_accepted (net : Net) :
    Unforgeable (reflectionWorld net) ∧ SessionsWellFormed (reflectionWorld net) ∧
    ∃ r ∈ (reflectionWorld net).runs, r.net = net ∧ r.dir = .outbound ∧ r.peer = r.me ∧
      r.outcome.res = .ok r.me ∧ r.me ∉ (reflectionWorld net).bad ∧
      r.recv = some (ownFrame r.me r.genesis r.sid) ∧
      ¬ ∃ r' ∈ (reflectionWorld net).runs, r'.session = r.session ∧ r'.initiator = !r.initiator := by
  cases net <;>
  · refine ⟨?_, ?_, ?_⟩
    · intro r hr f hf _
      simp only [reflectionWorld, List.mem_singleton] at hr
      subst hr
      simp only [Option.some.injEq] at hf
      subst hf
      refine ⟨_, List.mem_singleton.mpr rfl, rfl, ownFrame 0 0 7, ?_, rfl⟩
      decide
    · constructor <;>
      · intro r₁ h₁ r₂ h₂
        simp only [reflectionWorld, List.mem_singleton] at h₁ h₂
        subst h₁ h₂; simp
    · refine ⟨_, List.mem_singleton.mpr rfl, rfl, rfl, rfl, by decide, by simp [reflectionWorld], rfl, ?_⟩
      simp [reflectionWorld]

/-- F8 is confined to a run dialling its own key: for every other outbound run the accepted key differs from the
    own key whenever the dialled peer does. -/
theorem outbound_accepts_own_key_only_on_self_dial (r : Run) (hd : r.dir = .outbound)
    (hacc : r.outcome.res = .ok r.me) : r.peer = r.me := by
  obtain ⟨_, _, _, _, _, _, hp⟩ := accept_requires r r.me hacc
  exact (hp hd).symm

/-! ### non-vacuity: an honest dial between two different keys satisfies every hypothesis and is accepted -/

def honestWorld : World :=
  { bad := [9]
    runs := [ { net := .consensus, dir := .outbound, me := 1, genesis := 5, session := 3, initiator := true, sid := 40,
                peer := 2, sendOk := true, recv := some (ownFrame 2 5 40) },
              { net := .consensus, dir := .inbound, me := 2, genesis := 5, session := 3, initiator := false, sid := 40,
                peer := 0, sendOk := true, recv := some (ownFrame 1 5 40) } ] }

example : Unforgeable honestWorld ∧ CausallyUnforgeable honestWorld ∧ SessionsWellFormed honestWorld ∧
    (∃ r ∈ honestWorld.runs, r.outcome.res = .ok 2 ∧ 2 ∉ honestWorld.bad ∧ 2 ≠ r.me) ∧
    (∃ r ∈ honestWorld.runs, r.dir = .inbound ∧ r.outcome.res = .ok 1) := by
  refine ⟨?_, ?_, ?_, ?_, ?_⟩
  · intro r hr f hf _
    simp only [honestWorld, List.mem_cons, List.not_mem_nil, or_false] at hr
    rcases hr with rfl | rfl
    · simp only [Option.some.injEq] at hf; subst hf
      exact ⟨_, List.mem_cons_of_mem _ (List.mem_singleton.mpr rfl), rfl, ownFrame 2 5 40, by decide, rfl⟩
    · simp only [Option.some.injEq] at hf; subst hf
      exact ⟨_, List.mem_cons_self, rfl, ownFrame 1 5 40, by decide, rfl⟩
  · intro r hr f hf _
    simp only [honestWorld, List.mem_cons, List.not_mem_nil, or_false] at hr
    rcases hr with rfl | rfl
    · simp only [Option.some.injEq] at hf; subst hf
      exact ⟨_, List.mem_cons_of_mem _ (List.mem_singleton.mpr rfl), rfl, by simp, ownFrame 2 5 40, by decide, rfl⟩
    · simp only [Option.some.injEq] at hf; subst hf
      exact ⟨_, List.mem_cons_self, rfl, by simp, ownFrame 1 5 40, by decide, rfl⟩
  · constructor <;>
    · intro r₁ h₁ r₂ h₂
      simp only [honestWorld, List.mem_cons, List.not_mem_nil, or_false] at h₁ h₂
      rcases h₁ with rfl | rfl <;> rcases h₂ with rfl | rfl <;> simp
  · exact ⟨_, List.mem_cons_self, by decide, by decide, by decide⟩
  · exact ⟨_, List.mem_cons_of_mem _ (List.mem_singleton.mpr rfl), rfl, by decide⟩

/-! ## 3. Pool layer: every sequence of `insert` / `remove` on a pool created by `PoolWatch::new` -/

/-- at most one entry per key -/
theorem one_entry_per_key (allowed : List Nat) (limit : Nat) (ops : List Op) :
    ((Pool.new allowed limit).run ops).1.keys.Nodup :=
  (Pool.inv_run _ ops (Pool.inv_new allowed limit)).1

/-- `extra_count` is exactly the number of current entries outside `allowed`, and never exceeds `extra_limit` -/
theorem extra_count_exact (allowed : List Nat) (limit : Nat) (ops : List Op) :
    let p := ((Pool.new allowed limit).run ops).1
    p.extraCount = p.extras ∧ p.extras ≤ limit ∧ p.allowed = allowed ∧ p.extraLimit = limit := by
  obtain ⟨h, ea, el⟩ := Pool.reach allowed limit ops
  refine ⟨h.2.1, ?_, ea, el⟩
  have := h.2.2; rw [h.2.1, el] at this; exact this

/-- zero extra quota (the validator pools): only members of `allowed` are ever in the pool -/
theorem validator_pool_members_only (committee : List Nat) (ops : List Op) :
    ∀ k ∈ ((Pool.new committee 0).run ops).1.keys, k ∈ committee := by
  have h := Pool.inv_run _ ops (Pool.inv_new committee 0)
  have e := Pool.run_allowed_eq (Pool.new committee 0) ops
  intro k hk
  have := Pool.members_allowed_of_limit_zero _ h e.2 k hk
  rw [e.1] at this; exact this

/-- a second connection for a key that already has one is refused and the existing entry is untouched -/
theorem insert_existing_refused (p : Pool) (k v : Nat) (h : k ∈ p.keys) : p.insert k v = (p, .errExists) := by
  simp [EraVerif.Model.Pool.Pool.insert, h]

/-- exactly when an insert succeeds, in any reachable pool -/
theorem insert_ok_iff (allowed : List Nat) (limit : Nat) (ops : List Op) (k v : Nat) :
    let p := ((Pool.new allowed limit).run ops).1
    (p.insert k v).2 = .ok ↔ k ∉ p.keys ∧ (k ∈ allowed ∨ p.extras < limit) := by
  obtain ⟨h, ea, el⟩ := Pool.reach allowed limit ops
  simp only
  generalize ((Pool.new allowed limit).run ops).1 = p at h ea el
  obtain ⟨_, hc, _⟩ := h
  unfold EraVerif.Model.Pool.Pool.insert
  rw [ea, el, hc]
  by_cases hk : k ∈ p.keys <;> by_cases ha : k ∈ allowed <;> by_cases hl : p.extras ≥ limit <;>
    simp [hk, ha, hl] <;> omega

/-- `remove` never underflows `extra_count` -/
theorem remove_never_underflows (allowed : List Nat) (limit : Nat) (ops : List Op) :
    Obs.underflow ∉ ((Pool.new allowed limit).run ops).2 :=
  Pool.run_no_underflow _ ops (Pool.inv_new allowed limit)

/-- removing a non-configured peer gives its quota slot back: the next new non-configured peer is admitted -/
theorem remove_restores_quota (allowed : List Nat) (limit : Nat) (ops : List Op) (k k' v : Nat) :
    let p := ((Pool.new allowed limit).run ops).1
    k ∈ p.keys → k ∉ allowed → k' ∉ (p.remove k).1.keys → ((p.remove k).1.insert k' v).2 = .ok := by
  intro p hk hka hk'
  have hiff := insert_ok_iff allowed limit (ops ++ [.remove k]) k' v
  have hrun : ((Pool.new allowed limit).run (ops ++ [.remove k])).1 = (p.remove k).1 := by
    have : ∀ (q : Pool) (l : List Op) (o : Op), (q.run (l ++ [o])).1 = ((q.run l).1.step o).1 := by
      intro q l o
      induction l generalizing q with
      | nil => simp [EraVerif.Model.Pool.Pool.run]
      | cons a l ih => simp only [List.cons_append, EraVerif.Model.Pool.Pool.run]; exact ih _
    rw [this]; rfl
  simp only [hrun] at hiff
  apply hiff.mpr
  refine ⟨hk', ?_⟩
  by_cases hk'a : k' ∈ allowed
  · exact .inl hk'a
  · right
    obtain ⟨h, ea, el⟩ := Pool.reach allowed limit ops
    have hka' : k ∉ p.allowed := by show k ∉ ((Pool.new allowed limit).run ops).1.allowed; rw [ea]; exact hka
    have he := Pool.extras_erase p k h.1 hk
    simp only [hka', not_false_eq_true, if_true] at he
    have hcnt : p.extraCount = p.extras := h.2.1
    have hle : p.extraCount ≤ limit := by have := h.2.2; rw [el] at this; exact this
    have h0 : p.extraCount ≠ 0 := by have := he 0; omega
    have hkp : ¬ k ∉ p.keys := fun h => h hk
    have := he (p.extraCount - 1)
    simp only [EraVerif.Model.Pool.Pool.remove, hkp, if_false, hka', not_false_eq_true, if_true, h0]
    omega

/-- Refinement: the pool behaves, call by call, as a *set of keys with a quota for keys outside `allowed`*. -/
theorem pool_refines_spec (allowed : List Nat) (limit : Nat) (ops : List Op) :
    ((Pool.new allowed limit).run ops).2 = ((Spec.new allowed limit).run ops).2 ∧
    ((Pool.new allowed limit).run ops).1.keys = ((Spec.new allowed limit).run ops).1.members := by
  have h := Pool.refines_run (Pool.new allowed limit) (Spec.new allowed limit) ops
    ⟨rfl, rfl, rfl, Pool.inv_new allowed limit⟩
  exact ⟨h.2, h.1.1.symm⟩

/-- non-vacuity: a quota of one, a configured peer, a refused third peer, a freed slot -/
example : ((Pool.new [1] 1).run [.insert 1 10, .insert 5 11, .insert 6 12, .insert 5 13, .remove 5, .insert 6 14]).2
    = [.ok, .ok, .errLimit, .errExists, .removed, .ok] := by decide

/-! ## 4. Admission: every sequence of connection attempts and disconnects on a node -/

/-- The validator network admits only members of the current committee, in both directions. -/
theorem validator_net_admits_committee_only (cfg : Cfg) (evs : List Ev) :
    let n := ((Node.new cfg).run evs).1
    (∀ k ∈ n.cIn.keys, k ∈ cfg.committee) ∧ (∀ k ∈ n.cOut.keys, k ∈ cfg.committee) := by
  have h := PeerNet.nodeInv_run _ evs (PeerNet.nodeInv_new cfg)
  have hc := PeerNet.run_cfg (Node.new cfg) evs
  obtain ⟨hi, _, _, _, _, h5, h6, h7, h8⟩ := h
  simp only
  constructor
  · intro k hk
    have := Pool.members_allowed_of_limit_zero _ (hi .consensus .inbound) h6 k hk
    simp only [Node.pool] at this
    rw [h5, hc] at this; exact this
  · intro k hk
    have := Pool.members_allowed_of_limit_zero _ (hi .consensus .outbound) h8 k hk
    simp only [Node.pool] at this
    rw [h7, hc] at this; exact this

/-- Gossip: outbound connections exist only to configured (static) peers; inbound connections from non-configured
    peers never exceed `dynamic_inbound_limit`. -/
theorem gossip_net_quota (cfg : Cfg) (evs : List Ev) :
    let n := ((Node.new cfg).run evs).1
    (∀ k ∈ n.gOut.keys, k ∈ cfg.staticOut) ∧
    (n.gIn.keys.filter (fun k => k ∉ cfg.staticIn)).length ≤ cfg.dynLimit := by
  have h := PeerNet.nodeInv_run _ evs (PeerNet.nodeInv_new cfg)
  have hc := PeerNet.run_cfg (Node.new cfg) evs
  obtain ⟨hi, h1, h2, h3, h4, _⟩ := h
  simp only
  constructor
  · intro k hk
    have := Pool.members_allowed_of_limit_zero _ (hi .gossip .outbound) h4 k hk
    simp only [Node.pool] at this
    rw [h3, hc] at this; exact this
  · have := hi .gossip .inbound
    simp only [Node.pool] at this
    obtain ⟨_, hcnt, hle⟩ := this
    rw [hcnt, h2, hc] at hle
    simp only [EraVerif.Model.Pool.Pool.extras, h1, hc] at hle
    exact hle

/-- each identity holds at most one connection per network and direction -/
theorem one_connection_per_key_per_direction (cfg : Cfg) (evs : List Ev) (net : Net) (dir : Dir) :
    ((((Node.new cfg).run evs).1).pool net dir).keys.Nodup :=
  ((PeerNet.nodeInv_run _ evs (PeerNet.nodeInv_new cfg)).1 net dir).1

/-- **Admission requires authentication.** Every entry `(K, conn)` of any of the four pools, after any sequence of
    events, was put there by a connection attempt on that very connection whose peer presented this node's genesis
    and a signature by `K` over the id of that connection's own session — and, outbound, `K` is the dialled peer. -/
theorem admitted_only_after_authentication (cfg : Cfg) (evs : List Ev) (net : Net) (dir : Dir) (K conn : Nat)
    (h : (K, conn) ∈ ((((Node.new cfg).run evs).1).pool net dir).current) :
    ∃ ev ∈ evs, ∃ sid peer f, ev = .connect net dir conn sid peer true (some f) ∧ f.genesis = cfg.genesis ∧
      f.sessionId.msg = sid ∧ f.sessionId.sig = { signer := K, msg := sid } ∧ f.sessionId.key = K ∧
      (dir = .outbound → K = peer) := by
  rcases PeerNet.run_entry (Node.new cfg) evs net dir K conn h with h0 | ⟨ev, hm, ha⟩
  · cases net <;> cases dir <;> simp [Node.new, Node.pool, EraVerif.Model.Pool.Pool.new] at h0
  · exact ⟨ev, hm, ha⟩

/-- A second connection authenticating as a key that already has one (same network, same direction) is refused,
    and the node's state — in particular the existing connection's entry — is unchanged. -/
theorem refused_duplicate_keeps_existing (n : Node) (net : Net) (dir : Dir) (conn sid peer : Nat) (sendOk : Bool)
    (recv : Option Frame) (me K : Key) (hme : n.me? net = some me)
    (hacc : (handshakeOf n me net dir sid peer sendOk recv).res = .ok K)
    (hdup : admitKey dir K peer ∈ (n.pool net dir).keys) :
    n.step (.connect net dir conn sid peer sendOk recv) = (n, .refusedPool .errExists) := by
  simp only [Node.step, hme, hacc, insert_existing_refused _ _ _ hdup]
  simp

/-- non-vacuity of the admission theorems: a committee member is admitted, a duplicate is refused, a non-member
    with a perfectly valid handshake is refused by the pool, and the member's slot is free again after it leaves -/
example :
    let cfg : Cfg := { nodeKey := 0, valKey := some 0, genesis := 5, committee := [0, 1, 2], staticIn := [],
                       dynLimit := 1, staticOut := [] }
    ((Node.new cfg).run
      [ .connect .consensus .inbound 100 40 0 true (some (ownFrame 1 5 40)),
        .connect .consensus .inbound 101 41 0 true (some (ownFrame 1 5 41)),
        .connect .consensus .inbound 102 42 0 true (some (ownFrame 7 5 42)),
        .connect .consensus .inbound 103 43 0 true (some (ownFrame 2 5 40)),
        .close 100,
        .connect .consensus .inbound 104 44 0 true (some (ownFrame 1 5 44)) ]).2
    = [.admitted 1, .refusedPool .errExists, .refusedPool .errLimit, .refusedHandshake .session, .closed 1,
       .admitted 1] := by decide

end EraVerif.Props.C12
