import EraVerif.Proofs.RefineLemmas

/-!
# C02 (decision-function half) — the re-proposal rule computed by the code is the rule the safety proof uses

Layer I (`Model/Consensus.lean`, validated against the implementation by differential runs) has the functions
`TimeoutQC.highVote` (`TimeoutQC::high_vote`), `TimeoutQC.highQC` (`TimeoutQC::high_qc`) and `Just.impliedBlock`
(`ProposalJustification::get_implied_block`). Layer P (`Proofs/SafetyCore.lean`) has the relations `TQC.isHV`,
`TQC.noHV`, `TQC.isHQ`, `TQC.noHQ`, `Implied` that `safe_of_timeout_cert` consumes.

`Refine.absTQC c q` reads a code-level timeout certificate `q` (groups of signers with a common `ReplicaTimeout`) as a
protocol-level certificate over the validators `Fin c.n` with weights `Refine.wF c`. The theorems below hold for
**every** committee `c` with total weight ≥ 1 and **every** certificate `q` accepted by `TimeoutQC::verify` — every
number of groups, every split of weight between conflicting high votes, every relation between high vote and high
certificate:

* `highVote_spec` — `high_vote()` returns `hd` iff `hd` is the unique block reported by ≥ `n − 3f` weight, and
  `None` iff there is no such unique block (none reaches it, or two do);
* `highQC_spec` — `high_qc()` returns a reported certificate of maximal view, `None` iff no signer reports one;
* `implied_refines` — `get_implied_block` satisfies `Implied`: re-propose iff the high vote exists and is above the
  high certificate (or there is no high certificate);
* `implied_block_safe` — hence the block implied by the code is `Safe` in the Layer-P history.

Hypothesis `NoWrap q`: `BlockNumber::next` is `self.0 + 1` on `u64`, wrapping in the release profile; the relation
`Implied` is over `ℕ`. For a reported certificate for block `2^64 − 1` the code yields block `0`.
-/

namespace EraVerif.Props.C02d
open EraVerif.Model EraVerif.Safety EraVerif.Refine EraVerif.Proofs.Certs

/-! ## 1. Thresholds and weights coincide -/

/-- the total weight of the abstraction is the committee's total weight -/
theorem total_eq (c : Committee) : total (wF c) = c.total := total_wF c
/-- `max_faulty_weight` -/
theorem faulty_eq (c : Committee) : faulty (wF c) = c.faulty := faulty_wF c
/-- `quorum_threshold` -/
theorem quorum_eq (c : Committee) : quorum (wF c) = c.quorum := quorum_wF c
/-- `subquorum_threshold` -/
theorem subq_eq (c : Committee) : subq (wF c) = c.subquorum := subq_wF c

/-- `Signers::weight` of a bitmap is the Layer-P weight of the set of validators whose bit is set. (No length
hypothesis is needed: bits beyond the committee are ignored by `weightOf`, and are not validators in `Fin c.n`; for
`s.length = c.n`, which `verify` enforces, this is exactly `Signers::weight`.) -/
theorem weight_bridge (c : Committee) (s : List Bool) :
    weightOf c.weights s = wt (wF c) (Finset.univ.filter (fun i : Fin c.n => s.getD i.val false = true)) :=
  weightOf_eq_wt c s

/-! ## 2. The `count` map of `high_vote()` -/

/-- In an accepted certificate the `count` map has one entry per distinct header, and the entry of a header
(`0` if absent) is the weight of the set of signers whose group reports that header as high vote — no signer is
counted twice because the groups are pairwise disjoint. -/
theorem counts_spec (c : Committee) (q : TimeoutQC) (h : q.verify c = true) :
    ((q.counts c).map Prod.fst).Nodup ∧
      ∀ hd : Header, cnt (q.counts c) hd = wt (wF c) ((absTQC c q).reporters hd.number hd.payload) :=
  ⟨counts_nodup c q, fun hd => (wt_reporters c q (verify_groups h).2.1 hd).symm⟩

/-! ## 3. High vote -/

/-- `TimeoutQC::high_vote` on an accepted certificate: it is `Some(hd)` iff `hd` is the unique block whose reporters
weigh ≥ the subquorum `n − 3f`; it is `None` iff no block is in that position (no block reaches the subquorum, or two
different blocks do).

`1 ≤ c.total` is needed: in a committee of total weight `0` (all weights `0`, rejected by `Schedule::new`) the
subquorum is `0`, every header "reaches" it, and the characterisation is false. -/
theorem highVote_spec (c : Committee) (q : TimeoutQC) (ht : 1 ≤ c.total) (h : q.verify c = true) :
    (∀ hd : Header, q.highVote c = some hd ↔ (absTQC c q).isHV (wF c) hd.number hd.payload) ∧
    (q.highVote c = none ↔ (absTQC c q).noHV (wF c)) :=
  ⟨highVote_some_iff c q ht (verify_groups h).2.1, highVote_none_iff c q ht (verify_groups h).2.1⟩

/-! ## 4. High certificate -/

/-- `TimeoutQC::high_qc` on an accepted certificate: `None` iff no signer reports a certificate; `Some(cq)` only for
a certificate that some signer reports and whose view is maximal among all reported certificates. -/
theorem highQC_spec (c : Committee) (q : TimeoutQC) (h : q.verify c = true) :
    (q.highQC = none ↔ (absTQC c q).noHQ) ∧
    (∀ cq, q.highQC = some cq → (absTQC c q).isHQ (refOfQC cq)) :=
  ⟨highQC_none_iff c q (verify_groups h).1 (verify_groups h).2.1,
   highQC_some c q (verify_groups h).1 (verify_groups h).2.1⟩

/-! ## 5. Implied block -/

/-- `get_implied_block` on a timeout justification satisfies the relational specification of the safety proof. -/
theorem implied_refines (c : Committee) (q : TimeoutQC) (ht : 1 ≤ c.total) (h : q.verify c = true)
    (hnw : NoWrap q) :
    Implied (wF c) c.first (absTQC c q) ((Just.timeout q).impliedBlock c).1 ((Just.timeout q).impliedBlock c).2 :=
  Refine.implied_refines c q ht h hnw

/-- `NoWrap` spelled out -/
theorem noWrap_def (q : TimeoutQC) :
    NoWrap q ↔ ∀ e ∈ q.map, ∀ cq, e.1.highQC = some cq → cq.message.proposal.number + 1 < 2 ^ 64 := Iff.rfl

/-- `get_implied_block` on a commit justification: the next block, no payload constraint -/
theorem implied_commit (c : Committee) (cq : CommitQC) (hnw : cq.message.proposal.number + 1 < 2 ^ 64) :
    (Just.commit cq).impliedBlock c = (cq.message.proposal.number + 1, none) := by
  simp only [Just.impliedBlock, nextBlock_of_lt _ hnw]

/-- the signer set of the abstraction (the union of the groups) reaches the quorum: the first conjunct of
`TQC.valid`. (The other two conjuncts of `TQC.valid` speak about the history: that the correct signers sent these
timeouts and that the reported certificates are certificates; they are what signatures provide.) -/
theorem absTQC_valid_shape (c : Committee) (q : TimeoutQC) (h : q.verify c = true) :
    quorum (wF c) ≤ wt (wF c) (absTQC c q).signers :=
  quorum_le_signers c q h

/-- the signers of the abstraction are exactly the validators set in some group, and each one's report is the high
vote / high certificate of the (unique) group that contains it -/
theorem absTQC_signers (c : Committee) (q : TimeoutQC) (h : q.verify c = true) (i : Fin c.n) :
    (i ∈ (absTQC c q).signers ↔ ∃ e ∈ q.map, e.2.getD i.val false = true) ∧
    ∀ e ∈ q.map, e.2.getD i.val false = true →
      (absTQC c q).rep i = ⟨e.1.highVote.map refOfVote, e.1.highQC.map refOfQC⟩ :=
  ⟨mem_signers c q i, fun _ he hi => repOf_of_mem (verify_groups h).2.1 he hi⟩

/-- End to end: in any Layer-P history satisfying the invariants, if the abstraction of an accepted code-level
timeout certificate is valid w.r.t. the history, then a vote in the next view for the block **the code** computes
with `get_implied_block` (any payload if it returns `None`, the returned payload otherwise) is safe. -/
theorem implied_block_safe (c : Committee) (q : TimeoutQC) (ht : 1 ≤ c.total) (h : q.verify c = true)
    (hnw : NoWrap q) (byz : Finset (Fin c.n)) (s : St (Fin c.n)) (hb : wt (wF c) byz ≤ faulty (wF c))
    (hI1 : I1 (wF c) byz s) (hI2 : I2 byz s) (hI4 : I4 byz s) (hI6 : I6 byz c.first s) (hI8 : I8 byz c.first s)
    (hv : (absTQC c q).valid (wF c) byz s) (h' : ℕ)
    (hconf : ∀ hh, ((Just.timeout q).impliedBlock c).2 = some hh → h' = hh) :
    Safe (wF c) byz s (q.view.number + 1) ((Just.timeout q).impliedBlock c).1 h' :=
  safe_of_timeout_cert (wF c) byz c.first s (by rw [total_eq]; exact ht) hb hI1 hI2 hI4 hI6 hI8 (absTQC c q) hv _ _
    (implied_refines c q ht h hnw) h' hconf

/-! ## 6. Non-vacuity: a 6-validator committee and three accepted certificates -/

section Examples

/-- weights 3,2,1,2,2,1: total 11, f = 2, quorum 9, subquorum 5 -/
def exC : Committee := { weights := [3, 2, 1, 2, 2, 1], genesis := 7, epoch := 2, first := 0 }
example : exC.total = 11 ∧ exC.faulty = 2 ∧ exC.quorum = 9 ∧ exC.subquorum = 5 := by decide

def V (n : Nat) : View := { genesis := 7, epoch := 2, number := n }
def vote4 : Vote := { view := V 2, proposal := { number := 4, payload := 40 } }
def vote5 : Vote := { view := V 3, proposal := { number := 5, payload := 77 } }
def vote5b : Vote := { view := V 3, proposal := { number := 5, payload := 78 } }
def allBut5 : List Bool := [true, true, true, true, true, false]
def mkCQC (v : Vote) : CommitQC := { message := v, signers := allBut5, sig := [(0, v), (1, v), (2, v), (3, v), (4, v)] }
/-- certificates for block 4 (view 2) and block 5 (view 3) -/
def cqc4 : CommitQC := mkCQC vote4
def cqc5 : CommitQC := mkCQC vote5
example : cqc4.verify exC = true ∧ cqc5.verify exC = true := by decide

def mkTQC (m : List (TVote × List Bool)) : TimeoutQC :=
  { view := V 4, map := m, sig := TimeoutQC.expected { view := V 4, map := m, sig := [] } }

/-- voted for (5,77) in view 3, knows the certificate for block 4 -/
def tA : TVote := { view := V 4, highVote := some vote5, highQC := some cqc4 }
/-- did not vote in view 3 -/
def tB : TVote := { view := V 4, highVote := some vote4, highQC := some cqc4 }
/-- voted for the conflicting (5,78) in view 3 -/
def tC : TVote := { view := V 4, highVote := some vote5b, highQC := some cqc4 }
/-- voted for (5,77) in view 3 and has seen its certificate -/
def tD : TVote := { view := V 4, highVote := some vote5, highQC := some cqc5 }

/-- validators {0,1} (weight 5 = subquorum) report (5,77); {2,3,5} (weight 4) report (4,40); high certificate is for
block 4: the leader must re-propose (5,77) -/
def exRepropose : TimeoutQC :=
  mkTQC [(tA, [true, true, false, false, false, false]), (tB, [false, false, true, true, false, true])]
/-- {0,1} (weight 5) report (5,77) and {2,3,4} (weight 5) report (5,78): two sub-quorums, no high vote; fresh block 5 -/
def exTwoSubquorums : TimeoutQC :=
  mkTQC [(tA, [true, true, false, false, false, false]), (tC, [false, false, true, true, true, false])]
/-- all report (5,77) (weight 9) but {2,3,5} report its certificate: high vote is not above the high certificate;
fresh block 6 -/
def exFinalized : TimeoutQC :=
  mkTQC [(tA, [true, true, false, false, false, false]), (tD, [false, false, true, true, false, true])]

example : exRepropose.verify exC = true ∧ exTwoSubquorums.verify exC = true ∧ exFinalized.verify exC = true := by
  decide

example : exRepropose.counts exC = [(⟨5, 77⟩, 5), (⟨4, 40⟩, 4)] ∧ exRepropose.highVote exC = some ⟨5, 77⟩ ∧
    exRepropose.highQC = some cqc4 ∧ (Just.timeout exRepropose).impliedBlock exC = (5, some 77) := by decide
example : exTwoSubquorums.counts exC = [(⟨5, 77⟩, 5), (⟨5, 78⟩, 5)] ∧ exTwoSubquorums.highVote exC = none ∧
    exTwoSubquorums.highQC = some cqc4 ∧ (Just.timeout exTwoSubquorums).impliedBlock exC = (5, none) := by decide
example : exFinalized.counts exC = [(⟨5, 77⟩, 9)] ∧ exFinalized.highVote exC = some ⟨5, 77⟩ ∧
    exFinalized.highQC = some cqc5 ∧ (Just.timeout exFinalized).impliedBlock exC = (6, none) := by decide
example : (Just.commit cqc5).impliedBlock exC = (6, none) := by decide

/-- the hypotheses of `highVote_spec`, `highQC_spec`, `implied_refines` are met by the three certificates, and the
theorems yield the expected Layer-P facts -/
example : Implied (wF exC) 0 (absTQC exC exRepropose) 5 (some 77) :=
  implied_refines exC exRepropose (by decide) (by decide) (noWrap_of_check _ (by decide))
example : Implied (wF exC) 0 (absTQC exC exTwoSubquorums) 5 none :=
  implied_refines exC exTwoSubquorums (by decide) (by decide) (noWrap_of_check _ (by decide))
example : Implied (wF exC) 0 (absTQC exC exFinalized) 6 none :=
  implied_refines exC exFinalized (by decide) (by decide) (noWrap_of_check _ (by decide))
example : (absTQC exC exRepropose).isHV (wF exC) 5 77 :=
  ((highVote_spec exC exRepropose (by decide) (by decide)).1 ⟨5, 77⟩).mp (by decide)
example : (absTQC exC exTwoSubquorums).noHV (wF exC) :=
  (highVote_spec exC exTwoSubquorums (by decide) (by decide)).2.mp (by decide)
example : (absTQC exC exFinalized).isHQ ⟨3, 5, 77⟩ :=
  (highQC_spec exC exFinalized (by decide)).2 cqc5 (by decide)
example : quorum (wF exC) ≤ wt (wF exC) (absTQC exC exRepropose).signers :=
  absTQC_valid_shape exC exRepropose (by decide)

end Examples

end EraVerif.Props.C02d
