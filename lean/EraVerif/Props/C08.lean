import EraVerif.Proofs.StoreSys

/-!
# C08 — The block store is a verified, gap-free, append-only chain

*A node's block store only ever contains blocks that were verified against the validator schedule of their epoch
(or the external justification before genesis), holds a contiguous range of block numbers, and hands blocks to
durable storage in increasing order without gaps — each submitted block directly follows the previously submitted
one or the current durable head — never substituting a different block for a number already accepted. A block
reported as available can be read back until it is pruned, however callers, peers and the persistence layer
interleave.*

All theorems are about the labelled transition system of `Model/Store.lean` (`step?`, one event per critical
section of `block_store.rs` / `manager.rs`), for **every** state reachable from a freshly started node by **any**
event list (`Reachable`): queue requests from consensus and peers in any order (valid, invalid, duplicated,
conflicting), pushes of parked requests in any order, cancellations, persistence completions, side-channel jumps,
pruning, arbitrary (even dishonest) reports of the storage, the two background tasks at any speed, and restarts.
`CACHE_CAPACITY` is the constant regenerated from `block_store.rs` on every run.
-/

namespace EraVerif.Props.C08
open EraVerif.Model.Store EraVerif.Proofs.Store
open EraVerif.Gen.StoreConst

/-! ## Only verified blocks enter -/

/-- What "verified" means (`queue_block`, manager.rs:185-214): a pre-genesis block lies below `genesis.first_block`
and its external justification is accepted; a consensus block names an epoch whose schedule is known, its payload
matches the certified hash, the certificate is for this chain's genesis, its signer bitmap has the size of that
epoch's schedule, the signers' weight reaches that schedule's quorum threshold, and the aggregate signature is the
signers' signature on the certificate's message. -/
theorem verified_iff (cfg : Config) (b : Block) :
    verify cfg b = .ok ↔
      (b.kind = .pre ∧ b.num < cfg.firstBlock ∧ b.justOk = true) ∨
      (b.kind = .final ∧ ∃ ws, cfg.schedules.lookup b.epoch = some ws ∧ b.payloadOk = true ∧ b.genesisOk = true ∧
        b.signersLen = ws.length ∧ quorumThreshold ws ≤ signersWeight ws b.signers ∧ b.sigOk = true) := by
  unfold verify
  cases hk : b.kind with
  | pre =>
    simp only [reduceCtorEq, false_and, or_false, true_and]
    by_cases h1 : b.num ≥ cfg.firstBlock <;> cases hj : b.justOk <;> simp [h1] <;> omega
  | final =>
    simp only [reduceCtorEq, false_and, false_or, true_and]
    cases hl : cfg.schedules.lookup b.epoch with
    | none => simp
    | some ws =>
      simp only [Option.some.injEq, exists_eq_left']
      by_cases h3 : b.signersLen = ws.length <;>
        by_cases h4 : signersWeight ws b.signers < quorumThreshold ws <;>
        cases hp : b.payloadOk <;> cases hg : b.genesisOk <;> cases hsg : b.sigOk <;> simp [h3, h4] <;> omega

/-- **only_verified_enter.** In every reachable state every block in the cache, every block ever appended by
`try_push`, every block handed to storage, and every request parked before `try_push` passed the verification. -/
theorem only_verified_enter {s : Sys} (h : Reachable s) :
    (∀ b ∈ s.store.cache, verify s.cfg b = .ok) ∧ (∀ b ∈ s.accepted, verify s.cfg b = .ok) ∧
    (∀ b ∈ s.handed, verify s.cfg b = .ok) ∧ (∀ r ∈ s.parked, verify s.cfg r.block = .ok) := by
  have hi := inv_reachable h
  exact ⟨fun b hb => hi.acceptedVerified b (hi.cacheSuffix.subset hb), hi.acceptedVerified,
    fun b hb => hi.acceptedVerified b (hi.handedAccepted b hb), hi.parkedVerified⟩

/-- A `queue_block` call gets past the verification (parks in front of `try_push`) iff its block verifies;
otherwise it returns an error and nothing else changes. -/
theorem submit_parks_iff (s : Sys) (r : Req) :
    ∃ s', step? s (.submit r) = some s' ∧ s'.store = s.store ∧ s'.accepted = s.accepted ∧
      ((verify s.cfg r.block = .ok ∧ s'.parked = s.parked ++ [r] ∧ s'.finished = s.finished) ∨
       (verify s.cfg r.block ≠ .ok ∧ s'.parked = s.parked ∧ s'.finished = s.finished ++ [(r.id, false)])) := by
  simp only [step?]
  by_cases hv : verify s.cfg r.block = .ok
  · exact ⟨{ s with parked := s.parked ++ [r] }, by simp only [hv, if_true], rfl, rfl, Or.inl ⟨hv, rfl, rfl⟩⟩
  · exact ⟨{ s with finished := s.finished ++ [(r.id, false)] }, by simp only [hv, if_false], rfl, rfl,
      Or.inr ⟨hv, rfl, rfl⟩⟩

/-- **peer_guard** (gossip/runner.rs): a block received for request `want` reaches `queue_block`'s parking place
iff it carries exactly the requested number and verifies; otherwise the fetch fails and nothing else changes. -/
theorem peer_guard (s : Sys) (want : Nat) (r : Req) :
    ∃ s', step? s (.peer want r) = some s' ∧ s'.store = s.store ∧ s'.accepted = s.accepted ∧
      ((r.block.num = want ∧ verify s.cfg r.block = .ok ∧ s'.parked = s.parked ++ [r]) ∨
       (¬ (r.block.num = want ∧ verify s.cfg r.block = .ok) ∧ s'.parked = s.parked ∧
          s'.finished = s.finished ++ [(r.id, false)])) := by
  simp only [step?]
  by_cases hn : r.block.num ≠ want
  · exact ⟨{ s with finished := s.finished ++ [(r.id, false)] }, by rw [if_pos hn], rfl, rfl,
      Or.inr ⟨fun h => hn h.1, rfl, rfl⟩⟩
  · by_cases hv : verify s.cfg r.block = .ok
    · exact ⟨{ s with parked := s.parked ++ [r] }, by rw [if_neg hn, if_pos hv], rfl, rfl,
        Or.inl ⟨by omega, hv, rfl⟩⟩
    · exact ⟨{ s with finished := s.finished ++ [(r.id, false)] }, by rw [if_neg hn, if_neg hv], rfl, rfl,
        Or.inr ⟨fun h => hv h.2, rfl, rfl⟩⟩

/-! ## Contiguity and ordering of the ranges -/

/-- **cache_contiguous_and_tail.** The cache holds exactly the numbers `[queued.next − len, queued.next)`, in order:
`BlockStore::block(n)` finds a block iff `n` is in that interval, and the block it finds has number `n`. -/
theorem cache_contiguous_and_tail {s : Sys} (h : Reachable s) :
    (∀ (i : Nat) (hi : i < s.store.cache.length),
        s.store.cache[i].num + (s.store.cache.length - i) = s.store.queued.next) ∧
    (∀ n, (∃ b, s.store.block n = some b) ↔
        s.store.queued.next - s.store.cache.length ≤ n ∧ n < s.store.queued.next ∧ s.store.cache ≠ []) ∧
    (∀ n b, s.store.block n = some b → b.num = n ∧ b ∈ s.store.cache) := by
  have hc := (inv_reachable h).store.contig
  refine ⟨hc, ?_, fun n b hb => ((block_some_iff hc).mp hb).symm⟩
  intro n
  constructor
  · rintro ⟨b, hb⟩
    obtain ⟨hm, hn⟩ := (block_some_iff hc).mp hb
    obtain ⟨i, hi, rfl⟩ := List.getElem_of_mem hm
    have := hc i hi
    exact ⟨by omega, by omega, List.ne_nil_of_length_pos (by omega)⟩
  · rintro ⟨h1, h2, _⟩
    have hlen := contig_len_le hc
    have hi : n - (s.store.queued.next - s.store.cache.length) < s.store.cache.length := by omega
    refine ⟨s.store.cache[n - (s.store.queued.next - s.store.cache.length)], ?_⟩
    rw [block_some_iff hc]
    exact ⟨List.getElem_mem hi, by have := hc _ hi; omega⟩

/-- **ranges_ordered.** The persisted range never runs ahead of the available range. -/
theorem ranges_ordered {s : Sys} (h : Reachable s) :
    s.store.persisted.next ≤ s.store.queued.next ∧ s.store.persisted.first ≤ s.store.queued.first :=
  ⟨(inv_reachable h).store.ord, (inv_reachable h).store.firstOrd⟩

/-! ## Append-only: a block is appended only at `queued.next`, numbers are accepted once -/

/-- **push_only_at_next** (`try_push`). When a parked request runs its `try_push` critical section, either its number
is not `queued.next` and the store is left untouched, or the block is appended exactly at `queued.next`, becomes
the block `BlockStore::block` returns for that number, and `queued.next` advances by one. -/
theorem push_only_at_next {s s' : Sys} {i : Nat} (h : Reachable s) (hs : step? s (.push i) = some s') :
    ∃ r, s.parked[i]? = some r ∧ verify s.cfg r.block = .ok ∧
      ((r.block.num ≠ s.store.queued.next ∧ s'.store = s.store ∧ s'.accepted = s.accepted) ∨
       (r.block.num = s.store.queued.next ∧ s'.accepted = s.accepted ++ [r.block] ∧
        s'.store.queued.next = r.block.num + 1 ∧ s'.store.block r.block.num = some r.block)) := by
  obtain ⟨r, hr, _, hst, hacc, _⟩ := push_effect hs
  have hi := inv_reachable h
  have hi' := inv_step hi hs
  refine ⟨r, hr, hi.parkedVerified r (List.mem_of_getElem? hr), ?_⟩
  by_cases hm : s.store.queued.next = r.block.num
  · right
    have hmod := (tryPush_modified_iff CACHE_CAPACITY s.store r.block).mpr hm
    have hnext := tryPush_next CACHE_CAPACITY s.store r.block
    simp only [hm, if_true] at hnext
    rw [hmod] at hacc
    refine ⟨hm.symm, hacc, by rw [hst]; exact hnext, ?_⟩
    rw [block_some_iff hi'.store.contig]
    refine ⟨?_, rfl⟩
    rw [hst, tryPush_cache _ _ _ hm]
    rcases mem_truncate_or (cap := CACHE_CAPACITY) (pn := s.store.persisted.next)
        (l := s.store.cache ++ [r.block]) (b := r.block) (by simp) with hin | hlt
    · exact hin
    · have := hi.store.ord
      omega
  · left
    have hmod : (s.store.tryPush CACHE_CAPACITY r.block).2 = false := by
      cases hx : (s.store.tryPush CACHE_CAPACITY r.block).2
      · rfl
      · exact absurd ((tryPush_modified_iff _ _ _).mp hx) hm
    rw [hmod] at hacc
    exact ⟨fun e => hm e.symm, by rw [hst, tryPush_not_modified _ _ _ hmod], hacc⟩

/-- **refines_append_only_chain** (`append_only`). Along every event other than a restart the log of blocks the
store accepted changes only by appending one verified block whose number is the current `queued.next` and exceeds
every number accepted before: the store refines an append-only chain with strictly increasing numbers. -/
theorem refines_append_only_chain {s s' : Sys} {e : Event} (h : Reachable s) (hs : step? s e = some s')
    (hne : e ≠ .restart) :
    s'.accepted = s.accepted ∨
    ∃ b, s'.accepted = s.accepted ++ [b] ∧ verify s.cfg b = .ok ∧ b.num = s.store.queued.next ∧
      s'.store.queued.next = b.num + 1 ∧ ∀ x ∈ s.accepted, x.num < b.num := by
  have hi := inv_reachable h
  rcases store_step_cases hi hs hne with ⟨_, ha⟩ | ⟨b, hv, _, hst, ha⟩ | ⟨_, ha⟩
  · exact Or.inl ha
  · by_cases hm : s.store.queued.next = b.num
    · right
      have hmod := (tryPush_modified_iff CACHE_CAPACITY s.store b).mpr hm
      have hnext := tryPush_next CACHE_CAPACITY s.store b
      simp only [hm, if_true] at hnext
      rw [hmod] at ha
      exact ⟨b, ha, hv, hm.symm, by rw [hst]; exact hnext, fun x hx => by have := hi.acceptedLt x hx; omega⟩
    · left
      have hmod : (s.store.tryPush CACHE_CAPACITY b).2 = false := by
        cases hx : (s.store.tryPush CACHE_CAPACITY b).2
        · rfl
        · exact absurd ((tryPush_modified_iff _ _ _).mp hx) hm
      rw [hmod] at ha; exact ha
  · exact Or.inl ha

/-- **no_substitution.** Between two restarts a number is accepted at most once: two accepted blocks with the same
number are the same block; the cache and the hand-offs to storage contain accepted blocks only, so a cache read
and a hand-off for one number always carry that one block. -/
theorem no_substitution {s : Sys} (h : Reachable s) :
    (∀ a ∈ s.accepted, ∀ b ∈ s.accepted, a.num = b.num → a = b) ∧
    (∀ b ∈ s.store.cache, b ∈ s.accepted) ∧ (∀ b ∈ s.handed, b ∈ s.accepted) := by
  have hi := inv_reachable h
  exact ⟨fun a ha b hb hn => pairwise_lt_inj hi.acceptedInc ha hb hn, fun b hb => hi.cacheSuffix.subset hb,
    hi.handedAccepted⟩

/-- **truncate_only_persisted.** Whatever an event other than a restart removes from the cache lies below the
store's `persisted.next` afterwards: only blocks the storage reported as persisted are dropped (by
`truncate_cache`, or by the reset when persistence overtook the queue). -/
theorem truncate_only_persisted {s s' : Sys} {e : Event} (h : Reachable s) (hs : step? s e = some s')
    (hne : e ≠ .restart) {b : Block} (hb : b ∈ s.store.cache) (hn : b ∉ s'.store.cache) :
    b.num < s'.store.persisted.next := by
  have hi := inv_reachable h
  rcases store_step_cases hi hs hne with ⟨hst, _⟩ | ⟨x, _, _, hst, _⟩ | ⟨hu, _⟩
  · rw [hst] at hn; exact absurd hb hn
  · by_cases hm : s.store.queued.next = x.num
    · rw [hst, tryPush_cache _ _ _ hm] at hn
      rw [hst, tryPush_persisted]
      exact truncate_removed _ _ _ (List.mem_append_left _ hb) hn
    · have hmod : (s.store.tryPush CACHE_CAPACITY x).2 = false := by
        cases hx : (s.store.tryPush CACHE_CAPACITY x).2
        · rfl
        · exact absurd ((tryPush_modified_iff _ _ _).mp hx) hm
      rw [hst, tryPush_not_modified _ _ _ hmod] at hn; exact absurd hb hn
  · exact updatePersisted_removed hi.store hu hb hn

/-- **cached_block_stable** (`append_only`). A number the cache answers keeps its block: after any event other than a
restart `BlockStore::block(n)` returns the same block, unless `n` is below the store's `persisted.next` (then it
was handed over to storage). -/
theorem cached_block_stable {s s' : Sys} {e : Event} (h : Reachable s) (hs : step? s e = some s')
    (hne : e ≠ .restart) {n : Nat} {b : Block} (hb : s.store.block n = some b) :
    s'.store.block n = some b ∨ n < s'.store.persisted.next := by
  have hi := inv_reachable h
  have hi' := inv_step hi hs
  obtain ⟨hm, hnum⟩ := (block_some_iff hi.store.contig).mp hb
  by_cases hin : b ∈ s'.store.cache
  · left; exact (block_some_iff hi'.store.contig).mpr ⟨hin, hnum⟩
  · right; rw [← hnum]; exact truncate_only_persisted h hs hne hm hin

/-- **monotone.** `queued.next` and the store's `persisted.next` never decrease (except by a restart). -/
theorem next_monotone {s s' : Sys} {e : Event} (h : Reachable s) (hs : step? s e = some s') (hne : e ≠ .restart) :
    s.store.queued.next ≤ s'.store.queued.next ∧ s.store.persisted.next ≤ s'.store.persisted.next := by
  have hi := inv_reachable h
  rcases store_step_cases hi hs hne with ⟨hst, _⟩ | ⟨x, _, _, hst, _⟩ | ⟨hu, _⟩
  · rw [hst]; exact ⟨Nat.le_refl _, Nat.le_refl _⟩
  · rw [hst, tryPush_persisted, tryPush_next]
    exact ⟨by split <;> omega, Nat.le_refl _⟩
  · refine ⟨updatePersisted_next_ge hu, ?_⟩
    rw [updatePersisted_persisted hu]
    have : ¬ (s.env.persisted.next < s.store.persisted.next) := by
      intro hlt
      have := (updatePersisted_none_iff CACHE_CAPACITY s.store s.env.persisted).mpr hlt
      rw [this] at hu; exact absurd hu (by simp)
    omega

/-! ## Hand-off to durable storage: in order, without gaps, by the single task -/

/-- **handoff_gap_free.** Every call of `queue_next_block` (event `taskTake`) hands over a verified block which is
the block the store holds for that number, whose number exceeds all numbers handed over before, and which directly
follows the previously handed block or is the store's current `persisted.next`. -/
theorem handoff_gap_free {s s' : Sys} (h : Reachable s) (hs : step? s .taskTake = some s') :
    ∃ b, s'.handed = s.handed ++ [b] ∧ verify s.cfg b = .ok ∧ s.store.block b.num = some b ∧
      (∀ x ∈ s.handed, x.num < b.num) ∧
      (b.num = s.store.persisted.next ∨ ∃ prev, s.handed.getLast? = some prev ∧ b.num = prev.num + 1) := by
  have hi := inv_reachable h
  rcases handed_step_cases hs (by simp) with ⟨hh, _⟩ | ⟨_, _, _, b, hb, hh, _, _⟩
  · -- `taskTake` always appends
    exfalso
    simp only [step?] at hs
    split at hs
    · exact absurd hs (by simp)
    · split at hs
      · exact absurd hs (by simp)
      · split at hs
        · exact absurd hs (by simp)
        · injection hs with hs; subst hs
          simp at hh
  · obtain ⟨hm, hnum⟩ := (block_some_iff hi.store.contig).mp hb
    have hacc := hi.cacheSuffix.subset hm
    refine ⟨b, hh, hi.acceptedVerified b hacc, ?_, ?_, ?_⟩
    · rw [block_some_iff hi.store.contig]; exact ⟨hm, rfl⟩
    · intro x hx
      have := lt_lastNum_of_inc hi.handedInc hx
      have := hi.taskNextEq
      omega
    · by_cases hmax : s.taskNext ≤ s.store.persisted.next
      · left; omega
      · right
        have hte := hi.taskNextEq
        unfold lastNum at hte
        cases hl : s.handed.getLast? with
        | none => rw [hl] at hte; simp only at hte; omega
        | some prev => rw [hl] at hte; simp only at hte; exact ⟨prev, rfl, by omega⟩

/-- Only the hand-off task calls `queue_next_block`: every other event (except a restart, which starts a new log)
leaves the hand-off log alone. -/
theorem handoff_single_task {s s' : Sys} {e : Event} (hs : step? s e = some s') (hne : e ≠ .restart)
    (ht : e ≠ .taskTake) : s'.handed = s.handed := by
  rcases handed_step_cases hs hne with ⟨hh, _⟩ | ⟨he, _⟩
  · exact hh
  · exact absurd he ht

/-- **handed_increasing.** Between two restarts the numbers handed to storage are strictly increasing. -/
theorem handed_increasing {s : Sys} (h : Reachable s) : s.handed.Pairwise (fun a b => a.num < b.num) :=
  (inv_reachable h).handedInc

/-- **storage_never_sees_gap.** As long as the storage keeps the interface contract (its head never goes back and
the blocks of the range it reports are readable), a storage that processes hand-offs in order like
`in_memory::Engine` (ignore a block below its head, store the block at its head) never receives a block above its
head — across lagging persistence, side-channel jumps, pruning and restarts. -/
theorem storage_never_sees_gap {s : Sys} (h : Reachable s) (hb : s.envBroken = false) : s.gapSeen = false :=
  (inv_reachable h).noGap hb

/-! ## Availability -/

/-- **available_is_readable.** While the storage keeps the interface contract, every number the store reports as
available (`queued.contains`) is answered by `get_block` with a block of that number — from the cache or from
storage — unless the storage has pruned it (`n` below the storage's current `first`). -/
theorem available_is_readable {s : Sys} (h : Reachable s) (hb : s.envBroken = false) {n : Nat}
    (hq : s.store.queued.contains n = true) :
    (∃ b, (s.get n = .cached b ∨ s.get n = .stored b) ∧ b.num = n) ∨ n < s.env.persisted.first := by
  have hi := inv_reachable h
  unfold Sys.get
  simp only [hq, Bool.true_eq_false, if_false]
  rcases hi.store.readable n hq with ⟨b, hm, hnum⟩ | hp
  · left
    have := (block_some_iff hi.store.contig).mpr ⟨hm, hnum⟩
    exact ⟨b, Or.inl (by rw [this]), hnum⟩
  · cases hblk : s.store.block n with
    | some b =>
      left; exact ⟨b, Or.inl rfl, ((block_some_iff hi.store.contig).mp hblk).2⟩
    | none =>
      by_cases hf : s.env.persisted.first ≤ n
      · left
        have hlt : n < s.env.persisted.next := by
          have := contains_lt_next _ _ hp
          have := hi.copyLags hb
          omega
        have hcov := hi.diskCovers hb n (contains_of_bounds hf hlt)
        cases hd : diskLookup s.env.disk n with
        | none => rw [hd] at hcov; simp at hcov
        | some b => exact ⟨b, Or.inr rfl, diskLookup_num hd⟩
      · right; omega

/-- What `get_block` answers from the cache is the accepted (hence verified) block of that number; it answers
`None` exactly for numbers outside the available range. -/
theorem get_spec {s : Sys} (h : Reachable s) (n : Nat) :
    (s.get n = .absent ↔ s.store.queued.contains n = false) ∧
    (∀ b, s.get n = .cached b → b.num = n ∧ b ∈ s.accepted ∧ verify s.cfg b = .ok) ∧
    (∀ b, s.get n = .stored b → b.num = n) := by
  have hi := inv_reachable h
  unfold Sys.get
  refine ⟨?_, ?_, ?_⟩
  · cases hq : s.store.queued.contains n
    · simp
    · simp only [Bool.true_eq_false, if_false, iff_false]
      cases s.store.block n with
      | some b => simp
      | none => cases diskLookup s.env.disk n <;> simp
  · intro b hg
    cases hq : s.store.queued.contains n
    · simp [hq] at hg
    · simp only [hq, Bool.true_eq_false, if_false] at hg
      cases hblk : s.store.block n with
      | some x =>
        rw [hblk] at hg; simp only [GetResult.cached.injEq] at hg; subst hg
        obtain ⟨hm, hnum⟩ := (block_some_iff hi.store.contig).mp hblk
        have hacc := hi.cacheSuffix.subset hm
        exact ⟨hnum, hacc, hi.acceptedVerified _ hacc⟩
      | none =>
        rw [hblk] at hg
        cases hd : diskLookup s.env.disk n <;> simp [hd] at hg
  · intro b hg
    cases hq : s.store.queued.contains n
    · simp [hq] at hg
    · simp only [hq, Bool.true_eq_false, if_false] at hg
      cases hblk : s.store.block n with
      | some x => rw [hblk] at hg; simp at hg
      | none =>
        rw [hblk] at hg
        cases hd : diskLookup s.env.disk n with
        | none => simp [hd] at hg
        | some x => simp [hd] at hg; subst hg; exact diskLookup_num hd

/-! ## Cache size, regressions, restart -/

/-- **cache_bound.** The cache exceeds `CACHE_CAPACITY` only by blocks that are not persisted yet:
`len ≤ CACHE_CAPACITY` or `len ≤ queued.next − persisted.next`. -/
theorem cache_bound {s : Sys} (h : Reachable s) :
    s.store.cache.length ≤ CACHE_CAPACITY ∨
    s.store.cache.length + s.store.persisted.next ≤ s.store.queued.next := by
  have hi := inv_reachable h
  rcases hi.store.bound with hle | ⟨x, rest, hc, hp⟩
  · exact Or.inl hle
  · right
    have := hi.store.contig
    rw [hc] at this
    have := contig_head_num this
    rw [hc]; simp; omega

/-- **regress_rejected.** If the storage reports a head below the one the store already knows, the watcher's
`update_persisted` fails: the store is left exactly as it was and the runner stops; otherwise the store adopts the
report. -/
theorem regress_rejected {s : Sys} (hd : s.dead = false) :
    (s.env.persisted.next < s.store.persisted.next →
      step? s .watcher = some { s with dead := true, taskBusy := none }) ∧
    (s.store.persisted.next ≤ s.env.persisted.next →
      ∃ s', step? s .watcher = some s' ∧ s'.store.persisted = s.env.persisted ∧ s'.dead = false) := by
  constructor
  · intro hlt
    have := (updatePersisted_none_iff CACHE_CAPACITY s.store s.env.persisted).mpr hlt
    simp only [step?, hd, this]
    rfl
  · intro hle
    cases hu : s.store.updatePersisted CACHE_CAPACITY s.env.persisted with
    | none =>
      have := (updatePersisted_none_iff CACHE_CAPACITY s.store s.env.persisted).mp hu
      omega
    | some st =>
      refine ⟨{ s with store := st }, ?_, updatePersisted_persisted hu, hd⟩
      simp only [step?, hd, hu]
      rfl

/-- **restart_from_durable.** A restart is possible iff the durable state verifies (`first ≤ last`); the new store
is built from the durable state alone (available = persisted, empty cache, nothing parked, fresh hand-off task),
so by `handoff_gap_free` its first hand-off is the durable head, and all theorems above hold again
(`Reachable` is closed under `restart`). -/
theorem restart_from_durable (s : Sys) :
    (s.env.persisted.wf = true ↔ ∃ s', step? s .restart = some s') ∧
    (∀ s', step? s .restart = some s' →
      s'.store = Store.init s.env.persisted ∧ s'.parked = [] ∧ s'.handed = [] ∧ s'.accepted = [] ∧
      s'.taskNext = 0 ∧ s'.taskBusy = none ∧ s'.dead = false ∧ s'.env.disk = s.env.disk ∧
      s'.env.persisted = s.env.persisted) := by
  constructor
  · constructor
    · intro hw; simp only [step?, hw, if_true]; exact ⟨_, rfl⟩
    · rintro ⟨s', hs⟩
      simp only [step?] at hs
      split at hs
      · assumption
      · exact absurd hs (by simp)
  · intro s' hs
    simp only [step?] at hs
    split at hs
    · injection hs with hs; subst hs; exact ⟨rfl, rfl, rfl, rfl, rfl, rfl, rfl, rfl, rfl⟩
    · exact absurd hs (by simp)

/-- `Reachable` is closed under every enabled event (in particular under `restart`). -/
theorem reachable_closed {s s' : Sys} {e : Event} (h : Reachable s) (hs : step? s e = some s') : Reachable s' :=
  reachable_step h hs

/-! ## Non-vacuity: a concrete reachable state that meets the hypotheses used above

Six validators of weight 1 (quorum 5), `first_block = 2`; pre-genesis blocks 0 and 1 and consensus block 2 are
submitted out of order, pushed, two of them handed to storage, one made durable, the watcher has run. -/

def exCfg : Config := { firstBlock := 2, schedules := [(0, [1, 1, 1, 1, 1, 1])] }
def exPre (n : Nat) : Block :=
  { kind := .pre, num := n, chain := 0, epoch := 0, genesisOk := true, payloadOk := true, signersLen := 0,
    signers := [], sigOk := true, justOk := true }
def exFinal (n chain : Nat) : Block :=
  { kind := .final, num := n, chain := chain, epoch := 0, genesisOk := true, payloadOk := true, signersLen := 6,
    signers := [0, 1, 2, 3, 4, 5], sigOk := true, justOk := false }
def exEnv : Env := { persisted := { first := 0, last := none }, disk := [] }
def exEvents : List Event :=
  [.submit ⟨0, exPre 1, false⟩, .submit ⟨1, exPre 0, false⟩, .push 1, .push 0,
   .submit ⟨2, exFinal 2 0, true⟩, .submit ⟨3, exFinal 2 1, false⟩, .push 1, .push 0,
   .taskTake, .env (.credit 5), .taskReturn, .taskTake, .taskReturn, .env .complete, .watcher]
def exState : Sys := (run (Sys.init exCfg exEnv) exEvents).getD (Sys.init exCfg exEnv)

theorem exState_reachable : Reachable exState := by
  refine ⟨exCfg, exEnv, exEvents, ?_⟩
  have h : (run (Sys.init exCfg exEnv) exEvents).isSome = true := by decide +kernel
  unfold exState
  cases hr : run (Sys.init exCfg exEnv) exEvents with
  | none => rw [hr] at h; simp at h
  | some x => rfl

/-- the example state is non-trivial: three cached blocks (the conflicting block 2 of the other chain lost the
race and was not substituted), two hand-offs, one durable block, the contract kept, a request still waiting for
persistence; every hypothesis used by the theorems above (`Reachable`, `envBroken = false`, `queued.contains`,
enabledness of `taskTake`, `push`, `watcher`, `restart`) is satisfiable. -/
example :
    Reachable exState ∧ exState.store.cache.map (·.num) = [0, 1, 2] ∧ exState.store.cache[2]? = some (exFinal 2 1) ∧
    exState.handed.map (·.num) = [0, 1] ∧ exState.store.persisted.next = 1 ∧ exState.envBroken = false ∧
    exState.dead = false ∧ exState.store.queued.contains 2 = true ∧ exState.awaiting.length = 1 ∧
    (∃ s', step? exState .taskTake = some s') ∧ (∃ s', step? exState .restart = some s') ∧
    (∃ s', step? exState (.submit ⟨9, exFinal 3 0, false⟩) = some s' ∧ ∃ s'', step? s' (.push 0) = some s'') :=
  ⟨exState_reachable, by decide +kernel, by decide +kernel, by decide +kernel, by decide +kernel, by decide +kernel,
   by decide +kernel, by decide +kernel, by decide +kernel,
   ⟨_, rfl⟩, ⟨_, rfl⟩, ⟨_, rfl, _, rfl⟩⟩

/-- verification is not vacuous either way: a fully signed block verifies, and each single defect is rejected -/
example :
    verify exCfg (exFinal 2 0) = .ok ∧ verify exCfg (exPre 1) = .ok ∧
    verify exCfg (exPre 2) = .preGenesisBound ∧ verify exCfg { exPre 1 with justOk := false } = .preJustification ∧
    verify exCfg { exFinal 2 0 with epoch := 1 } = .noSchedule ∧
    verify exCfg { exFinal 2 0 with payloadOk := false } = .payloadHash ∧
    verify exCfg { exFinal 2 0 with genesisOk := false } = .badView ∧
    verify exCfg { exFinal 2 0 with signersLen := 7 } = .badSignersSet ∧
    verify exCfg { exFinal 2 0 with signers := [0, 1, 2, 3] } = .notEnoughWeight ∧
    verify exCfg { exFinal 2 0 with signers := [0, 1, 2, 3, 4] } = .ok ∧
    verify exCfg { exFinal 2 0 with signers := [0, 1, 2, 3, 4], sigOk := false } = .badSignature := by
  decide

/-- a storage report with a lower head is a state in which `regress_rejected` applies, and a dishonest report is
what `envBroken` records -/
example : ∃ s', step? exState (.env (.publish { first := 0, last := none } [])) = some s' ∧
    s'.env.persisted.next < s'.store.persisted.next ∧ s'.dead = false ∧ s'.envBroken = true :=
  ⟨_, rfl, by decide +kernel, by decide +kernel, by decide +kernel⟩

end EraVerif.Props.C08
