import EraVerif.Model.Pool
import EraVerif.Gen.PoolFns

/-!
# C12 — `PoolWatch::insert` / `remove` as regenerated from `pool.rs` are the model's

`Gen/PoolFns.lean` is produced by `tools/translate_pool.py` on every run from the closures the two methods run under the
watch lock. `Pool.insert` / `Pool.remove` of `Model/Pool.lean` — on which "at most `extra_limit` peers outside the allowed
set", "one connection per key" … rest — are proved equal to them (the model's `underflow` observation = the `usize`
subtraction that would wrap).
-/

namespace EraVerif.Props.C12gen
open EraVerif.Model.Pool
namespace G
abbrev Pool := EraVerif.Gen.PoolFns.Pool
end G

def gP (p : Pool) : G.Pool :=
  { extra_limit := p.extraLimit, extra_count := p.extraCount, allowed := p.allowed, current := p.current }

/-- regenerated `insert` = `Pool.insert` -/
theorem gen_insert_eq (p : Pool) (k v : Nat) :
    EraVerif.Gen.PoolFns.insert (gP p) k v =
      match p.insert k v with
      | (p', .ok) => .ok (true, gP p')
      | (_, .errExists) => .error "bail: already exists"
      | (_, .errLimit) => .error "bail: limit exceeded"
      | (p', _) => .ok (true, gP p') := by
  unfold EraVerif.Gen.PoolFns.insert Pool.insert gP Pool.keys mapInsert mapErase
  by_cases h1 : k ∈ p.current.map Prod.fst
  · simp [h1, throw, throwThe, MonadExceptOf.throw]
  · by_cases h2 : k ∈ p.allowed
    · simp [h1, h2, pure, Except.pure, bind, Except.bind]
    · by_cases h3 : p.extraCount ≥ p.extraLimit
      · simp [h1, h2, h3, pure, Except.pure, bind, Except.bind, throw, throwThe, MonadExceptOf.throw]
      · simp [h1, h2, h3, pure, Except.pure, bind, Except.bind]

/-- regenerated `remove` = `Pool.remove` -/
theorem gen_remove_eq (p : Pool) (k : Nat) :
    EraVerif.Gen.PoolFns.remove (gP p) k =
      match p.remove k with
      | (p', .removed) => .ok (true, gP p')
      | (p', .absent) => .ok (false, gP p')
      | (_, .underflow) => .error "panic: attempt to subtract with overflow"
      | (p', _) => .ok (true, gP p') := by
  unfold EraVerif.Gen.PoolFns.remove Pool.remove gP Pool.keys mapErase
  by_cases h1 : k ∈ p.current.map Prod.fst
  · by_cases h2 : k ∈ p.allowed
    · simp [h1, h2, pure, Except.pure, bind, Except.bind]
    · by_cases h3 : p.extraCount = 0
      · simp [h1, h2, h3, pure, Except.pure, bind, Except.bind, throw, throwThe, MonadExceptOf.throw]
      · simp [h1, h2, h3, pure, Except.pure, bind, Except.bind]
  · simp [h1, pure, Except.pure]

end EraVerif.Props.C12gen
