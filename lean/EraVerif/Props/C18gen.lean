import EraVerif.Model.AddrBook
import EraVerif.Gen.AddrFns

/-!
# C18 — the two pure rules of the address book, regenerated from the source, are the model's

`Gen/AddrFns.lean` is produced by `tools/translate_addr.py` on every run from `NetAddress::is_newer` (discovery.rs)
and from the version rule of `ValidatorAddrsWatch::announce` (validator_addrs.rs; the translator also checks that
what is signed, inserted and published is `NetAddress { addr, version, timestamp }` with no condition in between).
The theorems identify them with `Msg.isNewer` / `announceVersion` of `Model/AddrBook.lean`, which all C18 theorems
are about: a change of the comparison (another order, another tie-break) or of the version rule breaks a proof here.
-/

namespace EraVerif.Props.C18gen
open EraVerif.Model.AddrBook
open EraVerif.Gen.AddrFns

def toNA (m : Msg) : NetAddress := { version := m.version, timestamp := (m.secs, m.nanos) }

/-- regenerated `NetAddress::is_newer` = `Msg.isNewer` (lexicographic on version, seconds, nanoseconds) -/
theorem gen_is_newer_eq (a b : Msg) : is_newer (toNA a) (toNA b) = decide (a.isNewer b) := by
  unfold is_newer Msg.isNewer toNA
  simp only [GT.gt, lex_lt_def]
  congr 1
  apply propext
  constructor <;> intro h <;> rcases h with h | ⟨h1, h2⟩
  · exact Or.inl h
  · exact Or.inr ⟨h1.symm, by rcases h2 with h2 | ⟨h3, h4⟩; exact Or.inl h2; exact Or.inr ⟨h3.symm, h4⟩⟩
  · exact Or.inl h
  · exact Or.inr ⟨h1.symm, by rcases h2 with h2 | ⟨h3, h4⟩; exact Or.inl h2; exact Or.inr ⟨h3.symm, h4⟩⟩

/-- regenerated version rule of `announce` = `announceVersion` -/
theorem gen_announce_version_eq (cur : Book) (key : Nat) :
    announce_version ((lookup cur key).map (·.msg.version)) = announceVersion cur key := by
  unfold announce_version announceVersion
  cases lookup cur key <;> simp [u64Mod]

/-- hence (regenerated rule, no wrap): the node's next announcement is strictly newer than the stored one whatever
the clock reads -/
theorem gen_announce_newer (v : Nat) (t t' : Int × Int) (h : v + 1 < 2 ^ 64) :
    is_newer { version := announce_version (some v), timestamp := t' } { version := v, timestamp := t } = true := by
  simp [is_newer, announce_version, GT.gt, lex_lt_def, Nat.mod_eq_of_lt h]

end EraVerif.Props.C18gen
