import EraVerif.Model.AddrBook
import EraVerif.Proofs.AddrBook

/-!
# C18 — The validator address book holds only authentic, newest announcements

*Statement.* For every validator of the current committee the address a node will dial is taken from an
announcement validly signed by that validator, and it is only ever replaced by an announcement that is
strictly newer in (version, timestamp) order; announcements by non-members are ignored, a forged
announcement is never stored, and a batch that is rejected (forged newer entry, duplicated key) leaves the
address book unchanged. For validators that never sign two announcements with the same (version,
timestamp), all nodes that have seen the same announcements hold the same address regardless of arrival
order.

All theorems are about `Model/AddrBook.lean`, the transcription of
`gossip/validator_addrs.rs` (`ValidatorAddrs::update`, `ValidatorAddrsWatch::{update, announce}`) and
`NetAddress::is_newer`; `./check C18` compares that model with the real `ValidatorAddrsWatch` on every run.
Quantifiers: every book, every committee (`vs`), every batch / every list of batches / every list of
operations — no bound on lengths, versions or timestamps. Signatures are symbolic (DESIGN §4.1):
`Ann.verify a ↔ a.sigBy = a.key ∧ a.sigOver = a.msg`.

Vocabulary (defined in `Proofs/AddrBook.lean`, all computable):
* `fresh b d`  — the book has no entry for `d.key`, or `d` is strictly newer than the stored one;
* `taken vs b d` — `d.key ∈ vs ∧ fresh b d`: the loop verifies and inserts `d`;
* `Accepts vs b data` — pairwise distinct keys ∧ every taken entry verifies;
* `specLookup vs b data k` — the batch's entry for `k` if it is taken, else the old entry;
* `feed vs b batches`, `seen vs b batches` (model file) — a node with committee `vs` receiving batches, and
  the entries of the batches it accepted.
-/

namespace EraVerif.Props.C18
open EraVerif.Model.AddrBook EraVerif.Proofs.AddrBook

/-! ## "newer" is the strict lexicographic order on (version, seconds, nanoseconds) -/

/-- `is_newer` is irreflexive, transitive and total on the triple `(version, secs, nanos)`: two messages
neither of which is newer than the other carry the same triple. -/
theorem isNewer_strict_total :
    (∀ a : Msg, ¬ a.isNewer a) ∧
    (∀ a b c : Msg, a.isNewer b → b.isNewer c → a.isNewer c) ∧
    (∀ a b : Msg, ¬ a.isNewer b → ¬ b.isNewer a →
      a.version = b.version ∧ a.secs = b.secs ∧ a.nanos = b.nanos) :=
  ⟨isNewer_irrefl, fun _ _ _ => isNewer_trans, fun _ _ => eq_of_not_newer⟩

/-- version dominates, then seconds, then nanoseconds -/
theorem isNewer_lexicographic (a b : Msg) :
    a.isNewer b ↔ (b.version < a.version ∨ (b.version = a.version ∧ b.secs < a.secs) ∨
      (b.version = a.version ∧ b.secs = a.secs ∧ b.nanos < a.nanos)) := by
  unfold Msg.isNewer; omega

/-! ## One batch: exactly when it is accepted, and exactly what it does -/

/-- **Acceptance, iff.** `update` returns `Ok` iff the keys of the batch are pairwise distinct (members or
not) and every entry that is a member's and fresh (no stored entry, or strictly newer than it) verifies.
In particular stale and non-member entries are never verified (`stale_or_nonmember_forgery_tolerated`). -/
theorem batch_accepted_iff (vs : List Nat) (cur : Book) (data : List Ann) :
    isOk (update vs cur data).res = true ↔
      ((data.map (·.key)).Nodup ∧
        ∀ d ∈ data, d.key ∈ vs → fresh cur d = true → d.verify = true) :=
  update_ok_iff vs cur data

/-- a key occurring twice (member or not, valid or not) rejects the batch -/
theorem duplicate_key_rejected (vs : List Nat) (cur : Book) (data : List Ann)
    (h : ¬ (data.map (·.key)).Nodup) : isOk (update vs cur data).res = false := by
  cases hr : isOk (update vs cur data).res with
  | false => rfl
  | true => exact absurd ((batch_accepted_iff ..).mp hr).1 h

/-- a forged entry for a member that would replace the stored one rejects the batch, wherever it stands -/
theorem forged_fresh_member_rejected (vs : List Nat) (cur : Book) (data : List Ann) (d : Ann)
    (hd : d ∈ data) (hm : d.key ∈ vs) (hf : fresh cur d = true) (hv : d.verify = false) :
    isOk (update vs cur data).res = false := by
  cases hr : isOk (update vs cur data).res with
  | false => rfl
  | true =>
    have := ((batch_accepted_iff ..).mp hr).2 d hd hm hf
    rw [hv] at this; cases this

/-- forged entries that are stale or belong to non-members are skipped without verification: they do not
make the batch fail -/
theorem stale_or_nonmember_forgery_tolerated (vs : List Nat) (cur : Book) (data : List Ann)
    (hn : (data.map (·.key)).Nodup)
    (h : ∀ d ∈ data, d.verify = false → d.key ∉ vs ∨ fresh cur d = false) :
    isOk (update vs cur data).res = true := by
  refine (batch_accepted_iff ..).mpr ⟨hn, fun d hd hm hf => ?_⟩
  cases hv : d.verify with
  | true => rfl
  | false => rcases h d hd hv with h' | h'
             · exact absurd hm h'
             · rw [hf] at h'; cases h'

/-- **Stale / non-member entries are skipped *before* verification**: the signature of an entry that is not
taken (non-member key, or not strictly newer than the stored entry) has no influence at all — swapping it for
any other signature gives the same verdict and the same book. -/
theorem stale_skipped_without_verify (vs : List Nat) (cur : Book) (pre post : List Ann) (d d' : Ann)
    (hk : d'.key = d.key) (hm : d'.msg = d.msg) (hnt : d.key ∉ vs ∨ fresh cur d = false) :
    isOk (update vs cur (pre ++ d' :: post)).res = isOk (update vs cur (pre ++ d :: post)).res ∧
    ∀ k, lookup (update vs cur (pre ++ d' :: post)).book k = lookup (update vs cur (pre ++ d :: post)).book k := by
  have hfr : fresh cur d' = fresh cur d := by simp [fresh, hk, hm]
  have ht : taken vs cur d = false := by
    cases h : taken vs cur d with
    | false => rfl
    | true =>
      have := (taken_iff ..).mp h
      rcases hnt with h' | h'
      · exact absurd this.1 h'
      · rw [this.2] at h'; cases h'
  have ht' : taken vs cur d' = false := by simpa [taken, hk, hfr] using ht
  have hacc : Accepts vs cur (pre ++ d' :: post) ↔ Accepts vs cur (pre ++ d :: post) := by
    have hkeys : (pre ++ d' :: post).map (·.key) = (pre ++ d :: post).map (·.key) := by simp [hk]
    unfold Accepts
    rw [hkeys]
    have hcond : ∀ x : Ann, taken vs cur x = false → (x.key ∈ vs → fresh cur x = true → x.verify = true) := by
      intro x hx h1 h2; rw [(taken_iff ..).mpr ⟨h1, h2⟩] at hx; cases hx
    constructor
    · rintro ⟨hn, h⟩
      refine ⟨hn, fun e he => ?_⟩
      rcases List.mem_append.mp he with he | he
      · exact h e (List.mem_append.mpr (Or.inl he))
      · rcases List.mem_cons.mp he with rfl | he
        · exact hcond _ ht
        · exact h e (List.mem_append.mpr (Or.inr (List.mem_cons_of_mem _ he)))
    · rintro ⟨hn, h⟩
      refine ⟨hn, fun e he => ?_⟩
      rcases List.mem_append.mp he with he | he
      · exact h e (List.mem_append.mpr (Or.inl he))
      · rcases List.mem_cons.mp he with rfl | he
        · exact hcond _ ht'
        · exact h e (List.mem_append.mpr (Or.inr (List.mem_cons_of_mem _ he)))
  have hok : isOk (update vs cur (pre ++ d' :: post)).res = isOk (update vs cur (pre ++ d :: post)).res := by
    cases h1 : isOk (update vs cur (pre ++ d :: post)).res with
    | true => exact (update_ok_iff ..).mpr (hacc.mpr ((update_ok_iff ..).mp h1))
    | false =>
      cases h2 : isOk (update vs cur (pre ++ d' :: post)).res with
      | false => rfl
      | true => rw [(update_ok_iff ..).mpr (hacc.mp ((update_ok_iff ..).mp h2))] at h1; cases h1
  refine ⟨hok, fun k => ?_⟩
  cases h1 : isOk (update vs cur (pre ++ d :: post)).res with
  | false => rw [update_err_book _ _ _ h1, update_err_book _ _ _ (hok.trans h1)]
  | true =>
    rw [update_ok_lookup _ _ _ h1, update_ok_lookup _ _ _ (hok.trans h1)]
    unfold specLookup
    rw [List.find?_append, List.find?_append, List.find?_cons, List.find?_cons, hk]
    cases pre.find? (fun d => d.key == k) with
    | some e => rfl
    | none =>
      simp only [Option.none_or]
      cases d.key == k with
      | false => rfl
      | true => simp [ht, ht']

/-- **Rejected batch ⇒ no change**, and nobody is notified. -/
theorem rejected_batch_no_change (vs : List Nat) (cur : Book) (data : List Ann)
    (h : isOk (update vs cur data).res = false) :
    (update vs cur data).book = cur ∧ (update vs cur data).notified = false :=
  ⟨update_err_book vs cur data h, update_err_notified vs cur data h⟩

/-- **Accepted batch = the simple specification**: for every key, the batch's entry for it if that entry is
a member's and fresh, otherwise the old entry. -/
theorem accepted_batch_result (vs : List Nat) (cur : Book) (data : List Ann)
    (h : isOk (update vs cur data).res = true) (k : Nat) :
    lookup (update vs cur data).book k =
      match data.find? (fun d => d.key == k) with
      | some d => if d.key ∈ vs ∧ fresh cur d = true then some d else lookup cur k
      | none => lookup cur k := by
  rw [update_ok_lookup vs cur data h k]
  unfold specLookup
  cases data.find? (fun d => d.key == k) with
  | none => rfl
  | some d =>
    simp only
    by_cases ht : taken vs cur d = true
    · rw [if_pos ht, if_pos ((taken_iff ..).mp ht)]
    · rw [if_neg ht, if_neg (fun h => ht ((taken_iff ..).mpr h))]

/-- subscribers are notified iff the batch is accepted and at least one entry was inserted -/
theorem notified_iff (vs : List Nat) (cur : Book) (data : List Ann) :
    (update vs cur data).notified = true ↔
      (isOk (update vs cur data).res = true ∧ ∃ d ∈ data, d.key ∈ vs ∧ fresh cur d = true) := by
  rw [update_notified_iff, update_ok_iff]
  simp [taken]

/-- **Every change is authentic, a member's, and strictly newer.** Whatever the batch, each key either keeps
its entry or gets an entry `d` of the batch with `d.key ∈ vs`, `d.verify`, and `d` strictly newer than the
entry it replaces (if there was one). -/
theorem update_changes_only_to_authentic_newer (vs : List Nat) (cur : Book) (data : List Ann) (k : Nat) :
    lookup (update vs cur data).book k = lookup cur k ∨
      ∃ d ∈ data, d.key = k ∧ k ∈ vs ∧ d.verify = true ∧ lookup (update vs cur data).book k = some d ∧
        ∀ x, lookup cur k = some x → d.msg.isNewer x.msg := by
  rcases update_lookup_cases vs cur data k with h | ⟨_, d, hd, hk, hm, hv, hf, hl⟩
  · exact Or.inl h
  · refine Or.inr ⟨d, hd, hk, hk ▸ hm, hv, hl, fun x hx => ?_⟩
    subst hk
    exact (fresh_some hx).mp hf

/-- **Replacement only by a strictly newer announcement; nothing is ever removed.** -/
theorem replacement_strictly_newer (vs : List Nat) (cur : Book) (data : List Ann) (k : Nat) (x : Ann)
    (hx : lookup cur k = some x) :
    ∃ y, lookup (update vs cur data).book k = some y ∧ (y = x ∨ y.msg.isNewer x.msg) :=
  update_monotone vs cur data k x hx

/-- **Non-members are ignored**: a key outside the committee keeps whatever the book had for it. -/
theorem nonmember_ignored (vs : List Nat) (cur : Book) (data : List Ann) (k : Nat) (hk : k ∉ vs) :
    lookup (update vs cur data).book k = lookup cur k := by
  rcases update_changes_only_to_authentic_newer vs cur data k with h | ⟨_, _, _, hm, _⟩
  · exact h
  · exact absurd hm hk

/-- Entries of non-members can be deleted from a batch with pairwise distinct keys without changing the
outcome (they only matter for the duplicate-key check). -/
theorem nonmember_entries_droppable (vs : List Nat) (cur : Book) (data : List Ann)
    (hn : (data.map (·.key)).Nodup) :
    isOk (update vs cur (data.filter (fun d => vs.contains d.key))).res = isOk (update vs cur data).res ∧
    ∀ k, lookup (update vs cur (data.filter (fun d => vs.contains d.key))).book k =
      lookup (update vs cur data).book k := by
  have hsub : (data.filter (fun d => vs.contains d.key)).Sublist data := List.filter_sublist
  have hn' : ((data.filter (fun d => vs.contains d.key)).map (·.key)).Nodup :=
    List.Nodup.sublist (hsub.map _) hn
  have hmem : ∀ d, d ∈ data.filter (fun d => vs.contains d.key) ↔ d ∈ data ∧ d.key ∈ vs := by
    intro d; simp [List.mem_filter]
  have hacc : Accepts vs cur (data.filter (fun d => vs.contains d.key)) ↔ Accepts vs cur data := by
    unfold Accepts
    constructor
    · rintro ⟨_, h⟩; exact ⟨hn, fun d hd hm => h d ((hmem d).mpr ⟨hd, hm⟩) hm⟩
    · rintro ⟨_, h⟩; exact ⟨hn', fun d hd => h d ((hmem d).mp hd).1⟩
  have hok : isOk (update vs cur (data.filter (fun d => vs.contains d.key))).res = isOk (update vs cur data).res := by
    cases h1 : isOk (update vs cur data).res with
    | true => exact (update_ok_iff ..).mpr (hacc.mpr ((update_ok_iff ..).mp h1))
    | false =>
      cases h2 : isOk (update vs cur (data.filter (fun d => vs.contains d.key))).res with
      | false => rfl
      | true => rw [(update_ok_iff ..).mpr (hacc.mp ((update_ok_iff ..).mp h2))] at h1; cases h1
  refine ⟨hok, fun k => ?_⟩
  cases h1 : isOk (update vs cur data).res with
  | false => rw [update_err_book _ _ _ h1, update_err_book _ _ _ (hok.trans h1)]
  | true =>
    rw [update_ok_lookup _ _ _ h1, update_ok_lookup _ _ _ (hok.trans h1)]
    -- compare the two specifications key by key
    cases hf : data.find? (fun d => d.key == k) with
    | none =>
      have hnone : (data.filter (fun d => vs.contains d.key)).find? (fun d => d.key == k) = none := by
        rw [List.find?_eq_none] at hf ⊢
        intro d hd; exact hf d ((hmem d).mp hd).1
      unfold specLookup; rw [hf, hnone]
    | some d =>
      have hd := find_key hf
      by_cases hm : d.key ∈ vs
      · have hd' : d ∈ data.filter (fun d => vs.contains d.key) := (hmem d).mpr ⟨hd.2, hm⟩
        have := find_of_mem hn' hd'
        rw [hd.1] at this
        unfold specLookup; rw [hf, this]
      · have hnone : (data.filter (fun d => vs.contains d.key)).find? (fun d => d.key == k) = none := by
          rw [List.find?_eq_none]
          intro e he
          have he' := (hmem e).mp he
          intro hk
          have hk' : e.key = k := by simpa using hk
          have : e = d := mem_unique_of_nodup_keys hn he'.1 hd.2 (hk'.trans hd.1.symm)
          exact hm (this ▸ he'.2)
        have ht : taken vs cur d = false := by
          cases h : taken vs cur d with
          | false => rfl
          | true => exact absurd ((taken_iff ..).mp h).1 hm
        unfold specLookup; rw [hf, hnone]; simp [ht]

/-! ## Any sequence of operations (batches with any committees, own announcements), from the empty book -/

/-- **Authenticity and provenance, for all reachable books.** Every stored entry is filed under its own key,
verifies, and is either an entry of a received batch whose key was a member of the committee passed with
that batch, or the node's own `announce` for that key. In particular a forged announcement is never stored
(`forged_never_stored`). -/
theorem stored_are_authentic (ops : List Op) (k : Nat) (a : Ann) (h : lookup (run [] ops) k = some a) :
    a.key = k ∧ a.verify = true ∧
      ((∃ vs data, Op.update vs data ∈ ops ∧ a ∈ data ∧ a.key ∈ vs) ∨
       (∃ addr secs nanos, Op.announce a.key addr secs nanos ∈ ops ∧ a.msg.addr = addr ∧
          a.msg.secs = secs ∧ a.msg.nanos = nanos)) := by
  refine ⟨lookup_key h, ?_⟩
  rcases run_provenance ops [] k a h with h1 | ⟨h1, h2⟩
  · simp [lookup] at h1
  · exact ⟨h1, h2⟩

theorem forged_never_stored (ops : List Op) (a : Ann) (hv : a.verify = false) (k : Nat) :
    lookup (run [] ops) k ≠ some a := by
  intro h
  rw [(stored_are_authentic ops k a h).2.1] at hv; cases hv

/-- **With a fixed committee and only received batches, only members are stored**, each from an accepted
batch. -/
theorem stored_are_members (vs : List Nat) (batches : List (List Ann)) (k : Nat) (a : Ann)
    (h : lookup (feed vs [] batches) k = some a) :
    k ∈ vs ∧ a.key = k ∧ a.verify = true ∧ a ∈ seen vs [] batches := by
  have hk := lookup_key h
  rcases feed_provenance vs batches [] k a h with h1 | ⟨h1, h2, h3⟩
  · simp [lookup] at h1
  · exact ⟨hk ▸ h3, hk, h2, h1⟩

/-- **Monotonicity along every run**: once a key has an entry it always has one, and the later entry is the
same or strictly newer — for received batches unconditionally, for the node's own `announce` provided the
`u64` addition `version + 1` does not wrap (`NoOverflow`; see `announce_wraps_at_u64_max`). -/
theorem run_never_decreases (b : Book) (ops : List Op) (hno : NoOverflow b ops) (k : Nat) (x : Ann)
    (hx : lookup b k = some x) :
    ∃ y, lookup (run b ops) k = some y ∧ (y = x ∨ y.msg.isNewer x.msg) :=
  run_monotone ops b hno k x hx

/-- runs consisting of received batches only never hit the wrap -/
theorem noOverflow_of_updates (ops : List Op) (h : ∀ op ∈ ops, ∃ vs data, op = Op.update vs data) :
    ∀ b, NoOverflow b ops := by
  induction ops with
  | nil => intro b; trivial
  | cons op ops ih =>
    intro b
    obtain ⟨vs, data, rfl⟩ := h _ (List.mem_cons_self ..)
    exact ⟨trivial, ih (fun op hop => h op (List.mem_cons_of_mem _ hop)) _⟩

/-- the node's own announcement is validly signed and strictly newer than what it replaces (no wrap) -/
theorem announce_strictly_newer (cur : Book) (key addr : Nat) (secs nanos : Int) :
    ∃ a, lookup (announce cur key addr secs nanos) key = some a ∧ a.verify = true ∧ a.msg.addr = addr ∧
      (∀ x, lookup cur key = some x → x.msg.version + 1 < 2 ^ 64 →
        a.msg.version = x.msg.version + 1 ∧ a.msg.isNewer x.msg) ∧
      (lookup cur key = none → a.msg.version = 0) := by
  refine ⟨sign key { addr := addr, version := announceVersion cur key, secs := secs, nanos := nanos },
    by rw [announce_lookup]; simp, verify_sign _ _, rfl, ?_, ?_⟩
  · intro x hx hlt
    have hno : announceOverflows cur key = false := by
      simp only [announceOverflows, hx, decide_eq_false_iff_not, Nat.not_le]; exact hlt
    refine ⟨?_, announce_newer cur key addr secs nanos x hx hno⟩
    simp only [sign, announceVersion, hx]
    exact Nat.mod_eq_of_lt hlt
  · intro hx; simp [sign, announceVersion, hx]

/-- **Boundary (negation of monotonicity for `announce` at the top of the `u64` range).** If the stored entry
for the node's own key has version `2^64 − 1`, `announce` (release profile: wrapping `+ 1`) replaces it by
version 0, which is *not* newer. Such an entry must carry the node's own valid signature, so no peer can
plant it; with overflow checks the same call panics. -/
theorem announce_wraps_at_u64_max :
    let x := sign 0 { addr := 1, version := 2 ^ 64 - 1, secs := 5, nanos := 0 }
    let cur := run [] [Op.update [0] [x]]
    lookup cur 0 = some x ∧ announceOverflows cur 0 = true ∧
      ∃ y, lookup (announce cur 0 2 9 0) 0 = some y ∧ y.msg.version = 0 ∧ ¬ y.msg.isNewer x.msg ∧
        x.msg.isNewer y.msg := by
  decide

/-! ## Convergence -/

/-- **What a node ends up with is the newest announcement it has seen**: the stored entry for `k` is a
verified member announcement from an accepted batch, and no member announcement for `k` in any accepted
batch (forged or not) is newer; and if the node has seen any announcement for member `k`, it has an entry. -/
theorem final_is_newest_seen (vs : List Nat) (batches : List (List Ann)) (k : Nat) :
    (∀ x, lookup (feed vs [] batches) k = some x →
      x ∈ seen vs [] batches ∧ x.verify = true ∧ x.key = k ∧ k ∈ vs ∧
      ∀ d ∈ seen vs [] batches, d.key = k → ¬ d.msg.isNewer x.msg) ∧
    (k ∈ vs → (∃ d ∈ seen vs [] batches, d.key = k) → ∃ x, lookup (feed vs [] batches) k = some x) := by
  constructor
  · intro x hx
    obtain ⟨hm, hk, hv, hs⟩ := stored_are_members vs batches k x hx
    refine ⟨hs, hv, hk, hm, fun d hd hdk => ?_⟩
    obtain ⟨y, hy, hdy⟩ := feed_dominates vs batches [] d hd (hdk ▸ hm)
    rw [hdk, hx] at hy; cases hy; exact hdy
  · rintro hm ⟨d, hd, hdk⟩
    obtain ⟨y, hy, _⟩ := feed_dominates vs batches [] d hd (hdk ▸ hm)
    exact ⟨y, hdk ▸ hy⟩

/-- **Convergence.** Two nodes with the same committee, starting empty, that have seen the same set of
announcements (in any order, any partition into batches, with any rejected batches in between) hold the same
entry for every key — provided no validator validly signed two announcements with the same
(version, timestamp) and different addresses. -/
theorem convergence (vs : List Nat) (bs1 bs2 : List (List Ann))
    (hsame : ∀ a, a ∈ seen vs [] bs1 ↔ a ∈ seen vs [] bs2)
    (huniq : ∀ a b, a ∈ seen vs [] bs1 → b ∈ seen vs [] bs1 → a.verify = true → b.verify = true →
      a.key = b.key → a.msg.version = b.msg.version → a.msg.secs = b.msg.secs → a.msg.nanos = b.msg.nanos →
      a.msg.addr = b.msg.addr) (k : Nat) :
    lookup (feed vs [] bs1) k = lookup (feed vs [] bs2) k := by
  have key : ∀ (bsA bsB : List (List Ann)), (∀ a, a ∈ seen vs [] bsA ↔ a ∈ seen vs [] bsB) →
      ∀ a1, lookup (feed vs [] bsA) k = some a1 → ∃ a2, lookup (feed vs [] bsB) k = some a2 ∧
        a1 ∈ seen vs [] bsA ∧ a2 ∈ seen vs [] bsA ∧ a1.verify = true ∧ a2.verify = true ∧
        a1.key = k ∧ a2.key = k ∧ ¬ a1.msg.isNewer a2.msg ∧ ¬ a2.msg.isNewer a1.msg := by
    intro bsA bsB hs a1 h1
    obtain ⟨hs1, hv1, hk1, hm, _⟩ := (final_is_newest_seen vs bsA k).1 a1 h1
    obtain ⟨a2, h2⟩ := (final_is_newest_seen vs bsB k).2 hm ⟨a1, (hs a1).mp hs1, hk1⟩
    obtain ⟨hs2, hv2, hk2, _, hdom2⟩ := (final_is_newest_seen vs bsB k).1 a2 h2
    obtain ⟨_, _, _, _, hdom1⟩ := (final_is_newest_seen vs bsA k).1 a1 h1
    exact ⟨a2, h2, hs1, (hs a2).mpr hs2, hv1, hv2, hk1, hk2, hdom2 a1 ((hs a1).mp hs1) hk1,
      hdom1 a2 ((hs a2).mpr hs2) hk2⟩
  cases h1 : lookup (feed vs [] bs1) k with
  | some a1 =>
    obtain ⟨a2, h2, hs1, hs2, hv1, hv2, hk1, hk2, hn12, hn21⟩ := key bs1 bs2 hsame a1 h1
    obtain ⟨e1, e2, e3⟩ := eq_of_not_newer hn12 hn21
    have e4 := huniq a1 a2 hs1 hs2 hv1 hv2 (hk1.trans hk2.symm) e1 e2 e3
    have : a1.msg = a2.msg := by
      cases h : a1.msg; cases h' : a2.msg; simp_all
    rw [h2, eq_of_verify hv1 hv2 (hk1.trans hk2.symm) this]
  | none =>
    cases h2 : lookup (feed vs [] bs2) k with
    | none => rfl
    | some a2 =>
      obtain ⟨a1, h1', _⟩ := key bs2 bs1 (fun a => (hsame a).symm) a2 h2
      rw [h1] at h1'; cases h1'

/-- the canonical listing `current()` of the two nodes is then the same list -/
theorem convergence_snapshot (vs : List Nat) (bs1 bs2 : List (List Ann))
    (hsame : ∀ a, a ∈ seen vs [] bs1 ↔ a ∈ seen vs [] bs2)
    (huniq : ∀ a b, a ∈ seen vs [] bs1 → b ∈ seen vs [] bs1 → a.verify = true → b.verify = true →
      a.key = b.key → a.msg.version = b.msg.version → a.msg.secs = b.msg.secs → a.msg.nanos = b.msg.nanos →
      a.msg.addr = b.msg.addr) (bound : Nat) :
    snapshot (feed vs [] bs1) bound = snapshot (feed vs [] bs2) bound := by
  unfold snapshot
  congr 1
  funext k
  exact convergence vs bs1 bs2 hsame huniq k

/-- The uniqueness hypothesis of `convergence` cannot be dropped: a validator that signs two addresses with
the same (version, timestamp) splits the network by arrival order (neither is newer, the first one stays). -/
theorem convergence_needs_unique_signing :
    let a := sign 0 { addr := 1, version := 3, secs := 7, nanos := 0 }
    let b := sign 0 { addr := 2, version := 3, secs := 7, nanos := 0 }
    (∀ x, x ∈ seen [0] [] [[a], [b]] ↔ x ∈ seen [0] [] [[b], [a]]) ∧
      lookup (feed [0] [] [[a], [b]]) 0 = some a ∧ lookup (feed [0] [] [[b], [a]]) 0 = some b ∧ a ≠ b := by
  refine ⟨?_, by decide, by decide, by decide⟩
  intro x
  have e1 : seen [0] [] [[sign 0 { addr := 1, version := 3, secs := 7, nanos := 0 }],
      [sign 0 { addr := 2, version := 3, secs := 7, nanos := 0 }]] =
      [sign 0 { addr := 1, version := 3, secs := 7, nanos := 0 },
       sign 0 { addr := 2, version := 3, secs := 7, nanos := 0 }] := by decide
  have e2 : seen [0] [] [[sign 0 { addr := 2, version := 3, secs := 7, nanos := 0 }],
      [sign 0 { addr := 1, version := 3, secs := 7, nanos := 0 }]] =
      [sign 0 { addr := 2, version := 3, secs := 7, nanos := 0 },
       sign 0 { addr := 1, version := 3, secs := 7, nanos := 0 }] := by decide
  simp only [e1, e2, List.mem_cons, List.not_mem_nil, or_false]
  exact Or.comm

/-! ## Non-vacuity: concrete states meeting the hypotheses (tests of the statements, not the proofs) -/

section Examples

/-- validators 0,1 are members, 2 is not; `f0` re-uses key 0's signature over `a0` with the address edited -/
private def a0 : Ann := sign 0 { addr := 10, version := 0, secs := 100, nanos := 5 }
private def a1 : Ann := sign 0 { addr := 11, version := 1, secs := 50, nanos := 0 }
private def b0 : Ann := sign 1 { addr := 20, version := 0, secs := 100, nanos := 0 }
private def c0 : Ann := sign 2 { addr := 30, version := 9, secs := 1, nanos := 0 }
private def f0 : Ann := { a0 with msg := { a0.msg with addr := 66, version := 7 } }
private def f1 : Ann := { key := 1, msg := { addr := 67, version := 5, secs := 0, nanos := 0 }, sigBy := 0,
                          sigOver := { addr := 67, version := 5, secs := 0, nanos := 0 } }

-- a batch that is accepted and changes the book; a non-member is skipped; version beats timestamp
example : isOk (update [0, 1] [a0] [a1, c0, b0]).res = true ∧
    lookup (update [0, 1] [a0] [a1, c0, b0]).book 0 = some a1 ∧
    lookup (update [0, 1] [a0] [a1, c0, b0]).book 1 = some b0 ∧
    lookup (update [0, 1] [a0] [a1, c0, b0]).book 2 = none ∧
    (update [0, 1] [a0] [a1, c0, b0]).notified = true := by decide
-- forged newer entry after valid ones: rejected, nothing published (hypotheses of `rejected_batch_no_change`,
-- `forged_fresh_member_rejected`)
example : f0.verify = false ∧ fresh [a0] f0 = true ∧ isOk (update [0, 1] [a0] [b0, f0]).res = false ∧
    (update [0, 1] [a0] [b0, f0]).book = [a0] := by decide
-- duplicated key (even of a non-member) rejects (`duplicate_key_rejected`)
example : isOk (update [0, 1] [a0] [b0, c0, c0]).res = false := by decide
-- stale forged entry / forged non-member entry: tolerated (`stale_or_nonmember_forgery_tolerated`)
example : isOk (update [0, 1] [a1] [{ f0 with msg := { f0.msg with version := 0 } }, b0]).res = true ∧
    isOk (update [0] [a1] [f1]).res = true := by decide
-- hypotheses of `run_never_decreases` / `stored_are_authentic` on a run with an own announcement (version 1,
-- timestamp 7s) that is then superseded by a received announcement of the same version with a later timestamp
example : NoOverflow [] [Op.update [0, 1] [a0, b0], Op.announce 0 12 7 7, Op.update [0, 1] [a1]] ∧
    (lookup (run [] [Op.update [0, 1] [a0, b0], Op.announce 0 12 7 7, Op.update [0, 1] [a1]]) 0).map
      (fun a => (a.msg.version, a.msg.addr)) = some (1, 11) :=
  ⟨⟨trivial, by decide, trivial, trivial⟩, by decide⟩
-- hypotheses of `convergence`: different order and different partition, one stale delivery, one rejected batch
example : (∀ a, a ∈ seen [0, 1] [] [[a0], [a1, b0]] ↔ a ∈ seen [0, 1] [] [[b0, a1], [f0], [a0]]) ∧
    lookup (feed [0, 1] [] [[a0], [a1, b0]]) 0 = some a1 ∧
    lookup (feed [0, 1] [] [[b0, a1], [f0], [a0]]) 0 = some a1 := by
  have e1 : seen [0, 1] [] [[a0], [a1, b0]] = [a0, a1, b0] := by decide
  have e2 : seen [0, 1] [] [[b0, a1], [f0], [a0]] = [b0, a1, a0] := by decide
  refine ⟨fun a => ?_, by decide, by decide⟩
  simp only [e1, e2, List.mem_cons, List.not_mem_nil, or_false]
  constructor <;> (intro h; rcases h with h | h | h <;> simp [h])

end Examples

end EraVerif.Props.C18
