import EraVerif.Model.Replica
import EraVerif.Proofs.Certs
import EraVerif.Proofs.ReplicaStep
import EraVerif.Proofs.Progress
import EraVerif.Props.C05

/-!
# C06 — Progress (PARTIAL: the chain of enabling / no-deadlock lemmas)

Statement. From any state the system can reach, once correct validators holding a quorum of weight can exchange
messages reliably and fetch missing blocks, and timeouts keep firing, every correct validator commits a new block
within a bounded number of views with correct leaders. In particular no reachable state deadlocks the replicas: lost
messages are retransmitted on timeout and lagging replicas catch up.

What is proved here. The end-to-end statement quantifies over schedules of a whole network; this file proves, over the
executable replica model `Model/Replica.lean` (`step`, the function the correspondence run compares with the real
`StateMachine`), the per-replica lemmas that statement is assembled from — each for **every** configuration `cfg`
(any committee, any leader schedule), **every** state `r` satisfying the representation invariant `Wf` of C05 (which
holds in all reachable states: `C05.reachable_wf`), every phase, and every answer `e` of the environment:

1. the view timer is never refused: in every phase it re-broadcasts the replica's highest certificate (new-view) and
   its timeout vote, and firing again re-emits exactly the same messages (`timeout_always_rebroadcasts`,
   `view0_times_out`);
2. a new-view message or a leader proposal for a higher view pulls a lagging replica forward whatever its phase, and
   the pulled replica itself re-broadcasts a certificate at least as high (`newview_pulls_forward`,
   `proposal_pulls_forward`);
3. a valid timeout / commit vote of a committee member that has not yet voted for that or a later view is never
   refused and adds exactly the signer's weight to the certificate under assembly, which stays cached
   (`timeout_vote_accepted_once_per_signer`, `commit_vote_accepted_once_per_signer`); the vote that brings the
   weight to the quorum moves the replica to the next view, phase `prepare`, with a verifying new-view broadcast
   (`timeout_quorum_advances`, `commit_quorum_advances`);
4. the proposal an honest leader builds with `create_proposal` passes every check of every correct replica that is
   behind, or in `prepare` of that view (`honest_proposal_accepted`);
5. delivered in **any order**, timeout votes for one view (or commit votes for one block) from distinct members
   whose weight reaches the quorum move the replica past that view (`quorum_of_timeouts_advances_any_order`,
   `quorum_of_commits_advances_any_order`);
6. next to a block store that only grows and whose queue is never behind what it persisted, no reachable state leaves
   a handler waiting for the store, and none panics: every input is rejected without change or accepted
   (`no_reachable_state_blocks`, from the invariant `CacheBelowStore`, `cache_below_store_preserved`).

The only way a handler does not complete is `Outcome.blocked`: `save_block` → `queue_block` waits until the block store
has reached the certified block. `Blocks r e q` (§0) is the **exact** condition (`newview_blocked_iff`, and the `↔` in
the vote theorems): the certificate `q` being processed is newer than the one held, its payload is in the proposal
cache, and the store's next block is still below it. It is excluded by the hypothesis "lagging replicas can fetch
missing blocks" in any of the forms of §0b (store caught up with the cached proposals; empty cache; predecessor
persisted), and it never holds in the states of §7 (`reachableS_noBlock`).

What is **not** proved: the network-level composition (that the messages above are in fact delivered to every
correct replica within bounded time, the bound on the number of views, and the leader-schedule argument that a
correct leader eventually occurs). View numbers: `ViewNumber::next` wraps at 2^64 (`nextU64`); the theorems that name
the next view as `view + 1` carry the no-wrap hypothesis `view + 1 < 2^64`.
-/

namespace EraVerif.Props.C06
open EraVerif.Model
open EraVerif.Proofs
open EraVerif.Proofs.Certs (CqcAssembled TqcAssembled tqcGroupWeight)
open EraVerif.Proofs.ReplicaStep
open EraVerif.Proofs.Progress

/-! ## 0. Vocabulary -/

/-- the proposal cache holds the payload `q` certifies -/
theorem cached_iff (ps : List (Nat × Payload)) (q : CommitQC) :
    Cached ps q ↔ ∃ p ∈ ps, p.1 = q.message.proposal.number ∧ p.2.id = q.message.proposal.payload := Iff.rfl

/-- `q` is of a strictly higher view than the commit certificate held (or none is held) -/
theorem newer_iff (r : Replica) (q : CommitQC) :
    Newer r q ↔ ∀ cur, r.highCommitQC = some cur → cur.message.view.number < q.message.view.number := Iff.rfl

/-- processing `q` waits in `queue_block` -/
theorem blocks_iff (r : Replica) (e : Env) (q : CommitQC) :
    Blocks r e q ↔ Newer r q ∧ Cached r.proposals q ∧ e.storeNext < q.message.proposal.number := Iff.rfl

/-- processing `q` hands the certified block to the store -/
theorem hands_iff (r : Replica) (e : Env) (q : CommitQC) :
    Hands r e q ↔ Newer r q ∧ Cached r.proposals q ∧ q.message.proposal.number = e.storeNext ∧
      e.persistedNext ≤ q.message.proposal.number := Iff.rfl

/-- the commit certificate a justification makes the replica process -/
theorem carriedQC_def (j : Just) :
    carriedQC j = match j with | .commit q => some q | .timeout t => t.highQC := by cases j <;> rfl

/-- view number of the certificate inside a justification; the view it justifies is the (wrapping) successor -/
theorem certView_def (j : Just) :
    certView j = (match j with | .commit q => q.message.view.number | .timeout q => q.view.number) ∧
      j.viewNumber = nextU64 (certView j) := by cases j <;> exact ⟨rfl, rfl⟩

/-- what a proposal must look like to pass `on_proposal`'s payload checks for justification `j` in environment `e`:
a re-proposal carries no payload; a fresh proposal carries a payload that is small enough, verifies, and follows a
block this replica has persisted -/
theorem payloadFits_iff (cfg : RCfg) (e : Env) (j : Just) (p : Option Payload) :
    PayloadFits cfg e j p ↔
      (∃ hsh, (j.impliedBlock cfg.c).2 = some hsh ∧ p = none) ∨
      ((j.impliedBlock cfg.c).2 = none ∧ ∃ pl, p = some pl ∧ pl.size ≤ cfg.maxPayload ∧
        ((j.impliedBlock cfg.c).1 = 0 ∨ (j.impliedBlock cfg.c).1 - 1 < e.persistedNext) ∧ e.payloadOk = true) :=
  Iff.rfl

/-- the block hash a replica votes for on a proposal `(p, j)`: the implied hash of a re-proposal, else the hash of
the payload -/
theorem votedHash_def (cfg : RCfg) (j : Just) (p : Option Payload) :
    votedHash cfg j p = match (j.impliedBlock cfg.c).2, p with
      | some h, _ => h
      | none, some pl => pl.id
      | none, none => 0 := rfl

/-- delivering a list of inputs in order, each with the environment's answers at that moment -/
theorem run_def (cfg : RCfg) (r : Replica) (l : List (Env × Input)) :
    run cfg r l = l.foldl (fun r x => (step cfg r x.1 x.2).r) r := rfl

theorem timeoutInput_def (x : Env × Nat × TVote) : timeoutInput x = (x.1, .msg ⟨.timeout x.2.2, x.2.1, true⟩) := rfl

theorem commitInput_def (v : Vote) (x : Env × Nat) : commitInput v x = (x.1, .msg ⟨.commit v, x.2, true⟩) := rfl

/-- the certificate under assembly a timeout vote is added to: the one cached for its view number, else
`TimeoutQC::new`; for a commit vote: the one cached for exactly this vote, else `CommitQC::new` -/
theorem tQc0_def (tqs : List (Nat × TimeoutQC)) (t : TVote) :
    tQc0 tqs t = (alGet tqs t.view.number).getD (TimeoutQC.new t.view) := rfl

theorem cQc0_def (c : Committee) (cqs : List (Nat × List (Vote × CommitQC))) (v : Vote) :
    cQc0 c cqs v = ((((alGet cqs v.view.number).getD []).find? (fun x => x.1 = v)).map (·.2)).getD (CommitQC.new c v) :=
  rfl

/-- the timeout certificate under assembly for view number `v` of this chain and epoch -/
theorem cachedT_def (cfg : RCfg) (r : Replica) (v : Nat) :
    cachedT cfg r v = (alGet r.timeoutQCs v).getD
      (TimeoutQC.new { genesis := cfg.c.genesis, epoch := cfg.c.epoch, number := v }) := rfl

theorem cachedT_eq (cfg : RCfg) (r : Replica) (t : TVote) (hv : t.verify cfg.c = true) :
    tQc0 r.timeoutQCs t = cachedT cfg r t.view.number := tQc0_eq_cachedT r hv

/-- `Blocks` is exactly "the handler ends in `queue_block`" -/
theorem blocks_exact (r : Replica) (e : Env) (q : CommitQC) : (processCommitQC r e q).2.2 = false ↔ Blocks r e q :=
  processCommitQC_blocked_iff r e q

/-! ## 0b. When nothing blocks: lagging replicas have fetched the missing blocks -/

/-- the store has caught up with every proposal in the cache -/
theorem noBlock_of_store_caught_up (r : Replica) (e : Env) (q : CommitQC)
    (h : ∀ p ∈ r.proposals, p.1 ≤ e.storeNext) : ¬ Blocks r e q := by
  intro ⟨_, ⟨p, hp, hn, _⟩, hlt⟩
  have := h p hp
  omega

theorem noBlock_of_empty_cache (r : Replica) (e : Env) (q : CommitQC) (h : r.proposals = []) : ¬ Blocks r e q :=
  noBlock_of_store_caught_up r e q (by rw [h]; intro p hp; cases hp)

/-- the store has reached the certified block -/
theorem noBlock_of_store_at_block (r : Replica) (e : Env) (q : CommitQC)
    (h : q.message.proposal.number ≤ e.storeNext) : ¬ Blocks r e q := by
  intro ⟨_, _, hlt⟩; omega

/-- a proposal with a fresh payload whose predecessor this replica has persisted never blocks (the store's queue is
never behind what is persisted: `persistedNext ≤ storeNext`) -/
theorem noBlock_of_predecessor_persisted (cfg : RCfg) (r : Replica) (e : Env) (j : Just) (q : CommitQC)
    (hf : (j.impliedBlock cfg.c).2 = none) (hq : carriedQC j = some q)
    (hnw : q.message.proposal.number + 1 < 2 ^ 64)
    (hprev : (j.impliedBlock cfg.c).1 = 0 ∨ (j.impliedBlock cfg.c).1 - 1 < e.persistedNext)
    (hstore : e.persistedNext ≤ e.storeNext) : ¬ Blocks r e q := by
  have hnum := fresh_implied_number hf hq
  have : nextBlock q.message.proposal.number = q.message.proposal.number + 1 := Nat.mod_eq_of_lt hnw
  rw [this] at hnum
  apply noBlock_of_store_at_block
  rcases hprev with h | h <;> omega

/-! ## 1. Timeouts keep firing: the timer is never refused and retransmits -/

/-- **The view timer re-broadcasts in every phase.** In a view other than 0 the tick is accepted whatever the phase,
sets the phase to `timeout`, and emits exactly: `backup_state`, the new-view message carrying the replica's
justification `j` (its highest certificate, which verifies and justifies a view at least the current one:
`r.view ≤ certView j + 1`), and the timeout vote for the current view with the replica's high vote and high commit
certificate (which verifies). Firing again (any environment) re-emits exactly the same: lost messages are
retransmitted on every timeout. -/
theorem timeout_always_rebroadcasts (cfg : RCfg) (r : Replica) (e : Env) (hw : Wf cfg r) (hv : r.view ≠ 0) :
    ∃ j tv, getJustification r = .ok j ∧ j.verify cfg.c = true ∧ r.view ≤ certView j + 1 ∧
      tv.view.number = r.view ∧ tv.highVote = r.highVote ∧ tv.highQC = r.highCommitQC ∧ tv.verify cfg.c = true ∧
      step cfg r e .tick =
        { r := { r with phase := .timeout },
          effs := [.persist { r.toDurable with phase := .timeout }, .send (.newView j), .send (.timeout tv)],
          out := .accepted } ∧
      ∀ e', step cfg (step cfg r e .tick).r e' .tick = step cfg r e .tick := by
  obtain ⟨j, hj, heq⟩ := (C05.tick_reaction cfg r e hw).2 hv
  have hheld : HeldAtLeast r r.view := by
    rcases hw.held with h | h
    · exact absurd h hv
    · exact h
  have hacc : (step cfg r e .tick).out = .accepted := by rw [heq]
  have hin : ∀ b, Input.tick ≠ .restart b := by intro b h; cases h
  have htv := C05.timeout_self_justifying cfg r e .tick hw hin hacc (ownTimeout cfg (stState r))
    (by rw [heq]; simp)
  refine ⟨j, ownTimeout cfg (stState r), hj, getJustification_verify hw hj, getJustification_ge hj hheld,
    rfl, rfl, rfl, htv.1, heq, fun e' => ?_⟩
  rw [heq]
  exact startTimeout_eq1 cfg (stState r) j hv hj

/-- **View 0.** At view 0 the tick is accepted in every phase and emits `backup_state` and the timeout vote only (no
new-view: there is no certificate for a view before 0), whatever certificates the replica holds; again idempotent. -/
theorem view0_times_out (cfg : RCfg) (r : Replica) (e : Env) (hv : r.view = 0) :
    ∃ tv, tv.view = { genesis := cfg.c.genesis, epoch := cfg.c.epoch, number := 0 } ∧ tv.highVote = r.highVote ∧
      tv.highQC = r.highCommitQC ∧
      step cfg r e .tick =
        { r := { r with phase := .timeout },
          effs := [.persist { r.toDurable with phase := .timeout }, .send (.timeout tv)],
          out := .accepted } ∧
      ∀ e', step cfg (step cfg r e .tick).r e' .tick = step cfg r e .tick := by
  have heq : step cfg r e .tick = _ := startTimeout_eq0 cfg r hv
  refine ⟨ownTimeout cfg (stState r), ?_, rfl, rfl, heq, fun e' => ?_⟩
  · show ({ genesis := cfg.c.genesis, epoch := cfg.c.epoch, number := r.view } : View) = _
    rw [hv]
  · rw [heq]
    exact startTimeout_eq0 cfg (stState r) hv

/-- in view 0 too the timeout vote verifies when the state is well-formed -/
theorem view0_timeout_vote_verifies (cfg : RCfg) (r : Replica) (e : Env) (hw : Wf cfg r) (t : TVote)
    (ht : Effect.send (.timeout t) ∈ (step cfg r e .tick).effs) : t.verify cfg.c = true :=
  (C05.timeout_self_justifying cfg r e .tick hw (by intro b h; cases h) (C05.tick_keeps_view cfg r e hw).1 t ht).1

/-! ## 2. Lagging replicas catch up: new-view messages and proposals pull forward -/

/-- **A new-view message for a higher view pulls the replica forward in every phase.** From any well-formed state,
any phase: a new-view message signed by a committee member, whose justification `j` verifies and is for a view above
the replica's, is accepted unless the handler waits for the block store (`hnb`, exact: `newview_blocked_iff`). The
replica enters view `j.viewNumber` in phase `prepare`, stays well-formed, and broadcasts a new-view message whose
justification `j'` is its highest certificate, verifies, and is at least as high as `j` — so the next lagging replica
that receives it is pulled at least as far. Effects: block hand-overs, proposer notification, `backup_state`,
new-view. -/
theorem newview_pulls_forward (cfg : RCfg) (r : Replica) (e : Env) (key : Nat) (j : Just) (hw : Wf cfg r)
    (hk : key < cfg.c.n) (hj : j.verify cfg.c = true) (hgt : r.view < j.viewNumber)
    (hnb : ∀ q, carriedQC j = some q → ¬ Blocks r e q) :
    ∃ j' qs, (step cfg r e (.msg ⟨.newView j, key, true⟩)).out = .accepted ∧
      (step cfg r e (.msg ⟨.newView j, key, true⟩)).r.view = j.viewNumber ∧
      (step cfg r e (.msg ⟨.newView j, key, true⟩)).r.phase = .prepare ∧
      Wf cfg (step cfg r e (.msg ⟨.newView j, key, true⟩)).r ∧
      getJustification (step cfg r e (.msg ⟨.newView j, key, true⟩)).r = .ok j' ∧
      j'.verify cfg.c = true ∧ certView j ≤ certView j' ∧
      (∀ x ∈ qs, ∃ n p q, x = Effect.queueBlock n p q) ∧
      (step cfg r e (.msg ⟨.newView j, key, true⟩)).effs =
        qs ++ [.notify j', .persist (step cfg r e (.msg ⟨.newView j, key, true⟩)).r.durable, .send (.newView j')] := by
  have hc : ¬ (j.viewNumber < r.view ∨ (j.viewNumber = r.view ∧ key ≠ cfg.leader r.view)) ∧ key < cfg.c.n ∧
      true = true ∧ j.verify cfg.c = true :=
    ⟨by intro h; rcases h with h | ⟨h, _⟩ <;> omega, hk, rfl, hj⟩
  obtain ⟨_, ha⟩ := C05.newView_reaction cfg r e key true j hc
  have hok := processJust_ok_of_noBlock hnb
  obtain ⟨j', hj', heq⟩ := (ha hok).1 hgt
  obtain ⟨hup, hoq, hheld⟩ := processJust_spec cfg r e j hj
  have hwf1 := wf_certUp hw hup
  obtain ⟨f1, f2, _, f4, f5, _⟩ := snvState_fields (processJust r e j).1 j.viewNumber
  have hacc : (step cfg r e (.msg ⟨.newView j, key, true⟩)).out = .accepted := by rw [heq]
  have hwf := C05.wf_preserved cfg r e _ hw (by intro b h; cases h) hacc
  have hge := getJustification_ge hj' (hheld hok)
  rw [heq] at hwf ⊢
  exact ⟨j', (processJust r e j).2.1, rfl, f1, f2, hwf, (getJustification_congr f4 f5).trans hj',
    getJustification_verify hwf1 hj', by omega, hoq, rfl⟩

/-- the side condition of `newview_pulls_forward` is exact: a new-view message that passes the checks leaves the
handler waiting in `queue_block` iff the commit certificate it carries `Blocks` -/
theorem newview_blocked_iff (cfg : RCfg) (r : Replica) (e : Env) (key : Nat) (j : Just) (hk : key < cfg.c.n)
    (hj : j.verify cfg.c = true) (hgt : r.view < j.viewNumber) :
    (step cfg r e (.msg ⟨.newView j, key, true⟩)).out = .blocked ↔ ∃ q, carriedQC j = some q ∧ Blocks r e q := by
  have hc : ¬ (j.viewNumber < r.view ∨ (j.viewNumber = r.view ∧ key ≠ cfg.leader r.view)) ∧ key < cfg.c.n ∧
      true = true ∧ j.verify cfg.c = true :=
    ⟨by intro h; rcases h with h | ⟨h, _⟩ <;> omega, hk, rfl, hj⟩
  obtain ⟨hb, ha⟩ := C05.newView_reaction cfg r e key true j hc
  rw [← processJust_blocked_iff]
  cases hok : (processJust r e j).2.2 with
  | false => rw [hb hok]; simp
  | true =>
    obtain ⟨j', _, heq⟩ := (ha hok).1 hgt
    rw [heq]; simp

/-- all checks of `on_proposal` pass and nothing blocks ⇒ accepted, with the vote for the implied block -/
private theorem proposal_accepted (cfg : RCfg) (r : Replica) (e : Env) (p : Option Payload) (j : Just) (hw : Wf cfg r)
    (hview : r.view < j.viewNumber ∨ (j.viewNumber = r.view ∧ r.phase = .prepare)) (hj : j.verify cfg.c = true)
    (hq : e.queuedFirst ≤ (j.impliedBlock cfg.c).1) (hp : PayloadFits cfg e j p)
    (hnb : ∀ q, carriedQC j = some q → ¬ Blocks r e q) :
    (step cfg r e (.msg ⟨.proposal p j, cfg.leader j.viewNumber, true⟩)).out = .accepted := by
  show (onProposal cfg r e (cfg.leader j.viewNumber) true p j).out = .accepted
  have hnr : ¬ ∃ w, (step cfg r e (.msg ⟨.proposal p j, cfg.leader j.viewNumber, true⟩)).out = .rejected w := by
    rw [C05.proposal_rejected_iff]
    exact fun h => h ⟨hview, rfl, rfl, hj, hq, hp⟩
  rcases onProposal_cases cfg r e (cfg.leader j.viewNumber) true p j with ⟨_, w, h⟩ | ⟨_, ⟨w, _, h⟩ | ⟨h', r0, hd, ht⟩⟩
  · exact absurd ⟨w, by show (onProposal _ _ _ _ _ _ _).out = _; rw [h]; rfl⟩ hnr
  · exact absurd ⟨w, by show (onProposal _ _ _ _ _ _ _).out = _; rw [h]; rfl⟩ hnr
  · rw [ht]
    have hok : (processJust (propR1 cfg r0 j h') e j).2.2 = true := by
      apply processJust_ok_of_noBlock
      intro q hcq hb
      rcases propDecide_ok hd with ⟨_, _, h0⟩ | ⟨hf, pl, _, _, _, _, _, h0⟩
      · subst h0
        exact hnb q hcq ((blocks_congr e q rfl rfl).mp hb)
      · subst h0
        obtain ⟨hn, hc, hlt⟩ := hb
        rcases cached_cacheProposal hc with hc | hc
        · exact hnb q hcq ⟨hn, hc, hlt⟩
        · rw [fresh_implied_number hf hcq] at hc
          exact nextBlock_ne _ hc
    unfold propTail
    simp [hok]

/-- **A leader proposal for a higher view pulls the replica forward in every phase.** A proposal for a view above the
replica's, signed by that view's leader, with a verifying justification, not pruned, whose payload fits
(`PayloadFits`), is accepted whatever the phase (unless the handler waits for the store): the replica enters that view
in phase `commit` and broadcasts its commit vote for exactly the implied block. -/
theorem proposal_pulls_forward (cfg : RCfg) (r : Replica) (e : Env) (p : Option Payload) (j : Just) (hw : Wf cfg r)
    (hgt : r.view < j.viewNumber) (hj : j.verify cfg.c = true) (hq : e.queuedFirst ≤ (j.impliedBlock cfg.c).1)
    (hp : PayloadFits cfg e j p) (hnb : ∀ q, carriedQC j = some q → ¬ Blocks r e q) :
    ∃ qs, (step cfg r e (.msg ⟨.proposal p j, cfg.leader j.viewNumber, true⟩)).out = .accepted ∧
      (step cfg r e (.msg ⟨.proposal p j, cfg.leader j.viewNumber, true⟩)).r.view = j.viewNumber ∧
      (step cfg r e (.msg ⟨.proposal p j, cfg.leader j.viewNumber, true⟩)).r.phase = .commit ∧
      Wf cfg (step cfg r e (.msg ⟨.proposal p j, cfg.leader j.viewNumber, true⟩)).r ∧
      (∀ x ∈ qs, ∃ n pl q, x = Effect.queueBlock n pl q) ∧
      (step cfg r e (.msg ⟨.proposal p j, cfg.leader j.viewNumber, true⟩)).effs =
        qs ++ [.persist (step cfg r e (.msg ⟨.proposal p j, cfg.leader j.viewNumber, true⟩)).r.durable,
               .send (.commit { view := j.view,
                                proposal := { number := (j.impliedBlock cfg.c).1, payload := votedHash cfg j p } })] := by
  have hacc := proposal_accepted cfg r e p j hw (Or.inl hgt) hj hq hp hnb
  obtain ⟨_, _, _, _, _, hash, hh, f1, f2, _, qs, hqs, heff⟩ :=
    C05.accepted_proposal_conforms cfg r e _ _ p j hacc
  have hwf := C05.wf_preserved cfg r e _ hw (by intro b h; cases h) hacc
  have hhash : hash = votedHash cfg j p := by
    unfold votedHash
    rcases hh with ⟨a, _⟩ | ⟨a, pl, b, c, _⟩
    · rw [a]
    · rw [a, b, c]
  rw [hhash] at heff
  exact ⟨qs, hacc, f1, f2, hwf, hqs, heff⟩

/-! ## 3. Timeout votes: each signer counts once, the quorum advances the view -/

/-- the three ways `on_timeout` ends once its checks pass -/
private theorem timeout_cases (cfg : RCfg) (r : Replica) (e : Env) (key : Nat) (t : TVote) (hw : Wf cfg r)
    (hk : key < cfg.c.n) (hge : r.view ≤ t.view.number)
    (hfresh : ∀ w, alGet r.timeoutViews key = some w → w < t.view.number) (hv : t.verify cfg.c = true) :
    ∃ qc, (tQc0 r.timeoutQCs t).add cfg.c { key := some key, sigOk := true } t = .ok qc ∧
      TqcAssembled cfg.c t.view qc ∧
      tqcGroupWeight cfg.c qc = tqcGroupWeight cfg.c (tQc0 r.timeoutQCs t) + cfg.c.weights.getD key 0 ∧
      (tqcGroupWeight cfg.c qc < cfg.c.quorum →
        step cfg r e (.msg ⟨.timeout t, key, true⟩) = { r := timeoutR1 r key t qc, effs := [], out := .accepted }) ∧
      (cfg.c.quorum ≤ tqcGroupWeight cfg.c qc →
        qc.verify cfg.c = true ∧
        ((∃ q, qc.highQC = some q ∧ Blocks r e q) →
          (step cfg r e (.msg ⟨.timeout t, key, true⟩)).out = .blocked) ∧
        ((∀ q, qc.highQC = some q → ¬ Blocks r e q) →
          ∃ j, getJustification (processTimeoutQC (timeoutR2 r key t qc) e qc).1 = .ok j ∧
            step cfg r e (.msg ⟨.timeout t, key, true⟩) =
              { r := snvState (processTimeoutQC (timeoutR2 r key t qc) e qc).1 (nextU64 t.view.number),
                effs := (processTimeoutQC (timeoutR2 r key t qc) e qc).2.1 ++
                  [.notify j,
                   .persist (snvState (processTimeoutQC (timeoutR2 r key t qc) e qc).1 (nextU64 t.view.number)).durable,
                   .send (.newView j)],
                out := .accepted })) := by
  obtain ⟨qc, hadd, hasm, _, hlow, hhigh⟩ := C05.timeout_reaction cfg r e key true t hw ⟨hk, hge, hfresh, rfl, hv⟩
  refine ⟨qc, hadd, hasm, tqc_add_weight (tQc0_inv hw hv) hadd, hlow, fun hq => ?_⟩
  obtain ⟨hver, hb, ha⟩ := hhigh hq
  have hiff := processTimeoutQC_blocked_iff (timeoutR2 r key t qc) e qc
  refine ⟨hver, ?_, ?_⟩
  · intro ⟨q, hq1, hq2⟩
    rw [hb (hiff.mpr ⟨q, hq1, (blocks_congr e q rfl rfl).mpr hq2⟩)]
  · intro hnb
    apply ha
    cases hok : (processTimeoutQC (timeoutR2 r key t qc) e qc).2.2 with
    | true => rfl
    | false =>
      obtain ⟨q, hq1, hq2⟩ := hiff.mp hok
      exact absurd ((blocks_congr e q rfl rfl).mp hq2) (hnb q hq1)

/-- **A timeout vote is accepted once per signer.** A timeout vote that verifies, for the replica's view or a later
one, signed by a committee member whose last recorded timeout vote is for a lower view (or who has none recorded), is
never rejected (not as old, duplicate, invalid, …): `TimeoutQC::add` succeeds on the certificate cached for that view
and adds exactly the signer's weight. The handler ends `blocked` exactly when this vote completes the quorum and the
certificate's high commit certificate `Blocks`; otherwise the vote is accepted, the state stays well-formed and the
signer is recorded. Below the quorum nothing else changes and the enlarged certificate is what the next vote for this
view is added to. -/
theorem timeout_vote_accepted_once_per_signer (cfg : RCfg) (r : Replica) (e : Env) (key : Nat) (t : TVote)
    (hw : Wf cfg r) (hk : key < cfg.c.n) (hge : r.view ≤ t.view.number)
    (hfresh : ∀ w, alGet r.timeoutViews key = some w → w < t.view.number) (hv : t.verify cfg.c = true) :
    ∃ qc, (tQc0 r.timeoutQCs t).add cfg.c { key := some key, sigOk := true } t = .ok qc ∧
      tqcGroupWeight cfg.c qc = tqcGroupWeight cfg.c (tQc0 r.timeoutQCs t) + cfg.c.weights.getD key 0 ∧
      (∀ w, (step cfg r e (.msg ⟨.timeout t, key, true⟩)).out ≠ .rejected w) ∧
      ((step cfg r e (.msg ⟨.timeout t, key, true⟩)).out = .blocked ↔
        cfg.c.quorum ≤ tqcGroupWeight cfg.c qc ∧ ∃ q, qc.highQC = some q ∧ Blocks r e q) ∧
      ((step cfg r e (.msg ⟨.timeout t, key, true⟩)).out ≠ .blocked →
        (step cfg r e (.msg ⟨.timeout t, key, true⟩)).out = .accepted ∧
        Wf cfg (step cfg r e (.msg ⟨.timeout t, key, true⟩)).r ∧
        alGet (step cfg r e (.msg ⟨.timeout t, key, true⟩)).r.timeoutViews key = some t.view.number) ∧
      (tqcGroupWeight cfg.c qc < cfg.c.quorum →
        step cfg r e (.msg ⟨.timeout t, key, true⟩) = { r := timeoutR1 r key t qc, effs := [], out := .accepted } ∧
        (timeoutR1 r key t qc).toDurable = r.toDurable ∧
        tQc0 (timeoutR1 r key t qc).timeoutQCs t = qc) := by
  obtain ⟨qc, hadd, _, hwt, hlow, hhigh⟩ := timeout_cases cfg r e key t hw hk hge hfresh hv
  have hrec : alGet (alSet r.timeoutViews key t.view.number) key = some t.view.number := by
    rw [alGet_alSet]; simp
  have hnr : ∀ w, (step cfg r e (.msg ⟨.timeout t, key, true⟩)).out ≠ .rejected w := by
    intro w hrej
    exact (C05.timeout_rejected_iff cfg r e key true t).mp ⟨w, hrej⟩ ⟨hk, hge, hfresh, rfl, hv⟩
  have hacc_wf : (step cfg r e (.msg ⟨.timeout t, key, true⟩)).out = .accepted →
      Wf cfg (step cfg r e (.msg ⟨.timeout t, key, true⟩)).r :=
    C05.wf_preserved cfg r e _ hw (by intro b h; cases h)
  refine ⟨qc, hadd, hwt, hnr, ?_, ?_, fun hlt => ⟨hlow hlt, rfl, tQc0_timeoutR1 r key t t qc rfl⟩⟩
  · by_cases hlt : tqcGroupWeight cfg.c qc < cfg.c.quorum
    · rw [hlow hlt]
      exact ⟨fun h => (by cases h), fun ⟨h, _⟩ => (by omega)⟩
    · obtain ⟨_, hb, ha⟩ := hhigh (by omega)
      constructor
      · intro hbl
        refine ⟨by omega, ?_⟩
        apply Classical.byContradiction
        intro hn
        obtain ⟨j, _, heq⟩ := ha (fun q hq hbq => hn ⟨q, hq, hbq⟩)
        rw [heq] at hbl; cases hbl
      · intro ⟨_, h⟩; exact hb h
  · intro hnb
    by_cases hlt : tqcGroupWeight cfg.c qc < cfg.c.quorum
    · have heq := hlow hlt
      have hacc : (step cfg r e (.msg ⟨.timeout t, key, true⟩)).out = .accepted := by rw [heq]
      refine ⟨hacc, hacc_wf hacc, ?_⟩
      rw [heq]; exact hrec
    · obtain ⟨_, hb, ha⟩ := hhigh (by omega)
      have hno : ∀ q, qc.highQC = some q → ¬ Blocks r e q := fun q hq hbq => hnb (hb ⟨q, hq, hbq⟩)
      obtain ⟨j, _, heq⟩ := ha hno
      have hacc : (step cfg r e (.msg ⟨.timeout t, key, true⟩)).out = .accepted := by rw [heq]
      refine ⟨hacc, hacc_wf hacc, ?_⟩
      rw [heq]
      obtain ⟨_, _, _, _, _, _, _, f8, _⟩ :=
        snvState_fields (processTimeoutQC (timeoutR2 r key t qc) e qc).1 (nextU64 t.view.number)
      obtain ⟨hup, _, _⟩ := processTimeoutQC_spec cfg (timeoutR2 r key t qc) e qc (hhigh (by omega)).1
      show alGet (snvState _ _).timeoutViews key = _
      rw [f8, hup.timeoutViews]
      exact hrec

/-- **The timeout quorum advances the view.** If the vote brings the weight of the certificate for its view to the
quorum (and the view number does not wrap, and nothing blocks), the completed certificate verifies and the step ends in
view `t.view + 1`, phase `prepare`, well-formed, holding a timeout certificate of view ≥ `t.view`, having emitted: block
hand-overs, the proposer notification, `backup_state`, and a new-view message whose justification `j'` is the
replica's highest certificate, verifies, and justifies a view ≥ `t.view + 1`. -/
theorem timeout_quorum_advances (cfg : RCfg) (r : Replica) (e : Env) (key : Nat) (t : TVote) (qc : TimeoutQC)
    (hw : Wf cfg r) (hk : key < cfg.c.n) (hge : r.view ≤ t.view.number)
    (hfresh : ∀ w, alGet r.timeoutViews key = some w → w < t.view.number) (hv : t.verify cfg.c = true)
    (hadd : (tQc0 r.timeoutQCs t).add cfg.c { key := some key, sigOk := true } t = .ok qc)
    (hq : cfg.c.quorum ≤ tqcGroupWeight cfg.c qc) (hnw : t.view.number + 1 < 2 ^ 64)
    (hnb : ∀ q, qc.highQC = some q → ¬ Blocks r e q) :
    ∃ j' qs, qc.verify cfg.c = true ∧ qc.view = t.view ∧
      (step cfg r e (.msg ⟨.timeout t, key, true⟩)).out = .accepted ∧
      (step cfg r e (.msg ⟨.timeout t, key, true⟩)).r.view = t.view.number + 1 ∧
      (step cfg r e (.msg ⟨.timeout t, key, true⟩)).r.phase = .prepare ∧
      Wf cfg (step cfg r e (.msg ⟨.timeout t, key, true⟩)).r ∧
      (∃ tq, (step cfg r e (.msg ⟨.timeout t, key, true⟩)).r.highTimeoutQC = some tq ∧
        t.view.number ≤ tq.view.number) ∧
      getJustification (step cfg r e (.msg ⟨.timeout t, key, true⟩)).r = .ok j' ∧
      j'.verify cfg.c = true ∧ t.view.number ≤ certView j' ∧
      (∀ x ∈ qs, ∃ n p q, x = Effect.queueBlock n p q) ∧
      (step cfg r e (.msg ⟨.timeout t, key, true⟩)).effs =
        qs ++ [.notify j', .persist (step cfg r e (.msg ⟨.timeout t, key, true⟩)).r.durable, .send (.newView j')] := by
  obtain ⟨qc', hadd', hasm, _, _, hhigh⟩ := timeout_cases cfg r e key t hw hk hge hfresh hv
  rw [hadd] at hadd'
  cases hadd'
  obtain ⟨hver, _, ha⟩ := hhigh hq
  obtain ⟨j', hj', heq⟩ := ha hnb
  have hacc : (step cfg r e (.msg ⟨.timeout t, key, true⟩)).out = .accepted := by rw [heq]
  have hwf := C05.wf_preserved cfg r e _ hw (by intro b h; cases h) hacc
  obtain ⟨hup, hoq, hheld⟩ := processTimeoutQC_spec cfg (timeoutR2 r key t qc) e qc hver
  have hok : (processTimeoutQC (timeoutR2 r key t qc) e qc).2.2 = true := by
    cases hok : (processTimeoutQC (timeoutR2 r key t qc) e qc).2.2 with
    | true => rfl
    | false =>
      obtain ⟨q, hq1, hq2⟩ := (processTimeoutQC_blocked_iff _ e qc).mp hok
      exact absurd ((blocks_congr e q rfl rfl).mp hq2) (hnb q hq1)
  obtain ⟨tq, htq, hle⟩ := hheld hok
  have hm : qc.view = t.view := (Certs.tqcAssembled_inv hasm).view_eq
  rw [hm] at hle
  obtain ⟨f1, f2, _, f4, f5, _⟩ := snvState_fields (processTimeoutQC (timeoutR2 r key t qc) e qc).1 (nextU64 t.view.number)
  have hwf3 : Wf cfg (processTimeoutQC (timeoutR2 r key t qc) e qc).1 := by
    have : Wf cfg (snvState (processTimeoutQC (timeoutR2 r key t qc) e qc).1 (nextU64 t.view.number)) := by
      rw [heq] at hwf; exact hwf
    exact ⟨by rw [← (snvState_fields _ _).2.2.1]; exact this.hvote,
      by rw [← f4]; exact this.hcqc, by rw [← f5]; exact this.htqc,
      Or.inr (Or.inr ⟨tq, htq, by rw [hup.view]; show r.view ≤ _; omega⟩),
      by rw [← (snvState_fields _ _).2.2.2.2.2.1, ← (snvState_fields _ _).2.2.2.2.2.2.1]; exact this.ccache,
      by rw [← (snvState_fields _ _).2.2.2.2.2.2.2.1, ← (snvState_fields _ _).2.2.2.2.2.2.2.2]; exact this.tcache⟩
  have hge' := getJustification_ge hj' (Or.inr ⟨tq, htq, Nat.succ_le_succ hle⟩)
  rw [heq] at hwf ⊢
  refine ⟨j', (processTimeoutQC (timeoutR2 r key t qc) e qc).2.1, hver, hm, rfl, ?_, f2, hwf,
    ⟨tq, f5.trans htq, hle⟩, (getJustification_congr f4 f5).trans hj', getJustification_verify hwf3 hj',
    by omega, hoq, rfl⟩
  show (snvState _ _).view = _
  rw [f1, nextU64_eq _ hnw]

/-! ## 4. Commit votes: the mirror statements -/

private theorem commit_cases (cfg : RCfg) (r : Replica) (e : Env) (key : Nat) (v : Vote) (hw : Wf cfg r)
    (hk : key < cfg.c.n) (hge : r.view ≤ v.view.number)
    (hfresh : ∀ w, alGet r.commitViews key = some w → w < v.view.number) (hv : v.verify cfg.c = true) :
    ∃ qc, (cQc0 cfg.c r.commitQCs v).add cfg.c { key := some key, sigOk := true } v = .ok qc ∧
      CqcAssembled cfg.c v qc ∧
      weightOf cfg.c.weights qc.signers =
        weightOf cfg.c.weights (cQc0 cfg.c r.commitQCs v).signers + cfg.c.weights.getD key 0 ∧
      (weightOf cfg.c.weights qc.signers < cfg.c.quorum →
        step cfg r e (.msg ⟨.commit v, key, true⟩) = { r := commitR1 r key v qc, effs := [], out := .accepted }) ∧
      (cfg.c.quorum ≤ weightOf cfg.c.weights qc.signers →
        qc.verify cfg.c = true ∧
        (Blocks r e qc → (step cfg r e (.msg ⟨.commit v, key, true⟩)).out = .blocked) ∧
        (¬ Blocks r e qc →
          ∃ j, getJustification (processCommitQC (commitR2 r key v qc) e qc).1 = .ok j ∧
            step cfg r e (.msg ⟨.commit v, key, true⟩) =
              { r := snvState (processCommitQC (commitR2 r key v qc) e qc).1 (nextU64 v.view.number),
                effs := (processCommitQC (commitR2 r key v qc) e qc).2.1 ++
                  [.notify j,
                   .persist (snvState (processCommitQC (commitR2 r key v qc) e qc).1 (nextU64 v.view.number)).durable,
                   .send (.newView j)],
                out := .accepted })) := by
  obtain ⟨qc, hadd, hasm, hlow, hhigh⟩ := C05.commit_reaction cfg r e key true v hw ⟨hk, hge, hfresh, rfl, hv⟩
  refine ⟨qc, hadd, hasm, cqc_add_weight (cQc0_len v hw) hadd, hlow, fun hq => ?_⟩
  obtain ⟨hver, hb, ha⟩ := hhigh hq
  have hiff := processCommitQC_blocked_iff (commitR2 r key v qc) e qc
  refine ⟨hver, ?_, ?_⟩
  · intro hbl
    rw [hb (hiff.mpr ((blocks_congr e qc rfl rfl).mpr hbl))]
  · intro hnb
    apply ha
    cases hok : (processCommitQC (commitR2 r key v qc) e qc).2.2 with
    | true => rfl
    | false => exact absurd ((blocks_congr e qc rfl rfl).mp (hiff.mp hok)) hnb

/-- **A commit vote is accepted once per signer** (mirror of `timeout_vote_accepted_once_per_signer`): never rejected;
`CommitQC::add` succeeds on the certificate cached for exactly this vote and adds the signer's weight; `blocked`
exactly when the vote completes the quorum and the completed certificate `Blocks`; otherwise accepted, well-formed,
signer recorded; below the quorum nothing else changes and the enlarged certificate stays cached for this vote. -/
theorem commit_vote_accepted_once_per_signer (cfg : RCfg) (r : Replica) (e : Env) (key : Nat) (v : Vote)
    (hw : Wf cfg r) (hk : key < cfg.c.n) (hge : r.view ≤ v.view.number)
    (hfresh : ∀ w, alGet r.commitViews key = some w → w < v.view.number) (hv : v.verify cfg.c = true) :
    ∃ qc, (cQc0 cfg.c r.commitQCs v).add cfg.c { key := some key, sigOk := true } v = .ok qc ∧
      weightOf cfg.c.weights qc.signers =
        weightOf cfg.c.weights (cQc0 cfg.c r.commitQCs v).signers + cfg.c.weights.getD key 0 ∧
      (∀ w, (step cfg r e (.msg ⟨.commit v, key, true⟩)).out ≠ .rejected w) ∧
      ((step cfg r e (.msg ⟨.commit v, key, true⟩)).out = .blocked ↔
        cfg.c.quorum ≤ weightOf cfg.c.weights qc.signers ∧ Blocks r e qc) ∧
      ((step cfg r e (.msg ⟨.commit v, key, true⟩)).out ≠ .blocked →
        (step cfg r e (.msg ⟨.commit v, key, true⟩)).out = .accepted ∧
        Wf cfg (step cfg r e (.msg ⟨.commit v, key, true⟩)).r ∧
        alGet (step cfg r e (.msg ⟨.commit v, key, true⟩)).r.commitViews key = some v.view.number) ∧
      (weightOf cfg.c.weights qc.signers < cfg.c.quorum →
        step cfg r e (.msg ⟨.commit v, key, true⟩) = { r := commitR1 r key v qc, effs := [], out := .accepted } ∧
        (commitR1 r key v qc).toDurable = r.toDurable ∧
        cQc0 cfg.c (commitR1 r key v qc).commitQCs v = qc) := by
  obtain ⟨qc, hadd, _, hwt, hlow, hhigh⟩ := commit_cases cfg r e key v hw hk hge hfresh hv
  have hrec : alGet (alSet r.commitViews key v.view.number) key = some v.view.number := by
    rw [alGet_alSet]; simp
  have hnr : ∀ w, (step cfg r e (.msg ⟨.commit v, key, true⟩)).out ≠ .rejected w := by
    intro w hrej
    exact (C05.commit_rejected_iff cfg r e key true v).mp ⟨w, hrej⟩ ⟨hk, hge, hfresh, rfl, hv⟩
  have hacc_wf : (step cfg r e (.msg ⟨.commit v, key, true⟩)).out = .accepted →
      Wf cfg (step cfg r e (.msg ⟨.commit v, key, true⟩)).r :=
    C05.wf_preserved cfg r e _ hw (by intro b h; cases h)
  refine ⟨qc, hadd, hwt, hnr, ?_, ?_, fun hlt => ⟨hlow hlt, rfl, cQc0_commitR1 cfg.c r key v qc⟩⟩
  · by_cases hlt : weightOf cfg.c.weights qc.signers < cfg.c.quorum
    · rw [hlow hlt]
      exact ⟨fun h => (by cases h), fun ⟨h, _⟩ => (by omega)⟩
    · obtain ⟨_, hb, ha⟩ := hhigh (by omega)
      constructor
      · intro hbl
        refine ⟨by omega, ?_⟩
        apply Classical.byContradiction
        intro hn
        obtain ⟨j, _, heq⟩ := ha hn
        rw [heq] at hbl; cases hbl
      · intro ⟨_, h⟩; exact hb h
  · intro hnb
    by_cases hlt : weightOf cfg.c.weights qc.signers < cfg.c.quorum
    · have heq := hlow hlt
      have hacc : (step cfg r e (.msg ⟨.commit v, key, true⟩)).out = .accepted := by rw [heq]
      refine ⟨hacc, hacc_wf hacc, ?_⟩
      rw [heq]; exact hrec
    · obtain ⟨hver, hb, ha⟩ := hhigh (by omega)
      obtain ⟨j, _, heq⟩ := ha (fun hbq => hnb (hb hbq))
      have hacc : (step cfg r e (.msg ⟨.commit v, key, true⟩)).out = .accepted := by rw [heq]
      refine ⟨hacc, hacc_wf hacc, ?_⟩
      rw [heq]
      obtain ⟨_, _, _, _, _, f6, _⟩ :=
        snvState_fields (processCommitQC (commitR2 r key v qc) e qc).1 (nextU64 v.view.number)
      obtain ⟨hup, _, _⟩ := processCommitQC_spec cfg (commitR2 r key v qc) e qc hver
      show alGet (snvState _ _).commitViews key = _
      rw [f6, hup.commitViews]
      exact hrec

/-- **The commit quorum advances the view.** If the vote brings the weight of the certificate for this vote to the
quorum (no wrap, nothing blocks): the completed certificate `qc` verifies and is for this vote; the step ends in view
`v.view + 1`, phase `prepare`, well-formed; the high commit certificate is `qc` if it is newer than the one held, else
the one held (which is of view ≥ `v.view`); the block is handed to the store (`queueBlock`, first effect) iff `Hands`:
`qc` is newer, the payload is in the proposal cache, and the store is exactly at that block; then come the proposer
notification, `backup_state`, and a new-view message whose justification is the replica's highest certificate,
verifies, and justifies a view ≥ `v.view + 1`. -/
theorem commit_quorum_advances (cfg : RCfg) (r : Replica) (e : Env) (key : Nat) (v : Vote) (qc : CommitQC)
    (hw : Wf cfg r) (hk : key < cfg.c.n) (hge : r.view ≤ v.view.number)
    (hfresh : ∀ w, alGet r.commitViews key = some w → w < v.view.number) (hv : v.verify cfg.c = true)
    (hadd : (cQc0 cfg.c r.commitQCs v).add cfg.c { key := some key, sigOk := true } v = .ok qc)
    (hq : cfg.c.quorum ≤ weightOf cfg.c.weights qc.signers) (hnw : v.view.number + 1 < 2 ^ 64)
    (hnb : ¬ Blocks r e qc) :
    ∃ j', qc.verify cfg.c = true ∧ qc.message = v ∧
      (step cfg r e (.msg ⟨.commit v, key, true⟩)).out = .accepted ∧
      (step cfg r e (.msg ⟨.commit v, key, true⟩)).r.view = v.view.number + 1 ∧
      (step cfg r e (.msg ⟨.commit v, key, true⟩)).r.phase = .prepare ∧
      Wf cfg (step cfg r e (.msg ⟨.commit v, key, true⟩)).r ∧
      (Newer r qc → (step cfg r e (.msg ⟨.commit v, key, true⟩)).r.highCommitQC = some qc) ∧
      (¬ Newer r qc → (step cfg r e (.msg ⟨.commit v, key, true⟩)).r.highCommitQC = r.highCommitQC) ∧
      (∃ hc, (step cfg r e (.msg ⟨.commit v, key, true⟩)).r.highCommitQC = some hc ∧
        v.view.number ≤ hc.message.view.number) ∧
      getJustification (step cfg r e (.msg ⟨.commit v, key, true⟩)).r = .ok j' ∧
      j'.verify cfg.c = true ∧ v.view.number ≤ certView j' ∧
      (Hands r e qc → (step cfg r e (.msg ⟨.commit v, key, true⟩)).effs =
        [.queueBlock v.proposal.number v.proposal.payload qc, .notify j',
         .persist (step cfg r e (.msg ⟨.commit v, key, true⟩)).r.durable, .send (.newView j')]) ∧
      (¬ Hands r e qc → (step cfg r e (.msg ⟨.commit v, key, true⟩)).effs =
        [.notify j', .persist (step cfg r e (.msg ⟨.commit v, key, true⟩)).r.durable, .send (.newView j')]) := by
  obtain ⟨qc', hadd', hasm, _, _, hhigh⟩ := commit_cases cfg r e key v hw hk hge hfresh hv
  rw [hadd] at hadd'
  cases hadd'
  obtain ⟨hver, _, ha⟩ := hhigh hq
  obtain ⟨j', hj', heq⟩ := ha hnb
  have hacc : (step cfg r e (.msg ⟨.commit v, key, true⟩)).out = .accepted := by rw [heq]
  have hwf := C05.wf_preserved cfg r e _ hw (by intro b h; cases h) hacc
  obtain ⟨hup, hoq, _, hc, hhc, hle⟩ := processCommitQC_spec cfg (commitR2 r key v qc) e qc hver
  have hm : qc.message = v := (Certs.cqcAssembled_inv hasm).1
  rw [hm] at hle
  obtain ⟨f1, f2, f3, f4, f5, f6, f7, f8, f9⟩ :=
    snvState_fields (processCommitQC (commitR2 r key v qc) e qc).1 (nextU64 v.view.number)
  have hwf3 : Wf cfg (processCommitQC (commitR2 r key v qc) e qc).1 := by
    have : Wf cfg (snvState (processCommitQC (commitR2 r key v qc) e qc).1 (nextU64 v.view.number)) := by
      rw [heq] at hwf; exact hwf
    exact ⟨by rw [← f3]; exact this.hvote, by rw [← f4]; exact this.hcqc, by rw [← f5]; exact this.htqc,
      Or.inr (Or.inl ⟨hc, hhc, by rw [hup.view]; show r.view ≤ _; omega⟩),
      by rw [← f6, ← f7]; exact this.ccache, by rw [← f8, ← f9]; exact this.tcache⟩
  have hge' := getJustification_ge hj' (Or.inl ⟨hc, hhc, Nat.succ_le_succ hle⟩)
  obtain ⟨hh1, hh2⟩ := processCommitQC_high (commitR2 r key v qc) e qc
  obtain ⟨he1, he2⟩ := processCommitQC_effs (commitR2 r key v qc) e qc
  have hnewer : Newer (commitR2 r key v qc) qc ↔ Newer r qc := Iff.rfl
  have hhands : Hands (commitR2 r key v qc) e qc ↔ Hands r e qc := hands_congr e qc rfl rfl
  rw [heq] at hwf ⊢
  refine ⟨j', hver, hm, rfl, ?_, f2, hwf, ?_, ?_, ⟨hc, f4.trans hhc, hle⟩,
    (getJustification_congr f4 f5).trans hj', getJustification_verify hwf3 hj', by omega, ?_, ?_⟩
  · show (snvState _ _).view = _
    rw [f1, nextU64_eq _ hnw]
  · intro hn
    show (snvState _ _).highCommitQC = _
    rw [f4]; exact hh1 (hnewer.mpr hn)
  · intro hn
    show (snvState _ _).highCommitQC = _
    rw [f4, hh2 (fun h => hn (hnewer.mp h))]
    rfl
  · intro hh
    show _ ++ _ = _
    rw [he1 (hhands.mpr hh), hm]
    rfl
  · intro hh
    show _ ++ _ = _
    rw [he2 (fun h => hh (hhands.mp h))]
    rfl

/-! ## 5. A correct leader's proposal passes every check -/

/-- **An honest leader's proposal is accepted.** Let `j` be a verifying justification and `m` the message
`create_proposal` builds from it in the leader's environment `e'` (a re-proposal without payload when `j` implies a
block hash, else the fresh payload `fresh`, once the leader has persisted the predecessor). Every well-formed replica
that is behind view `j.viewNumber`, or in that view in phase `prepare`, and whose environment answers: the payload
verifies, the implied block is not pruned (`≥ queuedFirst`), the predecessor is persisted (needed for a fresh payload
only), `fresh` is not oversized — accepts `m` from the leader of that view (unless the handler waits for the store),
enters the view in phase `commit`, and broadcasts its commit vote for exactly the implied block: the implied hash for a
re-proposal, `fresh.id` otherwise. -/
theorem honest_proposal_accepted (cfg : RCfg) (r : Replica) (e e' : Env) (j : Just) (fresh : Payload) (m : Msg)
    (hw : Wf cfg r) (hview : r.view < j.viewNumber ∨ (j.viewNumber = r.view ∧ r.phase = .prepare))
    (hj : j.verify cfg.c = true) (hm : createProposal cfg e' j fresh = some m)
    (hsize : fresh.size ≤ cfg.maxPayload) (hpay : e.payloadOk = true)
    (hq : e.queuedFirst ≤ (j.impliedBlock cfg.c).1)
    (hprev : (j.impliedBlock cfg.c).2 = none →
      (j.impliedBlock cfg.c).1 = 0 ∨ (j.impliedBlock cfg.c).1 - 1 < e.persistedNext)
    (hnb : ∀ q, carriedQC j = some q → ¬ Blocks r e q) :
    ∃ qs, (step cfg r e (.msg ⟨m, cfg.leader j.viewNumber, true⟩)).out = .accepted ∧
      (step cfg r e (.msg ⟨m, cfg.leader j.viewNumber, true⟩)).r.view = j.viewNumber ∧
      (step cfg r e (.msg ⟨m, cfg.leader j.viewNumber, true⟩)).r.phase = .commit ∧
      Wf cfg (step cfg r e (.msg ⟨m, cfg.leader j.viewNumber, true⟩)).r ∧
      (∀ x ∈ qs, ∃ n pl q, x = Effect.queueBlock n pl q) ∧
      (step cfg r e (.msg ⟨m, cfg.leader j.viewNumber, true⟩)).effs =
        qs ++ [.persist (step cfg r e (.msg ⟨m, cfg.leader j.viewNumber, true⟩)).r.durable,
               .send (.commit { view := j.view,
                                proposal := { number := (j.impliedBlock cfg.c).1,
                                              payload := ((j.impliedBlock cfg.c).2).getD fresh.id } })] := by
  rcases C05.proposal_self_justifying cfg e' j fresh m hm with ⟨hsh, hi, rfl⟩ | ⟨hi, rfl⟩
  · have hp : PayloadFits cfg e j none := Or.inl ⟨hsh, hi, rfl⟩
    have hacc := proposal_accepted cfg r e none j hw hview hj hq hp hnb
    obtain ⟨_, _, _, _, _, hash, hh, f1, f2, _, qs, hqs, heff⟩ := C05.accepted_proposal_conforms cfg r e _ _ none j hacc
    have hwf := C05.wf_preserved cfg r e _ hw (by intro b h; cases h) hacc
    have hhash : hash = ((j.impliedBlock cfg.c).2).getD fresh.id := by
      rcases hh with ⟨a, _⟩ | ⟨a, _⟩
      · rw [a]; rfl
      · rw [a] at hi; cases hi
    rw [hhash] at heff
    exact ⟨qs, hacc, f1, f2, hwf, hqs, heff⟩
  · have hp : PayloadFits cfg e j (some fresh) := Or.inr ⟨hi, fresh, rfl, hsize, hprev hi, hpay⟩
    have hacc := proposal_accepted cfg r e (some fresh) j hw hview hj hq hp hnb
    obtain ⟨_, _, _, _, _, hash, hh, f1, f2, _, qs, hqs, heff⟩ :=
      C05.accepted_proposal_conforms cfg r e _ _ (some fresh) j hacc
    have hwf := C05.wf_preserved cfg r e _ hw (by intro b h; cases h) hacc
    have hhash : hash = ((j.impliedBlock cfg.c).2).getD fresh.id := by
      rcases hh with ⟨a, _⟩ | ⟨a, pl, b, c, _⟩
      · rw [a] at hi; cases hi
      · cases b; rw [hi, c]; rfl
    rw [hhash] at heff
    exact ⟨qs, hacc, f1, f2, hwf, hqs, heff⟩

/-! ## 6. A quorum of votes, delivered in any order, advances the view -/

/-- **A quorum of timeout votes advances the view, whatever the order of delivery.** Let `r` be well-formed, in view
`≤ v` (any phase), and `votes` any list (hence: any ordering) of validly signed, verifying timeout votes for view `v`,
each delivered with the environment's answers at that moment, from pairwise distinct committee members, none of which
has a timeout vote for view `≥ v` recorded at `r` (in particular: a replica whose timeout bookkeeping for view `v` is
empty), of total weight at least the quorum. If the store has caught up with the proposals cached at `r` (so nothing
blocks), then after the votes have been delivered the replica is in view `v + 1`, phase `prepare`, well-formed, holding
a timeout certificate of view `≥ v`: the vote that completes the quorum — at the latest the last one — starts the new
view, and the remaining votes are then refused as old without any effect. Votes already cached at `r` for view `v`
from other members only help. -/
theorem quorum_of_timeouts_advances_any_order (cfg : RCfg) (r : Replica) (v : Nat) (votes : List (Env × Nat × TVote))
    (hw : Wf cfg r) (hview : r.view ≤ v) (hnw : v + 1 < 2 ^ 64) (hne : votes ≠ [])
    (hvalid : ∀ x ∈ votes, x.2.1 < cfg.c.n ∧ x.2.2.view.number = v ∧ x.2.2.verify cfg.c = true)
    (hdistinct : (votes.map (fun x => x.2.1)).Nodup)
    (hfresh : ∀ x ∈ votes, ∀ w, alGet r.timeoutViews x.2.1 = some w → w < v)
    (hweight : cfg.c.quorum ≤ (votes.map (fun x => cfg.c.weights.getD x.2.1 0)).sum)
    (hstore : ∀ x ∈ votes, ∀ p ∈ r.proposals, p.1 ≤ x.1.storeNext) :
    (run cfg r (votes.map timeoutInput)).view = v + 1 ∧ (run cfg r (votes.map timeoutInput)).phase = .prepare ∧
      Wf cfg (run cfg r (votes.map timeoutInput)) ∧
      ∃ tq, (run cfg r (votes.map timeoutInput)).highTimeoutQC = some tq ∧ v ≤ tq.view.number :=
  run_timeouts_aux cfg v hnw votes r hw hview hvalid hdistinct hfresh hstore (by omega) (Or.inl hne)

/-- the order is irrelevant, explicitly: every permutation of the votes ends in view `v + 1` -/
theorem quorum_of_timeouts_advances_perm (cfg : RCfg) (r : Replica) (v : Nat) (votes votes' : List (Env × Nat × TVote))
    (hperm : votes'.Perm votes)
    (hw : Wf cfg r) (hview : r.view ≤ v) (hnw : v + 1 < 2 ^ 64) (hne : votes ≠ [])
    (hvalid : ∀ x ∈ votes, x.2.1 < cfg.c.n ∧ x.2.2.view.number = v ∧ x.2.2.verify cfg.c = true)
    (hdistinct : (votes.map (fun x => x.2.1)).Nodup)
    (hfresh : ∀ x ∈ votes, ∀ w, alGet r.timeoutViews x.2.1 = some w → w < v)
    (hweight : cfg.c.quorum ≤ (votes.map (fun x => cfg.c.weights.getD x.2.1 0)).sum)
    (hstore : ∀ x ∈ votes, ∀ p ∈ r.proposals, p.1 ≤ x.1.storeNext) :
    (run cfg r (votes'.map timeoutInput)).view = v + 1 := by
  refine (quorum_of_timeouts_advances_any_order cfg r v votes' hw hview hnw ?_ ?_ ?_ ?_ ?_ ?_).1
  · intro h; subst h; exact hne (List.Perm.eq_nil hperm.symm)
  · exact fun x hx => hvalid x (hperm.mem_iff.mp hx)
  · exact ((hperm.map _).nodup_iff).mpr hdistinct
  · exact fun x hx => hfresh x (hperm.mem_iff.mp hx)
  · rw [(hperm.map _).sum_nat]; exact hweight
  · exact fun x hx => hstore x (hperm.mem_iff.mp hx)

/-- **A quorum of commit votes for one block advances the view, whatever the order of delivery** (mirror): the replica
ends in view `vt.view + 1`, phase `prepare`, well-formed, holding a commit certificate of view `≥ vt.view`. -/
theorem quorum_of_commits_advances_any_order (cfg : RCfg) (r : Replica) (vt : Vote) (votes : List (Env × Nat))
    (hw : Wf cfg r) (hv : vt.verify cfg.c = true) (hview : r.view ≤ vt.view.number)
    (hnw : vt.view.number + 1 < 2 ^ 64) (hne : votes ≠ [])
    (hvalid : ∀ x ∈ votes, x.2 < cfg.c.n)
    (hdistinct : (votes.map (fun x => x.2)).Nodup)
    (hfresh : ∀ x ∈ votes, ∀ w, alGet r.commitViews x.2 = some w → w < vt.view.number)
    (hweight : cfg.c.quorum ≤ (votes.map (fun x => cfg.c.weights.getD x.2 0)).sum)
    (hstore : ∀ x ∈ votes, ∀ p ∈ r.proposals, p.1 ≤ x.1.storeNext) :
    (run cfg r (votes.map (commitInput vt))).view = vt.view.number + 1 ∧
      (run cfg r (votes.map (commitInput vt))).phase = .prepare ∧
      Wf cfg (run cfg r (votes.map (commitInput vt))) ∧
      ∃ hc, (run cfg r (votes.map (commitInput vt))).highCommitQC = some hc ∧
        vt.view.number ≤ hc.message.view.number :=
  run_commits_aux cfg vt hv hnw votes r hw hview hvalid hdistinct hfresh hstore (by omega) (Or.inl hne)

theorem quorum_of_commits_advances_perm (cfg : RCfg) (r : Replica) (vt : Vote) (votes votes' : List (Env × Nat))
    (hperm : votes'.Perm votes)
    (hw : Wf cfg r) (hv : vt.verify cfg.c = true) (hview : r.view ≤ vt.view.number)
    (hnw : vt.view.number + 1 < 2 ^ 64) (hne : votes ≠ [])
    (hvalid : ∀ x ∈ votes, x.2 < cfg.c.n)
    (hdistinct : (votes.map (fun x => x.2)).Nodup)
    (hfresh : ∀ x ∈ votes, ∀ w, alGet r.commitViews x.2 = some w → w < vt.view.number)
    (hweight : cfg.c.quorum ≤ (votes.map (fun x => cfg.c.weights.getD x.2 0)).sum)
    (hstore : ∀ x ∈ votes, ∀ p ∈ r.proposals, p.1 ≤ x.1.storeNext) :
    (run cfg r (votes'.map (commitInput vt))).view = vt.view.number + 1 := by
  refine (quorum_of_commits_advances_any_order cfg r vt votes' hw hv hview hnw ?_ ?_ ?_ ?_ ?_ ?_).1
  · intro h; subst h; exact hne (List.Perm.eq_nil hperm.symm)
  · exact fun x hx => hvalid x (hperm.mem_iff.mp hx)
  · exact ((hperm.map _).nodup_iff).mpr hdistinct
  · exact fun x hx => hfresh x (hperm.mem_iff.mp hx)
  · rw [(hperm.map _).sum_nat]; exact hweight
  · exact fun x hx => hstore x (hperm.mem_iff.mp hx)

/-! ## 7. No reachable state leaves a handler waiting for the store -/

/-- every cached proposal is for a block the store's queue has reached -/
theorem cacheBelowStore_iff (r : Replica) (s : Nat) : CacheBelowStore r s ↔ ∀ p ∈ r.proposals, p.1 ≤ s := Iff.rfl

/-- **The invariant is preserved** by every step other than a restart — from any state, well-formed or not — in an
environment whose store queue is not behind what is persisted (`persistedNext ≤ storeNext`): the only handler that adds
to the proposal cache is `on_proposal` with a fresh payload, and it does so only once the predecessor is persisted. -/
theorem cache_below_store_preserved (cfg : RCfg) (r : Replica) (e : Env) (inp : Input) (hin : ∀ b, inp ≠ .restart b)
    (hinv : CacheBelowStore r e.storeNext) (hs : e.persistedNext ≤ e.storeNext) :
    CacheBelowStore (step cfg r e inp).r e.storeNext :=
  step_cache_below cfg r e inp hin hinv hs

/-- **Under the invariant no handler waits in `queue_block`**, whatever the input -/
theorem never_blocked (cfg : RCfg) (r : Replica) (e : Env) (inp : Input)
    (hinv : CacheBelowStore r e.storeNext) (hs : e.persistedNext ≤ e.storeNext) :
    (step cfg r e inp).out ≠ .blocked :=
  step_not_blocked cfg r e inp hinv hs

/-- States (with the disk content and the store's `queued.next()` seen last) reachable by a correct replica next to a
block store that only grows and whose queue is never behind what it has persisted: as `C05.Reachable`, each step
taken in an environment `e` with `s ≤ e.storeNext` and `e.persistedNext ≤ e.storeNext`. -/
inductive ReachableS (cfg : RCfg) : Replica → Option Durable → Nat → Prop
  | init : ReachableS cfg (Replica.start none) none 0
  | step {r : Replica} {disk : Option Durable} {s : Nat} (e : Env) (inp : Input) :
      ReachableS cfg r disk s → s ≤ e.storeNext → e.persistedNext ≤ e.storeNext → (∀ b, inp ≠ .restart b) →
      (step cfg r e inp).out = .accepted →
      ReachableS cfg (step cfg r e inp).r (C05.lastPersist disk (step cfg r e inp).effs) e.storeNext
  | grow {r : Replica} {disk : Option Durable} {s s' : Nat} : ReachableS cfg r disk s → s ≤ s' → ReachableS cfg r disk s'
  | crash {r : Replica} {disk : Option Durable} {s : Nat} :
      ReachableS cfg r disk s → ReachableS cfg (step cfg r default (.restart disk)).r disk s

theorem reachableS_reachable (cfg : RCfg) (r : Replica) (disk : Option Durable) (s : Nat)
    (h : ReachableS cfg r disk s) : C05.Reachable cfg r disk := by
  induction h with
  | init => exact .init
  | step e inp _ _ _ hin hacc ih => exact .step e inp ih hin hacc
  | grow _ _ ih => exact ih
  | crash _ ih => exact .crash ih

private theorem lastPersist_inv (P : Durable → Prop) (effs : List Effect) (disk : Option Durable)
    (h0 : ∀ d, disk = some d → P d) (h1 : ∀ d, Effect.persist d ∈ effs → P d) :
    ∀ d, C05.lastPersist disk effs = some d → P d := by
  induction effs generalizing disk with
  | nil => exact h0
  | cons x xs ih =>
    cases x with
    | persist d' =>
      exact ih (some d') (fun d hd => by cases hd; exact h1 d' List.mem_cons_self)
        (fun d hd => h1 d (List.mem_cons_of_mem _ hd))
    | send m => exact ih disk h0 (fun d hd => h1 d (List.mem_cons_of_mem _ hd))
    | notify j => exact ih disk h0 (fun d hd => h1 d (List.mem_cons_of_mem _ hd))
    | queueBlock n p q => exact ih disk h0 (fun d hd => h1 d (List.mem_cons_of_mem _ hd))

/-- in every such state the invariant holds, for the state and for what is on disk -/
theorem reachableS_cache_below_store (cfg : RCfg) (r : Replica) (disk : Option Durable) (s : Nat)
    (h : ReachableS cfg r disk s) :
    CacheBelowStore r s ∧ ∀ d, disk = some d → ∀ p ∈ d.proposals, p.1 ≤ s := by
  induction h with
  | init => exact ⟨fun p hp => (by cases hp), fun d hd => (by cases hd)⟩
  | @step r disk s e inp hr hle hs hin hacc ih =>
    have hinv : CacheBelowStore r e.storeNext := fun p hp => Nat.le_trans (ih.1 p hp) hle
    have hnew := step_cache_below cfg r e inp hin hinv hs
    refine ⟨hnew, ?_⟩
    have hwf := (C05.reachable_wf cfg r disk (reachableS_reachable cfg r disk s hr)).1
    refine lastPersist_inv (fun d => ∀ p ∈ d.proposals, p.1 ≤ e.storeNext) _ _ ?_ ?_
    · intro d hd p hp; exact Nat.le_trans (ih.2 d hd p hp) hle
    · intro d hd
      rw [(C05.persisted_wf cfg r e inp hwf hin hacc d hd).1]
      exact hnew
  | grow _ hle ih =>
    exact ⟨fun p hp => Nat.le_trans (ih.1 p hp) hle, fun d hd p hp => Nat.le_trans (ih.2 d hd p hp) hle⟩
  | @crash r disk s _ ih =>
    refine ⟨?_, ih.2⟩
    cases disk with
    | none => intro p hp; cases hp
    | some d => exact ih.2 d rfl

/-- **No reachable state deadlocks the replica.** In every state a correct replica can reach next to a growing store,
for every further environment answer of that store and **every** input: the handler does not panic, does not wait in
`queue_block`; it either rejects the input without any change, or accepts it (with all the guarantees of C05:
well-formed again, messages self-justifying, monotone). Together with §1 (the timer is always accepted and
re-broadcasts) the replica can always take its next step. -/
theorem no_reachable_state_blocks (cfg : RCfg) (r : Replica) (disk : Option Durable) (s : Nat)
    (h : ReachableS cfg r disk s) (e : Env) (hle : s ≤ e.storeNext) (hs : e.persistedNext ≤ e.storeNext) (inp : Input) :
    (step cfg r e inp).out ≠ .blocked ∧ (∀ m, (step cfg r e inp).out ≠ .panic m) ∧
    ((∃ w, (step cfg r e inp).out = .rejected w ∧ (step cfg r e inp).r = r ∧ (step cfg r e inp).effs = []) ∨
     (step cfg r e inp).out = .accepted) := by
  have hinv : CacheBelowStore r e.storeNext :=
    fun p hp => Nat.le_trans ((reachableS_cache_below_store cfg r disk s h).1 p hp) hle
  have hwf := (C05.reachable_wf cfg r disk (reachableS_reachable cfg r disk s h)).1
  have hnb := step_not_blocked cfg r e inp hinv hs
  refine ⟨hnb, C05.no_panic cfg r e inp hwf, ?_⟩
  rcases C05.outcome_trichotomy cfg r e inp hwf with ⟨w, hw⟩ | hb | ha
  · exact Or.inl ⟨w, hw, C05.rejected_unchanged cfg r e inp w hw⟩
  · exact absurd hb hnb
  · exact Or.inr ha

/-- so in such states the side condition `¬ Blocks` of §2–§5 is met by every certificate -/
theorem reachableS_noBlock (cfg : RCfg) (r : Replica) (disk : Option Durable) (s : Nat)
    (h : ReachableS cfg r disk s) (e : Env) (hle : s ≤ e.storeNext) (q : CommitQC) : ¬ Blocks r e q :=
  noBlock_of_store_caught_up r e q
    (fun p hp => Nat.le_trans ((reachableS_cache_below_store cfg r disk s h).1 p hp) hle)

/-! ## 8. Non-vacuity: the committee and the run of `Props/C05.lean` §10 (weights 1, 2, 3, 10: quorum 13) -/

section Examples
open C05 (exCfg exEnv exT0 exTQC exPayload exVote exS1 exS2 exS3 exS4 exS5 exS6)

theorem exS1_wf : Wf exCfg exS1 := C05.wf_preserved _ _ _ .tick (C05.wf_init _) (by intro b h; cases h) rfl
theorem exS2_wf : Wf exCfg exS2 := C05.wf_preserved _ _ _ _ exS1_wf (by intro b h; cases h) rfl
theorem exS3_wf : Wf exCfg exS3 := C05.wf_preserved _ _ _ _ exS2_wf (by intro b h; cases h) rfl
theorem exS4_wf : Wf exCfg exS4 := C05.wf_preserved _ _ _ _ exS3_wf (by intro b h; cases h) rfl
theorem exS5_wf : Wf exCfg exS5 := C05.wf_preserved _ _ _ _ exS4_wf (by intro b h; cases h) rfl
theorem exS6_wf : Wf exCfg exS6 := C05.wf_preserved _ _ _ _ exS5_wf (by intro b h; cases h) rfl

/-- §1: `exS3` (view 1, phase `prepare`) and `exS4` (view 1, phase `commit`) meet the hypotheses of
`timeout_always_rebroadcasts`; the initial state those of `view0_times_out` -/
example : Wf exCfg exS3 ∧ exS3.view ≠ 0 ∧ exS3.phase = .prepare := ⟨exS3_wf, by decide, by decide⟩
example : Wf exCfg exS4 ∧ exS4.view ≠ 0 ∧ exS4.phase = .commit := ⟨exS4_wf, by decide, by decide⟩
example : (step exCfg exS4 exEnv .tick).out = .accepted ∧ (step exCfg exS4 exEnv .tick).effs.length = 3 := ⟨rfl, rfl⟩
example : (Replica.start none).view = 0 := rfl

/-- §2: `exS2` is in view 0 in phase `timeout`; the new-view message of validator 0 carrying the timeout certificate
for view 0 (which carries no commit certificate, so nothing can block) pulls it to view 1 -/
example : Wf exCfg exS2 ∧ exS2.phase = .timeout ∧ 0 < exCfg.c.n ∧ (Just.timeout exTQC).verify exCfg.c = true ∧
    exS2.view < (Just.timeout exTQC).viewNumber ∧ carriedQC (.timeout exTQC) = none :=
  ⟨exS2_wf, by decide, by decide, by decide, by decide, by decide⟩
example : (step exCfg exS2 exEnv (.msg ⟨.newView (.timeout exTQC), 0, true⟩)).r.view = 1 := by decide

/-- … and so does the proposal of the leader of view 1 (validator 1) with the fresh payload -/
example : exCfg.leader (Just.timeout exTQC).viewNumber = 1 ∧ exEnv.queuedFirst ≤ ((Just.timeout exTQC).impliedBlock exCfg.c).1 ∧
    PayloadFits exCfg exEnv (.timeout exTQC) (some exPayload) :=
  ⟨by decide, by decide, Or.inr ⟨by decide, exPayload, rfl, by decide, Or.inl (by decide), rfl⟩⟩
example : (step exCfg exS2 exEnv (.msg ⟨.proposal (some exPayload) (.timeout exTQC), 1, true⟩)).r.view = 1 ∧
    (step exCfg exS2 exEnv (.msg ⟨.proposal (some exPayload) (.timeout exTQC), 1, true⟩)).r.phase = .commit := by decide

/-- §3: in `exS1` validator 3 has no timeout vote recorded; in `exS2` validator 2 has none, and its vote completes the
quorum (10 + 3 ≥ 13) -/
example : Wf exCfg exS1 ∧ 3 < exCfg.c.n ∧ exS1.view ≤ exT0.view.number ∧
    (∀ w, alGet exS1.timeoutViews 3 = some w → w < exT0.view.number) ∧ exT0.verify exCfg.c = true := by
  refine ⟨exS1_wf, by decide, by decide, ?_, by decide⟩
  intro w h
  have : alGet exS1.timeoutViews 3 = none := by decide
  rw [this] at h; cases h
example : (tQc0 exS2.timeoutQCs exT0).add exCfg.c { key := some 2, sigOk := true } exT0 = .ok exTQC ∧
    exCfg.c.quorum ≤ tqcGroupWeight exCfg.c exTQC ∧ exT0.view.number + 1 < 2 ^ 64 ∧ exTQC.highQC = none ∧
    (∀ w, alGet exS2.timeoutViews 2 = some w → w < exT0.view.number) := by
  refine ⟨rfl, by decide, by decide, by decide, ?_⟩
  intro w h
  have : alGet exS2.timeoutViews 2 = none := by decide
  rw [this] at h; cases h

/-- §4: in `exS5` validator 2's commit vote completes the quorum; the payload of block 0 is cached and the store is
exactly at block 0, so the block is handed over (`Hands`) -/
example : Wf exCfg exS5 ∧ exVote.verify exCfg.c = true ∧ exS5.view ≤ exVote.view.number ∧
    alGet exS5.commitViews 2 = none := ⟨exS5_wf, by decide, by decide, by decide⟩
example : ∃ qc, (cQc0 exCfg.c exS5.commitQCs exVote).add exCfg.c { key := some 2, sigOk := true } exVote = .ok qc ∧
    exCfg.c.quorum ≤ weightOf exCfg.c.weights qc.signers ∧ Hands exS5 exEnv qc ∧ ¬ Blocks exS5 exEnv qc := by
  refine ⟨_, rfl, by decide, ⟨?_, ⟨(0, exPayload), by decide, by decide, by decide⟩, by decide, by decide⟩, ?_⟩
  · intro cur h
    have : exS5.highCommitQC = none := by decide
    rw [this] at h; cases h
  · intro ⟨_, _, h⟩
    exact absurd h (by decide)

/-- §5: `exS3` is in `prepare` of view 1; the leader's `create_proposal` on the timeout certificate gives the fresh
proposal, which `exS3` accepts -/
example : createProposal exCfg exEnv (.timeout exTQC) exPayload = some (.proposal (some exPayload) (.timeout exTQC)) ∧
    (Just.timeout exTQC).viewNumber = exS3.view ∧ exS3.phase = .prepare ∧ exPayload.size ≤ exCfg.maxPayload := by
  decide

/-- §6: from `exS1`, the timeout votes of validators 2 and 3 in either order; from `exS4`, their commit votes -/
example : (run exCfg exS1 ([(exEnv, 2, exT0), (exEnv, 3, exT0)].map timeoutInput)).view = 1 ∧
    (run exCfg exS1 ([(exEnv, 3, exT0), (exEnv, 2, exT0)].map timeoutInput)).view = 1 := by decide

example : (run exCfg exS1 ([(exEnv, 2, exT0), (exEnv, 3, exT0)].map timeoutInput)).view = 0 + 1 := by
  refine (quorum_of_timeouts_advances_any_order exCfg exS1 0 _ exS1_wf (by decide) (by decide) (by simp) ?_
    (by decide) ?_ (by decide) ?_).1
  · intro x hx
    simp only [List.mem_cons, List.not_mem_nil, or_false] at hx
    rcases hx with rfl | rfl <;> decide
  · intro x _ w h
    have : exS1.timeoutViews = [] := by decide
    rw [this] at h; simp [alGet] at h
  · intro x _ p hp
    have : exS1.proposals = [] := by decide
    rw [this] at hp; cases hp

example : (run exCfg exS4 ([(exEnv, 2), (exEnv, 3)].map (commitInput exVote))).view = 2 ∧
    (run exCfg exS4 ([(exEnv, 3), (exEnv, 2)].map (commitInput exVote))).view = 2 := by decide

/-- §7: the run of C05 §10 is a run next to a sane store (`queued.next() = persisted.next() = 0` throughout; the
proposal cached in `exS4` is for block 0), so `exS6` is reachable in the sense of `ReachableS` -/
example : ∃ disk, ReachableS exCfg exS6 disk 0 :=
  ⟨_, .step exEnv _ (.step exEnv _ (.step exEnv _ (.step exEnv _ (.step exEnv _ (.step exEnv .tick .init
    (Nat.le_refl _) (Nat.le_refl _) (by intro b h; cases h) rfl)
    (Nat.le_refl _) (Nat.le_refl _) (by intro b h; cases h) rfl)
    (Nat.le_refl _) (Nat.le_refl _) (by intro b h; cases h) rfl)
    (Nat.le_refl _) (Nat.le_refl _) (by intro b h; cases h) rfl)
    (Nat.le_refl _) (Nat.le_refl _) (by intro b h; cases h) rfl)
    (Nat.le_refl _) (Nat.le_refl _) (by intro b h; cases h) rfl⟩

/-- `Blocks` is satisfiable (so `¬ Blocks` is a real hypothesis): a replica that holds the payload of block 5 in its
cache, no commit certificate, next to a store that has only reached block 3, blocks on a commit certificate for
block 5 — a state `ReachableS` excludes -/
example : Blocks { (Replica.start none) with proposals := [(5, exPayload)] }
    { queuedFirst := 0, persistedNext := 3, payloadOk := true, storeNext := 3 }
    { message := { view := { genesis := 7, epoch := 2, number := 9 }, proposal := { number := 5, payload := 42 } },
      signers := [], sig := [] } :=
  ⟨fun cur h => (by cases h), ⟨(5, exPayload), List.mem_singleton.mpr rfl, rfl, rfl⟩, (by decide)⟩

end Examples

end EraVerif.Props.C06
