import EraVerif.Proofs.C10Mux
import EraVerif.Proofs.C10Std
import EraVerif.Proofs.C10Read
import EraVerif.Proofs.C10Noise
import EraVerif.Proofs.C10Verify
import EraVerif.Proofs.C10Votes
import EraVerif.Model.C10Frame
import EraVerif.Model.C10Canon
import EraVerif.Model.C10Store

/-!
# C10 — No input from the network can crash a node

Totality theorems over the models of the repository-owned code on every network path. In the models a Rust
panic (`unwrap`, `expect`, `unreachable!`, `assert!`, slice/index out of range, `checked_*().unwrap()`) is the
explicit outcome `Res.panic`; plain `+` wraps as in the shipping profile. Every statement quantifies over **all**
inputs (all 16-bit headers, all byte strings, all fragmentations, all field presences and scalar values, all
certificates), with no size bound. Constants and bit masks are the generated ones (`Gen/MuxConst.lean`,
`Gen/NoiseConst.lean`), so the theorems are re-proved against `header.rs` / `noise/stream.rs` on every run.

**Partial by construction**: byte→struct decoding inside `prost`/`quick_protobuf`, the Noise handshake and AEAD
(`snow`), key/signature validation (`blst`, `ed25519-dalek`), `semver`, `time`, `bit-vec` and tokio are third
party; they appear here as arbitrary oracles (any verdict) and are exercised only by the correspondence run.

For the four defects that were repaired in the tree (F3, F4, F5, F9) the pre-repair transcription is kept next to
the current one and its *failure* is proved with the concrete witness (`…_legacy_panics`), so each repair is
load-bearing: the positive theorem is false for the old code.
-/

namespace EraVerif.Props.C10
open EraVerif.Gen.MuxConst EraVerif.Gen.NoiseConst
open EraVerif.Model.C10 EraVerif.Model.C10.Mux EraVerif.Model.C10.Frame EraVerif.Model.C10.Noise
open EraVerif.Model.C10.Verify EraVerif.Model.C10.Canon
open EraVerif.Proofs.C10Mux EraVerif.Proofs.C10Std EraVerif.Proofs.C10Read EraVerif.Proofs.C10Noise
open EraVerif.Proofs.C10Verify EraVerif.Proofs.C10Votes

/-! ## 1. Multiplexer: frame dispatch on the header bits (mux/mod.rs:213-276, header.rs) -/

/-- **mux_dispatch_total.** For every header value (any `Nat`, in particular all 65 536 `u16`s) and any sizes of the
two stream tables, one iteration of `process_inbound_frames` never reaches an `unreachable!`: the result is a
dispatched frame or a protocol error. -/
theorem mux_dispatch_total (nAccept nConnect h : Nat) : (dispatch nAccept nConnect h).isPanic = false :=
  dispatch_not_panic nAccept nConnect h

/-- **mux_dispatch_refines_spec.** On all 65 536 headers the bit-mask code computes the arithmetic specification:
frame kind `h / 2^14` (0 OPEN, 1 DATA, 2 CLOSE, 3 invalid), stream kind `h / 2^13 mod 2`, id `h mod 2^13`, lookup in
the table of the *opposite* kind. -/
theorem mux_dispatch_refines_spec (nAccept nConnect h : Nat) (hh : h < 65536) :
    dispatch nAccept nConnect h = dispatchSpec nAccept nConnect h :=
  dispatch_eq_spec nAccept nConnect h hh

/-- a header is rejected with a protocol error exactly when its id is outside the table or both kind bits are set -/
theorem mux_dispatch_err_iff (nAccept nConnect h : Nat) (hh : h < 65536) :
    (∃ w, dispatch nAccept nConnect h = .err w) ↔
      (h % 8192 ≥ (if h / 8192 % 2 = 0 then nConnect else nAccept) ∨ h / 16384 = 3) := by
  rw [dispatch_eq_spec _ _ _ hh]
  unfold dispatchSpec kindSpec
  have h3 : h / 16384 < 4 := by omega
  by_cases hid : h % 8192 < (if h / 8192 % 2 = 0 then nConnect else nAccept)
  · simp only [hid, if_true]
    rcases Nat.lt_or_ge (h / 16384) 1 with h0 | h0
    · have e : h / 16384 = 0 := by omega
      simp [e, Res.bind]; omega
    rcases Nat.lt_or_ge (h / 16384) 2 with h1 | h1
    · have e : h / 16384 = 1 := by omega
      simp [e, Res.bind]; omega
    rcases Nat.lt_or_ge (h / 16384) 3 with h2 | h2
    · have e : h / 16384 = 2 := by omega
      simp [e, Res.bind]; omega
    · have e : h / 16384 = 3 := by omega
      simp [e, Res.bind]
  · simp only [hid, if_false]
    constructor
    · intro _; left; omega
    · intro _; exact ⟨_, rfl⟩

/-- **F4 is load-bearing.** With the pre-repair `_ => unreachable!("bad FrameKind")` the header `0xE000`
(bytes `00 E0`: both kind bits, CONNECT side, id 0) panics as soon as one stream exists; the current code returns
a protocol error on the same input. -/
theorem mux_dispatch_legacy_panics :
    (dispatchLegacy 1 1 0xE000).isPanic = true ∧ (dispatch 1 1 0xE000) = .err "invalid frame kind in header" := by
  decide

/-- `ReadStream::read_exact` only sees frames that `process_inbound_frames` dispatched; for those its
`match frame.header.frame_kind()` never reaches `unreachable!("Bad FrameKind")`, and the `data.unwrap()` of the DATA
arm is fine because DATA frames are created with `data: Some(..)`. -/
theorem read_exact_arm_total (nAccept nConnect h : Nat) (d : Dispatched)
    (hd : dispatch nAccept nConnect h = .ok d) : (readExactArm h (decide (d.kind = .data))).isPanic = false := by
  unfold dispatch dispatchWith at hd
  have hk : ∀ k, kindOf h = .ok k → (readExactArm h (decide (k = .data))).isPanic = false := by
    intro k hk
    unfold kindOf at hk
    unfold readExactArm
    simp only [] at hk ⊢
    split at hk
    · rename_i e; simp [e]; rfl
    · split at hk
      · rename_i e0 e; simp only [e, if_true]; rfl
      · split at hk
        · rename_i e0 e1 e; cases hk; simp only [e, if_true]; rfl
        · cases hk
  simp only [] at hd
  split at hd
  · split at hd
    · cases hkk : kindOf h with
      | ok k => rw [hkk] at hd; cases hd; exact hk k hkk
      | err w => rw [hkk] at hd; cases hd
      | panic s => rw [hkk] at hd; cases hd
    · cases hd
  · split at hd
    · split at hd
      · cases hkk : kindOf h with
        | ok k => rw [hkk] at hd; cases hd; exact hk k hkk
        | err w => rw [hkk] at hd; cases hd
        | panic s => rw [hkk] at hd; cases hd
      · cases hd
    · cases hd

/-- **mux_data_split_bounded.** For `read_frame_size > 0` the `while length > 0` loop terminates within `length`
iterations; the pieces are non-empty, at most `read_frame_size` each, and add up to exactly the announced
length (so one DATA frame buffers at most `length ≤ 65 535` bytes, each piece under its own size permits). -/
theorem mux_data_split_bounded (rfs length : Nat) (hr : 0 < rfs) :
    ∃ l, dataSplit rfs length length = some l ∧ l.sum = length ∧ (∀ x ∈ l, 0 < x ∧ x ≤ rfs) ∧ l.length ≤ length :=
  dataSplit_spec rfs hr length length (Nat.le_refl _)

/-- with `read_frame_size = 0` (not rejected by `Config::verify`, never used by the repository:
`MUX_CONFIG.read_frame_size = 16 kB`) the loop does not terminate on a non-empty DATA frame -/
theorem mux_data_split_zero_diverges (fuel length : Nat) : dataSplit 0 fuel (length + 1) = none :=
  dataSplit_zero fuel length

/-- **mux_inbound_never_panics_and_bounded.** For every configuration, every pair of stream tables, every byte
string a peer writes (closed or not) and every number of steps: the inbound loop never panics, and the frames
parked in stream channels hold at most `read_frame_count` count permits and `read_buffer_size` size permits —
i.e. while the application does not read, the node never buffers more than its configured limits. -/
theorem mux_inbound_never_panics_and_bounded (cfg : Cfg) (nAccept nConnect : Nat) (input : List Nat) (eof : Bool)
    (fuel : Nat) :
    (∀ site, (run fuel (St.init cfg nAccept nConnect input eof)).2 ≠ some (.panic site)) ∧
    (run fuel (St.init cfg nAccept nConnect input eof)).1.live.length ≤ cfg.readFrameCount ∧
    (run fuel (St.init cfg nAccept nConnect input eof)).1.live.sum ≤ cfg.readBufferSize := by
  have hi := run_inv fuel _ (inv_init cfg nAccept nConnect input eof)
  have hc : (run fuel (St.init cfg nAccept nConnect input eof)).1.cfg = cfg := by
    have : ∀ (fuel : Nat) (s : St), (run fuel s).1.cfg = s.cfg := by
      intro fuel
      induction fuel with
      | zero => intro s; rfl
      | succ fuel ih =>
        intro s
        unfold run
        have h1 := step_cfg s
        cases hs : step s with
        | mk s' o =>
          rw [hs] at h1
          cases o with
          | some o => exact h1
          | none => simp only []; rw [ih s']; exact h1
    exact this fuel _
  refine ⟨fun site => run_no_panic fuel _ site, ?_, ?_⟩
  · have := hi.1; rw [hc] at this; omega
  · have := hi.2; rw [hc] at this; omega

/-- **parked_frames_hold_permits.** In every reachable state of the inbound loop the semaphore accounting is exact:
available count permits + number of parked frames **of any kind (OPEN, CLOSE and DATA alike)** = `read_frame_count`,
and available size permits + parked payload bytes = `read_buffer_size`. -/
theorem parked_frames_hold_permits (cfg : Cfg) (nAccept nConnect : Nat) (input : List Nat) (eof : Bool) (fuel : Nat) :
    let s := (run fuel (St.init cfg nAccept nConnect input eof)).1
    s.countAvail + s.live.length = s.cfg.readFrameCount ∧ s.sizeAvail + s.live.sum = s.cfg.readBufferSize :=
  run_inv fuel _ (inv_init cfg nAccept nConnect input eof)

/-- **control_frames_hold_permits.** An OPEN / CLOSE header for a stream whose consumer is parked takes one
`read_frame_count` permit and keeps it (the frame is parked with payload size 0); when no permit is left the loop
stops reading the transport. So a flood of 2-byte control headers is cut off after `read_frame_count` frames. -/
theorem control_frames_hold_permits (s : St) (b0 b1 : Nat) (rest : List Nat) (d : Dispatched)
    (hp : s.phase = .header) (hi : s.input = b0 :: b1 :: rest)
    (hd : dispatch s.nAccept s.nConnect (headerOfBytes b0 b1) = .ok d) (hk : d.kind ≠ .data)
    (ho : s.isOpened d = true) :
    (s.countAvail = 0 → (step s).2 = some .blocked ∧ (step s).1.consumed = s.consumed + 2) ∧
    (0 < s.countAvail → (step s).2 = none ∧ (step s).1.countAvail = s.countAvail - 1 ∧
      (step s).1.live = 0 :: s.live) := by
  have ht : s.take 2 = .ok ([b0, b1], { s with input := rest, consumed := s.consumed + 2 }) := by
    unfold St.take
    simp [hi]
  unfold step
  rw [hp]
  simp only [ht, List.getD_cons_zero, List.getD_cons_succ, hd]
  have ho' : (d.toConnect, d.id) ∈ s.opened := by
    have : s.opened.contains (d.toConnect, d.id) = true := ho
    simpa using this
  cases hkk : d.kind with
  | data => exact absurd hkk hk
  | open_ =>
    constructor
    · intro h0; simp [h0]
    · intro h1
      have : ¬ s.countAvail = 0 := by omega
      simp [this, St.deliver, St.isOpened, ho']
  | close =>
    constructor
    · intro h0; simp [h0]
    · intro h1
      have : ¬ s.countAvail = 0 := by omega
      simp [this, St.deliver, St.isOpened, ho']

/-- a flood of CLOSE headers after one OPEN, `read_frame_count = 3`: three are parked, the fourth header is read and the
loop blocks — 2 + 3·2 + 2 bytes taken from the transport, however long the flood is -/
example : ((run 100 (St.init ⟨4, 16, 3⟩ 1 0 ([0, 32] ++ [0, 160, 0, 160, 0, 160, 0, 160, 0, 160, 0, 160, 0, 160]) false)).2,
           (run 100 (St.init ⟨4, 16, 3⟩ 1 0 ([0, 32] ++ [0, 160, 0, 160, 0, 160, 0, 160, 0, 160, 0, 160, 0, 160]) false)).1.consumed)
    = (some Outcome.blocked, 10) := by decide

/-- **mux_inbound_terminates.** With `read_frame_size > 0` the loop reaches an outcome (end of stream, protocol
error, blocked on permits, or waiting for more bytes) within `2·|input| + 4` steps on every input. -/
theorem mux_inbound_terminates (cfg : Cfg) (nAccept nConnect : Nat) (input : List Nat) (eof : Bool)
    (hr : 0 < cfg.readFrameSize) :
    (run (fuelFor input) (St.init cfg nAccept nConnect input eof)).2 ≠ none := by
  apply run_terminates _ _ hr
  unfold pot fuelFor St.init phasePot
  simp only []
  omega

example : (run (fuelFor [0x00, 0x20, 0x00, 0x60, 3, 0, 1, 2, 3]) (St.init ⟨2, 10, 10⟩ 1 1 [0x00, 0x20, 0x00, 0x60, 3, 0, 1, 2, 3] true)).2
    = some Outcome.closed := by decide

/-- **spawn_ids_in_range.** Whatever capability table the peer's handshake carries, `spawn_streams` only builds
`StreamId`s that satisfy `StreamId::new`'s assertion, provided our own configuration passed `Mux::verify`
(the peer can only lower the per-capability count: `min(ours, theirs)`). -/
theorem spawn_ids_in_range (queues peer : List (Nat × Nat)) (hv : verifyCounts queues = true) :
    (spawnStreams queues peer).isPanic = false := by
  unfold verifyCounts at hv
  have hv' : saturatingSum (queues.map (·.2)) ≤ MAX_STREAM_COUNT := by simpa using hv
  rw [saturatingSum_eq] at hv'
  have hm : MAX_STREAM_COUNT = 8192 := rfl
  have hu : U32_MAX = 4294967295 := rfl
  have hsum : (queues.map (·.2)).sum ≤ 8192 := by omega
  have hc := spawnCount_le queues peer
  unfold spawnStreams
  have : (List.range (spawnCount queues peer)).all (fun i => decide (i % 65536 ≤ ID_MASK)) = true := by
    rw [List.all_eq_true]
    intro i hi
    have : i < spawnCount queues peer := List.mem_range.mp hi
    have hid : ID_MASK = 8191 := rfl
    simp only [decide_eq_true_eq, hid]
    omega
  simp only [this, if_true]
  rfl

example : verifyCounts [(0, 3), (2, 1), (1, 8188)] = true := by decide

/-- the handshake of a peer (any capability list: absent fields, duplicates, maximal values) is decoded without a panic -/
theorem mux_handshake_read_total (accept connect : List PCap) : (handshakeRead accept connect).isPanic = false :=
  handshakeRead_not_panic accept connect

/-! ## 2. Length-prefixed frames (frame.rs) and the preface (preface.rs) -/

/-- **frame_len_checked_before_alloc.** For every byte stream, every decoder and every maximum: `recv_proto` and
`mux_recv_proto` allocate a message buffer only for a declared size that is within `max_size`. -/
theorem frame_len_checked_before_alloc (dec : List Nat → Bool) (maxSize : Nat) (avail : List Nat) :
    (recvProto dec maxSize avail).alloc ≤ maxSize ∧ (muxRecvProto dec maxSize avail).alloc ≤ maxSize := by
  have key : ∀ (a b c d e : Frame.FrameRes) (p q r t : Prop) [Decidable p] [Decidable q] [Decidable r] [Decidable t],
      a.alloc ≤ maxSize → b.alloc ≤ maxSize → (¬ q → c.alloc ≤ maxSize) → (¬ q → d.alloc ≤ maxSize) →
      (¬ q → e.alloc ≤ maxSize) →
      (if p then a else if q then b else if r then c else if t then d else e).alloc ≤ maxSize := by
    intro a b c d e p q r t _ _ _ _ ha hb hc hd he
    split
    · exact ha
    · split
      · exact hb
      · rename_i hq
        split
        · exact hc hq
        · split
          · exact hd hq
          · exact he hq
  unfold recvProto muxRecvProto
  constructor <;>
    exact key _ _ _ _ _ _ _ _ _ (Nat.zero_le _) (Nat.zero_le _) (fun h => by simp only []; omega)
      (fun h => by simp only []; omega) (fun h => by simp only []; omega)

/-- exact characterisation of acceptance -/
theorem frame_recv_ok_iff (dec : List Nat → Bool) (maxSize : Nat) (avail : List Nat) :
    (recvProto dec maxSize avail).cls = .ok ↔
      (4 ≤ avail.length ∧ le32 (avail.take 4) ≤ maxSize ∧ le32 (avail.take 4) ≤ (avail.drop 4).length ∧
        dec ((avail.drop 4).take (le32 (avail.take 4))) = true) := by
  unfold recvProto
  simp only []
  by_cases h1 : avail.length < 4
  · rw [if_pos h1]
    constructor
    · intro h; cases h
    · intro ⟨h, _⟩; omega
  · rw [if_neg h1]
    by_cases h2 : le32 (avail.take 4) > maxSize
    · rw [if_pos h2]
      constructor
      · intro h; cases h
      · intro ⟨_, h, _⟩; omega
    · rw [if_neg h2]
      by_cases h3 : (avail.drop 4).length < le32 (avail.take 4)
      · rw [if_pos h3]
        constructor
        · intro h; cases h
        · intro ⟨_, _, h, _⟩; omega
      · rw [if_neg h3]
        by_cases h4 : dec ((avail.drop 4).take (le32 (avail.take 4))) = true
        · rw [if_pos h4]
          exact ⟨fun _ => ⟨by omega, by omega, by omega, h4⟩, fun _ => rfl⟩
        · rw [if_neg h4]
          constructor
          · intro h; cases h
          · intro ⟨_, _, _, h⟩; exact absurd h h4

/-- **mux_recv_ok_iff.** `mux_recv_proto` hands a value to its caller exactly when four length bytes arrived, the
announced size is within `max_size`, **all** `size` body bytes arrived before the end of the stream, and the decoder
accepts exactly those bytes. -/
theorem mux_recv_ok_iff (dec : List Nat → Bool) (maxSize : Nat) (avail : List Nat) :
    (muxRecvProto dec maxSize avail).cls = .ok ↔
      (4 ≤ avail.length ∧ le32 (avail.take 4) ≤ maxSize ∧ le32 (avail.take 4) ≤ (avail.drop 4).length ∧
        dec ((avail.drop 4).take (le32 (avail.take 4))) = true) :=
  frame_recv_ok_iff dec maxSize avail

theorem le32_le32Bytes (n : Nat) (h : n < 4294967296) : le32 (le32Bytes n) = n := by
  unfold le32 le32Bytes
  simp only [List.getD_cons_zero, List.getD_cons_succ]
  omega

/-- **truncated_frame_rejected.** Whatever the decoder would say about a prefix (protobuf is not prefix-free: a body cut
on a field boundary is a valid encoding of a *different* message), a frame whose announced size is `size` and of which
strictly fewer body bytes arrive before the stream ends (CLOSE / transport termination) is an error, never a value. -/
theorem truncated_frame_rejected (dec : List Nat → Bool) (maxSize size : Nat) (body : List Nat)
    (hs : size < 4294967296) (hb : body.length < size) :
    (muxRecvProto dec maxSize (le32Bytes size ++ body)).cls ≠ .ok ∧
    (recvProto dec maxSize (le32Bytes size ++ body)).cls ≠ .ok := by
  have hl : (le32Bytes size).length = 4 := rfl
  have ht : (le32Bytes size ++ body).take 4 = le32Bytes size := by
    rw [List.take_append_of_le_length (by rw [hl]; exact Nat.le_refl 4)]
    exact List.take_of_length_le (by rw [hl]; exact Nat.le_refl 4)
  have hd : ((le32Bytes size ++ body).drop 4).length = body.length := by
    simp only [List.length_drop, List.length_append, hl]; omega
  constructor
  · intro h
    obtain ⟨_, _, h3, _⟩ := (mux_recv_ok_iff dec maxSize _).mp h
    rw [ht, le32_le32Bytes size hs, hd] at h3
    omega
  · intro h
    obtain ⟨_, _, h3, _⟩ := (frame_recv_ok_iff dec maxSize _).mp h
    rw [ht, le32_le32Bytes size hs, hd] at h3
    omega

/-- the end-of-stream comparison is load-bearing: a decoder that accepts the empty prefix (e.g. `GetBlockResponse`,
`PushValidatorAddrs`) would otherwise turn a cut-off frame into a different value -/
example : (muxRecvProto (fun _ => true) 100 (le32Bytes 50 ++ [])).cls = .eosBody := by decide

/-- the check is what bounds the allocation: without it a four-byte prefix makes the node allocate 4 GiB -/
theorem frame_unchecked_allocates :
    (recvProtoUnchecked (fun _ => true) [255, 255, 255, 255]).alloc = 4294967295 ∧
    (recvProto (fun _ => true) 10240 [255, 255, 255, 255]).alloc = 0 := by decide

/-- **preface_alloc_bounded.** Whatever a client sends before and after the Noise handshake, and whatever the
third-party stages answer, `preface::accept` buffers at most `MAX_FRAME = 10 kB` per message. -/
theorem preface_alloc_bounded (i : PrefaceIn) : (prefaceAccept i).2 ≤ PREFACE_MAX_FRAME := by
  unfold prefaceAccept
  have h1 := (frame_len_checked_before_alloc (fun _ => i.stage1DecodesTo) PREFACE_MAX_FRAME i.stage1).1
  have h3 := (frame_len_checked_before_alloc (fun _ => i.stage3DecodesTo) PREFACE_MAX_FRAME i.stage3).1
  simp only []
  split
  · exact h1
  · split
    · exact h1
    · split
      · exact Nat.max_le.mpr ⟨h1, h3⟩
      · exact Nat.max_le.mpr ⟨h1, h3⟩

/-! ## 3. Noise read buffers (noise/stream.rs, noise/bytes.rs) -/

/-- **noise_buffers_in_bounds.** For every transport byte string, every fragmentation of the transport reads, every
decryption oracle (with plaintext = ciphertext − 16-byte tag), every reader buffer size and any number of reads:
no slice of the two buffers is ever out of range (no panic), both buffers stay within their generated capacities
(`MAX_FRAME_LEN`, `MAX_PAYLOAD_LEN`), the loop ends within `|wire|+1` reads, and the plaintext delivered plus the
bytes still buffered never exceeds the bytes received. -/
theorem noise_buffers_in_bounds (wire frags : List Nat) (hb : Bytes wire) (dec : Dec) (hd : DecContract dec)
    (k fuel : Nat) :
    (∀ s, (readAll dec k fuel (Noise.Rd.init wire frags) 0).2.1 ≠ .panic s) ∧
    NInv (readAll dec k fuel (Noise.Rd.init wire frags) 0).2.2 ∧
    (wire.length < fuel → (readAll dec k fuel (Noise.Rd.init wire frags) 0).2.1 ≠ .fuel) ∧
    (readAll dec k fuel (Noise.Rd.init wire frags) 0).1 + mu (readAll dec k fuel (Noise.Rd.init wire frags) 0).2.2
      ≤ wire.length := by
  obtain ⟨a, b, c, d⟩ := readAll_ok dec hd k fuel (Noise.Rd.init wire frags) 0 (ninv_init wire frags hb)
  have hm : mu (Noise.Rd.init wire frags) = wire.length := by simp [mu, Noise.Rd.init, Buf.new]
  rw [hm] at c d
  exact ⟨a, b, c, by omega⟩

/-- **noise_frame_always_fits.** `poll_read_frame` reports end of stream only when the transport is exhausted: a
frame announced by any two length bytes fits the frame buffer (`2 + 65 535 ≤ MAX_FRAME_LEN`), so the transport is
never polled with an empty slice (which it would answer with 0 bytes = a spurious end of stream). -/
theorem noise_frame_always_fits (wire frags : List Nat) (hb : Bytes wire) (r' : Noise.Rd)
    (h : pollReadFrame (wire.length + 1) (Noise.Rd.init wire frags) = .eof r') : r'.wire = [] := by
  have := pollReadFrame_ok (wire.length + 1) (Noise.Rd.init wire frags) (ninv_init wire frags hb) (by simp [Noise.Rd.init])
  rw [h] at this
  cases this with
  | eof _ a b c d e => exact b

example : DecContract (fun _ c => if c.length ≥ 16 then some (c.length - 16) else none) := by
  intro i c m h
  simp only [] at h
  split at h
  · cases h; have : AUTHDATA_LEN = 16 := rfl; omega
  · cases h

/-! ## 4. Conversions of `std_conv.rs` -/

/-- **timestamp_read_total / duration_read_total.** For every presence of the two fields and every value of
`seconds`, `nanos` (all of `i64 × i32` and beyond) decoding a `Timestamp` / `Duration` returns a value or an
error. -/
theorem timestamp_read_total (r : PDur) : (timestampRead r).isPanic = false := timestampRead_not_panic r
theorem duration_read_total (r : PDur) : (durationRead r).isPanic = false := durationRead_not_panic r

/-- exact characterisation: a `Duration` is accepted iff `seconds + trunc(nanos / 10⁹)` is an `i64` **and** the value is
not below `i64::MIN` whole seconds (`−2⁶³·10⁹ ≤ seconds·10⁹ + nanos`); the result is the normalised duration of that value -/
theorem duration_read_ok_iff (s n : Int) :
    (∃ d, durationRead ⟨some s, some n⟩ = .ok d) ↔
      (inI64 (s + n.tdiv 1000000000) = true ∧ -9223372036854775808 * 1000000000 ≤ s * 1000000000 + n) := by
  show (∃ d, durationFromParts s n = .ok d) ↔ _
  constructor
  · intro ⟨d, hd⟩
    obtain ⟨hpre, hc⟩ := (durationFromParts_ok_iff s n d).mp hd
    cases hb : inI64 (s + n.tdiv 1000000000) with
    | false => rw [(durationFromPartsPre12_spec s n).2 hb] at hpre; cases hpre
    | true =>
      obtain ⟨d', h1, h2, h3, h4⟩ := (durationFromPartsPre12_spec s n).1 hb
      rw [h1] at hpre; cases hpre
      refine ⟨rfl, ?_⟩
      have h3' := (inI64_iff _).mp h3
      obtain ⟨a, b, c, e⟩ := h2
      unfold I64_MIN at hc
      omega
  · intro ⟨hb, hv⟩
    obtain ⟨d, h1, h2, h3, h4⟩ := (durationFromPartsPre12_spec s n).1 hb
    refine ⟨d, (durationFromParts_ok_iff s n d).mpr ⟨h1, ?_⟩⟩
    have h3' := (inI64_iff _).mp h3
    obtain ⟨a, b, c, e⟩ := h2
    unfold I64_MIN
    omega

theorem duration_read_value (s n : Int) (d : Dur) (h : durationRead ⟨some s, some n⟩ = .ok d) :
    d.secs * 1000000000 + d.nanos = s * 1000000000 + n ∧ Norm d ∧ (d.secs > I64_MIN ∨ d.nanos ≥ 0) := by
  have h' : durationFromParts s n = .ok d := h
  obtain ⟨hpre, hc⟩ := (durationFromParts_ok_iff s n d).mp h'
  cases hb : inI64 (s + n.tdiv 1000000000) with
  | false => rw [(durationFromPartsPre12_spec s n).2 hb] at hpre; cases hpre
  | true =>
    obtain ⟨d', h1, h2, -, h4⟩ := (durationFromPartsPre12_spec s n).1 hb
    rw [h1] at hpre; cases hpre
    exact ⟨h4, h2, hc⟩

/-- **duration_build_total.** Re-encoding (`build()`, used for hashing and re-gossiping a received message) of every
accepted duration does not overflow, even with overflow checks. -/
theorem duration_build_total (s n : Int) (d : Dur) (h : durationRead ⟨some s, some n⟩ = .ok d) :
    (durationBuild d).isPanic = false ∧ (durationBuild d = .ok (durationBuildWrap d)) := by
  obtain ⟨_, hn, hc⟩ := duration_read_value s n d h
  have hr : inI64 d.secs = true := by
    have h' : durationFromParts s n = .ok d := h
    obtain ⟨hpre, _⟩ := (durationFromParts_ok_iff s n d).mp h'
    cases hb : inI64 (s + n.tdiv 1000000000) with
    | false => rw [(durationFromPartsPre12_spec s n).2 hb] at hpre; cases hpre
    | true =>
      obtain ⟨d', h1, _, h3, _⟩ := (durationFromPartsPre12_spec s n).1 hb
      rw [h1] at hpre; cases hpre; exact h3
  have hr' := (inI64_iff _).mp hr
  unfold durationBuild durationBuildWrap
  by_cases hneg : d.nanos < 0
  · have hin : inI64 (d.secs - 1) = true := (inI64_iff _).mpr (by unfold I64_MIN at hc; omega)
    simp [hneg, hin, Res.isPanic]
  · simp [hneg, Res.isPanic]

/-- **F12 is load-bearing.** Between the repairs of F3 and F12 `read` accepted exactly one more family of inputs — the
values below `i64::MIN` whole seconds — and on exactly those `build()` overflows: a panic with overflow checks, the
wrapped value `(2⁶³−1, ·)` otherwise. Witness: `{seconds: i64::MIN + 1, nanos: −1_000_000_001}`. -/
theorem duration_build_legacy_overflows_iff (s n : Int) (d : Dur) (h : durationFromPartsPre12 s n = .ok d) :
    (durationBuild d).isPanic = true ↔ ¬ ∃ d', durationRead ⟨some s, some n⟩ = .ok d' := by
  cases hb : inI64 (s + n.tdiv 1000000000) with
  | false => rw [(durationFromPartsPre12_spec s n).2 hb] at h; cases h
  | true =>
    obtain ⟨d', h1, h2, h3, h4⟩ := (durationFromPartsPre12_spec s n).1 hb
    rw [h1] at h; cases h
    have h3' := (inI64_iff _).mp h3
    obtain ⟨a, b, c, e⟩ := h2
    rw [duration_read_ok_iff]
    unfold durationBuild
    by_cases hneg : d.nanos < 0
    · by_cases hin : inI64 (d.secs - 1) = true
      · have := (inI64_iff _).mp hin
        simp only [hneg, hin, if_true, Res.isPanic, hb, true_and, Int.not_le]
        constructor
        · intro x; cases x
        · intro x; omega
      · have hin' : ¬ (-9223372036854775808 ≤ d.secs - 1 ∧ d.secs - 1 ≤ 9223372036854775807) := fun x => hin ((inI64_iff _).mpr x)
        have hf : inI64 (d.secs - 1) = false := by simpa using hin
        simp only [hneg, hf, if_true, Res.isPanic, hb, true_and, Int.not_le, Bool.false_eq_true, if_false, true_iff]
        omega
    · simp only [hneg, if_false, Res.isPanic, hb, true_and, Int.not_le]
      constructor
      · intro x; cases x
      · intro x; omega

theorem duration_build_legacy_witness :
    durationFromPartsPre12 (-9223372036854775807) (-1000000001) = .ok ⟨-9223372036854775808, -1⟩ ∧
    (durationBuild ⟨-9223372036854775808, -1⟩).isPanic = true ∧
    durationBuildWrap ⟨-9223372036854775808, -1⟩ = (9223372036854775807, 999999999) ∧
    durationRead ⟨some (-9223372036854775807), some (-1000000001)⟩ = .err "duration overflow" := by decide

/-- **F3 is load-bearing.** The pre-repair `Duration::new(seconds, nanos)` panics on
`{seconds: i64::MAX, nanos: 1_000_000_000}` — and on exactly the inputs the repaired code rejects. -/
theorem timestamp_read_legacy_panics :
    (timestampReadLegacy ⟨some 9223372036854775807, some 1000000000⟩).isPanic = true ∧
    (durationReadLegacy ⟨some 9223372036854775807, some 1000000000⟩).isPanic = true ∧
    (timestampRead ⟨some 9223372036854775807, some 1000000000⟩) = .err "duration overflow" := by decide

theorem duration_legacy_panics_iff (s n : Int) :
    (durationReadLegacy ⟨some s, some n⟩).isPanic = true ↔ inI64 (s + n.tdiv 1000000000) = false := by
  show (Dur.newLegacy s n).isPanic = true ↔ _
  exact newLegacy_panic_iff s n

/-- **timestamp_display_total.** Every accepted timestamp can be rendered with `Display` (what the debug page does
with the timestamp of every stored, validly signed `NetAddress`). -/
theorem timestamp_display_total (d : Dur) : (utcDisplay d).isPanic = false := rfl

/-- **F10 is load-bearing.** Before the repair, `Display` of an *accepted* timestamp outside the years ±9999 panicked:
witness `{seconds: 253402300800, nanos: 0}` (= 10000-01-01T00:00:00Z); and it panicked on exactly the out-of-range
values. -/
theorem timestamp_display_legacy_panics :
    ∃ d, timestampRead ⟨some 253402300800, some 0⟩ = .ok d ∧ (utcDisplayLegacy d).isPanic = true := by
  refine ⟨⟨253402300800, 0⟩, by decide, by decide⟩

theorem timestamp_display_legacy_panics_iff (d : Dur) :
    (utcDisplayLegacy d).isPanic = true ↔
      ¬ (-377705116800000000000 ≤ d.secs * 1000000000 + d.nanos ∧ d.secs * 1000000000 + d.nanos ≤ 253402300799999999999) := by
  unfold utcDisplayLegacy inOffsetDateTimeRange
  by_cases h : -377705116800000000000 ≤ d.secs * 1000000000 + d.nanos ∧
      d.secs * 1000000000 + d.nanos ≤ 253402300799999999999
  · simp [h.1, h.2, Res.isPanic]
  · have : (decide (-377705116800000000000 ≤ d.secs * 1000000000 + d.nanos) &&
        decide (d.secs * 1000000000 + d.nanos ≤ 253402300799999999999)) = false := by
      simp only [Bool.and_eq_false_iff, decide_eq_false_iff_not]
      omega
    simp [this, Res.isPanic, h]

/-- **timestamp_debug_total.** Every accepted timestamp can be rendered with `{:?}` (`NetAddress` derives `Debug`
through it). -/
theorem timestamp_debug_total (d : Dur) : (utcDebug d).isPanic = false := rfl

/-- **F11 is load-bearing.** Before the repair, `{:?}` of an accepted timestamp panicked exactly when
`seconds = i64::MIN` and the normalised nanos are negative; witness `{seconds: i64::MIN, nanos: -1}` (accepted by `read` until the repair of F12). -/
theorem timestamp_debug_legacy_panics :
    ∃ d, durationFromPartsPre12 (-9223372036854775808) (-1) = .ok d ∧ (utcDebugLegacy d).isPanic = true := by
  refine ⟨⟨-9223372036854775808, -1⟩, by decide, by decide⟩

/-- since the repair of F12 `read` no longer produces the values on which the pre-F11 `Debug` panicked -/
theorem timestamp_debug_legacy_unreachable_after_f12 (s n : Int) (d : Dur)
    (h : durationRead ⟨some s, some n⟩ = .ok d) : (utcDebugLegacy d).isPanic = false := by
  obtain ⟨_, _, hc⟩ := duration_read_value s n d h
  unfold utcDebugLegacy inSystemTimeRange
  by_cases h1 : d.secs = I64_MIN
  · have : ¬ d.nanos < 0 := by unfold I64_MIN at hc h1; omega
    simp [h1, this, Res.isPanic]
  · simp [h1, Res.isPanic]

theorem timestamp_debug_legacy_panics_iff (d : Dur) :
    (utcDebugLegacy d).isPanic = true ↔ (d.secs = -9223372036854775808 ∧ d.nanos < 0) := by
  unfold utcDebugLegacy inSystemTimeRange I64_MIN
  by_cases h1 : d.secs = -9223372036854775808 <;> by_cases h2 : d.nanos < 0 <;> simp [h1, h2, Res.isPanic]

/-- **bitvec_read_total**, with the exact acceptance condition; the vector is built from the bytes received, `size`
is only compared (nothing is allocated from `size`: `bitvecAlloc` does not mention it). -/
theorem bitvec_read_total (r : PBitVec) : (bitvecRead r).isPanic = false := bitvecRead_not_panic r

theorem bitvec_read_ok_iff (size bytes n : Nat) :
    bitvecRead ⟨some size, some bytes⟩ = .ok n ↔ (size ≤ 8 * bytes ∧ n = size) := by
  show (if 8 * bytes < size then Res.err _ else Res.ok size) = Res.ok n ↔ _
  split
  · constructor
    · intro h; cases h
    · intro ⟨h, _⟩; omega
  · constructor
    · intro h; cases h; exact ⟨by omega, rfl⟩
    · intro ⟨_, h⟩; rw [h]

/-- **socketaddr_read_total**: the two `try_from(..).unwrap()` are only reached with the matching length -/
theorem socketaddr_read_total (r : PSockAddr) : (sockaddrRead r).isPanic = false := sockaddrRead_not_panic r
theorem ratelimit_read_total (r : PRate) : (rateRead r).isPanic = false := rateRead_not_panic r

/-! ## 5. Every `ProtoFmt::read` of the repository, at the proto-struct level -/

/-- **read_total.** A reader built without `unwrap` and without the pre-repair leaves never panics, on any
message value: any field present or absent, any scalar, any byte length, any third-party verdict, any number of
repeated elements. -/
theorem read_total (rd : EraVerif.Model.C10.Rd) (v : PV) (hs : rd.safe = true) : (rd.run v).isPanic = false := rd_not_panic rd v hs

/-- the transcriptions of the repository's `read` functions are all of that kind -/
theorem all_readers_safe : ∀ p ∈ Readers.table, p.2.safe = true := by decide

/-- **every_reader_total.** Decoding any message value into any of the 56 message types of `protobuf`, `roles` and
`network` (consensus messages, certificates, blocks, `NetAddress`, handshakes, RPC requests and responses,
`Genesis`, replica state) terminates with a value or an error. -/
theorem every_reader_total (name : String) (rd : EraVerif.Model.C10.Rd) (h : Readers.readerOf name = some rd) (v : PV) :
    (rd.run v).isPanic = false := by
  apply read_total
  unfold Readers.readerOf at h
  cases hf : Readers.table.find? (fun p => p.1 = name) with
  | none => rw [hf] at h; cases h
  | some p =>
    rw [hf] at h
    cases h
    exact all_readers_safe p (List.mem_of_find?_eq_some hf)

example : (Readers.readerOf "rpc.consensus.Req").isSome = true := by decide

/-- **genesis_read_total** (for every `protocol_version`, schedule, presence pattern). `Genesis::read` calls
`with_hash()` → `build()`, whose `match` ends in `unreachable!()`; it is `read`'s own rejection of every version
other than 2 that keeps `build` away from it. -/
theorem genesis_read_total (v : PV) : (genesisRead false v).isPanic = false := genesisRead_not_panic v

/-- **F5 is load-bearing.** With the pre-repair `_ => unreachable!()` a `Genesis` with `protocol_version = 3`
panics; the current code returns an error. -/
theorem genesis_read_legacy_panics :
    (genesisRead true (.msg (.cons "protocol_version" (.int 3) .nil))).isPanic = true ∧
    genesisRead false (.msg (.cons "protocol_version" (.int 3) .nil)) = .err "unsupported protocol version" := by
  decide

/-- the reader language can express panicking code, so `read_total` is not vacuous: an `unwrap` on an absent
field, and a `NetAddress` read with the pre-repair `Timestamp` conversion, both panic -/
theorem read_language_can_panic :
    ((Readers.m [("view", .unwrap, Readers.view)]).run (.msg .nil)).isPanic = true ∧
    (Readers.netAddressLegacy.run (.msg (.cons "addr" (.msg (.cons "ip" (.bytes 4 0 true) (.cons "port" (.int 80) .nil)))
      (.cons "version" (.int 0) (.cons "timestamp" (.msg (.cons "seconds" (.int 9223372036854775807)
        (.cons "nanos" (.int 1000000000) .nil))) .nil))))).isPanic = true := by decide

/-! ## 6. `canonical_raw` (proto_fmt.rs) -/

/-- **canonical_total.** For every field map `read_fields` can produce (any number of values per field, including
none for a scalar field that only occurred as empty packed chunks) `canonical_raw` returns bytes or an error. -/
theorem canonical_total (fields : List Field) : (canonicalRaw fields).isPanic = false := by
  unfold canonicalRaw
  induction fields with
  | nil => rfl
  | cons f fs ih =>
    refine bind_not_panic _ _ ?_ (fun _ => ih)
    unfold canonField
    split
    · rfl
    · split
      · rfl
      · cases f.wire with
        | len => rfl
        | scalar =>
          simp only []
          split
          · rfl
          · split <;> rfl

/-- **F9 is load-bearing**: exactly the fields that are scalar, have no value and pass the two earlier checks make
the pre-repair loop body index an empty vector -/
theorem canonical_legacy_panics_iff (f : Field) :
    (canonFieldLegacy f).isPanic = true ↔ (f.wire = .scalar ∧ f.nvalues = 0 ∧ f.subOk = true) := by
  unfold canonFieldLegacy
  by_cases h1 : f.nvalues > 1
  · have hn : f.nvalues ≠ 0 := by omega
    cases hl : f.isList <;> cases hs : f.subOk <;> cases hw : f.wire <;> simp [h1, hn, Res.isPanic]
  · by_cases h0 : f.nvalues = 0
    · cases hl : f.isList <;> cases hs : f.subOk <;> cases hw : f.wire <;> simp [h0, Res.isPanic]
    · cases hl : f.isList <;> cases hs : f.subOk <;> cases hw : f.wire <;> simp [h1, h0, Res.isPanic]

/-- a scalar field has an entry without values exactly when all its occurrences are empty packed chunks
(e.g. the two bytes `22 00` for field 4) -/
theorem no_values_iff (occs : List Occ) : valuesOf occs = 0 ↔ ∀ o ∈ occs, o = .packed 0 := by
  unfold valuesOf
  induction occs with
  | nil => simp
  | cons o os ih =>
    simp only [List.map_cons, List.sum_cons, List.mem_cons, forall_eq_or_imp]
    cases o with
    | direct => simp [Occ.count]
    | packed k =>
      simp only [Occ.count]
      constructor
      · intro h
        have hk : k = 0 := by omega
        exact ⟨by rw [hk], ih.mp (by omega)⟩
      · intro ⟨h1, h2⟩
        cases h1
        have := ih.mpr h2
        omega

example : (canonicalRawLegacy [⟨4, true, .scalar, valuesOf [.packed 0], true⟩]).isPanic = true ∧
    canonicalRaw [⟨4, true, .scalar, valuesOf [.packed 0], true⟩] = .ok () := by decide

/-! ## 7. Well-signed but absurd consensus messages: certificate verification and what runs before it -/

/-- **commit_qc_verify_total / timeout_qc_verify_total / justification_verify_total.** For every committee, every
certificate — any view, any block number, signer bitmaps of any length (empty, shorter, longer than the committee),
any map of timeout votes — verification returns `Ok` or an error: `Signers::weight`'s `assert_eq!`, bit-vec's
`assert_eq!` in `and`/`or` and the `signers.0[i]` index are each preceded by the length check that makes them safe. -/
theorem commit_qc_verify_total (c : Ctx) (qc : CommitQC) : (commitQcVerify c qc).isPanic = false :=
  commitQcVerify_not_panic c qc
theorem timeout_qc_verify_total (c : Ctx) (qc : TimeoutQC) : (timeoutQcVerify c qc).isPanic = false :=
  timeoutQcVerify_not_panic c qc
theorem replica_timeout_verify_total (c : Ctx) (m : ReplicaTimeout) : (replicaTimeoutVerify c m).isPanic = false :=
  replicaTimeoutVerify_not_panic c m
theorem justification_verify_total (c : Ctx) (j : Justification) : (justificationVerify c j).isPanic = false := by
  cases j with
  | commit qc => exact commitQcVerify_not_panic c qc
  | timeout qc => exact timeoutQcVerify_not_panic c qc

/-- the `BadSignersSet` check is what protects the assertion: without it an empty bitmap panics -/
theorem commit_qc_len_check_is_load_bearing :
    (commitQcVerifyNoLenCheck ⟨0, 0, [1, 1, 1], 3, 1⟩ ⟨⟨⟨0, 0, 5⟩, ⟨1, 7⟩⟩, [], true⟩).isPanic = true ∧
    commitQcVerify ⟨0, 0, [1, 1, 1], 3, 1⟩ ⟨⟨⟨0, 0, 5⟩, ⟨1, 7⟩⟩, [], true⟩ = .err "BadSignersSet" := by decide

/-- **implied_block_total_of_verified.** After a proposal's justification verified, `get_implied_block` does not
panic, provided no certified block number is `2⁶⁴−1` (`BlockNumber::next` is `checked_add(1).unwrap()`). -/
theorem implied_block_total_of_verified (c : Ctx) (firstBlock : Nat) (j : Justification)
    (hv : justificationVerify c j = .ok ())
    (hn : match j with
      | .commit qc => qc.message.proposal.number + 1 < U64
      | .timeout qc => ∀ e ∈ qc.map, ∀ q, e.1.highQc = some q → q.message.proposal.number + 1 < U64) :
    (impliedBlock c firstBlock j).isPanic = false := by
  cases j with
  | commit qc =>
    simp only [] at hn
    unfold impliedBlock blockNext
    simp [hn, Res.bind, Res.isPanic]
  | timeout qc =>
    simp only [] at hn
    have hl := timeoutQcVerify_lens c qc hv
    unfold impliedBlock highVote
    refine bind_not_panic _ _ (bind_not_panic _ _ (highVoteCounts_not_panic c qc.map [] hl) (fun counts => ?_)) (fun hvv => ?_)
    · split <;> rfl
    · have hq : ∀ q, highQc qc = some q → q.message.proposal.number + 1 < U64 := by
        intro q hq
        unfold highQc at hq
        have key : ∀ (l : List CommitQC) (init : Option CommitQC),
            (∀ x ∈ l, x.message.proposal.number + 1 < U64) →
            (∀ b, init = some b → b.message.proposal.number + 1 < U64) →
            ∀ q, l.foldl (fun best q => match best with
              | none => some q
              | some b => if q.message.view.number ≥ b.message.view.number then some q else some b) init = some q →
            q.message.proposal.number + 1 < U64 := by
          intro l
          induction l with
          | nil => intro init _ hi q h; exact hi q h
          | cons x xs ih =>
            intro init hl hi q h
            simp only [List.foldl_cons] at h
            refine ih _ (fun y hy => hl y (List.mem_cons_of_mem _ hy)) ?_ q h
            intro b hb
            cases init with
            | none => simp only [] at hb; cases hb; exact hl x List.mem_cons_self
            | some b0 =>
              simp only [] at hb
              split at hb
              · cases hb; exact hl x List.mem_cons_self
              · cases hb; exact hi _ rfl
        refine key _ none ?_ (fun b hb => by cases hb) q hq
        intro x hx
        obtain ⟨e, he, hxe⟩ := List.mem_filterMap.mp hx
        exact hn e he x hxe
      have hbn : ∀ q, highQc qc = some q → (blockNext q.message.proposal.number).isPanic = false := by
        intro q h
        unfold blockNext
        simp [hq q h, Res.isPanic]
      cases hvv with
      | none =>
        cases hqq : highQc qc with
        | none => rfl
        | some q => exact bind_not_panic _ _ (hbn q hqq) (fun _ => rfl)
      | some v =>
        cases hqq : highQc qc with
        | none => rfl
        | some q =>
          simp only []
          split
          · rfl
          · exact bind_not_panic _ _ (hbn q hqq) (fun _ => rfl)

/-- the hypothesis on block numbers is needed: a *quorum-signed* certificate for block `2⁶⁴−1` makes
`get_implied_block` panic. Producing it needs the signatures of a quorum, i.e. of correct validators that never
vote for such a block — outside the fault model of the property (documented in the evidence). -/
theorem implied_block_panics_at_max :
    (impliedBlock ⟨0, 0, [1], 1, 1⟩ 0 (.commit ⟨⟨⟨0, 0, 5⟩, ⟨18446744073709551615, 7⟩⟩, [true], true⟩)).isPanic = true ∧
    justificationVerify ⟨0, 0, [1], 1, 1⟩ (.commit ⟨⟨⟨0, 0, 5⟩, ⟨18446744073709551615, 7⟩⟩, [true], true⟩) = .ok () := by
  decide

/-- **replica_vote_caches_total.** For every committee and every sequence of signed commit / timeout votes — any
signer (member or not), any view up to `2⁶⁴−1`, any block number, any high vote / high certificate with bitmaps of
any length, valid or invalid signatures — `on_commit` / `on_timeout` never reach
`.expect("could not add message to CommitQC")`, `.expect("could not add message to TimeoutQC")`, the
`remove(..).unwrap()`s, `Signers::weight`'s assertion or `get_justification`'s assertion: every vote is accepted or
rejected. (The duplicate-signer guard on the "latest view per signer" map is what keeps `CommitQC::add` /
`TimeoutQC::add` from failing: a set bit in a cached partial certificate implies a recorded view at least as high.) -/
theorem replica_vote_caches_total (c : Ctx) (ops : List Votes.Op) :
    ∃ s vs, Votes.runOps c Votes.St.init ops = .ok (s, vs) ∧ vs.length = ops.length := by
  obtain ⟨s, vs, h, _, hl⟩ := runOps_ok c ops Votes.St.init (vinv_init c)
  exact ⟨s, vs, h, hl⟩

/-- the guard is load-bearing: adding the same signer twice to a partial certificate is an error of `CommitQC::add`,
which the handler turns into a panic -/
theorem commit_qc_add_twice_fails :
    Votes.commitQcAdd ⟨0, 0, [1, 1, 1], 3, 1⟩ ⟨5, ⟨⟨0, 0, 5⟩, ⟨1, 7⟩⟩, [false, true, false]⟩ 1
      ⟨some 1, true, ⟨⟨0, 0, 5⟩, ⟨1, 7⟩⟩⟩ = .err "DuplicateSigner" := by decide

/-- non-vacuity: three votes of weight 1 each reach the quorum 3, the certificate is consumed and the view advances;
a repeated vote is rejected, a vote for view `2⁶⁴−1` from a quorum wraps the view to 0 (release semantics) -/
example :
    (Votes.runOps ⟨0, 0, [1, 1, 1], 3, 1⟩ Votes.St.init
      [.commit ⟨some 0, true, ⟨⟨0, 0, 5⟩, ⟨1, 7⟩⟩⟩, .commit ⟨some 0, true, ⟨⟨0, 0, 5⟩, ⟨1, 7⟩⟩⟩,
       .commit ⟨some 1, true, ⟨⟨0, 0, 5⟩, ⟨1, 7⟩⟩⟩, .commit ⟨some 2, true, ⟨⟨0, 0, 5⟩, ⟨1, 7⟩⟩⟩]).bind
      (fun r => .ok (r.1.view, r.2)) =
    .ok (6, [.accepted, .rejected "DuplicateSigner", .accepted, .accepted]) := by decide

/-! ## 8. What runs after a well-formed gossip message was accepted: `BlockStoreState` on the peer's numbers -/

/-- **contains_total.** For every announced state — verified or not, empty or not, any `first`, any `last` up to
`2⁶⁴−1` — and every requested block number, `BlockStoreState::contains` (evaluated by the block fetcher on the
peer-supplied state, `gossip/fetch.rs:97`) returns without panicking. -/
theorem contains_total (s : Store.BSS) (n : Nat) : (Store.contains s n).isPanic = false := by
  unfold Store.contains; cases s.last <;> rfl

/-- exact value: the number lies in the closed range `[first, last]` of a non-empty store -/
theorem contains_spec (s : Store.BSS) (n : Nat) :
    Store.contains s n = .ok true ↔ ∃ last, s.last = some last ∧ s.first ≤ n ∧ n ≤ last := by
  unfold Store.contains
  cases hl : s.last with
  | none => simp
  | some l =>
    simp only [Option.some.injEq, exists_eq_left']
    constructor
    · intro h
      have : (decide (s.first ≤ n) && decide (n ≤ l)) = true := by injection h
      simpa using this
    · intro ⟨a, b⟩
      simp [a, b]

/-- **next_panics_iff.** `BlockStoreState::next` panics exactly on a store whose last block is `2⁶⁴−1`. -/
theorem next_panics_iff (s : Store.BSS) (hl : ∀ l, s.last = some l → l < U64) :
    (Store.next s).isPanic = true ↔ s.last = some 18446744073709551615 := by
  unfold Store.next
  cases h : s.last with
  | none => simp [Res.isPanic]
  | some l =>
    have := hl l h
    unfold blockNext U64 at *
    by_cases hm : l + 1 < 18446744073709551616
    · simp only [hm, if_true, Res.isPanic, Option.some.injEq]
      constructor
      · intro h'; cases h'
      · intro h'; omega
    · simp only [hm, if_false, Res.isPanic, Option.some.injEq, true_iff]
      omega

theorem verify_ok_iff (s : Store.BSS) :
    Store.verify s = .ok () ↔ ∀ l, s.last = some l → s.first ≤ l := by
  unfold Store.verify
  cases h : s.last with
  | none => simp
  | some l =>
    by_cases hf : s.first ≤ l
    · simp [hf]
    · simp [hf]

/-- `head` is total by construction (`prev().unwrap_or(0)`); its value -/
theorem head_spec (s : Store.BSS) :
    Store.head s = match s.last with | some l => l | none => s.first - 1 := by
  unfold Store.head
  cases s.last with
  | some l => rfl
  | none => simp only []; split <;> omega

/-- **The closed-range form is load-bearing.** Writing `contains` as `first ≤ n ∧ n < next()` gives the same answer on
every state whose last block is below `2⁶⁴−1`, but on the *verified* announcement `{first: 0, last: 2⁶⁴−1}` it
panics for every requested number at or above `first` — the seeded fault C10-1. -/
theorem contains_via_next_panics :
    Store.verify ⟨0, some 18446744073709551615⟩ = .ok () ∧
    (Store.containsViaNext ⟨0, some 18446744073709551615⟩ 0).isPanic = true ∧
    Store.contains ⟨0, some 18446744073709551615⟩ 0 = .ok true := by decide

theorem contains_via_next_agrees (s : Store.BSS) (n : Nat) (h : ∀ l, s.last = some l → l + 1 < U64) :
    Store.containsViaNext s n = Store.contains s n := by
  unfold Store.containsViaNext Store.contains Store.next
  cases hl : s.last with
  | none =>
    simp only []
    split
    · simp [Res.bind]; omega
    · rfl
  | some l =>
    have h1 := h l hl
    simp only [blockNext, h1, if_true]
    split
    · rename_i hf
      simp [Res.bind, hf]; omega
    · rename_i hf
      simp [hf]

/-- **F6 (known, profile-dependent).** `ViewNumber::next` wraps in the shipping profile and panics with overflow
checks; it runs in the queue selection function and in `on_new_view` / `on_proposal` *before* any verification,
on the view of an unverified certificate. -/
theorem view_next_wraps_release_panics_checked :
    viewNext 18446744073709551615 = 0 ∧ (viewNextChecked 18446744073709551615).isPanic = true ∧
    (∀ v, v + 1 < U64 → viewNextChecked v = .ok (viewNext v)) := by
  refine ⟨by decide, by decide, ?_⟩
  intro v hv
  unfold viewNextChecked viewNext
  simp [hv, Nat.mod_eq_of_lt hv]

/-- consequence for the replica's input queue (release semantics): a new-view / proposal whose certificate claims
view `2⁶⁴−1` counts as view 0 and therefore never displaces a queued message of the same sender and kind -/
theorem selection_with_max_view (key : Nat) (old : QMsg) (h1 : old.key = key) (h2 : old.kind = .newView) :
    selection old ⟨key, .newView, 18446744073709551615⟩ = .discardNew := by
  have e : (⟨key, .newView, 18446744073709551615⟩ : QMsg).viewNumber = 0 := by
    show viewNext 18446744073709551615 = 0
    decide
  unfold selection
  rw [e]
  simp [h1, h2]

/-! ## The noise handshake's scratch buffer (`noise/stream.rs`, `Stream::handshake`) -/

/-- `&mut buf[..n]` with `n = u16::from_le_bytes(msg_size) as usize` — the slice the handshake reads a peer's message
into, before any authentication — is in bounds for every announced length: `HANDSHAKE_BUF_LEN` is regenerated from
the buffer's declaration on every run. `none` = the slice panics. -/
def handshakeReadSlice (n : Nat) : Option Nat := if n ≤ HANDSHAKE_BUF_LEN then some n else none

theorem handshake_read_in_bounds (lo hi : Nat) (hlo : lo < 256) (hhi : hi < 256) :
    handshakeReadSlice (lo + 256 * hi) = some (lo + 256 * hi) := by
  unfold handshakeReadSlice HANDSHAKE_BUF_LEN
  rw [if_pos (by omega)]

end EraVerif.Props.C10
