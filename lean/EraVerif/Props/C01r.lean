import EraVerif.Proofs.RefineIP
import EraVerif.Props.C01

/-!
# C01r — Agreement for the code-level model, by refinement Layer I → Layer P

**What is proved.** The global code-level system of `Model/Global.lean` — every correct validator runs the executable
replica (`Model/Replica.lean`, validated against the Rust `StateMachine` by differential runs) inside the crash system
of `Model/ReplicaSys.lean`; the network and the Byzantine validators are an adversary that may deliver any message
that is `Authentic` (symbolic unforgeability of signatures) — **refines** the protocol-level transition system of
`Proofs/LayerP.lean`:

* `simulation` — from every reachable global state, every global step `g → g'` (a handler run to completion with any
  authentic message or a timer tick, a crash after any prefix of the effects of such a step, a restart) is matched by
  zero or more Layer-P steps `absG g →* absG g'`: none for a rejected input, a cache-only update, a crash that lost
  nothing durable; `learn`* then `advance` for a view change; `learn`* then `timeout` for the timer's durable write;
  `learn`* then `voteCommit` / `voteTimeout` for an accepted proposal, at the moment its state becomes durable;
* `global_reach_refines` — hence `absG g` is Layer-P reachable for every reachable `g`;
* `code_level_agreement` — two verifying commit certificates whose correct signers really signed, for the same block
  number, carry the same payload;
* `committed_blocks_agree` — any two blocks ever handed to the store (`Effect.queueBlock`) by correct replicas along
  a global run, for the same number, have the same payload.

All Layer-P guards are discharged from the code: `canVote` from `on_proposal`'s view/phase check evaluated on a live
state that agrees with the durable one (C03); `Cert` from `CommitQC::verify` + `Authentic` (`cert_of_qc`); `TQC.valid`
from `TimeoutQC::verify` + `Authentic` (`tqc_valid`); `Implied` from `implied_refines` (C02d); conformance of the vote
with the implied block from the structure of `on_proposal`.

**Hypotheses.** `1 ≤ total weight`; Byzantine weight `≤ f = (total - 1) / 5`; `InputOk` (an incoming vote is not for
view `2^64 - 1`) and `InputOk2` (the justification of a delivered *proposal* is not for view `2^64 - 1` and relies on
no commit certificate for block `2^64 - 1`): the `u64` successor functions do not wrap.

**Deviation from the plan, with reason.** The global state carries a ghost history `hist` (all durable states a
validator ever wrote). With the abstraction "a vote is recorded iff it was sent or is the current durable high vote"
the refinement is *false*: see section "Why the history variable" for the concrete run.
-/

namespace EraVerif.Props.C01r
open EraVerif.Model EraVerif.Safety EraVerif.Refine EraVerif.Proofs.RefineIP

section Main
variable {cfg : RCfg} {byz : Finset (Fin cfg.c.n)}

/-! ## 1. Refinement -/

/-- the invariant and Layer-P reachability, for every reachable global state -/
theorem reach_inv {g : Global cfg} (ht : 1 ≤ cfg.c.total) (hr : GReach cfg (Byz byz) g) :
    GInv cfg byz g ∧ Reach (wF cfg.c) byz cfg.c.first (absG g) := by
  induction hr with
  | init =>
    refine ⟨ginv_init byz, ?_⟩
    rw [absG_init]
    exact Reach.init
  | step _ hs ih =>
    obtain ⟨hG', hsteps⟩ := sim_step ht ih.1 hs
    refine ⟨hG', ?_⟩
    have : ∀ {a b}, Relation.ReflTransGen (Step (wF cfg.c) byz cfg.c.first) a b →
        Reach (wF cfg.c) byz cfg.c.first a → Reach (wF cfg.c) byz cfg.c.first b := by
      intro a b hab ha
      induction hab with
      | refl => exact ha
      | tail _ hbc ih' => exact Reach.step ih' hbc
    exact this hsteps ih.2

/-- **Simulation.** Every step of the global code-level system from a reachable state is matched by zero or more
steps of the protocol-level system. -/
theorem simulation {g g' : Global cfg} (ht : 1 ≤ cfg.c.total) (hr : GReach cfg (Byz byz) g)
    (hs : GStep cfg (Byz byz) g g') :
    Relation.ReflTransGen (Step (wF cfg.c) byz cfg.c.first) (absG g) (absG g') :=
  (sim_step ht (reach_inv ht hr).1 hs).2

/-- **Every reachable code-level state abstracts to a reachable protocol-level state.** -/
theorem global_reach_refines {g : Global cfg} (ht : 1 ≤ cfg.c.total) (hr : GReach cfg (Byz byz) g) :
    Reach (wF cfg.c) byz cfg.c.first (absG g) :=
  (reach_inv ht hr).2

/-- the code-level meaning of a Layer-P certificate: a verifying commit certificate whose correct signers have all
sent the vote -/
theorem verified_authentic_is_cert {g : Global cfg} (ht : 1 ≤ cfg.c.total) (hr : GReach cfg (Byz byz) g)
    {q : CommitQC} (hv : q.verify cfg.c = true) (ha : AuthenticQC (Byz byz) g q) :
    Cert (wF cfg.c) byz (absG g).st q.message.view.number q.message.proposal.number q.message.proposal.payload :=
  cert_of_qc (reach_inv ht hr).1 hv ha

/-! ## 1b. What the abstraction records

`absG` is defined from the ghost history (`Proofs/RefineIPAbs.lean`: `votedIn`, `toutIn`). The following theorems
relate it to the state proper: every vote that left the node and the vote / timeout recorded by the current durable
state are recorded by the abstraction ("recorded = sent, or durable but not yet sent"); what the history adds are
the durable states that were overwritten before anything was sent from them. -/

open EraVerif.Proofs.Crash (dur) in
/-- a commit vote that left the node is recorded -/
theorem sent_commit_recorded {g : Global cfg} (ht : 1 ≤ cfg.c.total) (hr : GReach cfg (Byz byz) g)
    {i : Fin cfg.c.n} (hi : i ∉ byz) {v : Vote} (h : Msg.commit v ∈ (g.sys i).sent) :
    (absG g).votedAt i v.view.number = some (v.proposal.number, v.proposal.payload) := by
  have hI := (reach_inv ht hr).1 i hi
  obtain ⟨d0, hd0, hv0⟩ := hI.linv.sentC v h
  exact votedIn_of_mem hI.linv.votes_uniq (mem_votesOf.mpr ⟨d0, hd0, hv0⟩)

open EraVerif.Proofs.Crash (dur) in
/-- the durable high vote is recorded, whether or not it has left the node -/
theorem durable_vote_recorded {g : Global cfg} (ht : 1 ≤ cfg.c.total) (hr : GReach cfg (Byz byz) g)
    {i : Fin cfg.c.n} (hi : i ∉ byz) {v : Vote} (h : (dur (g.sys i)).highVote = some v) :
    (absG g).votedAt i v.view.number = some (v.proposal.number, v.proposal.payload) := by
  have hI := (reach_inv ht hr).1 i hi
  obtain ⟨d0, hd0, hv0⟩ := hI.linv.dur_vote h
  exact votedIn_of_mem hI.linv.votes_uniq (mem_votesOf.mpr ⟨d0, hd0, hv0⟩)

/-- a timeout vote that left the node is recorded with exactly the high vote / high certificate it reports -/
theorem sent_timeout_recorded {g : Global cfg} (ht : 1 ≤ cfg.c.total) (hr : GReach cfg (Byz byz) g)
    {i : Fin cfg.c.n} (hi : i ∉ byz) {tv : TVote} (h : Msg.timeout tv ∈ (g.sys i).sent) :
    (absG g).touts i tv.view.number ⟨tv.highVote.map refOfVote, tv.highQC.map refOfQC⟩ := by
  have hI := (reach_inv ht hr).1 i hi
  obtain ⟨d0, hd0, hp, hvw, hhv, hhq⟩ := hI.linv.sentT tv h
  exact ⟨d0, hd0, hp, hvw, by simp [repOfD, hhv, hhq]⟩

open EraVerif.Proofs.Crash (dur) in
/-- a durable state in phase `timeout` is recorded as a timeout vote, whether or not the vote has left the node -/
theorem durable_timeout_recorded {g : Global cfg} (ht : 1 ≤ cfg.c.total) (hr : GReach cfg (Byz byz) g)
    {i : Fin cfg.c.n} (hi : i ∉ byz) (h : (dur (g.sys i)).phase = .timeout) :
    (absG g).touts i (dur (g.sys i)).view (repOfD (dur (g.sys i))) := by
  have hI := (reach_inv ht hr).1 i hi
  cases hd : (g.sys i).d with
  | none => simp [dur, hd, initDurable] at h
  | some d =>
    have hl := hI.linv.last
    rw [hd] at hl
    have hdur : dur (g.sys i) = d := by simp [dur, hd]
    rw [hdur] at h ⊢
    exact ⟨d, List.mem_of_getLast? hl, h, rfl, rfl⟩

/-- conversely, every recorded vote is the high vote of a durable state the validator once wrote -/
theorem recorded_vote_was_durable {g : Global cfg} {i : Fin cfg.c.n} {u k h : ℕ}
    (hv : (absG g).votedAt i u = some (k, h)) :
    ∃ d ∈ g.hist i, ∃ v, d.highVote = some v ∧ v.view.number = u ∧ v.proposal.number = k ∧ v.proposal.payload = h := by
  have hv' : votedIn (g.hist i) u = some (k, h) := hv
  unfold votedIn at hv'
  simp only [Option.map_eq_some_iff, Prod.mk.injEq] at hv'
  obtain ⟨v, hf, hk, hh⟩ := hv'
  obtain ⟨d, hd, hdv⟩ := mem_votesOf.mp (List.mem_of_find?_eq_some hf)
  exact ⟨d, hd, v, hdv, by simpa using List.find?_some hf, hk, hh⟩

/-! ## 2. Agreement -/

/-- **Code-level agreement.** In every reachable state of the global system, two commit certificates accepted by
`CommitQC::verify` whose correct signers have signed what they are listed with (`AuthenticQC`: this is what
signature verification gives under unforgeability), for the same block number, are for the same payload. -/
theorem code_level_agreement {g : Global cfg} (ht : 1 ≤ cfg.c.total) (hb : wt (wF cfg.c) byz ≤ cfg.c.faulty)
    (hr : GReach cfg (Byz byz) g) {q1 q2 : CommitQC} (h1 : q1.verify cfg.c = true) (h2 : q2.verify cfg.c = true)
    (a1 : AuthenticQC (Byz byz) g q1) (a2 : AuthenticQC (Byz byz) g q2)
    (hn : q1.message.proposal.number = q2.message.proposal.number) :
    q1.message.proposal.payload = q2.message.proposal.payload := by
  have hP := global_reach_refines ht hr
  have c1 := verified_authentic_is_cert ht hr h1 a1
  have c2 := verified_authentic_is_cert ht hr h2 a2
  rw [hn] at c1
  exact Props.C01.agreement (by rw [total_wF]; exact ht) (by rw [faulty_wF]; exact hb) hP c1 c2

/-- signatures only accumulate along a run -/
theorem authenticQC_mono {g g' : Global cfg} (hs : Relation.ReflTransGen (GStep cfg (Byz byz)) g g') {q : CommitQC}
    (ha : AuthenticQC (Byz byz) g q) : AuthenticQC (Byz byz) g' q := by
  induction hs with
  | refl => exact ha
  | tail _ hbc ih =>
    cases hbc with
    | step i hi s' h' hst =>
      exact Sigs.mono_c (sigs_mono_set (byz := byz) (h' := h') hst.sent_mono).1 ih

theorem greach_trans {g g' : Global cfg} (hr : GReach cfg (Byz byz) g)
    (hs : Relation.ReflTransGen (GStep cfg (Byz byz)) g g') : GReach cfg (Byz byz) g' := by
  induction hs with
  | refl => exact hr
  | tail _ hbc ih => exact GReach.step ih hbc

/-- agreement over time: the two certificates may come into existence at different moments of the run -/
theorem code_level_agreement_over_time {g g' : Global cfg} (ht : 1 ≤ cfg.c.total)
    (hb : wt (wF cfg.c) byz ≤ cfg.c.faulty) (hr : GReach cfg (Byz byz) g)
    (hs : Relation.ReflTransGen (GStep cfg (Byz byz)) g g') {q1 q2 : CommitQC} (h1 : q1.verify cfg.c = true)
    (h2 : q2.verify cfg.c = true) (a1 : AuthenticQC (Byz byz) g q1) (a2 : AuthenticQC (Byz byz) g' q2)
    (hn : q1.message.proposal.number = q2.message.proposal.number) :
    q1.message.proposal.payload = q2.message.proposal.payload :=
  code_level_agreement ht hb (greach_trans hr hs) h1 h2 (authenticQC_mono hs a1) a2 hn

/-! ## 3. Blocks handed to the store -/

/-- in global state `g` a correct replica can emit `queueBlock n p _`: it is among the effects of the handler for
some deliverable input (the step may run to completion, or die after any prefix of the effects containing it) -/
def Emits (cfg : RCfg) (byz : Finset (Fin cfg.c.n)) (g : Global cfg) (n p : Nat) : Prop :=
  ∃ i, i ∉ byz ∧ ∃ (e : Env) (inp : Input) (q : CommitQC), (∀ b, inp ≠ .restart b) ∧ InputOk inp ∧
    (∀ m, inp = .msg m → Authentic (Byz byz) g m) ∧ Effect.queueBlock n p q ∈ (step cfg (g.sys i).r e inp).effs

/-- a block a correct replica hands to the store is certified: it comes with a verifying, authentic commit
certificate for exactly that number and payload -/
theorem emitted_block_certified {g : Global cfg} (ht : 1 ≤ cfg.c.total) (hr : GReach cfg (Byz byz) g) {n p : Nat}
    (he : Emits cfg byz g n p) :
    ∃ q : CommitQC, q.verify cfg.c = true ∧ AuthenticQC (Byz byz) g q ∧ q.message.proposal.number = n ∧
      q.message.proposal.payload = p := by
  obtain ⟨i, hi, e, inp, q, hin, hok, hau, hmem⟩ := he
  have hI := (reach_inv ht hr).1 i hi
  have hia : InpAuth (sigsOf (Byz byz) g) inp := by
    cases inp with
    | msg m => exact authentic_inpAuth m (hau m rfl)
    | tick => trivial
    | restart b => trivial
  have hsum := step_sum (cfg := cfg) e hI.linv.wf hI.ra hin hok hia
  obtain ⟨h1, h2, h3, h4⟩ := hsum.queue n p q hmem
  exact ⟨q, h1, h2, h3.symm, h4.symm⟩

/-- **Committed blocks agree.** Any two blocks handed to the store by correct replicas — by any replicas, at any
two moments of a global run — for the same block number carry the same payload. -/
theorem committed_blocks_agree {g g' : Global cfg} (ht : 1 ≤ cfg.c.total) (hb : wt (wF cfg.c) byz ≤ cfg.c.faulty)
    (hr : GReach cfg (Byz byz) g) (hs : Relation.ReflTransGen (GStep cfg (Byz byz)) g g') {n p1 p2 : Nat}
    (e1 : Emits cfg byz g n p1) (e2 : Emits cfg byz g' n p2) : p1 = p2 := by
  obtain ⟨q1, v1, a1, n1, rfl⟩ := emitted_block_certified ht hr e1
  obtain ⟨q2, v2, a2, n2, rfl⟩ := emitted_block_certified ht (greach_trans hr hs) e2
  exact code_level_agreement_over_time ht hb hr hs v1 v2 a1 a2 (n1.trans n2.symm)

end Main

/-! ## 4. Non-vacuity: a concrete global run (six validators of weight 1, validator 5 Byzantine)

All five correct validators time out in view 0; the timeout certificate `exTqc0` assembled from their votes is
authentic; each of them accepts the proposal of view 1 justified by it and votes for block `(0, 11)`; the commit
certificate `exQc1` of these votes verifies and is authentic in the reached state `g10`; validator 0, collecting the
five commit votes, hands block `(0, 11)` to the store. -/

namespace Ex
open EraVerif.Proofs.Crash.Ex
open EraVerif.Proofs.Crash (dur)

def exV (n : Nat) : View := { genesis := 0, epoch := 0, number := n }
def vi (k : Nat) (h : k < cfg.c.n := by decide) : Fin cfg.c.n := ⟨k, h⟩
def byzS : Finset (Fin cfg.c.n) := {vi 5}

def exTqc0 : TimeoutQC :=
  { view := exV 0, map := [(tv0, [true, true, true, true, true, false])],
    sig := [(0, tv0), (1, tv0), (2, tv0), (3, tv0), (4, tv0)] }
def propTmsg : Signed :=
  { msg := .proposal (some { id := 11, size := 10 }) (.timeout exTqc0), key := 1, sigOk := true }
def propT : Input := .msg propTmsg
def exVote1 : Vote := { view := exV 1, proposal := { number := 0, payload := 11 } }
def exQc1 : CommitQC :=
  { message := exVote1, signers := [true, true, true, true, true, false],
    sig := [(0, exVote1), (1, exVote1), (2, exVote1), (3, exVote1), (4, exVote1)] }

/-- a handler of validator `i` runs to completion (environment `Crash.Ex.env`) -/
def gRun (g : Global cfg) (i : Fin cfg.c.n) (inp : Input) : Global cfg :=
  g.set i (runStep (g.sys i) inp) (g.hist i ++ persists (step cfg (g.sys i).r env inp).effs)
/-- validator `i` dies behind the first `k` effects of a step and restarts -/
def gCrash (g : Global cfg) (i : Fin cfg.c.n) (inp : Input) (k : Nat) : Global cfg :=
  g.set i (crashStep (g.sys i) inp k) (g.hist i ++ persists ((step cfg (g.sys i).r env inp).effs.take k))

def g5 : Global cfg :=
  gRun (gRun (gRun (gRun (gRun (Global.init cfg) (vi 0) .tick) (vi 1) .tick) (vi 2) .tick) (vi 3) .tick) (vi 4) .tick
def g10 : Global cfg :=
  gRun (gRun (gRun (gRun (gRun g5 (vi 0) propT) (vi 1) propT) (vi 2) propT) (vi 3) propT) (vi 4) propT

/-- Boolean readings, so that the concrete facts below are checked by evaluation in the kernel -/
def accB : Outcome → Bool
  | .accepted => true
  | _ => false

theorem acc_of {o : Outcome} (h : accB o = true) : o = .accepted := by
  cases o <;> simp_all [accB]

def hasQueue (n p : Nat) (effs : List Effect) : Bool :=
  effs.any (fun x => match x with | .queueBlock a b _ => a == n && b == p | _ => false)

theorem hasQueue_sound {n p : Nat} {effs : List Effect} (h : hasQueue n p effs = true) :
    ∃ q, Effect.queueBlock n p q ∈ effs := by
  obtain ⟨x, hx, hp⟩ := List.any_eq_true.mp h
  cases x with
  | queueBlock a b q =>
    simp only [Bool.and_eq_true, beq_iff_eq] at hp
    obtain ⟨rfl, rfl⟩ := hp
    exact ⟨q, hx⟩
  | persist d => cases hp
  | send m => cases hp
  | notify j => cases hp

theorem gstep_run (g : Global cfg) (i : Fin cfg.c.n) (hi : i ∉ byzS) (inp : Input)
    (hin : ∀ b, inp ≠ .restart b) (hok : InputOk inp) (hok2 : InputOk2 inp)
    (hauth : ∀ m, inp = .msg m → Authentic (Byz byzS) g m)
    (hout : accB (step cfg (g.sys i).r env inp).out = true) : GStep cfg (Byz byzS) g (gRun g i inp) :=
  GStep.step g i hi _ _ (HStep.run (g.sys i) (g.hist i) env inp hin hok hok2 hauth (Or.inl (acc_of hout)))

theorem tick_ok {g : Global cfg} (hr : GReach cfg (Byz byzS) g) (i : Fin cfg.c.n) (hi : i ∉ byzS)
    (hout : accB (step cfg (g.sys i).r env .tick).out = true) : GReach cfg (Byz byzS) (gRun g i .tick) :=
  GReach.step hr (gstep_run g i hi .tick (by intro b h; cases h) trivial trivial (by intro m h; cases h) hout)

theorem g5_reach : GReach cfg (Byz byzS) g5 :=
  tick_ok (tick_ok (tick_ok (tick_ok (tick_ok GReach.init (vi 0) (by decide) (by decide +kernel))
    (vi 1) (by decide) (by decide +kernel)) (vi 2) (by decide) (by decide +kernel))
    (vi 3) (by decide) (by decide +kernel)) (vi 4) (by decide) (by decide +kernel)

/-- the proposal of view 1 is authentic as soon as the five correct validators have sent their timeout votes -/
theorem auth_propT (g : Global cfg) (h : ∀ k : Fin cfg.c.n, k.val < 5 → Msg.timeout tv0 ∈ (g.sys k).sent) :
    Authentic (Byz byzS) g propTmsg := by
  refine ⟨fun _ hne => absurd rfl (hne _ _), ?_⟩
  show AuthTQC _ exTqc0
  refine ⟨?_, ?_⟩
  · intro p hp
    simp only [exTqc0, List.mem_cons, List.not_mem_nil, or_false] at hp
    rcases hp with rfl | rfl | rfl | rfl | rfl <;> (intro hk _; exact h ⟨_, hk⟩ (by simp))
  · intro e he cq hcq
    simp only [exTqc0, List.mem_singleton] at he
    subst he
    cases hcq

theorem propT_ok2 : InputOk2 propT := by
  show JustNoWrap (.timeout exTqc0)
  refine ⟨by decide, ?_⟩
  intro e he cq hcq
  simp only [exTqc0, List.mem_singleton] at he
  subst he
  cases hcq

theorem prop_step (g : Global cfg) (i : Fin cfg.c.n) (hi : i ∉ byzS)
    (h : ∀ k : Fin cfg.c.n, k.val < 5 → Msg.timeout tv0 ∈ (g.sys k).sent)
    (hout : accB (step cfg (g.sys i).r env propT).out = true) : GStep cfg (Byz byzS) g (gRun g i propT) :=
  gstep_run g i hi propT (by intro b h; cases h) trivial propT_ok2
    (by intro m hm; cases hm; exact auth_propT g h) hout

theorem g10_reach : GReach cfg (Byz byzS) g10 :=
  .step (.step (.step (.step (.step g5_reach
    (prop_step _ (vi 0) (by decide) (by decide +kernel) (by decide +kernel)))
    (prop_step _ (vi 1) (by decide) (by decide +kernel) (by decide +kernel)))
    (prop_step _ (vi 2) (by decide) (by decide +kernel) (by decide +kernel)))
    (prop_step _ (vi 3) (by decide) (by decide +kernel) (by decide +kernel)))
    (prop_step _ (vi 4) (by decide) (by decide +kernel) (by decide +kernel))

/-- the hypotheses on the committee and the Byzantine set are met -/
theorem ex_hyps : 1 ≤ cfg.c.total ∧ wt (wF cfg.c) byzS ≤ cfg.c.faulty := by
  refine ⟨by decide, ?_⟩
  have : wt (wF cfg.c) byzS = 1 := by
    rw [wt, byzS, Finset.sum_singleton]
    rfl
  rw [this]
  decide

/-- the hypotheses of `simulation`: a reachable state and a step from it that writes a vote -/
example : GReach cfg (Byz byzS) g5 ∧ GStep cfg (Byz byzS) g5 (gRun g5 (vi 0) propT) :=
  ⟨g5_reach, prop_step _ (vi 0) (by decide) (by decide +kernel) (by decide +kernel)⟩

/-- that step is matched by a real Layer-P vote: afterwards validator 0 has voted `(0, 11)` in view 1 -/
example : (absG g5).votedAt (vi 0) 1 = none ∧ (absG (gRun g5 (vi 0) propT)).votedAt (vi 0) 1 = some (0, 11) := by
  decide +kernel

/-- the hypotheses of `code_level_agreement` are met in the reachable state `g10` by a certificate that verifies and
is authentic -/
theorem exQc1_ok : exQc1.verify cfg.c = true ∧ AuthenticQC (Byz byzS) g10 exQc1 := by
  refine ⟨by decide, ?_⟩
  have hall : ∀ k : Fin cfg.c.n, k.val < 5 → Msg.commit exVote1 ∈ (g10.sys k).sent := by decide +kernel
  intro p hp
  simp only [exQc1, List.mem_cons, List.not_mem_nil, or_false] at hp
  rcases hp with rfl | rfl | rfl | rfl | rfl <;> (intro hk _; exact hall ⟨_, hk⟩ (by simp))

example : exQc1.message.proposal.payload = 11 := rfl

/-- hence (by `verified_authentic_is_cert`) block `(0, 11)` is certified at Layer P in `absG g10` -/
example : Cert (wF cfg.c) byzS (absG g10).st 1 0 11 :=
  verified_authentic_is_cert ex_hyps.1 g10_reach exQc1_ok.1 exQc1_ok.2

/-! ### a block is handed to the store -/

def cm (k : Nat) : Input := .msg { msg := .commit exVote1, key := k, sigOk := true }

/-- validator 0 has received the commit votes of validators 0–3 -/
def g14 : Global cfg := gRun (gRun (gRun (gRun g10 (vi 0) (cm 0)) (vi 0) (cm 1)) (vi 0) (cm 2)) (vi 0) (cm 3)

theorem auth_cm (g : Global cfg) (k : Fin cfg.c.n) (h : Msg.commit exVote1 ∈ (g.sys k).sent) :
    Authentic (Byz byzS) g { msg := .commit exVote1, key := k.val, sigOk := true } :=
  ⟨fun _ _ _ _ => h, trivial⟩

theorem cm_step (g : Global cfg) (k : Fin cfg.c.n) (h : Msg.commit exVote1 ∈ (g.sys k).sent)
    (hout : accB (step cfg (g.sys (vi 0)).r env (cm k.val)).out = true) :
    GStep cfg (Byz byzS) g (gRun g (vi 0) (cm k.val)) :=
  gstep_run g (vi 0) (by decide) (cm k.val) (by intro b h; cases h) (by show (1 : Nat) + 1 < 2 ^ 64; decide) trivial
    (by intro m hm; cases hm; exact auth_cm g k h) hout

theorem g14_reach : GReach cfg (Byz byzS) g14 :=
  .step (.step (.step (.step g10_reach
    (cm_step _ (vi 0) (by decide +kernel) (by decide +kernel)))
    (cm_step _ (vi 1) (by decide +kernel) (by decide +kernel)))
    (cm_step _ (vi 2) (by decide +kernel) (by decide +kernel)))
    (cm_step _ (vi 3) (by decide +kernel) (by decide +kernel))

def env' : Env := { queuedFirst := 0, persistedNext := 0, payloadOk := true, storeNext := 0 }

/-- the fifth vote completes the certificate and the block `(0, 11)` goes to the store: `Emits` is inhabited -/
theorem ex_emits : Emits cfg byzS g14 0 11 := by
  obtain ⟨q, hq⟩ := hasQueue_sound (n := 0) (p := 11) (effs := (step cfg (g14.sys (vi 0)).r env' (cm 4)).effs)
    (by decide +kernel)
  refine ⟨vi 0, by decide, env', cm 4, q, (by intro b h; cases h), (by show (1 : Nat) + 1 < 2 ^ 64; decide), ?_, hq⟩
  intro m hm
  cases hm
  exact auth_cm g14 (vi 4) (by decide +kernel)

/-! ## 5. Why the history variable

The planned abstraction — "a commit vote of validator `i` is recorded iff `i` has sent it or it is `i`'s current
durable high vote" — is a function of `sys` alone (`absG0`). It is **not** monotone, so it cannot be a refinement
mapping into Layer P, where recorded votes are never retracted (`step_keeps_votes`):

* run: the five correct validators time out in view 0 (`g5`); validator 0 handles the proposal of view 1 and **dies
  between `set_state` and the broadcast** (`h6`: its vote `(0, 11)` is durable, nothing was sent); validators 1–4
  vote; the commit certificate `exQc1'` of validators 1–5 (5 is Byzantine) verifies and is authentic (`h10`);
  validator 0, restarted, accepts the proposal of view 2 justified by it and votes `(1, 22)` (`h11`);
* in `h10` the vote of view 1 is validator 0's durable high vote: `absG0` records it (and it matters: a timeout vote
  sent from that state reports it); in `h11` it was overwritten and never sent: `absG0` has forgotten it.

The history variable `hist` of `Model/Global.lean` repairs exactly this; it is a ghost (`GStep.hist_irrelevant`). -/

def recorded0 (s : Sys) : List Vote :=
  s.sent.filterMap (fun m => match m with | .commit v => some v | _ => none) ++ (dur s).highVote.toList

def votedAt0 (s : Sys) (u : ℕ) : Option (ℕ × ℕ) :=
  ((recorded0 s).find? (fun v => v.view.number == u)).map (fun v => (v.proposal.number, v.proposal.payload))

def touts0 (s : Sys) (t : ℕ) (rep : Rep) : Prop :=
  (∃ tv, Msg.timeout tv ∈ s.sent ∧ tv.view.number = t ∧
    rep = ⟨tv.highVote.map refOfVote, tv.highQC.map refOfQC⟩) ∨
  ((dur s).phase = .timeout ∧ (dur s).view = t ∧ rep = repOfD (dur s))

/-- the abstraction without history: recorded = sent or currently durable -/
def absG0 {cfg : RCfg} (g : Global cfg) : PState (Fin cfg.c.n) where
  votedAt i u := votedAt0 (g.sys i) u
  touts i t rep := touts0 (g.sys i) t rep
  view i := (dur (g.sys i)).view
  phase i := absPh (dur (g.sys i)).phase
  highVote i := (dur (g.sys i)).highVote.map refOfVote
  highQC i := (dur (g.sys i)).highCommitQC.map refOfQC

/-- no Layer-P step retracts a recorded vote (no hypothesis on the states) -/
theorem step_keeps_votes {ι : Type} [Fintype ι] [DecidableEq ι] {w : ι → ℕ} {bz : Finset ι} {first : ℕ}
    {s s' : PState ι} (hs : Relation.ReflTransGen (Step w bz first) s s') (i : ι) (u : ℕ)
    (h : (s.votedAt i u).isSome) : (s'.votedAt i u).isSome := by
  induction hs with
  | refl => exact h
  | tail _ hbc ih =>
    cases hbc with
    | voteCommit j hj c h' hc hcan =>
      simp only [PState.recordVote]
      split
      · rfl
      · exact ih
    | voteTimeout j hj q k' oh h' hv him hconf hcan hq' hhq =>
      simp only [PState.recordVote]
      split
      · rfl
      · exact ih
    | timeout j hj => exact ih
    | advance j hj v hv => exact ih
    | learn j hj c hc => exact ih

def h6 : Global cfg := gCrash g5 (vi 0) propT 1
def h10 : Global cfg := gRun (gRun (gRun (gRun h6 (vi 1) propT) (vi 2) propT) (vi 3) propT) (vi 4) propT
def exQc1' : CommitQC :=
  { message := exVote1, signers := [false, true, true, true, true, true],
    sig := [(1, exVote1), (2, exVote1), (3, exVote1), (4, exVote1), (5, exVote1)] }
def propCmsg : Signed :=
  { msg := .proposal (some { id := 22, size := 10 }) (.commit exQc1'), key := 2, sigOk := true }
def propC : Input := .msg propCmsg
def h11 : Global cfg := gRun h10 (vi 0) propC

theorem h6_reach : GReach cfg (Byz byzS) h6 :=
  GReach.step g5_reach (GStep.step g5 (vi 0) (by decide) _ _
    (HStep.crash (g5.sys (vi 0)) (g5.hist (vi 0)) env propT (by intro b h; cases h) trivial propT_ok2
      (by intro m hm; cases hm; exact auth_propT g5 (by decide +kernel)) 1))

theorem h10_reach : GReach cfg (Byz byzS) h10 :=
  .step (.step (.step (.step h6_reach
    (prop_step _ (vi 1) (by decide) (by decide +kernel) (by decide +kernel)))
    (prop_step _ (vi 2) (by decide) (by decide +kernel) (by decide +kernel)))
    (prop_step _ (vi 3) (by decide) (by decide +kernel) (by decide +kernel)))
    (prop_step _ (vi 4) (by decide) (by decide +kernel) (by decide +kernel))

theorem h10_step : GStep cfg (Byz byzS) h10 h11 := by
  refine gstep_run h10 (vi 0) (by decide) propC (by intro b h; cases h) trivial ?_ ?_ (by decide +kernel)
  · show JustNoWrap (.commit exQc1')
    exact ⟨by decide, by decide⟩
  · intro m hm
    cases hm
    refine ⟨fun _ hne => absurd rfl (hne _ _), ?_⟩
    show AuthCQC _ exQc1'
    intro p hp
    simp only [exQc1', List.mem_cons, List.not_mem_nil, or_false] at hp
    have hall : ∀ k : Fin cfg.c.n, 1 ≤ k.val → k.val < 5 → Msg.commit exVote1 ∈ (h10.sys k).sent := by
      decide +kernel
    rcases hp with rfl | rfl | rfl | rfl | rfl
    · intro hk _; exact hall ⟨_, hk⟩ (by simp) (by simp)
    · intro hk _; exact hall ⟨_, hk⟩ (by simp) (by simp)
    · intro hk _; exact hall ⟨_, hk⟩ (by simp) (by simp)
    · intro hk _; exact hall ⟨_, hk⟩ (by simp) (by simp)
    · intro hk hb
      exact absurd (show vi 5 ∈ byzS by decide) hb

/-- **The abstraction without history is not a refinement mapping.** `h10` is reachable, `h10 → h11` is a step of
the global system, the certificate used is verifying and authentic — and no sequence of Layer-P steps leads from
`absG0 h10` to `absG0 h11`: validator 0's vote of view 1 is recorded in the former and not in the latter. -/
theorem literal_abstraction_fails :
    GReach cfg (Byz byzS) h10 ∧ GStep cfg (Byz byzS) h10 h11 ∧
    (absG0 h10).votedAt (vi 0) 1 = some (0, 11) ∧ (absG0 h11).votedAt (vi 0) 1 = none ∧
    ¬ Relation.ReflTransGen (Step (wF cfg.c) byzS cfg.c.first) (absG0 h10) (absG0 h11) := by
  have e1 : (absG0 h10).votedAt (vi 0) 1 = some (0, 11) := by decide +kernel
  have e2 : (absG0 h11).votedAt (vi 0) 1 = none := by decide +kernel
  refine ⟨h10_reach, h10_step, e1, e2, fun hs => ?_⟩
  have := step_keeps_votes hs (vi 0) 1 (by rw [e1]; rfl)
  rw [e2] at this
  cases this

/-- with the history the same step is matched (instance of `simulation`), and the vote of view 1 stays recorded -/
example : Relation.ReflTransGen (Step (wF cfg.c) byzS cfg.c.first) (absG h10) (absG h11) ∧
    (absG h10).votedAt (vi 0) 1 = some (0, 11) ∧ (absG h11).votedAt (vi 0) 1 = some (0, 11) ∧
    (absG h11).votedAt (vi 0) 2 = some (1, 22) :=
  ⟨simulation ex_hyps.1 h10_reach h10_step, by decide +kernel, by decide +kernel, by decide +kernel⟩

end Ex

end EraVerif.Props.C01r
