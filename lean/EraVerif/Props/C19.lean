import EraVerif.Proofs.Fetch
import EraVerif.Proofs.FetchNode

/-!
# C19 — Block fetch requests are never lost and go only to peers that have the block

> Every block a node asks its peers for stays requested until it has been stored or the requester gives up: if the
> peer it was handed to fails, times out or disconnects, the request becomes available to other peers again. A
> request is handed to one peer connection at a time, lowest missing block first, and only to a peer that has
> announced that it stores that block.

All theorems are about the labelled transition system `Model.Fetch.step?` (one event = one critical section of
`gossip/fetch.rs` or one action of the environment) and hold for **every reachable state / every run**: any number of
peers, blocks, requests, any interleaving (`RunTo h s`: `s` is reached from the initial state, `h` lists the states
visited on the way, most recent first). The watch channel's version counter and every oneshot channel are explicit in
the state.

The second half (section "The acceptor") composes the queue with the consumer of `accept_block`, the per-connection
`get_block` task of `gossip/runner.rs`, and with the store (`Model/FetchNode.lean`): there `succeed` / `fail` are no
longer moves of the environment, and "completed only if queued" and "every failure path re-queues" are theorems.

"Lowest missing block first" is proved in the form the code can guarantee: the block handed over **was the lowest
requested block when the acceptor sampled the map**, and the acceptor's sample is stale only while a wake-up for it is
pending (`sample_current_or_wakeup_pending`). A lower request inserted concurrently, after the sample, can be
overtaken; `accept_may_overtake_concurrent_lower_request` is the witness, so the stronger reading ("lowest at the
instant of the hand-over") is false for this code.
-/

namespace EraVerif.Props.C19
open EraVerif.Model.Fetch EraVerif.Proofs.Fetch

/-- `s` is reachable from the initial state by some interleaving of events. -/
def Reach (s : State) : Prop := ∃ h, RunTo h s

/-- No future of the queue can make a step (the runtime is idle). -/
def Idle (s : State) : Prop := ∀ e : Event, e.isInternal = true → step? s e = none

/-! ## A request is never lost -/

/-- **request_never_lost.** In every reachable state, every live request for a block `n` is in exactly one of these
situations: (a) its channel's sender is the map's entry for `n` and no connection holds it — the request is on offer;
(b) exactly one connection holds it and the map does not offer it; (c) it has not inserted itself yet, or its holder
dropped the sender: then the (re-)insertion step is enabled and puts `n` into the map; (d) its holder reported
success: then the request is about to return `Ok(())`. -/
theorem request_never_lost (s : State) (hr : Reach s) (n : Nat) (r : Req) (hn : aget s.reqs n = some r) :
    (∃ ch, r.st = .waiting ch ∧
        ((aget s.map n = some ch ∧ ∀ h hd, aget s.holds h = some hd → hd.chan ≠ ch) ∨
         (aget s.map n ≠ some ch ∧ ∃ h hd, aget s.holds h = some hd ∧ hd.chan = ch ∧ hd.num = n ∧
            ∀ h' hd', aget s.holds h' = some hd' → hd'.chan = ch → h' = h)))
    ∨ ((r.st = .starting ∨ r.st = .resolved false) ∧
        ∃ s', step? s (.reqInsert n) = some (s', none) ∧ (aget s'.map n).isSome = true ∧
          ∃ r', aget s'.reqs n = some r' ∧ ∃ ch, r'.st = .waiting ch)
    ∨ (r.st = .resolved true ∧ ∃ s', step? s (.reqDone n) = some (s', some (.done n))) := by
  obtain ⟨h, run⟩ := hr
  have hi := run.inv
  obtain ⟨rst, rc⟩ := r
  have ins : ∀ (_ : rst = .starting ∨ rst = .resolved false),
      ∃ s', step? s (.reqInsert n) = some (s', none) ∧ (aget s'.map n).isSome = true ∧
          ∃ r', aget s'.reqs n = some r' ∧ ∃ ch, r'.st = .waiting ch := by
    intro hst
    refine ⟨doInsert s n rc, ?_, ?_, ⟨.waiting s.nextChan, rc⟩, ?_, s.nextChan, rfl⟩
    · rcases hst with rfl | rfl <;> simp [step?, hn]
    · simp [doInsert, aget_aput]
    · simp [doInsert, aget_aput]
  cases rst with
  | starting => exact Or.inr (Or.inl ⟨Or.inl rfl, ins (Or.inl rfl)⟩)
  | resolved ok =>
    cases ok with
    | false => exact Or.inr (Or.inl ⟨Or.inr rfl, ins (Or.inr rfl)⟩)
    | true => exact Or.inr (Or.inr ⟨rfl, { s with reqs := adel s.reqs n }, by simp [step?, hn]⟩)
  | waiting ch =>
    refine Or.inl ⟨ch, rfl, ?_⟩
    rcases hi.live n _ ch hn rfl with hm | ⟨h0, hd0, hh0, hc0, hn0⟩
    · exact Or.inl ⟨hm, fun h hd hh => hi.disj n ch h hd hm hh⟩
    · refine Or.inr ⟨?_, h0, hd0, hh0, hc0, hn0, ?_⟩
      · intro hm; exact hi.disj n ch h0 hd0 hm hh0 hc0
      · intro h' hd' hh' hc'; exact hi.hold_inj h' h0 hd' hd0 hh' hh0 (by rw [hc', hc0])

/-- **stays_requested.** A live request stays live across every step except its own return: `Ok(())`, which needs a
holder's success report (`resolved true`), or `Err(Canceled)`, which needs the requester's own cancellation. -/
theorem stays_requested (s s' : State) (e : Event) (o : Option Vis) (n : Nat) (r : Req)
    (hs : step? s e = some (s', o)) (hn : aget s.reqs n = some r) :
    (aget s'.reqs n).isSome = true
    ∨ (e = .reqDone n ∧ r.st = .resolved true ∧ o = some (.done n))
    ∨ (e = .reqCancel n ∧ r.cancelled = true ∧ o = some (.cancelled n)) :=
  req_survives s s' e o n r hs hn

/-- **failed_hold_is_offered_again.** If the connection holding a live request drops the sender (failure, timeout,
disconnect), the requester is woken with `Disconnected`, its re-insertion step is enabled, and after it the block is
in the map again under a fresh channel — available to every acceptor. -/
theorem failed_hold_is_offered_again (s : State) (hr : Reach s) (h : Nat) (hd : Hold) (r : Req)
    (hh : aget s.holds h = some hd) (hn : aget s.reqs hd.num = some r) (hw : r.st = .waiting hd.chan) :
    ∃ s1, step? s (.fail h) = some (s1, none) ∧ aget s1.holds h = none ∧
      aget s1.reqs hd.num = some ⟨.resolved false, r.cancelled⟩ ∧
      ∃ s2, step? s1 (.reqInsert hd.num) = some (s2, none) ∧ aget s2.map hd.num = some s1.nextChan ∧
        aget s2.reqs hd.num = some ⟨.waiting s1.nextChan, r.cancelled⟩ ∧
        (∀ h' hd', aget s2.holds h' = some hd' → hd'.chan ≠ s1.nextChan) := by
  obtain ⟨hist, run⟩ := hr
  have hi := run.inv
  let s1 : State := { s with holds := adel s.holds h, reqs := resolveChan s.reqs hd.chan false }
  have hs1 : step? s (.fail h) = some (s1, none) := by simp [step?, doResolve, hh, s1]
  have hr1 : aget s1.reqs hd.num = some ⟨.resolved false, r.cancelled⟩ := by
    simp [s1, aget_resolveChan, hn, hw]
  refine ⟨s1, hs1, by simp [s1, aget_adel], hr1, doInsert s1 hd.num r.cancelled, ?_, ?_, ?_, ?_⟩
  · simp [step?, hr1]
  · simp [doInsert, aget_aput]
  · simp [doInsert, aget_aput]
  · intro h' hd' hh' hc
    have hh'' : aget s1.holds h' = some hd' := by simpa [doInsert] using hh'
    simp only [s1, aget_adel] at hh''
    split at hh''
    · cases hh''
    · have := (hi.fresh_hold h' hd' hh'').1
      simp [s1] at hc; omega

/-! ## One holder at a time -/

/-- **single_holder.** In every reachable state the senders are in pairwise distinct places: two map entries, two
holds, or a map entry and a hold never carry the same channel. Hence a request (one channel per insertion) is on offer
or held by one connection, never both, never by two. -/
theorem single_holder (s : State) (hr : Reach s) :
    (∀ n n' ch, aget s.map n = some ch → aget s.map n' = some ch → n = n') ∧
    (∀ h h' hd hd', aget s.holds h = some hd → aget s.holds h' = some hd' → hd.chan = hd'.chan → h = h') ∧
    (∀ n ch h hd, aget s.map n = some ch → aget s.holds h = some hd → hd.chan ≠ ch) := by
  obtain ⟨h, run⟩ := hr
  exact ⟨run.inv.map_inj, run.inv.hold_inj, run.inv.disj⟩

/-- **insert_never_overrides.** `BTreeMap::insert` in `request` never replaces an entry (the documented "second call
overrides the first" cannot happen with one requester per block number). -/
theorem insert_never_overrides (s : State) (hr : Reach s) (n : Nat) (x : State × Option Vis)
    (hs : step? s (.reqInsert n) = some x) : aget s.map n = none := by
  obtain ⟨h, run⟩ := hr
  have hi := run.inv
  cases hm : aget s.map n with
  | none => rfl
  | some ch =>
    obtain ⟨r, hr, hst⟩ := hi.owner n ch hm
    simp only [step?, hr] at hs
    obtain ⟨rst, rc⟩ := r
    simp only at hst; subst hst
    simp at hs

/-- `x.first_key_value().unwrap()` in the insertion closure of `request` cannot panic: the map is non-empty right
after the insertion. -/
theorem insert_unwrap_never_panics (m : List (Nat × Nat)) (n ch : Nat) : minKey (aput m n ch) ≠ none := by
  intro h
  have h0 := (minKey_eq_none _).mp h
  have : aget (aput m n ch) n = some ch := by rw [aget_aput]; simp
  rw [h0] at this; simp [aget] at this

/-- **map_entries_are_live_requests.** Every block the queue offers belongs to a live request that waits on exactly
that channel (completion and cancellation leave nothing behind). -/
theorem map_entries_are_live_requests (s : State) (hr : Reach s) (n ch : Nat) (hm : aget s.map n = some ch) :
    ∃ r, aget s.reqs n = some r ∧ r.st = .waiting ch := by
  obtain ⟨h, run⟩ := hr
  exact run.inv.owner n ch hm

/-! ## Only to a peer that announced the block, lowest sampled block first -/

/-- **accepted_only_if_announced_and_sampled_minimum.** Whenever `accept_block` of connection `p` returns block `n`,
the run contains an earlier state `s2` in which `p` was waiting for `n` and `p`'s announced range contained `n`
(`wait_for(|a| a.contains(n))` fired there), and before that a state `s1` in which `p` stood at its sampling point and
`n` was the lowest requested block (`borrow_and_update().first_key_value()` returned `n` there). -/
theorem accepted_only_if_announced_and_sampled_minimum (h : List State) (s s' : State) (p n hid : Nat)
    (run : RunTo h s) (hs : step? s (.accRemove p) = some (s', some (.accepted p n hid))) :
    ∃ post s2 pre, h = post ++ s2 :: pre ∧ AvailWit p n s2 ∧ ∃ s1 ∈ pre, SampleWit p n s1 := by
  simp only [step?] at hs
  split at hs
  · rename_i n0 c ha
    split at hs
    · simp only [Option.some.injEq, Prod.mk.injEq, Vis.accepted.injEq] at hs
      obtain ⟨_, _, hn, _⟩ := hs
      subst hn
      exact (run.hist p _ ha).2 _ rfl
    · simp at hs
  · cases hs

/-- The block handed over is taken out of the map by the same atomic step that creates the hold. -/
theorem accept_removes_atomically (s s' : State) (p n hid : Nat)
    (hs : step? s (.accRemove p) = some (s', some (.accepted p n hid))) :
    (∃ ch, aget s.map n = some ch ∧ aget s'.holds hid = some ⟨p, n, ch⟩) ∧ aget s'.map n = none ∧
      aget s'.accs p = none := by
  simp only [step?] at hs
  split at hs
  · split at hs
    · rename_i ch hm
      simp at hs
      obtain ⟨rfl, rfl, rfl, rfl⟩ := hs
      exact ⟨⟨ch, hm, by simp [aget_aput]⟩, by simp [aget_adel], by simp [aget_adel]⟩
    · simp at hs
  · cases hs

/-- **sample_current_or_wakeup_pending.** In every reachable state, an acceptor whose receiver has seen the current
version of the map watches the current minimum (or the map is empty); otherwise `sync::changed` is enabled for it. So
a sample is stale only while a wake-up is pending. -/
theorem sample_current_or_wakeup_pending (s : State) (hr : Reach s) (p : Nat) (m : Option Nat) (seen : Nat)
    (c : Bool) (ha : aget s.accs p = some ⟨.watch m seen, c⟩) :
    (seen = s.ver ∧ (minKey s.map = none ∨ minKey s.map = m)) ∨
    (seen < s.ver ∧ step? s (.accChanged p) = some ({ s with accs := aput s.accs p ⟨.sample, c⟩ }, none)) := by
  obtain ⟨h, run⟩ := hr
  obtain ⟨hle, heq⟩ := run.inv.ver_inv p _ m seen ha rfl
  by_cases hv : seen = s.ver
  · exact Or.inl ⟨hv, heq hv⟩
  · exact Or.inr ⟨by omega, by simp [step?, ha, hv]⟩

/-- With a current sample, the block the acceptor waits for **is** the lowest requested block as long as it is
requested at all. -/
theorem watched_is_current_minimum (s : State) (hr : Reach s) (p n : Nat) (c : Bool)
    (ha : aget s.accs p = some ⟨.watch (some n) s.ver, c⟩) (hm : (aget s.map n).isSome = true) :
    minKey s.map = some n := by
  rcases sample_current_or_wakeup_pending s hr p (some n) s.ver c ha with ⟨_, h | h⟩ | ⟨hlt, _⟩
  · have := (minKey_eq_none _).mp h
    rw [this] at hm; simp [aget] at hm
  · exact h
  · omega

/-- **accept_may_overtake_concurrent_lower_request** (the strict reading fails). Connection 0 samples the minimum 5;
then a request for 4 is inserted and peer 0 announces 4..5 before the acceptor's pending wake-up is served; the
availability wait fires first and block 5 is handed over although 4 is requested, lower, and announced by the same
peer. -/
theorem accept_may_overtake_concurrent_lower_request :
    ∃ s0 s s', exec? State.init [.startAcc 0, .spawnReq 5, .reqInsert 5, .accSample 0, .spawnReq 4, .reqInsert 4,
        .announce 0 4 (some 5)] = some s0 ∧
      -- the acceptor's wake-up is pending, but the availability wait is enabled too and is served first
      step? s0 (.accChanged 0) ≠ none ∧
      step? s0 (.accAvail 0) = some (s, none) ∧
      step? s (.accRemove 0) = some (s', some (.accepted 0 5 0)) ∧
      minKey s.map = some 4 ∧ (s.availOf 0).contains 4 = true := by
  refine ⟨_, _, _, rfl, by decide, rfl, rfl, by decide, by decide⟩

/-! ## No lost wake-up -/

/-- `Model.Fetch.quiescent` (what the driver evaluates at the end of every step) is `Idle`. -/
theorem quiescent_iff_idle (s : State) : quiescent s = true ↔ Idle s := by
  constructor
  · intro hq e he
    simp only [quiescent, List.all_eq_true, Option.isNone_iff_eq_none] at hq
    have hreq : ∀ n, aget s.reqs n = none ∨ n ∈ akeys s.reqs := by
      intro n; cases hn : aget s.reqs n with
      | none => exact Or.inl rfl
      | some r => exact Or.inr (mem_akeys_of_aget _ _ _ hn)
    have hacc : ∀ p, aget s.accs p = none ∨ p ∈ akeys s.accs := by
      intro n; cases hn : aget s.accs n with
      | none => exact Or.inl rfl
      | some r => exact Or.inr (mem_akeys_of_aget _ _ _ hn)
    cases e with
    | spawnReq _ | cancelReq _ | startAcc _ | cancelAcc _ | announce _ _ _ | succeed _ | fail _ => simp [Event.isInternal] at he
    | reqInsert n | reqDone n | reqCancel n =>
      rcases hreq n with h | h
      · simp [step?, h]
      · apply hq; simp only [internalEvents, List.mem_append, List.mem_flatMap]; exact Or.inl ⟨n, h, by simp⟩
    | accSample p | accChanged p | accAvail p | accRemove p | accAbort p =>
      rcases hacc p with h | h
      · simp [step?, h]
      · apply hq; simp only [internalEvents, List.mem_append, List.mem_flatMap]; exact Or.inr ⟨p, h, by simp⟩
  · intro hi
    simp only [quiescent, List.all_eq_true, Option.isNone_iff_eq_none]
    intro e he
    apply hi
    simp only [internalEvents, List.mem_append, List.mem_flatMap] at he
    rcases he with ⟨n, _, hn⟩ | ⟨p, _, hp⟩
    · simp at hn; rcases hn with rfl | rfl | rfl <;> rfl
    · simp at hp; rcases hp with rfl | rfl | rfl | rfl | rfl <;> rfl

/-- **no_lost_wakeup.** In every reachable state in which no future can run, (1) no connection sitting in
`accept_block` has announced the lowest requested block, and every such connection has sampled the current map; (2)
every live request is suspended on a channel (none is waiting to insert itself, to return, or to observe its
cancellation) — so by `request_never_lost` each is on offer or held by exactly one connection. -/
theorem no_lost_wakeup (s : State) (hr : Reach s) (hq : Idle s) :
    (∀ p a, aget s.accs p = some a →
      (∃ m, a.st = .watch m s.ver ∧ (minKey s.map = none ∨ minKey s.map = m)) ∧
      ∀ n, minKey s.map = some n → (s.availOf p).contains n = false) ∧
    (∀ n r, aget s.reqs n = some r → r.cancelled = false ∧ ∃ ch, r.st = .waiting ch) := by
  obtain ⟨h, run⟩ := hr
  have hi := run.inv
  constructor
  · intro p a ha
    obtain ⟨ast, ac⟩ := a
    cases ast with
    | sample =>
      exfalso
      cases ac with
      | false => have := hq (.accSample p) rfl; simp [step?, ha] at this
      | true => have := hq (.accAbort p) rfl; simp [step?, ha] at this
    | got n => exfalso; have := hq (.accRemove p) rfl; simp only [step?, ha] at this; split at this <;> simp at this
    | watch m seen =>
      have hv : seen = s.ver := by
        have := hq (.accChanged p) rfl
        simp only [step?, ha] at this
        by_cases hv : seen = s.ver
        · exact hv
        · simp [hv] at this
      subst hv
      have hmin := (hi.ver_inv p _ m _ ha rfl).2 rfl
      refine ⟨⟨m, rfl, hmin⟩, ?_⟩
      intro n hn
      rcases hmin with h0 | h0
      · rw [hn] at h0; cases h0
      · rw [hn] at h0; subst h0
        have := hq (.accAvail p) rfl
        simp only [step?, ha] at this
        cases hc : (s.availOf p).contains n with
        | false => rfl
        | true => simp [hc] at this
  · intro n r hn
    obtain ⟨rst, rc⟩ := r
    cases rst with
    | starting => exfalso; have := hq (.reqInsert n) rfl; simp [step?, hn] at this
    | resolved ok =>
      exfalso
      cases ok with
      | false => have := hq (.reqInsert n) rfl; simp [step?, hn] at this
      | true => have := hq (.reqDone n) rfl; simp [step?, hn] at this
    | waiting ch =>
      refine ⟨?_, ch, rfl⟩
      cases rc with
      | false => rfl
      | true => exfalso; have := hq (.reqCancel n) rfl; simp [step?, hn] at this

/-! ## Cancellation -/

/-- **cancel_removes.** When a request observes its cancellation, its map entry (if any) and the request itself are
gone after the same atomic step, nothing else in the map changes, and the step is enabled whenever a cancelled request
is suspended. A sender still held by a connection becomes inert: resolving it changes no requester. -/
theorem cancel_removes (s s' : State) (n : Nat) (o : Option Vis) (hs : step? s (.reqCancel n) = some (s', o)) :
    aget s'.map n = none ∧ aget s'.reqs n = none ∧ o = some (.cancelled n) ∧
    (∀ m, m ≠ n → aget s'.map m = aget s.map m) ∧ s'.holds = s.holds := by
  simp only [step?] at hs
  split at hs <;> cases hs <;> simp [doCancel, aget_adel] <;> grind

theorem cancel_enabled (s : State) (n ch : Nat) (hn : aget s.reqs n = some ⟨.waiting ch, true⟩) :
    step? s (.reqCancel n) = some (doCancel s n, some (.cancelled n)) := by
  simp [step?, hn]

/-- After the requester is gone (or has re-inserted itself under a new channel), resolving the stale hold — success
or failure — wakes nobody: no requester's state changes. -/
theorem stale_hold_is_inert (s s1 : State) (hr : Reach s) (h : Nat) (hd : Hold) (ok : Bool)
    (hh : aget s.holds h = some hd) (hgone : ∀ r, aget s.reqs hd.num = some r → r.st ≠ .waiting hd.chan)
    (hs : doResolve s h ok = some s1) :
    (∀ m, aget s1.reqs m = aget s.reqs m) ∧ s1.map = s.map ∧ s1.ver = s.ver := by
  obtain ⟨hist, run⟩ := hr
  have hi := run.inv
  simp only [doResolve, hh, Option.some.injEq] at hs
  subst hs
  refine ⟨?_, rfl, rfl⟩
  intro m
  simp only [aget_resolveChan]
  cases hm : aget s.reqs m with
  | none => rfl
  | some r =>
    have : r.st ≠ .waiting hd.chan := by
      intro hw
      rcases hi.live m r hd.chan hm hw with hmap | ⟨h', hd', hh', hc', hn'⟩
      · exact hi.disj m hd.chan h hd hmap hh rfl
      · have := hi.hold_inj h' h hd' hd hh' hh hc'
        subst this; rw [hh] at hh'; cases hh'
        exact hgone r (hn' ▸ hm) hw
    simp [this]

/-! ## The block fetcher (`Network::run_block_fetcher`): one request per missing block, cancelled once queued

`FRunTo k start persisted f es`: the fetcher, started with `k` permits when the store's next block was `start`, has
reached state `f` and has emitted the queue events `es` (in order). -/

/-- **fetcher_one_request_per_block.** The block numbers of the requests the fetcher creates are strictly increasing,
hence pairwise distinct: there are never two requests for the same block (the queue's precondition), in any run. -/
theorem fetcher_one_request_per_block {k start persisted : Nat} {f : Fetcher} {es : List Event}
    (r : FRunTo k start persisted f es) :
    (es.filterMap spawnNum).Pairwise (· < ·) ∧ (es.filterMap spawnNum).Nodup ∧
    ∀ n, .spawnReq n ∈ es → start ≤ n ∧ n < f.next := by
  have hi := r.inv
  refine ⟨hi.incr, ?_, hi.spawned⟩
  exact hi.incr.imp (fun h => by omega)

/-- **fetcher_cancels_only_queued_blocks.** The fetcher gives up a request only after the block has been queued for
storage, and only a request it created. -/
theorem fetcher_cancels_only_queued_blocks {k start persisted : Nat} {f : Fetcher} {es : List Event}
    (r : FRunTo k start persisted f es) (n : Nat) (hc : .cancelReq n ∈ es) :
    n < f.queuedNext ∧ .spawnReq n ∈ es := by
  obtain ⟨a, b, _⟩ := r.inv.cancelled n hc
  exact ⟨a, b⟩

/-- **fetcher_covers_every_missing_block.** When the fetcher is idle, all permits are in use, and every block number
it has reached (`start ≤ n < next`) is persisted, or queued with its request given up, or still being requested (no
cancellation emitted for it) — and the latter holds for every such block that is not queued yet. -/
theorem fetcher_covers_every_missing_block {k start persisted : Nat} {f : Fetcher} {es : List Event}
    (r : FRunTo k start persisted f es) (hq : ∀ e ∈ f.internalEvents, f.step? e = none) :
    f.permits = 0 ∧
    ∀ n, start ≤ n → n < f.next →
      n < f.persistedNext ∨
      (aget f.tasks n = some .persisting ∧ n < f.queuedNext) ∨
      (aget f.tasks n = some .requesting ∧ f.queuedNext ≤ n ∧ .spawnReq n ∈ es ∧ .cancelReq n ∉ es) := by
  have hi := r.inv
  constructor
  · have := hq .spawn (by simp [Fetcher.internalEvents])
    simp only [Fetcher.step?] at this
    split at this
    · assumption
    · cases this
  · intro n hs hn
    rcases hi.covered n hs hn with ht | hp
    · cases htk : aget f.tasks n with
      | none => simp [htk] at ht
      | some t =>
        obtain ⟨_, _, c, d, e'⟩ := hi.tasks n t htk
        have hmem : n ∈ akeys f.tasks := mem_akeys_of_aget _ _ _ htk
        cases t with
        | persisting => exact Or.inr (Or.inl ⟨rfl, e' rfl⟩)
        | requesting =>
          refine Or.inr (Or.inr ⟨rfl, ?_, c, d rfl⟩)
          have := hq (.queuedSeen n) (by
            simp only [Fetcher.internalEvents, List.mem_cons, List.mem_flatMap]
            exact Or.inr ⟨n, hmem, by simp⟩)
          simp only [Fetcher.step?, htk] at this
          split at this
          · cases this
          · omega
    · exact Or.inl hp

/-! ## Non-vacuity: concrete reachable states meeting the hypotheses above -/

/-- A run in which peer 0 announces 5..7, block 5 is requested, handed to peer 0, fails, and is re-inserted. -/
def exRun : List Event :=
  [.startAcc 0, .announce 0 5 (some 7), .spawnReq 5, .reqInsert 5, .accSample 0, .accAvail 0, .accRemove 0,
   .spawnReq 6, .reqInsert 6, .startAcc 1, .accSample 1]

theorem reach_of_exec (es : List Event) (s : State) (h : exec? State.init es = some s) : Reach s :=
  runTo_exec RunTo.init es h

/-- `request_never_lost`, `single_holder`, `no_lost_wakeup`: a reachable, idle state with one request held by a
connection (case b), one on offer (case a) and an acceptor that watches the offered block without having announced it. -/
example : ∃ s, Reach s ∧ Idle s ∧ aget s.holds 0 = some ⟨0, 5, 0⟩ ∧ aget s.map 6 = some 1 ∧
    aget s.accs 1 = some ⟨.watch (some 6) s.ver, false⟩ ∧ aget s.reqs 5 = some ⟨.waiting 0, false⟩ := by
  refine ⟨_, reach_of_exec exRun _ rfl, (quiescent_iff_idle _).mp (by decide), by decide, by decide, by decide, by decide⟩

/-- `failed_hold_is_offered_again` / `stays_requested`: the hypotheses hold in that state for hold 0. -/
example : ∃ s hd r, Reach s ∧ aget s.holds 0 = some hd ∧ aget s.reqs hd.num = some r ∧ r.st = .waiting hd.chan :=
  ⟨_, ⟨0, 5, 0⟩, ⟨.waiting 0, false⟩, reach_of_exec exRun _ rfl, by decide, by decide, rfl⟩

/-- `accepted_only_if_announced_and_sampled_minimum`: a run ending in a hand-over. -/
example : ∃ h s s', RunTo h s ∧ step? s (.accRemove 0) = some (s', some (.accepted 0 5 0)) := by
  obtain ⟨h, r⟩ := reach_of_exec (exRun.take 6) _ rfl
  exact ⟨h, _, _, r, rfl⟩

/-- `sample_current_or_wakeup_pending`, second case: a stale sample with its wake-up pending. -/
example : ∃ s, Reach s ∧ aget s.accs 0 = some ⟨.watch none 0, false⟩ ∧ 0 < s.ver :=
  ⟨_, reach_of_exec [.startAcc 0, .accSample 0, .spawnReq 3, .reqInsert 3] _ rfl, by decide, by decide⟩

/-- `cancel_removes`: a cancelled, suspended request whose cancellation step is enabled. -/
example : ∃ s s' o, Reach s ∧ step? s (.reqCancel 3) = some (s', o) :=
  ⟨_, _, _, reach_of_exec [.spawnReq 3, .reqInsert 3, .cancelReq 3] _ rfl, rfl⟩

/-- `stale_hold_is_inert`: block 3 is held by peer 0, its request is cancelled and re-created under a new channel. -/
example : ∃ s, Reach s ∧ aget s.holds 0 = some ⟨0, 3, 0⟩ ∧ aget s.reqs 3 = some ⟨.waiting 1, false⟩ :=
  ⟨_, reach_of_exec [.startAcc 0, .announce 0 3 (some 3), .spawnReq 3, .reqInsert 3, .accSample 0, .accAvail 0,
      .accRemove 0, .cancelReq 3, .reqCancel 3, .spawnReq 3, .reqInsert 3] _ rfl, by decide, by decide⟩

/-- The fetcher theorems: a run with 2 permits from block 10 — two requests, block 10 queued and its request given up. -/
example : ∃ f es, FRunTo 2 10 10 f es ∧ es = [.spawnReq 10, .spawnReq 11, .cancelReq 10] ∧
    (∀ e ∈ f.internalEvents, f.step? e = none) := by
  have r0 := FRunTo.init (k := 2) (start := 10) (persisted := 10)
  have r1 := FRunTo.step r0 (e := .spawn) (f' := _) (out := _) rfl
  have r2 := FRunTo.step r1 (e := .spawn) (f' := _) (out := _) rfl
  have r3 := FRunTo.step r2 (e := .setQueued 11) (f' := _) (out := _) rfl
  have r4 := FRunTo.step r3 (e := .queuedSeen 10) (f' := _) (out := _) rfl
  exact ⟨_, _, r4, rfl, by decide⟩

/-! ## The acceptor: the per-connection `get_block` task (`gossip/runner.rs`) composed with the queue and the store

`Model/FetchNode.lean` adds to the queue LTS the consumer of `Queue::accept_block`: one `get_block` task per hold
(`rpc` → checks in the code's order → `parked` inside `queue_block` → `try_push`; `send_resp.send(())`), the store's
`queued().next()` and the ghost set `wanted` (blocks asked for and not given up by the requester). `succeed` / `fail`
of a hold are no longer actions of an unconstrained environment: only the owning task performs them. All theorems are
for every reachable state of the composition (`NReach`): any number of peers, blocks, tasks, any interleaving of the
queue's events with responses (valid, empty, wrong number, invalid), rpc errors, timeouts / disconnects / cancellations
at either await point, and other writers of the store. -/

/-- `s` is reachable in the composition, from a store whose next block is some `start`. -/
def NReach (s : NState) : Prop := ∃ start, NRun start s

/-- The queue inside a reachable node state is a reachable queue state: every theorem above applies to `s.q`. -/
theorem node_projects_to_queue (s : NState) (hr : NReach s) : Reach s.q := by
  obtain ⟨start, run⟩ := hr
  exact run.inv.qreach

/-- **task_owns_hold.** Every sender handed to a connection by `accept_block` is owned by exactly one live `get_block`
task (keyed by the hold), and every live task owns a sender: "held by a connection" always means "held by a task that
has neither completed nor failed". -/
theorem task_owns_hold (s : NState) (hr : NReach s) (h : Nat) :
    (aget s.tasks h).isSome = (aget s.q.holds h).isSome := by
  obtain ⟨start, run⟩ := hr
  exact run.inv.task_hold h

/-- **completed_implies_queued.** In every reachable state, a request whose holder has sent the completion signal
(`send_resp.send(())`, the requester is about to return `Ok(())`) is a request for a block that **is queued in the
store** (`n < queued().next()`). -/
theorem completed_implies_queued (s : NState) (hr : NReach s) (n : Nat) (r : Req)
    (hn : aget s.q.reqs n = some r) (hst : r.st = .resolved true) : n < s.queuedNext := by
  obtain ⟨start, run⟩ := hr
  exact run.inv.done_queued n r hn hst

/-- `Queue::request` returns `Ok(())` only for a queued block. -/
theorem done_only_if_queued (s s' : NState) (hr : NReach s) (n : Nat) (o : Option Vis)
    (hs : nstep? s (.q (.reqDone n)) = some (s', o)) : o = some (.done n) ∧ n < s'.queuedNext := by
  simp only [nstep?, Event.holderOnly, Bool.false_eq_true, if_false] at hs
  cases hq : step? s.q (.reqDone n) with
  | none => simp [hq] at hs
  | some x =>
    obtain ⟨q', o'⟩ := x
    simp [hq] at hs
    obtain ⟨rfl, rfl⟩ := hs
    simp only [step?] at hq
    split at hq
    · rename_i c hn; cases hq; exact ⟨rfl, completed_implies_queued s hr n _ hn rfl⟩
    · cases hq

/-- **completion_sent_after_push.** The only step that signals completion is the task's `queue` step; it is enabled
only when the task is parked in `queue_block` (all checks passed) and `queued().next() ≥ n`; it pushes the block if it
is the next one and, in the same atomic step, resolves the requester (which is the requester of the held block): after
it the block is queued, the task and its hold are gone. -/
theorem completion_sent_after_push (s s' : NState) (hr : NReach s) (h : Nat) (o : Option Vis)
    (hs : nstep? s (.queue h) = some (s', o)) :
    ∃ hd, aget s.q.holds h = some hd ∧ aget s.tasks h = some .parked ∧ hd.num ≤ s.queuedNext ∧
      hd.num < s'.queuedNext ∧ s'.queuedNext = tryPush s.queuedNext hd.num ∧
      aget s'.tasks h = none ∧ aget s'.q.holds h = none ∧
      ∀ n r, aget s.q.reqs n = some r → r.st = .waiting hd.chan →
        n = hd.num ∧ aget s'.q.reqs n = some ⟨.resolved true, r.cancelled⟩ := by
  have hqi := (node_projects_to_queue s hr).choose_spec.inv
  simp only [nstep?] at hs
  split at hs
  · rename_i hd ht hh
    split at hs
    · rename_i hle
      split at hs
      · cases hs
      · rename_i q1 o1 hq
        cases hs
        obtain ⟨hd', hh', e1, e2, _⟩ := resolve_frame s.q q1 h true o1 (by simpa using hq)
        rw [hh] at hh'; cases hh'
        refine ⟨hd, hh, ht, hle, ?_, rfl, by simp [aget_adel], by simp [e1, aget_adel], ?_⟩
        · simp only [tryPush]; split <;> omega
        · intro n r hn hw
          refine ⟨woken_is_held_block s.q hqi h hd hh n r hn hw, ?_⟩
          simp [e2, aget_resolveChan, hn, hw]
    · cases hs
  · cases hs

/-- **request_never_lost_node** (`request_never_lost` lifted to the composition). In every reachable state, every
block the requester has asked for and not given up is in exactly one of these situations: its request has returned
and the block is queued in the store; or its request is live, not cancelled, and (a) on offer in the map and held by
nobody, or (b) held by exactly one hold, not on offer, and that hold is owned by a live `get_block` task (one that has
neither completed nor failed), or (c) about to (re-)insert itself — the insertion is enabled and puts the block on
offer, still wanted, or (d) completed by its holder, and then the block is queued. -/
theorem request_never_lost_node (s : NState) (hr : NReach s) (n : Nat) (hw : n ∈ s.wanted) :
    (aget s.q.reqs n = none ∧ n < s.queuedNext)
    ∨ ∃ r, aget s.q.reqs n = some r ∧ r.cancelled = false ∧
      ((∃ ch, r.st = .waiting ch ∧
          ((aget s.q.map n = some ch ∧ ∀ h hd, aget s.q.holds h = some hd → hd.chan ≠ ch) ∨
           (aget s.q.map n ≠ some ch ∧ ∃ h hd, aget s.q.holds h = some hd ∧ hd.chan = ch ∧ hd.num = n ∧
              (∃ t, aget s.tasks h = some t) ∧
              ∀ h' hd', aget s.q.holds h' = some hd' → hd'.chan = ch → h' = h)))
       ∨ ((r.st = .starting ∨ r.st = .resolved false) ∧
          ∃ s', nstep? s (.q (.reqInsert n)) = some (s', none) ∧ (aget s'.q.map n).isSome = true ∧ n ∈ s'.wanted)
       ∨ (r.st = .resolved true ∧ n < s.queuedNext)) := by
  have hq := node_projects_to_queue s hr
  obtain ⟨start, run⟩ := hr
  have hi := run.inv
  cases hn : aget s.q.reqs n with
  | none =>
    left
    rcases hi.wanted_cov n hw with a | a
    · simp [hn] at a
    · exact ⟨rfl, a⟩
  | some r =>
    right
    refine ⟨r, rfl, ?_, ?_⟩
    · cases hc : r.cancelled with
      | false => rfl
      | true => exact absurd hw (hi.cancelled_unwanted n r hn hc)
    · rcases request_never_lost s.q hq n r hn with ⟨ch, hst, hcase⟩ | ⟨hst, s', hs', hm', _⟩ | ⟨hst, _⟩
      · refine Or.inl ⟨ch, hst, ?_⟩
        rcases hcase with a | ⟨hnm, h, hd, hh, hc, hnum, huniq⟩
        · exact Or.inl a
        · refine Or.inr ⟨hnm, h, hd, hh, hc, hnum, ?_, huniq⟩
          have := hi.task_hold h
          rw [hh] at this
          cases ht : aget s.tasks h with
          | none => simp [ht] at this
          | some t => exact ⟨t, rfl⟩
      · refine Or.inr (Or.inl ⟨hst, ⟨{ s with q := s' }, ?_, hm', hw⟩⟩)
        simp [nstep?, Event.holderOnly, hs', spawnTask, updWanted]
      · exact Or.inr (Or.inr ⟨hst, hi.done_queued n r hn hst⟩)

/-- The events by which the task of hold `h`, in state `t`, holding block `num`, ends without completing: dropped at
an await point (`get_block_timeout`, peer disconnected, connection or node cancelled — in `rpc` or while parked in
`queue_block`), rpc error, empty response, a block with another number, a block with the right number that does not
verify. -/
def FailureOf (h : Nat) (t : GetSt) (num : Nat) (e : NEvent) : Prop :=
  e = .abort h ∨
  (t = .rpc ∧ (e = .resp h .err ∨ e = .resp h .empty ∨
    ∃ m v, e = .resp h (.block m v) ∧ (m ≠ num ∨ v = false)))

/-- **acceptor_failure_requeues.** Every failure path of the acceptor returns the request to the queue: in every
reachable state, for every live task and every failing event of it (`FailureOf`), the event is enabled; after it the
task and its hold are gone, the store and `wanted` are unchanged, the connection's `accept_block` call (if any) is
cancelled, the requester of the held block has been woken with `Disconnected`; its re-insertion is enabled and puts the
block on offer under a fresh channel that no connection holds. -/
theorem acceptor_failure_requeues (s : NState) (hr : NReach s) (h : Nat) (hd : Hold) (t : GetSt) (r : Req)
    (e : NEvent) (hh : aget s.q.holds h = some hd) (ht : aget s.tasks h = some t)
    (hn : aget s.q.reqs hd.num = some r) (hw : r.st = .waiting hd.chan) (hf : FailureOf h t hd.num e) :
    ∃ s1, nstep? s e = some (s1, none) ∧ aget s1.tasks h = none ∧ aget s1.q.holds h = none ∧
      s1.wanted = s.wanted ∧ s1.queuedNext = s.queuedNext ∧
      aget s1.q.reqs hd.num = some ⟨.resolved false, r.cancelled⟩ ∧
      (∀ a, aget s1.q.accs hd.peer = some a → a.cancelled = true) ∧
      ∃ s2, nstep? s1 (.q (.reqInsert hd.num)) = some (s2, none) ∧ aget s2.q.map hd.num = some s1.q.nextChan ∧
        aget s2.q.reqs hd.num = some ⟨.waiting s1.q.nextChan, r.cancelled⟩ ∧ s2.wanted = s.wanted ∧
        (∀ h' hd', aget s2.q.holds h' = some hd' → hd'.chan ≠ s1.q.nextChan) := by
  have hqi := (node_projects_to_queue s hr).choose_spec.inv
  -- every failing event is `failTask`
  let q1 : State := { s.q with holds := adel s.q.holds h, reqs := resolveChan s.q.reqs hd.chan false }
  have hq1 : step? s.q (.fail h) = some (q1, none) := by simp [step?, doResolve, hh, q1]
  let s1 : NState := { s with q := cancelConn q1 hd.peer, tasks := adel s.tasks h }
  have hft : failTask s h = some s1 := by simp [failTask, hh, hq1, s1]
  have he : nstep? s e = some (s1, none) := by
    rcases hf with rfl | ⟨rfl, rfl | rfl | ⟨m, v, rfl, hmv⟩⟩
    · simp [nstep?, ht, hft]
    · simp [nstep?, ht, hh, hft]
    · simp [nstep?, ht, hh, hft]
    · simp only [nstep?, ht, hh]
      rcases hmv with hm | hv
      · simp [hm, hft]
      · subst hv; simp [hft]
  obtain ⟨c1, c2, c3, c4, c5⟩ := cancelConn_frame q1 hd.peer
  have hr1 : aget s1.q.reqs hd.num = some ⟨.resolved false, r.cancelled⟩ := by
    simp [s1, c1, q1, aget_resolveChan, hn, hw]
  refine ⟨s1, he, by simp [s1, aget_adel], by simp [s1, c2, q1, aget_adel], rfl, rfl, hr1, ?_, ?_⟩
  · intro a ha
    simp only [s1, cancelConn] at ha
    split at ha
    · rename_i q' o hc
      simp only [step?] at hc
      split at hc <;> cases hc
      simp [aget_aput] at ha
      subst ha; rfl
    · rename_i hc
      simp only [step?] at hc
      split at hc
      · rename_i hnone; rw [hnone] at ha; cases ha
      · simp at hc
  · refine ⟨{ s1 with q := doInsert s1.q hd.num r.cancelled }, ?_, ?_, ?_, rfl, ?_⟩
    · simp [nstep?, Event.holderOnly, step?, hr1, spawnTask, updWanted]
    · simp [doInsert, aget_aput]
    · simp [doInsert, aget_aput]
    · intro h' hd' hh' hc
      have hh'' : aget (adel s.q.holds h) h' = some hd' := by simpa [doInsert, s1, c2, q1] using hh'
      simp only [aget_adel] at hh''
      split at hh''
      · cases hh''
      · have := (hqi.fresh_hold h' hd' hh'').1
        simp [s1, c4, q1] at hc; omega

/-- A valid response with the right number parks the task inside `queue_block` without touching the sender: the hold,
the request and the store are unchanged (nothing is signalled before the block is queued). -/
theorem valid_response_parks (s : NState) (h : Nat) (hd : Hold) (hh : aget s.q.holds h = some hd)
    (ht : aget s.tasks h = some .rpc) :
    nstep? s (.resp h (.block hd.num true)) = some ({ s with tasks := aput s.tasks h .parked }, none) := by
  simp [nstep?, ht, hh]

/-- A parked task cannot complete before the predecessors of its block are queued. -/
theorem parked_waits_for_predecessors (s : NState) (h : Nat) (hd : Hold) (hh : aget s.q.holds h = some hd)
    (hlt : s.queuedNext < hd.num) : nstep? s (.queue h) = none := by
  simp only [nstep?]
  split
  · rename_i hd' _ hh'
    rw [hh] at hh'; cases hh'
    have : ¬ hd.num ≤ s.queuedNext := by omega
    simp [this]
  · rfl

/-- `Model.Fetch.nQuiescent` (what the node driver evaluates at the end of every step): no future of the queue and no
parked task can make a step. -/
theorem nQuiescent_iff (s : NState) :
    nQuiescent s = true ↔
      (∀ e : Event, e.isInternal = true → nstep? s (.q e) = none) ∧ (∀ h, nstep? s (.queue h) = none) := by
  constructor
  · intro hq
    simp only [nQuiescent, List.all_eq_true, Option.isNone_iff_eq_none, nInternalEvents, List.mem_append,
      List.mem_map] at hq
    constructor
    · intro e he
      have hs : step? s.q e = none := by
        have hqq : quiescent s.q = true := by
          simp only [quiescent, List.all_eq_true, Option.isNone_iff_eq_none]
          intro e' he'
          have := hq (.q e') (Or.inl ⟨e', he', rfl⟩)
          simp only [nstep?] at this
          split at this
          · rename_i hho
            cases e' <;> simp [Event.holderOnly] at hho <;> simp [internalEvents] at he'
          · split at this
            · assumption
            · cases this
        exact (quiescent_iff_idle s.q).mp hqq e he
      simp [nstep?, hs]
    · intro h
      cases ht : aget s.tasks h with
      | none => simp [nstep?, ht]
      | some t => exact hq (.queue h) (Or.inr ⟨h, mem_akeys_of_aget _ _ _ ht, rfl⟩)
  · intro ⟨h1, h2⟩
    simp only [nQuiescent, List.all_eq_true, Option.isNone_iff_eq_none, nInternalEvents, List.mem_append,
      List.mem_map]
    intro e he
    rcases he with ⟨e', he', rfl⟩ | ⟨h, _, rfl⟩
    · apply h1
      simp only [internalEvents, List.mem_append, List.mem_flatMap] at he'
      rcases he' with ⟨n, _, hn⟩ | ⟨p, _, hp⟩
      · simp at hn; rcases hn with rfl | rfl | rfl <;> rfl
      · simp at hp; rcases hp with rfl | rfl | rfl | rfl | rfl <;> rfl
    · exact h2 h

/-! ### Non-vacuity for the composition -/

/-- Store at block 5; peers 0 and 1 connected; blocks 5 and 6 requested; peer 0 (announces 5) is handed 5, peer 1
(announces 5..6) is handed 6 and delivers it at once: its task parks in `queue_block` behind block 5. -/
def nexRun : List NEvent :=
  [.q (.startAcc 0), .q (.startAcc 1), .q (.announce 0 5 (some 5)), .q (.announce 1 5 (some 6)),
   .q (.spawnReq 5), .q (.reqInsert 5), .q (.accSample 0), .q (.accAvail 0), .q (.accRemove 0),
   .q (.spawnReq 6), .q (.reqInsert 6), .q (.accSample 1), .q (.accAvail 1), .q (.accRemove 1),
   .resp 1 (.block 6 true)]

theorem nreach_of_exec (start : Nat) (es : List NEvent) (s : NState) (h : nexec? (NState.init start) es = some s) :
    NReach s := ⟨start, nrun_exec NRun.init es h⟩

/-- `request_never_lost_node` case (b), `acceptor_failure_requeues` (disconnect while parked in `queue_block`, and an
invalid block with the right number), `parked_waits_for_predecessors`: a reachable state with block 5 held by a task
in `rpc`, block 6 held by a parked task, both wanted, neither queued. -/
example : ∃ s, NReach s ∧ s.wanted = [6, 5] ∧ s.queuedNext = 5 ∧
    aget s.tasks 0 = some .rpc ∧ aget s.tasks 1 = some .parked ∧
    aget s.q.holds 0 = some ⟨0, 5, 0⟩ ∧ aget s.q.holds 1 = some ⟨1, 6, 1⟩ ∧
    aget s.q.reqs 5 = some ⟨.waiting 0, false⟩ ∧ aget s.q.reqs 6 = some ⟨.waiting 1, false⟩ ∧
    FailureOf 1 .parked 6 (.abort 1) ∧ FailureOf 0 .rpc 5 (.resp 0 (.block 5 false)) ∧
    nstep? s (.queue 1) = none :=
  ⟨_, nreach_of_exec 5 nexRun _ rfl, by decide, by decide, by decide, by decide, by decide, by decide, by decide,
    by decide, Or.inl rfl, Or.inr ⟨rfl, Or.inr (Or.inr ⟨5, false, rfl, Or.inr rfl⟩)⟩, by decide⟩

/-- `completion_sent_after_push`, `completed_implies_queued`, `done_only_if_queued`: peer 0 delivers block 5; its task
queues it and completes; then the parked task of peer 1 queues block 6 and completes; both requests return `Ok(())`
with both blocks queued. -/
example : ∃ s s' o, NReach s ∧ nstep? s (.queue 1) = some (s', o) ∧ s'.queuedNext = 7 ∧
    aget s'.q.reqs 6 = some ⟨.resolved true, false⟩ ∧
    ∃ s'', nstep? s' (.q (.reqDone 6)) = some (s'', some (.done 6)) :=
  ⟨_, _, _, nreach_of_exec 5 (nexRun ++ [.resp 0 (.block 5 true), .queue 0]) _ rfl, rfl, by decide, by decide,
    _, rfl⟩

/-- `request_never_lost_node`, first case: a wanted block whose request has returned (the block is queued). -/
example : ∃ s, NReach s ∧ 5 ∈ s.wanted ∧ aget s.q.reqs 5 = none ∧ 5 < s.queuedNext :=
  ⟨_, nreach_of_exec 5 (nexRun ++ [.resp 0 (.block 5 true), .queue 0, .q (.reqDone 5)]) _ rfl,
    by decide, by decide, by decide⟩

/-- After the parked task of peer 1 is dropped (disconnect), block 6 is re-inserted, and — block 5 still being with
peer 0 — is handed to a third peer that announces it. -/
example : ∃ s, NReach s ∧ aget s.q.holds 2 = some ⟨2, 6, 2⟩ ∧ aget s.tasks 2 = some .rpc ∧ aget s.tasks 1 = none :=
  ⟨_, nreach_of_exec 5 (nexRun ++ [.abort 1, .q (.reqInsert 6), .q (.startAcc 2), .q (.announce 2 5 (some 6)),
      .q (.accSample 2), .q (.accAvail 2), .q (.accRemove 2)]) _ rfl, by decide, by decide, by decide⟩


end EraVerif.Props.C19
