import EraVerif.Model.Limiter
import EraVerif.Gen.LimiterFns

/-!
# C15 — `State::advance` as regenerated from `limiter/mod.rs` is the model's

`Gen/LimiterFns.lean` is produced by `tools/translate_limiter.py` from the current source on every run. The model's
`State.advance` (the refill rule on which `window_bound`, `state_inv`, … rest) is proved equal to it on the three
fields the code has, for every state and every tick argument — in particular the early return when the argument lags
behind the stored tick count (a release overtaking a sleeper's wake-up), where nothing may change.
-/

namespace EraVerif.Props.C15gen
open EraVerif.Model.Limiter
open EraVerif.Gen.LimiterFns (advance usize_or_max)

def gSt (s : State) : EraVerif.Gen.LimiterFns.State :=
  { refresh_ticks := (s.ticks : Int), permits := s.permits, reserved := s.reserved }

theorem gen_usize_or_max_eq (v : Nat) : usize_or_max (v : Int) = usizeOrMax v := by
  unfold usize_or_max usizeOrMax
  have e1 : EraVerif.Gen.LimiterFns.USIZE_MAX = 18446744073709551615 := rfl
  have e2 : USIZE_MAX = 18446744073709551615 := rfl
  by_cases h : v ≤ 18446744073709551615
  · have h2 : (0:Int) ≤ (v:Int) ∧ (v:Int) ≤ (EraVerif.Gen.LimiterFns.USIZE_MAX : Int) := by rw [e1]; omega
    rw [if_pos h2, e2]; omega
  · have h2 : ¬ ((0:Int) ≤ (v:Int) ∧ (v:Int) ≤ (EraVerif.Gen.LimiterFns.USIZE_MAX : Int)) := by rw [e1]; omega
    rw [if_neg h2, e1, e2]; omega

/-- regenerated `State::advance` = `State.advance` -/
theorem gen_advance_eq (s : State) (cfg : Cfg) (t : Nat) :
    advance (gSt s) (t : Int) cfg.burst = gSt (s.advance cfg t) := by
  unfold advance State.advance gSt
  by_cases h : t < s.ticks
  · have h' : (t : Int) < (s.ticks : Int) := by omega
    simp [h, h']
  · have h' : ¬ (t : Int) < (s.ticks : Int) := by omega
    have hsub : (t : Int) - (s.ticks : Int) = ((t - s.ticks : Nat) : Int) := by omega
    have e1 : EraVerif.Gen.LimiterFns.USIZE_MAX = USIZE_MAX := rfl
    simp only [h, h', if_false, hsub, gen_usize_or_max_eq, satAdd, e1]

/-- a tick argument behind the stored count changes nothing (no rewind) — stated on the regenerated program -/
theorem gen_advance_no_rewind (st : EraVerif.Gen.LimiterFns.State) (t : Int) (b : Nat) (h : t < st.refresh_ticks) :
    advance st t b = st := by
  unfold advance; simp [h]

/-- the regenerated tick counter never decreases -/
theorem gen_advance_ticks_monotone (st : EraVerif.Gen.LimiterFns.State) (t : Int) (b : Nat) :
    st.refresh_ticks ≤ (advance st t b).refresh_ticks := by
  unfold advance
  by_cases h : t < st.refresh_ticks
  · simp [h]
  · simp [h]; omega

end EraVerif.Props.C15gen
