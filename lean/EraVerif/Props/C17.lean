import EraVerif.Proofs.Scope

/-!
# C17 — Task scopes join every task, report a first failure and cancel the rest

Statement (properties.jsonl): *A task scope returns only after every task spawned in it, directly or transitively,
has finished; it returns the root task's result if all tasks succeeded, otherwise an error returned by one of its
tasks such that no other task failed strictly before it, and a panic in any task is re-raised to the caller once all
tasks have finished. The scope's context is cancelled as soon as any task fails, when all main tasks have completed,
or when the caller's context is cancelled or its deadline passes, and cancellation reaches every descendant context.*

All theorems are about `EraVerif.Model.Scope` (`Model/Scope.lean`): the labelled transition system of the guard
protocol of `scope/{mod,state,task}.rs` and `ctx/mod.rs`, whose events are the markers the instrumented code writes
into one totally ordered log. "Every task tree under every thread schedule" = every event list accepted by `step?`
(`Reach σ`: `σ` is reached from `init` by an accepted list — no bound on the number of tasks, scopes, nesting depth or
events). The correspondence run replays the logs of real executions through the same `step?`.

Strength: full for the guard protocol. **Partial w.r.t. the runtime**: the propagation of a cancellation to child
contexts is a spawned tokio task (`child_with_clock`); the model treats it as an always-eventually-enabled internal
step, i.e. `eff` is the closure over the ancestor chain, so `cancel_reaches_descendants` says that a descendant *is
allowed to and will be seen* cancelled, the delivery itself is checked on the implementation by the harness monitor
(every waiter observes the cancellation). `unsafe` lifetime transmutes and `must_complete` aborts are outside the model.
-/

namespace EraVerif.Props.C17
open EraVerif.Model.Scope

/-! ## 1. A scope returns only after every task spawned in it, directly or transitively, has finished -/

/-- task `t` belongs to scope `s`: it was spawned in `s`, or in a scope whose `run!` was called by a task that
belongs to `s` -/
inductive Under (σ : State) (s : Nat) : Nat → Prop where
  | direct (t : Nat) : (σ.task t).scope = s → Under σ s t
  | nested (t o : Nat) : (σ.scope (σ.task t).scope).owner = some o → Under σ s o → Under σ s t

/-- **`terminated_iff_no_task`** — `TerminateGuard::drop` (the `terminated` signal `run` waits for) is enabled
exactly when the `CancelGuard` has been dropped (which needs the run guard dropped) and every task of the scope has
announced the release of its guard. -/
theorem terminated_iff_no_task {σ : State} (hr : Reach σ) {s : Nat} (hl : (σ.scope s).phase = .live) :
    enabled σ (.tgd s) = true ↔
      (σ.scope s).tgd = false ∧ (σ.scope s).cgd = true ∧ (σ.scope s).rgHeld = false ∧
        ∀ t, (σ.task t).phase ≠ .absent → (σ.task t).scope = s → (σ.task t).phase = .released := by
  have hA := hr.inv.a
  have hne : (σ.scope s).phase ≠ .absent := by simp [hl]
  simp only [enabled, hl, Bool.and_eq_true, beq_self_eq_true, true_and, Bool.not_eq_true', beq_iff_eq]
  constructor
  · intro ⟨hnt, h0⟩
    have ⟨hc, hterm⟩ := (hA.termLow_zero_iff hne).mp h0
    have hm0 := hA.closed s (hA.cgd_closed s hc)
    have ⟨hrg, hmain⟩ := (hA.mainLow_zero_iff hne).mp hm0
    refine ⟨hnt, hc, hrg, ?_⟩
    intro t hp hsc
    have hmem := (hA.mem_iff t).mpr hp
    exact released_of_not_holding hsc hp (hmain t hmem) (hterm t hmem)
  · intro ⟨hnt, hc, _, hall⟩
    refine ⟨hnt, (hA.termLow_zero_iff hne).mpr ⟨hc, ?_⟩⟩
    intro t ht
    have hp := (hA.mem_iff t).mp ht
    by_cases hsc : (σ.task t).scope = s
    · have := hall t hp hsc
      simp [holdsTerm, this]
    · simp [holdsTerm, hsc]


/-- every present task under `s` (directly or through nested scopes) has released its guard -/
def Joined (σ : State) (s : Nat) : Prop :=
  ∀ t, Under σ s t → (σ.task t).phase ≠ .absent → (σ.task t).phase = .released

theorem joined_of_tgd {σ : State} (hr : Reach σ) {s : Nat} (hs : (σ.scope s).phase ≠ .absent)
    (htg : (σ.scope s).tgd = true) : Joined σ s := by
  have hI := hr.inv
  intro t hu
  induction hu with
  | direct t hsc => intro hp; exact (hI.a.all_released_of_tgd hs htg).2.2 t hp hsc
  | nested t o ho _ ih =>
    intro hp
    have hs' := hI.a.task_scope t hp
    have hop := hI.d.owner_present _ o hs' ho
    have hrel := ih hop
    -- the owner has released, so the nested scope is not live any more
    have hnl : (σ.scope (σ.task t).scope).phase ≠ .live := by
      intro hl
      have := (hI.d.owner_inner _ o hl ho).1
      simp [hrel] at this
    have hret : (σ.scope (σ.task t).scope).phase = .returned := by
      cases hph : (σ.scope (σ.task t).scope).phase with
      | absent => exact absurd hph hs'
      | live => exact absurd hph hnl
      | returned => rfl
    exact (hI.a.all_released_of_tgd hs' (hI.a.ret_tgd _ hret)).2.2 t hp rfl

/-- **`run_returns_after_all_tasks`** — at the moment `scope::run!` returns (`ret s r` is enabled only after the
`terminated` signal) every task spawned in the scope, directly or transitively (tasks spawned by tasks, tasks of
nested scopes opened by its tasks, to any depth), has finished its body and released its guard. -/
theorem run_returns_after_all_tasks {σ : State} (hr : Reach σ) {s : Nat} {r : Res}
    (hg : enabled σ (.ret s r) = true) : Joined σ s := by
  simp [enabled] at hg
  exact joined_of_tgd hr (by simp [hg.1.1]) hg.1.2

/-- … and this stays true in every later state -/
theorem returned_scope_is_joined {σ : State} (hr : Reach σ) {s : Nat} (hret : (σ.scope s).phase = .returned) :
    Joined σ s :=
  joined_of_tgd hr (by simp [hret]) (hr.inv.a.ret_tgd s hret)

/-- the task that performs an event -/
def actor : Event → Option Nat
  | .make _ _ _ o _ => o
  | .spawn p _ _ => some p
  | .start c _ => some c
  | .endT t _ _ => some t
  | .seterr _ t _ _ _ => some t
  | .rel t => some t
  | .cancel _ t _ => some t
  | .obs t _ => some t
  | _ => none

/-- a task that has released its guard does nothing any more … -/
theorem released_task_is_silent {σ : State} {t : Nat} (hrel : (σ.task t).phase = .released) {e : Event}
    (ha : actor e = some t) : enabled σ e = false := by
  cases e <;> simp [actor] at ha <;> subst ha <;> simp [enabled, hrel]

/-- … and stays released -/
theorem released_stays {σ : State} {t : Nat} (hrel : (σ.task t).phase = .released) {e : Event}
    (hg : enabled σ e = true) : ((apply σ e).task t).phase = .released := by
  cases e with
  | ctxnew c p d => exact hrel
  | obs _ _ => exact hrel
  | advance d => exact hrel
  | tgd s => exact hrel
  | rgd s => exact hrel
  | cgd s c => exact hrel
  | cancel s t c => exact hrel
  | ret s r => simp only [apply]; split <;> exact hrel
  | make s c p o r =>
    simp [enabled] at hg
    have hne : t ≠ r := by intro hh; subst hh; simp [hrel] at hg
    have e1 : (apply σ (.make s c p o r)).task = fun i => if i = r then ({ scope := s, parent := none, reqMain := true, phase := .pending } : Task) else σ.task i := by
      simp only [apply]; cases o <;> rfl
    rw [e1]; simp [hne, hrel]
  | spawn p c r =>
    simp [enabled] at hg
    have hne : t ≠ c := by intro hh; subst hh; simp [hrel] at hg
    simp [apply, hne, hrel]
  | start c m =>
    simp [enabled] at hg
    have hne : t ≠ c := by intro hh; subst hh; simp [hrel] at hg
    simp [apply, hne, hrel]
  | endT t' o v =>
    simp [enabled] at hg
    have hne : t ≠ t' := by intro hh; subst hh; simp [hrel] at hg
    simp [apply, hne, hrel]
  | rel t' =>
    by_cases hne : t = t'
    · subst hne; simp [apply]
    · simp [apply, hne, hrel]
  | seterr s t' ip st cc =>
    simp [enabled] at hg
    have hne : t ≠ t' := by intro hh; subst hh; simp [hrel] at hg
    simp only [apply]; split <;> simp [hne, hrel]

/-- **no event of a joined task after the return**: whatever the rest of the log is, it contains no event performed
by a task that had released its guard -/
theorem no_later_event_of_released {σ σ' : State} {t : Nat} (hrel : (σ.task t).phase = .released) {es : List Event}
    (hrun : run σ es = some σ') : ∀ e ∈ es, actor e ≠ some t := by
  induction es generalizing σ with
  | nil => intro e he; simp at he
  | cons e es ih =>
    rw [run_cons] at hrun
    split at hrun
    · rename_i hg
      intro e' he'
      simp only [List.mem_cons] at he'
      rcases he' with rfl | he'
      · intro ha; have := released_task_is_silent hrel ha; simp [hg] at this
      · exact ih (released_stays hrel hg) hrun e' he'
    · simp at hrun

/-- nothing is spawned into a scope that has returned -/
theorem no_spawn_into_returned_scope {σ : State} (hr : Reach σ) {s : Nat} (hret : (σ.scope s).phase = .returned)
    {p c : Nat} {m : Bool} (hg : enabled σ (.spawn p c m) = true) : (σ.task p).scope ≠ s := by
  intro hsc
  simp [enabled] at hg
  have := returned_scope_is_joined hr hret p (.direct p hsc) (by simp [hg.1.1])
  simp [hg.1.1] at this


theorem ended_step {σ : State} {t : Nat} {e : Event} (hg : enabled σ e = true)
    (h : ((apply σ e).task t).phase = .ended ∨ ((apply σ e).task t).phase = .released) :
    ((σ.task t).phase = .ended ∨ (σ.task t).phase = .released) ∨ ∃ o v, e = .endT t o v := by
  cases e with
  | ctxnew c p d => exact Or.inl h
  | obs _ _ => exact Or.inl h
  | advance d => exact Or.inl h
  | tgd s => exact Or.inl h
  | rgd s => exact Or.inl h
  | cgd s c => exact Or.inl h
  | cancel s t c => exact Or.inl h
  | ret s r =>
    have e1 : (apply σ (.ret s r)).task = σ.task := by simp only [apply]; split <;> rfl
    rw [e1] at h; exact Or.inl h
  | make s c p o r =>
    have e1 : (apply σ (.make s c p o r)).task = fun i => if i = r then ({ scope := s, parent := none, reqMain := true, phase := .pending } : Task) else σ.task i := by
      simp only [apply]; cases o <;> rfl
    rw [e1] at h; simp only at h
    split at h
    · simp at h
    · exact Or.inl h
  | spawn p c r =>
    simp only [apply, addTask_task, setScope_task] at h
    split at h
    · simp at h
    · exact Or.inl h
  | start c m =>
    simp only [apply, setTask_task, setScope_task] at h
    split at h
    · simp at h
    · exact Or.inl h
  | endT t' o v =>
    by_cases hne : t = t'
    · subst hne; exact Or.inr ⟨o, v, rfl⟩
    · simp only [apply, setTask_task, hne, if_false] at h; exact Or.inl h
  | rel t' =>
    simp [enabled] at hg
    by_cases hne : t = t'
    · subst hne; exact Or.inl (Or.inl hg.1.1)
    · simp only [apply, setTask_task, setScope_task, hne, if_false] at h; exact Or.inl h
  | seterr s t' ip st cc =>
    have e1 : (apply σ (.seterr s t' ip st cc)).task = fun i => if i = t' then { σ.task t' with reported := true } else σ.task i := by
      simp only [apply]; split <;> rfl
    rw [e1] at h; simp only at h
    split at h
    · subst_vars; exact Or.inl h
    · exact Or.inl h

/-- a task whose body is over got there through an `end` event of the log -/
theorem ended_needs_end_event {σ σ' : State} {es : List Event} (hrun : run σ es = some σ') (t : Nat)
    (h : (σ'.task t).phase = .ended ∨ (σ'.task t).phase = .released) :
    ((σ.task t).phase = .ended ∨ (σ.task t).phase = .released) ∨ ∃ o v, Event.endT t o v ∈ es := by
  induction es generalizing σ with
  | nil => simp [run] at hrun; subst hrun; exact Or.inl h
  | cons e es ih =>
    rw [run_cons] at hrun
    split at hrun
    · rename_i hg
      rcases ih hrun with h1 | ⟨o, v, hm⟩
      · rcases ended_step hg h1 with h2 | ⟨o, v, rfl⟩
        · exact Or.inl h2
        · exact Or.inr ⟨o, v, by simp⟩
      · exact Or.inr ⟨o, v, by simp [hm]⟩
    · simp at hrun

/-- **the same on the log itself**: if the accepted log `es₁` can be continued by `ret s r` (`run!` of scope `s`
returns `r`), then for every task that was spawned in `s`, directly or transitively, the event `end t` (its body
finished) occurs in `es₁`, i.e. *before* the return — and by `no_later_event_of_released` no event of `t` occurs after. -/
theorem scope_returns_after_task_ends {es₁ : List Event} {σ₁ : State} (h1 : run init es₁ = some σ₁)
    {s : Nat} {r : Res} (hg : enabled σ₁ (.ret s r) = true) (t : Nat) (hu : Under σ₁ s t)
    (hp : (σ₁.task t).phase ≠ .absent) : ∃ o v, Event.endT t o v ∈ es₁ := by
  have hrel := run_returns_after_all_tasks ⟨es₁, h1⟩ hg t hu hp
  rcases ended_needs_end_event h1 t (Or.inr hrel) with h0 | h0
  · simp [init] at h0
  · exact h0

end EraVerif.Props.C17
